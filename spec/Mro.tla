-------------------------------- MODULE Mro --------------------------------
(* C04, second sentence: "every attribute the run-time object really has that is defined in the analysed sources
   is offered" -- for instances that means every attribute of every class of the hierarchy.

   Classes 1..N are defined in order; bases[c] is the ordered sequence of earlier classes c inherits from
   (multiple inheritance on every level).  Reference: the attributes of an instance of c are those of c and of
   all its ancestors (whatever the linearisation order).  Design: ClassMixin.py__mro__ -- not C3, "just listing
   classes": the class itself, then for each base in order every class of that base's own listing that is not
   listed yet.  TLC checks that the listing covers exactly the ancestors for every hierarchy.               *)
EXTENDS Naturals, Sequences, FiniteSets, TLC, Json

CONSTANTS N, MaxBases, EmitMod, EmitRem
VARIABLE bases        \* sequence (one entry per class defined so far) of base sequences
Init == bases = <<>>
BaseSeqs(n) == {q \in UNION {[1..m -> 1..n] : m \in 0..MaxBases} : \A i, j \in 1..Len(q) : i # j => q[i] # q[j]}
Next == Len(bases) < N /\ \E q \in BaseSeqs(Len(bases)) : bases' = Append(bases, q)

RECURSIVE Ancestors(_)
Ancestors(c) == {bases[c][i] : i \in 1..Len(bases[c])} \cup UNION {Ancestors(bases[c][i]) : i \in 1..Len(bases[c])}

\* py__mro__ transcribed
RECURSIVE MroD(_), AddAll(_, _)
AddAll(acc, xs) == IF xs = <<>> THEN acc
                   ELSE AddAll(IF \E i \in 1..Len(acc) : acc[i] = Head(xs) THEN acc ELSE Append(acc, Head(xs)), Tail(xs))
RECURSIVE OverBases(_, _, _)
OverBases(c, i, acc) == IF i > Len(bases[c]) THEN acc ELSE OverBases(c, i + 1, AddAll(acc, MroD(bases[c][i])))
MroD(c) == OverBases(c, 1, <<c>>)

Covers == \A c \in 1..Len(bases) : {MroD(c)[i] : i \in 1..Len(MroD(c))} = Ancestors(c) \cup {c}
NoDup  == \A c \in 1..Len(bases) : \A i, j \in 1..Len(MroD(c)) : i # j => MroD(c)[i] # MroD(c)[j]

RECURSIVE Code(_)
Code(b) == IF b = <<>> THEN 0 ELSE (Len(Head(b)) + 3 * (IF Head(b) = <<>> THEN 0 ELSE Head(b)[1]) + 7 * Code(Tail(b))) % 1000003
Emit == (Len(bases) = N /\ Code(bases) % EmitMod = EmitRem) =>
          PrintT(<<"CASE", ToJson([bases |-> bases, mro |-> MroD(Len(bases))])>>)
=============================================================================
