INIT Init
NEXT Next
CONSTANTS
  MaxScripts = 3
  MaxCalls = 3
  MaxCrashes = 2
  MaxRaises = 1
  Addrs = {1, 2}
  TruncIsEOF = TRUE
INVARIANT TypeOK
INVARIANT OnlyInternalError_ExceptHandshake
INVARIANT AtMostOnePerCrash
INVARIANT FailureMeansDetected
INVARIANT NoHang
INVARIANT Reaped
INVARIANT NoUnnoticedAfterFailure
INVARIANT StatesReleased
INVARIANT DeleteNeverFails
INVARIANT QueueNoDup
PROPERTY BoundToUncrashedAtCreation
CHECK_DEADLOCK FALSE
