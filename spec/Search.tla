----------------------------- MODULE Search -----------------------------
(* C19 -- Project search finds every definition and honours ignore rules.

   Text is Seq(Nat) (code points); a path is a sequence of segments relative to the
   project root (<<>> = the root itself).

   A project tree T = [dirs, files, gi]:
     dirs  : set of paths (prefix closed, root not included)
     files : set of [path, defs, uses]; defs = Seq of [name, kind, nested, line] in text
             order, kind \in {"function","class","statement"}; uses = set of names that
             occur in the text without being defined there
     gi    : set of [dir, lines]   (.gitignore in directory dir, lines = Seq of Text)
   A query q = [name, complete, all, type]  (type \in {"", "class", "function"}; the real
   string is "class NAME" / "def NAME" / "NAME").
   A result item = [path, line, name, type]; path = <<>> and line = 0 stand for None.

   Reference  = the property text: Expected(q) (every definition spelled that way in every
                .py/.pyi below the root that is not in an ignored place, every module or
                package so named), Ignored (always-ignored folder names; literal .gitignore
                entries with git's documented meaning: basename entries at any depth below
                the .gitignore, entries with a slash anchored at it, trailing slash =
                directories only).  Comment lines have no effect; negation / glob / escape
                lines make everything below that .gitignore "don't care".
   Design     = transcription of jedi: FolderIO.walk + recurse_find_python_folders_and_files
                (accumulated except_paths / except_paths_relative, the startswith test, the
                Path-vs-str membership test), gitignored_paths, Project._search_func
                (phase 1 modules by file name, phase 2 regex pre-filter + limits +
                get_module_names + search_in_module, phase 3 sys.path module names),
                _try_to_skip_duplicates.  Deviations of the code are modelled as they are
                and named DEV-n.
   TLC checks Design |= Reference (DesignMeetsReference when every deviation is repaired,
   otherwise modulo the named open shapes); the strict invariants hold for repaired deviations
   and fail on the what-if Design with the old behaviour (Fixed without that DEV); those
   counterexample trees are replayed on real files.                                        *)
EXTENDS Naturals, Sequences, FiniteSets, TLC, Json

CONSTANTS Pool,        \* "quick" | "thorough" | "limits": which bounded pools are used
          MaxDirs, MaxDepth, MaxFiles, MaxGi, MaxLines,
          ParseLimit,  \* _PARSED_FILE_LIMIT (30 in the code)
          OpenLimit,   \* _OPENED_FILE_LIMIT (2000 in the code)
          EmitMod, EmitRem,
          Fixed        \* subset of {"DEV1", "DEV2", "DEV4"}: deviations that are repaired in the code
                       \* (the Design then follows the fix); all three since 1c2063e / 1b4ae41 / 7bc3039,
                       \* smaller sets are the what-if Designs with the old behaviour

---------------------------------------------------------------------------
(* Text *)
SL == 47  HASH == 35  BANG == 33  STAR == 42  QM == 63  LB == 91  BS == 92  DOT == 46  US == 95

Lower(c)      == IF c \in 65..90 THEN c + 32 ELSE c
LowerS(s)     == [i \in 1..Len(s) |-> Lower(s[i])]
StartsWith(s, p) == Len(p) <= Len(s) /\ \A i \in 1..Len(p) : s[i] = p[i]
EndsWith(s, p)   == Len(p) <= Len(s) /\ \A i \in 1..Len(p) : s[Len(s) - Len(p) + i] = p[i]
Has(s, c)     == \E i \in 1..Len(s) : s[i] = c
Last(s)       == s[Len(s)]
Front(s)      == SubSeq(s, 1, Len(s) - 1)
Range(s)      == {s[i] : i \in 1..Len(s)}
IsPrefixPath(p, q) == Len(p) <= Len(q) /\ SubSeq(q, 1, Len(p)) = p
Below(d, p)   == IsPrefixPath(d, p) /\ Len(p) > Len(d)       \* p strictly below directory d

RECURSIVE LexLess(_, _)
LexLess(s, t) ==
  IF s = <<>> THEN t # <<>>
  ELSE IF t = <<>> THEN FALSE
  ELSE IF s[1] # t[1] THEN s[1] < t[1]
  ELSE LexLess(Tail(s), Tail(t))

T_zeta       == <<122,101,116,97>>                          \* "zeta"
T_zetab      == <<122,101,116,97,98>>                       \* "zetab"
T_Zeta       == <<90,101,116,97>>                           \* "Zeta"
T_zet        == <<122,101,116>>                             \* "zet"
T_pk         == <<112,107>>                                 \* "pk"
T_pkg        == <<112,107,103>>                             \* "pkg"
T_sub        == <<115,117,98>>                              \* "sub"
T_venv       == <<118,101,110,118>>                         \* "venv"
T_dvenv      == <<46,118,101,110,118>>                      \* ".venv"
T_tox        == <<46,116,111,120>>                          \* ".tox"
T_mypy       == <<46,109,121,112,121,95,99,97,99,104,101>>  \* ".mypy_cache"
T_pycache    == <<95,95,112,121,99,97,99,104,101,95,95>>    \* "__pycache__"
T_m_py       == <<109,46,112,121>>                          \* "m.py"
T_zeta_py    == <<122,101,116,97,46,112,121>>               \* "zeta.py"
T_s_pyi      == <<115,46,112,121,105>>                      \* "s.pyi"
T_init_py    == <<95,95,105,110,105,116,95,95,46,112,121>>  \* "__init__.py"
T_init_pyi   == <<95,95,105,110,105,116,95,95,46,112,121,105>>  \* "__init__.pyi"
T_init       == <<95,95,105,110,105,116,95,95>>             \* "__init__"
T_gitignore  == <<46,103,105,116,105,103,110,111,114,101>>  \* ".gitignore"
T_py         == <<46,112,121>>                              \* ".py"
T_pyi        == <<46,112,121,105>>                          \* ".pyi"
T_stubs      == <<45,115,116,117,98,115>>                   \* "-stubs"
T_root       == <<47,114>>                                  \* "/r"  (absolute name of the root in the model)
E_zeta_sl    == <<122,101,116,97,47>>                       \* "zeta/"
E_sl_zeta    == <<47,122,101,116,97>>                       \* "/zeta"
E_pkg_zeta   == <<112,107,103,47,122,101,116,97>>           \* "pkg/zeta"
E_sl_m_py    == <<47,109,46,112,121>>                       \* "/m.py"
E_pkg_m_py   == <<112,107,103,47,109,46,112,121>>           \* "pkg/m.py"
E_c_zeta     == <<35,122,101,116,97>>                       \* "#zeta"
E_n_zeta     == <<33,122,101,116,97>>                       \* "!zeta"
E_glob       == <<42,46,112,121>>                           \* "*.py"

Item(p, l, n, t) == [path |-> p, line |-> l, name |-> n, type |-> t]

---------------------------------------------------------------------------
(* Reference *)

AlwaysIgnored == {T_venv, T_dvenv, T_tox, T_mypy, T_pycache}

\* gitignore(5), restricted to literal entries
RefLineKind(l) ==
  IF l = <<>> THEN "blank"
  ELSE IF l[1] = HASH THEN "comment"
  ELSE IF l[1] = BANG \/ (\E i \in 1..Len(l) : l[i] \in {STAR, QM, LB, BS, 32}) THEN "unsupported"
  ELSE IF Len(l) >= 2 /\ l[Len(l)] = SL /\ l[Len(l) - 1] = SL THEN "unsupported"
  ELSE IF l = <<SL>> THEN "unsupported"
  ELSE "literal"
RefDirOnly(l)  == l[Len(l)] = SL
RefBody(l)     == IF RefDirOnly(l) THEN Front(l) ELSE l
RefAnchored(l) == Has(RefBody(l), SL)
RECURSIVE SplitSl(_, _)
SplitSl(s, cur) ==
  IF s = <<>> THEN (IF cur = <<>> THEN <<>> ELSE <<cur>>)
  ELSE IF s[1] = SL THEN (IF cur = <<>> THEN <<>> ELSE <<cur>>) \o SplitSl(Tail(s), <<>>)
  ELSE SplitSl(Tail(s), Append(cur, s[1]))

\* does the literal line l of the .gitignore g match the node P ?
RefMatch(g, l, P, isdir) ==
  /\ Below(g.dir, P)
  /\ RefDirOnly(l) => isdir
  /\ IF RefAnchored(l) THEN P = g.dir \o SplitSl(RefBody(l), <<>>)
                       ELSE Last(P) = RefBody(l)

NodeIgnoredByGi(T, P, isdir) ==
  \E g \in T.gi : \E i \in 1..Len(g.lines) :
     RefLineKind(g.lines[i]) = "literal" /\ RefMatch(g, g.lines[i], P, isdir)
NodeIgnored(T, P, isdir) == (isdir /\ Last(P) \in AlwaysIgnored) \/ NodeIgnoredByGi(T, P, isdir)

\* a place is ignored when it or a directory above it is
Ignored(T, P, isdir) ==
  \E k \in 1..Len(P) : NodeIgnored(T, SubSeq(P, 1, k), (k < Len(P)) \/ isdir)
\* below a .gitignore with lines outside the literal subset nothing is demanded either way
DontCare(T, P) ==
  \E g \in T.gi : Below(g.dir, P) /\ \E i \in 1..Len(g.lines) : RefLineKind(g.lines[i]) = "unsupported"
StrictlyIgnored(T, P, isdir) == Ignored(T, P, isdir) /\ ~DontCare(T, P)

PyName(n)      == EndsWith(n, T_py) \/ EndsWith(n, T_pyi)
HasFile(T, P)  == \E f \in T.files : f.path = P
PyCount(T)     == Cardinality({f \in T.files : PyName(Last(f.path))})

\* the ignore status of every node of the tree, computed once per tree
Nodes(T)  == T.dirs \cup {f.path : f \in T.files}
RefCtx(T) == [ign |-> {P \in Nodes(T) : Ignored(T, P, P \in T.dirs)},
              dc  |-> {P \in Nodes(T) : DontCare(T, P)},
              npy |-> PyCount(T)]
MustSee(R, P)         == P \notin R.ign /\ P \notin R.dc
StrictlyIgnoredR(R, P) == P \in R.ign /\ P \notin R.dc

SpelledRef(n, q) == IF q.complete THEN StartsWith(n, q.name) ELSE n = q.name
KindOK(k, q)     == q.type = "" \/ q.type = k

ExpectedDefs(T, R, q) ==
  UNION { { Item(f.path, f.defs[i].line, f.defs[i].name, f.defs[i].kind) :
              i \in { j \in 1..Len(f.defs) : /\ (q.all \/ ~f.defs[j].nested)
                                             /\ SpelledRef(f.defs[j].name, q)
                                             /\ KindOK(f.defs[j].kind, q) } } :
          f \in { g \in T.files : PyName(Last(g.path)) /\ MustSee(R, g.path) } }

\* "every module or package so named" (the exact name, also for complete_search)
ExpectedModules(T, R, q) ==
  IF q.type # "" THEN {} ELSE
     { Item(f.path, 1, q.name, "module") :
         f \in { g \in T.files : /\ Last(g.path) \in {q.name \o T_py, q.name \o T_pyi}
                                 /\ MustSee(R, g.path) } }
     \cup
     { Item(P \o <<T_init_py>>, 1, q.name, "module") :
         P \in { D \in T.dirs : /\ Last(D) = q.name /\ MustSee(R, D)
                                /\ HasFile(T, D \o <<T_init_py>>)
                                /\ MustSee(R, D \o <<T_init_py>>) } }
NamespaceDirs(T, n) == { D \in T.dirs : /\ Last(D) = n
                                        /\ ~HasFile(T, D \o <<T_init_py>>)
                                        /\ ~HasFile(T, D \o <<T_init_pyi>>) }
NamespaceExpected(T, R, q) == q.type = "" /\ \E D \in NamespaceDirs(T, q.name) : MustSee(R, D)
IsNsItem(r, n) == r.path = <<>> /\ r.name = n /\ r.type \in {"module", "namespace"}

\* shapes of known deviations (keys of known_findings.d/C19.json); they only look at the
\* tree and the item, never at the Design
RECURSIVE RelStr(_)
RelStr(P) == IF P = <<>> THEN <<>> ELSE RelStr(Front(P)) \o <<SL>> \o Last(P)
RECURSIVE RStripSl(_)
RStripSl(s) == IF s # <<>> /\ s[Len(s)] = SL THEN RStripSl(Front(s)) ELSE s
PrefixShape(T, P) ==   \* a directory above P is named like a basename entry of a .gitignore
                       \* whose directory is a *string* prefix but not a path prefix
  \E g \in T.gi : \E i \in 1..Len(g.lines) : \E k \in 1..Len(P) :
     LET l == g.lines[i]  X == SubSeq(P, 1, k - 1) IN
       /\ RefLineKind(l) = "literal" /\ ~RefAnchored(l)
       /\ P[k] = RStripSl(l)
       /\ ~IsPrefixPath(g.dir, X)
       /\ StartsWith(RelStr(X), RelStr(g.dir))
MissShape(T, P) == IF PrefixShape(T, P) THEN "missing:gitignore-dir-string-prefix"
                   ELSE "missing:unexplained"
LeakShape(T, r) ==
  IF r.path = <<>> THEN "ignored-reported:root-module-via-syspath"
  ELSE IF NodeIgnoredByGi(T, r.path, FALSE) /\ ~Ignored(T, Front(r.path), TRUE)
       THEN "ignored-reported:gitignored-file"
  ELSE IF r.type = "module" /\ Len(r.path) <= 2
       THEN "ignored-reported:root-module-via-syspath"
  ELSE "ignored-reported:unexplained"

\* failing clauses of a result set res (a set of items) for query q: set of shape keys
WhyMissing(T, R, q, res, plimit) ==
  IF R.npy > plimit THEN {} ELSE          \* "up to the documented file limits"
     { MissShape(T, it.path) : it \in (ExpectedDefs(T, R, q) \cup ExpectedModules(T, R, q)) \ res }
     \cup (IF NamespaceExpected(T, R, q) /\ ~\E r \in res : IsNsItem(r, q.name)
           THEN { MissShape(T, D) : D \in {E \in NamespaceDirs(T, q.name) : MustSee(R, E)} }
           ELSE {})
LeakedItem(T, R, r) ==
  IF r.path # <<>> /\ r.type = "module" /\ Last(r.path) \in {T_init_py, T_init_pyi}
  THEN \* a package is judged by its directory (an ignored __init__.py in a visible package: don't care)
       Len(r.path) > 1 /\ StrictlyIgnoredR(R, Front(r.path))
  ELSE IF r.path # <<>> THEN StrictlyIgnoredR(R, r.path)
  ELSE /\ r.type \in {"module", "namespace"}
       /\ \E D \in T.dirs : Last(D) = r.name
       /\ \A D \in T.dirs : Last(D) = r.name => StrictlyIgnoredR(R, D)
WhyLeak(T, R, res) == { LeakShape(T, r) : r \in {x \in res : LeakedItem(T, R, x)} }
Why(T, R, q, res, plimit) == WhyMissing(T, R, q, res, plimit) \cup WhyLeak(T, R, res)

\* Script.search on a buffer agrees with filtering get_names: gn and res are sequences of
\* items [line, col, name, type] (get_names(all_scopes=q.all, definitions=True) / search)
CiMatch(n, q) == IF q.complete THEN StartsWith(LowerS(n), LowerS(q.name))
                 ELSE LowerS(n) = LowerS(q.name)
WhyScript(gn, q, res) ==
     (IF \E i \in 1..Len(gn) : SpelledRef(gn[i].name, q) /\ KindOK(gn[i].type, q) /\ gn[i] \notin Range(res)
      THEN {"script:missing"} ELSE {})
  \cup (IF \E r \in Range(res) : r \notin Range(gn) THEN {"script:not-in-get_names"} ELSE {})
  \cup (IF \E r \in Range(res) : ~CiMatch(r.name, q) \/ ~KindOK(r.type, q) THEN {"script:not-matching"} ELSE {})
  \cup (IF res # SelectSeq(gn, LAMBDA g : g \in Range(res)) THEN {"script:order-or-duplicates"} ELSE {})
ScriptAgrees(gn, q, res) == WhyScript(gn, q, res) = {}

---------------------------------------------------------------------------
(* Design *)

IgnoreFolders == {T_tox, T_dvenv, T_mypy, T_venv, T_pycache}        \* references._IGNORE_FOLDERS

Join(a, n) == a \o <<SL>> \o n                       \* os.path.join(a, n), n relative
RECURSIVE AbsStr(_)
AbsStr(P) == IF P = <<>> THEN T_root ELSE Join(AbsStr(Front(P)), Last(P))
\* python values: a str and a pathlib.Path never compare equal
PStr(s)  == <<"str", s>>
PPath(s) == <<"Path", s>>
RECURSIVE LStripSl(_)
LStripSl(s) == IF s # <<>> /\ s[1] = SL THEN LStripSl(Tail(s)) ELSE s

\* references.gitignored_paths(folder_io, file_io)
GiParse(D, lines) ==
  LET folder == AbsStr(D)
      keep   == { i \in 1..Len(lines) :
                    LET l == lines[i] IN ~(l = <<>> \/ l[1] = HASH \/ l[1] = BANG \/ Has(l, STAR)) }
      p(i)   == RStripSl(lines[i])
  IN [abs |-> { PStr(Join(folder, LStripSl(p(i)))) : i \in {j \in keep : Has(p(j), SL)} },
      rel |-> { <<folder, p(i)>> : i \in {j \in keep : ~Has(p(j), SL)} }]

ChildNames(T, D) == { Last(P) : P \in {Q \in T.dirs : Len(Q) = Len(D) + 1 /\ IsPrefixPath(D, Q)} }
GiLines(T, D)    == (CHOOSE g \in T.gi : g.dir = D).lines
FileNamesIn(T, D) == { Last(f.path) : f \in {g \in T.files : Front(g.path) = D} }
                     \cup (IF \E g \in T.gi : g.dir = D THEN {T_gitignore} ELSE {})
FileAt(T, P)     == CHOOSE f \in T.files : f.path = P

\* os.scandir order is an environment choice: ascending or descending by name
RECURSIVE OrdSeq(_, _)
OrdSeq(S, asc) ==
  IF S = {} THEN <<>>
  ELSE LET m == CHOOSE x \in S : \A y \in S : x = y \/ (IF asc THEN LexLess(x, y) ELSE LexLess(y, x))
       IN <<m>> \o OrdSeq(S \ {m}, asc)

\* the "for file_io in file_ios" loop of recurse_find_python_folders_and_files
\* expand_relative_ignore_paths(folder_io, relative_paths)
\* DEV-1: the code tests curr_path.startswith(p[0]) on strings, so the entries of a/.gitignore
\*        also apply below ab/.  Repaired: curr_path = p[0] or below p[0] + "/".
UnderStr(cur, folder) == IF "DEV1" \in Fixed THEN cur = folder \/ StartsWith(cur, folder \o <<SL>>)
                         ELSE StartsWith(cur, folder)
Expand(cur, rel) == { Join(cur, p[2]) : p \in {r \in rel : UnderStr(cur, r[1])} }

\* the "for file_io in file_ios" loop of recurse_find_python_folders_and_files
\* DEV-2: file_io.path is a pathlib.Path and except_paths holds str, so the membership test never
\*        excludes a file; basename entries are only ever applied to folders; a file listed
\*        before the .gitignore of its own directory is yielded before that is read.
\*        Repaired: the .gitignore is read first, files are tested as str against the anchored
\*        and the expanded basename entries.
FileExcluded(cur, path, acc) ==
  IF "DEV2" \in Fixed THEN PStr(path) \in acc.abs \/ path \in Expand(cur, acc.rel)
  ELSE PPath(path) \in acc.abs
ReadGi(T, D, acc) == LET g == GiParse(D, GiLines(T, D))
                     IN [acc EXCEPT !.abs = @ \cup g.abs, !.rel = @ \cup g.rel]
RECURSIVE FilesLoop(_, _, _, _, _)
FilesLoop(T, D, cur, names, acc) ==
  IF names = <<>> THEN acc
  ELSE LET n    == Head(names)
           path == Join(cur, n)
           a1   == IF PyName(n) /\ ~FileExcluded(cur, path, acc)          \* path.suffix in ('.py', '.pyi')
                   THEN [acc EXCEPT !.out = Append(@, [k |-> "file", path |-> D \o <<n>>])]
                   ELSE acc
           a2   == IF n = T_gitignore /\ "DEV2" \notin Fixed THEN ReadGi(T, D, a1) ELSE a1
       IN FilesLoop(T, D, cur, Tail(names), a2)

\* one os.walk step (top-down, pruning in place) and the recursion into the kept folders;
\* acc = [abs, rel, out] is shared by the whole walk (the sets only grow)
RECURSIVE WalkDir(_, _, _, _), WalkDirs(_, _, _, _, _)
WalkDir(T, asc, D, acc) ==
  LET cur == AbsStr(D)
      names == OrdSeq(FileNamesIn(T, D), asc)
      a0  == IF "DEV2" \in Fixed /\ T_gitignore \in Range(names) THEN ReadGi(T, D, acc) ELSE acc
      a1  == FilesLoop(T, D, cur, names, a0)
      expanded == Expand(cur, a1.rel)
      kept == SelectSeq(OrdSeq(ChildNames(T, D), asc),
                        LAMBDA n : /\ PStr(Join(cur, n)) \notin a1.abs
                                   /\ Join(cur, n) \notin expanded
                                   /\ n \notin IgnoreFolders)
      a2  == [a1 EXCEPT !.out = @ \o [i \in 1..Len(kept) |-> [k |-> "dir", path |-> D \o <<kept[i]>>]]]
  IN WalkDirs(T, asc, D, kept, a2)
WalkDirs(T, asc, D, names, acc) ==
  IF names = <<>> THEN acc
  ELSE WalkDirs(T, asc, D, Tail(names), WalkDir(T, asc, D \o <<Head(names)>>, acc))

Walk(T, asc) == WalkDir(T, asc, <<>>, [abs |-> {}, rel |-> {}, out |-> <<>>]).out

\* completion.search_in_module for a single (undotted) name
\* DEV-3: names are compared lower-cased although the regex pre-filter is case sensitive
DesignMatch(n, q) == IF q.complete THEN StartsWith(LowerS(n), LowerS(q.name))
                     ELSE LowerS(n) = LowerS(q.name)
TypeOK(t, q) == q.type = "" \/ q.type = t

\* phase 1 of Project._search_func: modules by file / folder name (exact, also when completing)
ModuleOfDir(T, P) ==
  IF HasFile(T, P \o <<T_init_py>>) THEN Item(P \o <<T_init_py>>, 1, Last(P), "module")
  ELSE IF HasFile(T, P \o <<T_init_pyi>>) THEN Item(P \o <<T_init_pyi>>, 1, Last(P), "module")
  ELSE Item(<<>>, 0, Last(P), "namespace")
Phase1Of(T, q, e) ==
  LET n == Last(e.path)
      m == IF e.k = "dir"
           THEN (IF n = q.name \/ n = q.name \o T_stubs THEN <<ModuleOfDir(T, e.path)>> ELSE <<>>)
           ELSE (IF n \in {q.name \o T_py, q.name \o T_pyi}
                 THEN <<Item(e.path, 1, q.name, "module")>> ELSE <<>>)
  IN SelectSeq(m, LAMBDA it : DesignMatch(it.name, q) /\ TypeOK(it.type, q))
RECURSIVE FlatMap1(_, _, _)
FlatMap1(T, q, w) == IF w = <<>> THEN <<>> ELSE Phase1Of(T, q, Head(w)) \o FlatMap1(T, q, Tail(w))

\* phase 2: search_in_file_ios (regex pre-filter on the text, open/parse limits), then
\* get_module_names(all_scopes) / _remove_imports / search_in_module
Words(f) == { f.defs[i].name : i \in 1..Len(f.defs) } \cup f.uses
RegexHit(f, q) == \E w \in Words(f) : IF q.complete THEN StartsWith(w, q.name) ELSE w = q.name
RECURSIVE Parsed(_, _, _, _, _)
Parsed(T, fs, q, opened, parsed) ==
  IF fs = <<>> THEN <<>>
  ELSE LET f   == FileAt(T, Head(fs))
           hit == RegexHit(f, q)
           o1  == opened + 1
           p1  == IF hit THEN parsed + 1 ELSE parsed
           stop == (hit /\ p1 >= ParseLimit) \/ o1 >= OpenLimit
       IN (IF hit THEN <<f>> ELSE <<>>) \o (IF stop THEN <<>> ELSE Parsed(T, Tail(fs), q, o1, p1))
DefItems(f, q) ==
  LET ds == SelectSeq(f.defs, LAMBDA d : (q.all \/ ~d.nested) /\ DesignMatch(d.name, q) /\ TypeOK(d.kind, q))
  IN [i \in 1..Len(ds) |-> Item(f.path, ds[i].line, ds[i].name, ds[i].kind)]
RECURSIVE FlatMap2(_, _)
FlatMap2(fs, q) == IF fs = <<>> THEN <<>> ELSE DefItems(Head(fs), q) \o FlatMap2(Tail(fs), q)

\* phase 3: module names on sys.path.  DEV-4: `p != self._path` compares str with Path, so the
\* project root (first entry of the smart sys.path) is *not* excluded and its top-level
\* entries are listed by iter_module_names without any ignore rule.
IsIdent(n) == n # <<>> /\ n[1] \notin 48..57
              /\ \A i \in 1..Len(n) : n[i] \in (48..57) \cup (65..90) \cup (97..122) \cup {US}
Stem(n) == IF EndsWith(n, T_pyi) THEN SubSeq(n, 1, Len(n) - 4)
           ELSE IF EndsWith(n, T_py) THEN SubSeq(n, 1, Len(n) - 3) ELSE <<>>
RootModuleNames(T) ==
     { n \in ChildNames(T, <<>>) : n # T_pycache /\ IsIdent(n) }
  \cup { Stem(n) : n \in { m \in FileNamesIn(T, <<>>) : Stem(m) # <<>> /\ ~Has(Stem(m), DOT) /\ Stem(m) # T_init } }
\* what `import n` finds in the root: package, module, namespace package
ResolveRoot(T, n) ==
  IF <<n>> \in T.dirs /\ HasFile(T, <<n, T_init_py>>) THEN Item(<<n, T_init_py>>, 1, n, "module")
  ELSE IF HasFile(T, <<n \o T_py>>) THEN Item(<<n \o T_py>>, 1, n, "module")
  ELSE IF HasFile(T, <<n \o T_pyi>>) THEN Item(<<n \o T_pyi>>, 1, n, "module")
  ELSE Item(<<>>, 1, n, "module")
RootMods(T) == { ResolveRoot(T, n) : n \in RootModuleNames(T) }      \* does not depend on the query
RECURSIVE SetToSeq(_)
SetToSeq(S) == IF S = {} THEN <<>> ELSE LET x == CHOOSE y \in S : TRUE IN <<x>> \o SetToSeq(S \ {x})
Phase3(rm, q) == IF "DEV4" \in Fixed THEN <<>>      \* repaired: the root is excluded, as the comment in the code says
                 ELSE SetToSeq({it \in rm : DesignMatch(it.name, q) /\ TypeOK("module", q)})

\* project._try_to_skip_duplicates
RECURSIVE Dedup(_, _, _)
Dedup(s, nodes, mods) ==
  IF s = <<>> THEN <<>>
  ELSE LET d    == Head(s)
           node == IF d.type \in {"module", "namespace"} THEN <<>> ELSE <<d.path, d.line, d.name>>
       IN IF node # <<>> /\ node \in nodes THEN Dedup(Tail(s), nodes, mods)
          ELSE IF d.type = "module" /\ d.path # <<>> /\ d.path \in mods THEN Dedup(Tail(s), nodes, mods)
          ELSE <<d>> \o Dedup(Tail(s), nodes \cup {node},
                              IF d.type = "module" /\ d.path # <<>> THEN mods \cup {d.path} ELSE mods)

FilesOf(w) == LET fs == SelectSeq(w, LAMBDA e : e.k = "file") IN [i \in 1..Len(fs) |-> fs[i].path]
DesignSearchW(T, q, w, rm) ==
  Dedup(FlatMap1(T, q, w) \o FlatMap2(Parsed(T, FilesOf(w), q, 0, 0), q) \o Phase3(rm, q), {}, {})
DesignSearch(T, q, asc) == DesignSearchW(T, q, Walk(T, asc), RootMods(T))

\* Script.search on the buffer of one file
GetNamesModel(f, all) ==
  LET ds == SelectSeq(f.defs, LAMBDA d : all \/ ~d.nested)
  IN [i \in 1..Len(ds) |-> [line |-> ds[i].line, name |-> ds[i].name, type |-> ds[i].kind]]
DesignScriptSearch(f, q) ==
  SelectSeq(GetNamesModel(f, q.all), LAMBDA g : DesignMatch(g.name, q) /\ TypeOK(g.type, q))

---------------------------------------------------------------------------
(* Bounded model: the state space is the space of project trees, built by actions. *)

Def(n, k, nested, line) == [name |-> n, kind |-> k, nested |-> nested, line |-> line]
\* contents; the line numbers are those of the harness renderer (render_file in c19.py)
C_empty == [defs |-> <<>>, uses |-> {}]
C_fun   == [defs |-> <<Def(T_zeta, "function", FALSE, 1)>>, uses |-> {}]
C_mix   == [defs |-> <<Def(T_Zeta, "class", FALSE, 1), Def(T_zeta, "function", TRUE, 4)>>, uses |-> {}]
C_stmt  == [defs |-> <<Def(T_zetab, "statement", FALSE, 1), Def(T_zeta, "statement", TRUE, 3)>>, uses |-> {}]
C_use   == [defs |-> <<>>, uses |-> {T_zeta}]
C_caps  == [defs |-> <<Def(T_Zeta, "statement", FALSE, 1)>>, uses |-> {}]
C_ncls  == [defs |-> <<Def(T_zetab, "class", TRUE, 2), Def(T_zeta, "class", FALSE, 4)>>, uses |-> {T_Zeta}]

Contents == CASE Pool = "quick"    -> {C_fun, C_mix, C_stmt}
              [] Pool = "limits"   -> {C_fun, C_use, C_caps}
              [] OTHER             -> {C_empty, C_fun, C_mix, C_stmt, C_use, C_caps, C_ncls}
DirNames == CASE Pool = "quick"    -> {T_pk, T_pkg, T_zeta, T_venv}
              [] Pool = "limits"   -> {T_pk}
              [] OTHER             -> {T_pk, T_pkg, T_zeta, T_venv, T_dvenv, T_pycache}
FileNames == CASE Pool = "quick"   -> {T_m_py, T_zeta_py, T_init_py}
              [] Pool = "limits"   -> {T_m_py, T_zeta_py, T_s_pyi}
              [] OTHER             -> {T_m_py, T_zeta_py, T_init_py, T_s_pyi}
Entries == CASE Pool = "quick"     -> {T_zeta, E_sl_zeta, T_m_py, E_pkg_m_py, E_zeta_sl}
             [] Pool = "limits"    -> {T_m_py}
             [] OTHER              -> {T_zeta, E_zeta_sl, E_sl_zeta, E_pkg_zeta, T_m_py, E_sl_m_py,
                                       E_pkg_m_py, T_pk, E_c_zeta, E_n_zeta, E_glob, <<>>}
LineSeqs == UNION { [1..n -> Entries] : n \in 1..MaxLines }

Qr(n, c, a, t) == [name |-> n, complete |-> c, all |-> a, type |-> t]
QSeq == << Qr(T_zeta, FALSE, FALSE, ""), Qr(T_zeta, FALSE, TRUE, ""),
           Qr(T_zeta, TRUE, FALSE, ""),  Qr(T_zeta, TRUE, TRUE, ""),
           Qr(T_zet, TRUE, FALSE, ""),   Qr(T_zet, TRUE, TRUE, ""),
           Qr(T_zetab, FALSE, FALSE, ""), Qr(T_Zeta, FALSE, TRUE, ""),
           Qr(T_zeta, FALSE, TRUE, "function"), Qr(T_Zeta, FALSE, FALSE, "class"),
           Qr(T_zet, TRUE, TRUE, "class"), Qr(T_zet, FALSE, TRUE, "") >>
Queries == Range(QSeq)

VARIABLES dirs, files, gi
vars == <<dirs, files, gi>>
Tree == [dirs |-> dirs, files |-> files, gi |-> gi]
AllDirs == dirs \cup {<<>>}

Init == dirs = {} /\ files = {} /\ gi = {}
\* build discipline (directories, then .gitignore files, then python files): every tree is
\* still reachable, the interleavings are not enumerated twice
AddDir(D, n) ==
  /\ files = {} /\ gi = {}
  /\ Cardinality(dirs) < MaxDirs /\ Len(D) < MaxDepth
  /\ D \o <<n>> \notin dirs
  /\ dirs' = dirs \cup {D \o <<n>>} /\ UNCHANGED <<files, gi>>
AddGi(D, ls) ==
  /\ files = {}
  /\ Cardinality(gi) < MaxGi
  /\ ~\E g \in gi : g.dir = D
  /\ gi' = gi \cup {[dir |-> D, lines |-> ls]} /\ UNCHANGED <<dirs, files>>
AddFile(D, n, c) ==
  /\ Cardinality(files) < MaxFiles
  /\ ~\E f \in files : f.path = D \o <<n>>
  /\ files' = files \cup {[path |-> D \o <<n>>, defs |-> c.defs, uses |-> c.uses]}
  /\ UNCHANGED <<dirs, gi>>
Next == \/ \E D \in AllDirs : \E n \in DirNames : AddDir(D, n)
        \/ \E D \in AllDirs : \E ls \in LineSeqs : AddGi(D, ls)
        \/ \E D \in AllDirs : \E n \in FileNames : \E c \in Contents : AddFile(D, n, c)

---------------------------------------------------------------------------
(* Design |= Reference *)
KnownShapes == {"missing:gitignore-dir-string-prefix", "ignored-reported:gitignored-file",
                "ignored-reported:root-module-via-syspath"}

HasDup(out) == LET wp == SelectSeq(out, LAMBDA r : r.path # <<>>) IN Cardinality(Range(wp)) # Len(wp)
WalkBad(w)  == \E e \in Range(w) : \E k \in 1..Len(e.path) :
                  (k < Len(e.path) \/ e.k = "dir") /\ e.path[k] \in AlwaysIgnored

\* All clauses in one pass (the walks and the ignore status are computed once per tree):
\* the set of failing clause / shape names of the Design on this tree.
Verdict ==
  LET T  == Tree
      R  == RefCtx(T)
      wa == Walk(T, TRUE)
      wd == Walk(T, FALSE)
      rm == RootMods(T)
      per(q) == LET oa == DesignSearchW(T, q, wa, rm)
                    od == DesignSearchW(T, q, wd, rm)
                    sa == Range(oa)
                    sd == Range(od)
                IN Why(T, R, q, sa, ParseLimit)
                   \cup (IF sd = sa THEN {} ELSE Why(T, R, q, sd, ParseLimit))
                   \cup (IF HasDup(oa) \/ HasDup(od) THEN {"design:duplicates"} ELSE {})
      \* the listing order can only matter through the accumulated ignore sets (the walked
      \* items differ) or through the parse/open limits
      one(q) == LET oa == DesignSearchW(T, q, wa, rm)
                IN Why(T, R, q, Range(oa), ParseLimit)
                   \cup (IF HasDup(oa) THEN {"design:duplicates"} ELSE {})
      orderFree == Range(wa) = Range(wd) /\ R.npy < ParseLimit /\ R.npy < OpenLimit
  IN UNION { IF orderFree THEN one(q) ELSE per(q) : q \in Queries }
     \cup (IF \E f \in files : \E q \in Queries :
              ~ScriptAgrees(GetNamesModel(f, q.all), q, DesignScriptSearch(f, q))
         THEN {"design:script-search-disagrees"} ELSE {})
     \* the pruning is in place: nothing below an always-ignored folder is ever walked
     \cup (IF WalkBad(wa) \/ WalkBad(wd) THEN {"design:walk-enters-always-ignored"} ELSE {})

\* every difference between the Design and the Reference has one of the known shapes
\* (this includes: no duplicates, Script.search agrees with get_names, pruning in place)
DesignMeetsReferenceModuloKnown == Verdict \subseteq KnownShapes
\* the full statement (holds when every deviation is repaired: Fixed = {"DEV1","DEV2","DEV4"})
DesignMeetsReference == Verdict = {}
\* strict forms; their counterexamples are replayed on the real code by the harness
StrictComplete      == "missing:gitignore-dir-string-prefix" \notin Verdict
StrictNoIgnoredFile == "ignored-reported:gitignored-file" \notin Verdict
StrictNoSysPathLeak == "ignored-reported:root-module-via-syspath" \notin Verdict

---------------------------------------------------------------------------
(* emission of cases for replay (a deterministic slice selected by the cfg) *)
RECURSIVE SumSeq(_)
SumSeq(s) == IF s = <<>> THEN 0 ELSE (s[1] + 3 * SumSeq(Tail(s))) % 100003
RECURSIVE SumPath(_)
SumPath(P) == IF P = <<>> THEN 1 ELSE (SumSeq(Head(P)) + 7 * SumPath(Tail(P))) % 100003
HDir(P)  == SumPath(P)
HFile(f) == 5 * SumPath(f.path) + 11 * Len(f.defs) + 13 * Cardinality(f.uses)
            + (IF f.defs = <<>> THEN 0 ELSE 17 * SumSeq(f.defs[1].name) + 19 * f.defs[1].line + SumSeq(f.defs[Len(f.defs)].name))
RECURSIVE HLines(_)
HLines(ls) == IF ls = <<>> THEN 0 ELSE (SumSeq(Head(ls)) + 29 * HLines(Tail(ls)) + 1) % 100003
HGi(g)   == 23 * SumPath(g.dir) + HLines(g.lines)
RECURSIVE SumDirs(_), SumFiles(_), SumGis(_)
SumDirs(S)  == IF S = {} THEN 0 ELSE LET x == CHOOSE y \in S : TRUE IN (HDir(x) + SumDirs(S \ {x})) % 100003
SumFiles(S) == IF S = {} THEN 0 ELSE LET x == CHOOSE y \in S : TRUE IN (HFile(x) + SumFiles(S \ {x})) % 100003
SumGis(S)   == IF S = {} THEN 0 ELSE LET x == CHOOSE y \in S : TRUE IN (HGi(x) + SumGis(S \ {x})) % 100003
CaseNo   == SumDirs(dirs) + SumFiles(files) + SumGis(gi)

Preds(T) == LET wa == Walk(T, TRUE)  wd == Walk(T, FALSE)  rm == RootMods(T)
            IN [i \in 1..Len(QSeq) |-> [q |-> QSeq[i],
                                        asc |-> DesignSearchW(T, QSeq[i], wa, rm),
                                        desc |-> DesignSearchW(T, QSeq[i], wd, rm)]]
FilesOut(T) == { [path |-> f.path, defs |-> f.defs, uses |-> f.uses,
                  ss |-> [i \in 1..Len(QSeq) |-> DesignScriptSearch(f, QSeq[i])]] : f \in T.files }
Emit == (CaseNo % EmitMod = EmitRem) =>
          PrintT(<<"CASE", ToJson([dirs |-> dirs, files |-> FilesOut(Tree), gi |-> gi,
                                   plimit |-> ParseLimit, preds |-> Preds(Tree),
                                   why |-> Verdict])>>)
=============================================================================
