INIT TInit
NEXT TNext
CONSTANTS
  TplLo = 1
  TplHi = 1
  SecondTpls = {}
  MaxStmts = 0
  MaxMods1 = 0
  MaxMods2 = 0
  NNames = 4
  StripDunder = FALSE
  EmitMod = 1
  EmitRem = 0
CONSTRAINT Verdict
CHECK_DEADLOCK FALSE
