INIT TInit
NEXT TNext
CONSTANTS
  MaxSys = 0
  MaxAdded = 0
  MaxDepth = 0
  MaxChain = 0
  SysIdx = {}
  AddedIdx = {}
  EmitMod = 1
  EmitRem = 0
  FixEnvPath = TRUE
  FixRelProject = TRUE
CONSTRAINT Verdict
CHECK_DEADLOCK FALSE
