------------------------- MODULE Trace_BufCache -------------------------
(* Code -> spec for C08.  A trace = one editing history executed in ONE process; an event = one
   step: the buffer of `slot` becomes `text`, a new Script is built and queried.
     Step{slot, text, item, fresh, dump, stale}
       item   identity (creation order) of parso's cache entry the Script ended up with
       fresh  all answers equal the answers of a fresh process for this text
       dump   the incrementally re-parsed tree equals a from-scratch parse (the proviso)
       stale  derived-cache entries still keyed on entries that are no longer current
   BufCache.tla's Edit and NewScript are replayed; the logged entry identity must be the one the
   model predicts (same text -> same entry, other text -> new entry); Fresh must hold.          *)
EXTENDS Naturals, Sequences, FiniteSets, TLC, Json, IOUtils

CONSTANTS Slots, NoText, Texts, MaxGen, MaxClock, Validity, DerivedKey, SigKeyComparable, ParsoDeviates
VARIABLES buf, pitem, gens, defc, sigc, clock, script, ans
INSTANCE BufCache

Traces == JsonDeserialize(IOEnv.TRACE_FILE)
VARIABLES tid, l
Ev == Traces[tid][l]

TInit == /\ tid \in 1..Len(Traces) /\ l = 1
         /\ buf = [s \in Slots |-> NoText]
         /\ pitem = [s \in Slots |-> [gen |-> 0, lines |-> NoText, tree |-> NoText]]
         /\ gens = 0 /\ defc = [k \in Keys |-> NoText]
         /\ sigc = [s \in Slots |-> [exp |-> 0, text |-> NoText]]
         /\ clock = 0 /\ script = NoScript /\ ans = [q |-> "none", basis |-> NoText]

\* the entry the model predicts for a new Script on (slot, text)
PredictedGen(s, t) == IF pitem[s].gen # 0 /\ pitem[s].lines = t THEN pitem[s].gen ELSE gens + 1
Why(e) ==
     (IF PredictedGen(e.slot, e.text) # e.item THEN {"CacheEntryIdentity"} ELSE {})
  \cup (IF e.dump /\ ~e.fresh THEN {"AnswersDependOnHistory"} ELSE {})
  \cup (IF e.stale # 0 THEN {"StaleDerivedCacheEntries"} ELSE {})

TNext ==
  /\ l <= Len(Traces[tid])
  /\ (Why(Ev) \subseteq {"CacheEntryIdentity"}) = TRUE
  /\ LET s == Ev.slot t == Ev.text
         same == pitem[s].gen # 0 /\ pitem[s].lines = t IN
     /\ buf' = [buf EXCEPT ![s] = t]
     /\ gens' = IF same THEN gens ELSE gens + 1
     /\ pitem' = IF same THEN pitem ELSE [pitem EXCEPT ![s] = [gen |-> gens + 1, lines |-> t, tree |-> t]]
     /\ script' = [slot |-> s, text |-> t, gen |-> Ev.item, memo |-> NoText]
  /\ l' = l + 1
  /\ UNCHANGED <<tid, defc, sigc, clock, ans>>
Verdict ==
  /\ (l <= Len(Traces[tid]) /\ "CacheEntryIdentity" \in Why(Ev)) => PrintT(<<"NOTE", tid, l, "CacheEntryIdentity">>)
  /\ IF l = Len(Traces[tid]) + 1 THEN PrintT(<<"ACCEPT", tid>>)
     ELSE (Why(Ev) \subseteq {"CacheEntryIdentity"}) \/ PrintT(<<"REJECT", tid, l, Why(Ev)>>)
=============================================================================
