----------------------------- MODULE ProjConfig -----------------------------
(* C12, session start -- which Project and which interpreter a Script gets when the caller passes
   none, and what of the ANALYSED TREE can thereby come to run.

   jedi.Script(code, path=p) without project= calls get_default_project(dirname(p)): the first
   ancestor directory that has a .jedi/project.json is loaded with Project.load (the settings in the
   file become constructor arguments); otherwise heuristics (setup.py, .git, ...) pick a directory.
   Without environment= the Script asks project.get_environment(): a configured environment_path
   is turned into an Environment with create_environment(path, safe=False) -- the helper process is
   that executable; otherwise the cached default environment is used.  load_unsafe_extensions of the
   project decides whether compiled modules found in project directories are imported (NoExec.tla).

   The case space: what the caller passes x what the tree contains.  Reference: nothing that lives in
   the analysed tree runs -- not an interpreter it names, not an extension module it ships -- unless the
   CALLER asked for it (explicit Project(..., environment_path / load_unsafe_extensions)).

   Deviations of the code, modelled as they are (constants; the repaired design sets them the other way):
     ConfigEnvSafe = FALSE         a path that came from a discovered .jedi/project.json is executed without
                                   the safety check that VIRTUAL_ENV candidates get (environment._is_safe)
     ConfigUnsafeHonoured = TRUE   load_unsafe_extensions = true in a discovered file is honoured            *)
EXTENDS Naturals, FiniteSets, TLC, Json

CONSTANTS ConfigEnvSafe, ConfigUnsafeHonoured

VARIABLES projarg,    \* "explicit" | "none"      project= passed by the caller (a plain Project(tree))?
          envarg,     \* "explicit" | "none"      environment= passed by the caller?
          cfg,        \* "absent" | "present"     .jedi/project.json in an ancestor of the buffer, inside the tree
          cfgenv,     \* "none" | "tree_exe" | "known_exe"   environment_path in that file
          cfgunsafe,  \* load_unsafe_extensions in that file
          ext,        \* the buffer imports a compiled extension module shipped in the tree
          pc, project, interp, unsafe, ran
vars == <<projarg, envarg, cfg, cfgenv, cfgunsafe, ext, pc, project, interp, unsafe, ran>>

Init == /\ projarg \in {"explicit", "none"} /\ envarg \in {"explicit", "none"}
        /\ cfg \in {"absent", "present"}
        /\ cfgenv \in {"none", "tree_exe", "known_exe"} /\ cfgunsafe \in BOOLEAN
        /\ (cfg = "absent" => cfgenv = "none" /\ cfgunsafe = FALSE)
        /\ ext \in BOOLEAN
        /\ pc = "project" /\ project = "none" /\ interp = "none" /\ unsafe = FALSE /\ ran = {}

\* Script.__init__: project
ChooseProject ==
  /\ pc = "project" /\ pc' = "interp"
  /\ project' = IF projarg = "explicit" THEN "caller" ELSE IF cfg = "present" THEN "loaded" ELSE "heuristic"
  /\ unsafe' = (projarg = "none" /\ cfg = "present" /\ cfgunsafe /\ ConfigUnsafeHonoured)
  /\ UNCHANGED <<projarg, envarg, cfg, cfgenv, cfgunsafe, ext, interp, ran>>

\* Script.__init__: environment (the helper process is spawned lazily, at the first compiled access; the
\* queries of the harness always reach one)
ChooseInterpreter ==
  /\ pc = "interp" /\ pc' = "import"
  /\ LET fromcfg == envarg = "none" /\ project = "loaded" /\ cfgenv # "none"
         refused == fromcfg /\ cfgenv = "tree_exe" /\ ConfigEnvSafe       \* an unknown binary fails _is_safe
     IN /\ interp' = IF envarg = "explicit" THEN "caller"
                     ELSE IF ~fromcfg THEN "default"
                     ELSE IF refused THEN "refused" ELSE cfgenv
        /\ ran' = IF fromcfg /\ cfgenv = "tree_exe" /\ ~refused THEN ran \cup {"interpreter"} ELSE ran
  /\ UNCHANGED <<projarg, envarg, cfg, cfgenv, cfgunsafe, ext, project, unsafe>>

\* the buffer's `import extmod`: NoExec.tla's LoadBuiltin/ExecImport for a project-located extension module
Import ==
  /\ pc = "import" /\ pc' = "done"
  /\ ran' = IF ext /\ unsafe /\ interp # "refused" THEN ran \cup {"extension"} ELSE ran
  /\ UNCHANGED <<projarg, envarg, cfg, cfgenv, cfgunsafe, ext, project, interp, unsafe>>

Next == ChooseProject \/ ChooseInterpreter \/ Import
Spec == Init /\ [][Next]_vars

\* the caller of these cases never asks for unsafe extensions nor names an interpreter of the tree
NoTreeCodeRuns == ran = {}
Emit == (pc = "done") =>
          PrintT(<<"CASE", ToJson([projarg |-> projarg, envarg |-> envarg, cfg |-> cfg, cfgenv |-> cfgenv,
                                   cfgunsafe |-> cfgunsafe, ext |-> ext, project |-> project, interp |-> interp,
                                   ran |-> ran])>>)
=============================================================================
