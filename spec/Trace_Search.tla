-------------------------- MODULE Trace_Search --------------------------
(* Code -> spec for C19.  A trace = one project tree on disk and the calls made on it:
     Traces[tid][1]   = [t |-> "tree", dirs, files, gi, plimit]   (what was written to disk)
     Traces[tid][l>1] = [t |-> "q", q, res]       one Project.search / complete_search call
                      | [t |-> "s", q, gn, res]   Script.search on one buffer and its get_names
   Every event is judged against the Reference operators of Search.tla (Why / WhyScript);
   the verdict of a trace lists <<event index, failing clause>> for every rejected call;
   the Design operators are not used here.  Text = code-point sequences; JSON arrays
   arrive as sequences and are turned into the sets the Reference works on.            *)
EXTENDS Naturals, Sequences, FiniteSets, TLC, Json, IOUtils

CONSTANTS Pool, MaxDirs, MaxDepth, MaxFiles, MaxGi, MaxLines, ParseLimit, OpenLimit, EmitMod, EmitRem, Fixed
VARIABLES dirs, files, gi
INSTANCE Search

Traces == JsonDeserialize(IOEnv.TRACE_FILE)
VARIABLES tid, l, T, R, bad

TreeOf(h) == [dirs  |-> Range(h.dirs),
              files |-> { [path |-> f.path, defs |-> f.defs, uses |-> Range(f.uses)] : f \in Range(h.files) },
              gi    |-> Range(h.gi)]

TInit == /\ tid \in 1..Len(Traces) /\ l = 2 /\ bad = {}
         /\ T = TreeOf(Traces[tid][1]) /\ R = RefCtx(TreeOf(Traces[tid][1]))
         /\ dirs = {} /\ files = {} /\ gi = {}
Ev == Traces[tid][l]
EvWhy(ev) == IF ev.t = "q" THEN Why(T, R, ev.q, Range(ev.res), Traces[tid][1].plimit)
             ELSE WhyScript(ev.gn, ev.q, ev.res)
\* every event is judged (a rejected call does not hide the calls after it); bad collects
\* <<index of the event, failing clause / shape>>
TNext == /\ l <= Len(Traces[tid])
         /\ bad' = bad \cup { <<l, s>> : s \in EvWhy(Ev) }
         /\ l' = l + 1
         /\ UNCHANGED <<tid, T, R, dirs, files, gi>>
Min(S) == CHOOSE x \in S : \A y \in S : x <= y
TVerdict ==
  IF l = Len(Traces[tid]) + 1
  THEN (IF bad = {} THEN PrintT(<<"ACCEPT", tid>>)
        ELSE PrintT(<<"REJECT", tid, Min({b[1] : b \in bad}), ToJson(bad)>>))   \* one line, whatever its size
  ELSE TRUE
=============================================================================
