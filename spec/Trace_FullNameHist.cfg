INIT TInit
NEXT TNext
CONSTRAINT Verdict
CHECK_DEADLOCK FALSE
