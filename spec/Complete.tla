--------------------------- MODULE Complete ---------------------------
(* C04 -- completions extend what is typed, are ordered, unique and complete.

   Text is Seq(Nat): code points.  In the bounded model the alphabet is
   a=97 b=98 A=65 B=66 _=95 and '='=61 (keyword-parameter symbol).

   Reference  = the sentences of the property (StartsCI / Subseq / Suffix /
                documented order / uniqueness / attribute completeness).
   Design     = what jedi does: helpers.match/_fuzzy_match, completion.filter_names
                (lower-casing, de-dup on (name, complete)), the sorted() key of
                Completion.complete, classes.Completion._complete (name[like_len:]),
                complete=None when fuzzy, get_completion_prefix_length.
   TLC checks Design |= Reference for every case of the bounded space; the
   harness replays emitted cases into the real code (spec->code) and
   Trace_Complete.tla judges recorded complete() calls (code->spec).          *)
EXTENDS Naturals, Sequences, FiniteSets, TLC, Json

---------------------------------------------------------------------------
(* Text operators *)
Lower(c)      == IF c \in 65..90 THEN c + 32 ELSE c
LowerS(s)     == [i \in 1..Len(s) |-> Lower(s[i])]
StartsWith(s, p) == Len(p) <= Len(s) /\ \A i \in 1..Len(p) : s[i] = p[i]
Drop(s, n)    == IF n >= Len(s) THEN <<>> ELSE SubSeq(s, n + 1, Len(s))
US == 95

\* strict lexicographic order on sequences of naturals (Python str compare)
RECURSIVE LexLess(_, _)
LexLess(s, t) ==
  IF s = <<>> THEN t # <<>>
  ELSE IF t = <<>> THEN FALSE
  ELSE IF s[1] # t[1] THEN s[1] < t[1]
  ELSE LexLess(Tail(s), Tail(t))
LexLeq(s, t) == s = t \/ LexLess(s, t)

---------------------------------------------------------------------------
(* Reference *)

\* frag is a subsequence of s (the textbook definition: an increasing embedding)
RECURSIVE Subseq(_, _)
Subseq(s, frag) ==
  IF frag = <<>> THEN TRUE
  ELSE IF s = <<>> THEN FALSE
  ELSE (s[1] = frag[1] /\ Subseq(Tail(s), Tail(frag))) \/ Subseq(Tail(s), frag)

RefMatches(name, frag, fuzzy) ==
  IF fuzzy THEN Subseq(LowerS(name), LowerS(frag))
           ELSE StartsWith(LowerS(name), LowerS(frag))

\* documented order key: same-case prefix first, public, _private, __dunder, alphabetical (ci)
Bool2N(b) == IF b THEN 1 ELSE 0
IsDunder(n)  == Len(n) >= 2 /\ n[1] = US /\ n[2] = US
IsPrivate(n) == Len(n) >= 1 /\ n[1] = US
RefKey(name, frag) == <<Bool2N(~StartsWith(name, frag)), Bool2N(IsDunder(name)),
                        Bool2N(IsPrivate(name))>> \o LowerS(name)

\* A result item: [name, nws (name_with_symbols), complete (<<>> wrapped: <<s>> or <<>> for None), plen]
ItemOK(it, frag, fuzzy) ==
  /\ RefMatches(it.name, frag, fuzzy)
  /\ it.plen = Len(frag)
  /\ IF fuzzy THEN it.complete = <<>>
              ELSE it.complete = <<Drop(it.nws, Len(frag))>>

\* no (name, complete) pair twice; as a set cardinality so that TLC needs n log n comparisons
Unique(out) == Cardinality({<<out[i].name, out[i].complete>> : i \in 1..Len(out)}) = Len(out)
Ordered(out, frag) == \A i \in 1..Len(out) - 1 :
                        LexLeq(RefKey(out[i].name, frag), RefKey(out[i + 1].name, frag))

RefOK(out, frag, fuzzy) ==
  /\ \A i \in 1..Len(out) : ItemOK(out[i], frag, fuzzy)
  /\ Unique(out)
  /\ Ordered(out, frag)

\* names of the clauses that fail, for trace verdicts
Why(out, frag, fuzzy) ==
     (IF \E i \in 1..Len(out) : ~RefMatches(out[i].name, frag, fuzzy) THEN {"Extends"} ELSE {})
  \cup (IF \E i \in 1..Len(out) : out[i].plen # Len(frag) THEN {"PrefixLen"} ELSE {})
  \cup (IF \E i \in 1..Len(out) :
            out[i].complete # (IF fuzzy THEN <<>> ELSE <<Drop(out[i].nws, Len(frag))>>)
        THEN {"Suffix"} ELSE {})
  \cup (IF ~Unique(out) THEN {"Unique"} ELSE {})
  \cup (IF ~Ordered(out, frag) THEN {"Order"} ELSE {})

---------------------------------------------------------------------------
(* Design *)

\* helpers._fuzzy_match transcribed: greedy left-most search
Find(s, c) == IF \E i \in 1..Len(s) : s[i] = c
              THEN CHOOSE i \in 1..Len(s) : s[i] = c /\ \A j \in 1..(i - 1) : s[j] # c
              ELSE 0
Contains(s, p) == \E k \in 0..(Len(s) - Len(p)) : \A i \in 1..Len(p) : s[k + i] = p[i]
RECURSIVE FuzzyMatch(_, _)
FuzzyMatch(s, like) ==
  IF Len(like) <= 1 THEN Contains(s, like)
  ELSE LET pos == Find(s, like[1]) IN
       IF pos > 0 THEN FuzzyMatch(Drop(s, pos), Tail(like)) ELSE FALSE

DesignMatch(s, like, fuzzy) == IF fuzzy THEN FuzzyMatch(s, like) ELSE StartsWith(s, like)

\* a candidate name as produced by the filters: [name (string_name == public name), sym]
\* (sym: 61 for keyword parameters "name=", 0 otherwise; it is part of string_name)
Str(c) == IF c.sym = 0 THEN c.name ELSE Append(c.name, c.sym)

\* Deliberate deviation of the code, modelled as it is: a parameter whose name starts with
\* "__" is treated as positional-only (names.py get_kind), so "name=" is never proposed.
Proposed(c) == ~(c.sym # 0 /\ IsDunder(c.name))

DesignItem(c, like, fuzzy) ==
  [name |-> Str(c), nws |-> Str(c), plen |-> Len(like),
   complete |-> IF fuzzy THEN <<>> ELSE <<Drop(Str(c), Len(like))>>]

\* filter_names: walk the candidates in order; keep first of each (name, complete)
RECURSIVE Filter(_, _, _, _)
Filter(cands, like, fuzzy, seen) ==
  IF cands = <<>> THEN <<>>
  ELSE LET c  == Head(cands)
           it == DesignItem(c, like, fuzzy)
           k  == <<it.name, it.complete>>
       IN IF Proposed(c) /\ DesignMatch(LowerS(Str(c)), LowerS(like), fuzzy) /\ k \notin seen
          THEN <<it>> \o Filter(Tail(cands), like, fuzzy, seen \cup {k})
          ELSE Filter(Tail(cands), like, fuzzy, seen)

DesignKey(it, like) == <<Bool2N(~StartsWith(it.name, like)), Bool2N(IsDunder(it.name)),
                         Bool2N(IsPrivate(it.name))>> \o LowerS(it.name)

\* Python's sorted() is stable: insertion sort
RECURSIVE Insert(_, _, _)
Insert(sorted, it, like) ==
  IF sorted = <<>> THEN <<it>>
  ELSE IF LexLess(DesignKey(it, like), DesignKey(Head(sorted), like))
       THEN <<it>> \o sorted
       ELSE <<Head(sorted)>> \o Insert(Tail(sorted), it, like)
RECURSIVE StableSort(_, _)
StableSort(items, like) ==
  IF items = <<>> THEN <<>>
  ELSE Insert(StableSort(SubSeq(items, 1, Len(items) - 1), like), items[Len(items)], like)

DesignComplete(cands, like, fuzzy) == StableSort(Filter(cands, like, fuzzy, {}), like)

---------------------------------------------------------------------------
(* Attribute completeness (second sentence of the property).
   A receiver is an instance of class K(Base).  Each attribute name is defined in one
   of the places below; Reference: every one of them is an attribute the run-time
   object has (validated against dir() by the harness) and must be offered.
   Design: instance.get_filters = self-assignments in any method + class body + MRO.  *)
Places == {"init", "method", "cls", "clsfunc", "base", "baseinit"}
RefAttrs(where)    == DOMAIN where
DesignAttrs(where) == {n \in DOMAIN where : where[n] \in Places}

---------------------------------------------------------------------------
(* Bounded model: the state space is the input space. *)
CONSTANTS MaxCands, MaxFrag, EmitMod, EmitRem

Chars == {97, 98, 65, 66, 95}
a == 97  b == 98  A == 65  B == 66
Pool == { <<a,b>>, <<A,b>>, <<a,B>>, <<A,B>>, <<US,a,b>>, <<US,US,a,b>>, <<US,US,a,b,US,US>>,
          <<a,b,a>>, <<a,A,b>>, <<b>>, <<b,a>>, <<a>>, <<US>>, <<B,a,b>> }
Syms == {0, 61}

Frags == UNION { [1..n -> Chars] : n \in 0..MaxFrag }
\* candidate lists: sequences (order = filter order), duplicates allowed
CandSeqs == UNION { [1..n -> [name : Pool, sym : Syms]] : n \in 0..MaxCands }

VARIABLES cands, frag, fuzzy
vars == <<cands, frag, fuzzy>>

\* The case space is built by actions (a program being written, then a fragment being
\* typed), so that TLC's workers share the enumeration.
Init == cands = <<>> /\ frag = <<>> /\ fuzzy \in BOOLEAN
AddCand(c)   == /\ frag = <<>> /\ Len(cands) < MaxCands
                /\ cands' = Append(cands, c) /\ UNCHANGED <<frag, fuzzy>>
TypeChar(ch) == /\ Len(frag) < MaxFrag
                /\ frag' = Append(frag, ch) /\ UNCHANGED <<cands, fuzzy>>
Next == (\E c \in [name : Pool, sym : Syms] : AddCand(c)) \/ (\E ch \in Chars : TypeChar(ch))

Out == DesignComplete(cands, frag, fuzzy)

DesignMeetsReference == RefOK(Out, frag, fuzzy)
\* nothing that should match is lost (complete w.r.t. the candidate list)
NothingLost == \A i \in 1..Len(cands) :
                 (Proposed(cands[i]) /\ RefMatches(Str(cands[i]), frag, fuzzy)) =>
                   \E j \in 1..Len(Out) : Out[j].name = Str(cands[i])
\* greedy fuzzy matching is exactly the subsequence relation
FuzzyIsSubseq == \A n \in Pool : FuzzyMatch(LowerS(n), LowerS(frag)) = Subseq(LowerS(n), LowerS(frag))

\* emission of cases for replay (a deterministic slice selected by the cfg)
RECURSIVE SumSeq(_)
SumSeq(s) == IF s = <<>> THEN 0 ELSE s[1] + 3 * SumSeq(Tail(s))
RECURSIVE CandNo(_)
CandNo(cs) == IF cs = <<>> THEN 0 ELSE SumSeq(cs[1].name) + cs[1].sym + 7 * CandNo(Tail(cs))
CaseNo == CandNo(cands) + 5 * SumSeq(frag) + Bool2N(fuzzy)
Emit == (CaseNo % EmitMod = EmitRem) =>
          PrintT(<<"CASE", ToJson([cands |-> cands, frag |-> frag, fuzzy |-> fuzzy, out |-> Out])>>)
=============================================================================
