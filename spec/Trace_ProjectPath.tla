------------------------ MODULE Trace_ProjectPath ------------------------
(* Code -> spec for C20.  Every recorded observation of the real jedi is judged against the
   Reference clauses of ProjectPath.tla.  A trace is a list of events:

   t = "case":  one Project + Script scenario
      args     [path : Arg, envp : <<>>|<<Arg>>, sysp : <<>>|<<Seq(Arg)>>, added : Seq(Arg), smart, unsafe]
               the constructor arguments (spellings, see ProjectPath.tla)
      explicit BOOLEAN; env = the environment's sys.path (strings) when not explicit
      script   <<>> | <<comps of the script file>>;  initDirs = directories holding __init__.py
      p        attributes of the constructed project, as observed
      rt       <<>> | <<[save, load, q]>>   outcome of save() / load() and the loaded attributes
      R0,R1,R2 get_sys_path(), get_sys_path(add_init_paths=True), get_sys_path(add_parent_paths=False)
      wins     Seq([h : Seq(comps) directories a module was planted in, w : <<>>|<<comps>> where
               `import m` + infer landed])
   t = "disc":  get_default_project on a directory chain
      chain    Seq([json, init, django, marker]) from the start directory upwards
      res      [idx, how]  which directory became the project, "load" when it carries the saved settings *)
EXTENDS Naturals, Sequences, FiniteSets, TLC, Json, IOUtils

CONSTANTS MaxSys, MaxAdded, MaxDepth, MaxChain, SysIdx, AddedIdx, EmitMod, EmitRem, FixEnvPath, FixRelProject
VARIABLES phase, form, smart, explicit, base, added, envp, unsafe, kind, inits
INSTANCE ProjectPath

Traces == JsonDeserialize(IOEnv.TRACE_FILE)
VARIABLES tid, l

TInit == /\ tid \in 1..Len(Traces) /\ l = 1
         /\ phase = "trace" /\ form = 1 /\ smart = TRUE /\ explicit = FALSE /\ base = <<>> /\ added = <<>>
         /\ envp = 1 /\ unsafe = FALSE /\ kind = "none" /\ inits = <<>>
Ev == Traces[tid][l]

InOf(ev) == [proj |-> Denotes(ev.args.path.sp), smart |-> ev.args.smart, explicit |-> ev.explicit,
             given |-> IF ev.explicit THEN MapStr(ev.args.sysp[1]) ELSE ev.env,
             added |-> MapStr(ev.args.added), script |-> ev.script, inits |-> SetOf(ev.initDirs)]

\* what the constructor is documented to store: the settings as given (lists as lists of str)
C_Constructed(ev) ==
  /\ SameDir(ev.p.path, ev.args.path.sp)
  /\ ev.p.sysp = (IF ev.args.sysp = <<>> THEN <<>> ELSE <<MapStr(ev.args.sysp[1])>>)
  /\ ev.p.added = MapStr(ev.args.added)
  /\ ev.p.smart = ev.args.smart /\ ev.p.unsafe = ev.args.unsafe
  /\ SameEnvp(ev.p.envp, ev.args.envp)

WhyRT(ev)  == IF ev.rt = <<>> THEN {} ELSE WhyRoundTrip(ev.p, ev.rt[1])
\* the settings belong to the caller: creating Scripts and asking queries does not change them, and a project saved AFTER
\* it was used loads back with the constructor's settings (p2 / rt2: observed after all Scripts of the case)
WhyUse(ev) == (IF ev.p2 # <<>> /\ ev.p2[1] # ev.p THEN {"SettingsChangedByUse"} ELSE {})
              \cup (IF ev.rt2 = <<>> THEN {} ELSE {"AfterUse:" \o x : x \in WhyRoundTrip(ev.p, ev.rt2[1])})
WhyImp(ev) == LET inn == InOf(ev) IN
     (IF \E k \in 1..Len(ev.wins) : ~C_ImportHead(ev.wins[k].w, inn, SetOf(ev.wins[k].h))
      THEN {"ImportHead"} ELSE {})
  \cup (IF \E k \in 1..Len(ev.wins) : ~C_ImportAnc(ev.wins[k].w, inn, SetOf(ev.wins[k].h))
        THEN {"ImportAncestor"} ELSE {})
  \cup (IF \E k \in 1..Len(ev.wins) : ~C_ImportUsesPath(ev.wins[k].w, ev.R1, SetOf(ev.wins[k].h))
        THEN {"ImportUsesPath"} ELSE {})

WhyCase(ev) == LET inn == InOf(ev) IN
  [ctor |-> IF C_Constructed(ev) THEN {} ELSE {"Constructed"},
   rt   |-> WhyRT(ev),
   use  |-> WhyUse(ev),
   r0   |-> WhySysPath(ev.R0, inn, TRUE, FALSE),
   r1   |-> WhySysPath(ev.R1, inn, TRUE, TRUE),
   r2   |-> WhySysPath(ev.R2, inn, FALSE, FALSE),
   imp  |-> WhyImp(ev)]
CaseOK(ev) == LET w == WhyCase(ev) IN
  w.ctor = {} /\ w.rt = {} /\ w.use = {} /\ w.r0 = {} /\ w.r1 = {} /\ w.r2 = {} /\ w.imp = {}

EventOK(ev) == IF ev.t = "disc" THEN RefDiscoverOK(ev.chain, ev.res) ELSE CaseOK(ev)
WhyEv(ev)   == IF ev.t = "disc" THEN [disc |-> {"Discover"}] ELSE WhyCase(ev)

TNext == /\ l <= Len(Traces[tid])
         /\ EventOK(Ev) = TRUE
         /\ l' = l + 1
         /\ UNCHANGED <<tid, phase, form, smart, explicit, base, added, envp, unsafe, kind, inits>>
Verdict ==
  IF l = Len(Traces[tid]) + 1 THEN PrintT(<<"ACCEPT", tid>>)
  ELSE EventOK(Ev) \/ PrintT(<<"REJECT", tid, l, ToJson(WhyEv(Ev))>>)   \* one line: a record of clause-name sets
=============================================================================
