INIT TInit
NEXT TNext
CONSTANTS
  MaxItems = 0
  MaxDepth = 0
  MaxScopes = 0
  MaxExtras = 0
  Units = {4}
  EmitMod = 1
  EmitRem = 0
  Fixed = {"AsyncColumn", "DedentCont", "LambdaInClass", "CompWhile"}
  MaxNest = 0
  NestKinds = {}
  Plain = FALSE
CONSTRAINT Verdict
CHECK_DEADLOCK FALSE
