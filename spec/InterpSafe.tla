--------------------------- MODULE InterpSafe ---------------------------
(* C13 -- Interpreter reflects the live objects; safe mode runs no user descriptors.

   The bounded state space is the input space of the property: an *object shape*
   (how a live object placed in an Interpreter namespace is built), an *expression
   form* reaching it, a *query*, and the mode (settings.allow_unsafe_interpreter_executions).
   Three families of cases ("model"):

     attr   one attribute `a` of an instance k / its class K: present in the instance
            __dict__, in the class or a base class (as plain value, function, property,
            annotated property, user descriptor object whose type defines any of the 7
            non-empty subsets of {__get__, __set__, __delete__}, staticmethod, classmethod,
            slot member, class-with-__get__), on the metaclass (plain, function, property,
            the same 7 user descriptor kinds); every descriptor kind is crossed with the
            presence of a same-named entry in the instance __dict__ (receiver k) / in the
            class body (receiver K, descriptor on the metaclass); class hooks __getattr__ /
            __getattribute__; forms  k. | k.a | k.a. | k.a( | infer/goto/help on k.a  (and K...).
     proto  user protocol methods SUBSET {__getitem__,__iter__,__next__,__call__,__len__,
            __bool__} on a class deriving from object or list; forms k[0]. k(). for/unpack,
            if/or/not, next(k). len(k). k.
     path   x.b['k'][1]... : nested holders (instance of a user class / dict / list / tuple /
            list subclass) ending in a leaf object; forms infer and `.` completion.

   Reference  = CPython's attribute lookup (PyLookup: object.__getattribute__ and
                type.__getattribute__), dir(), bool()/iter()/[] semantics, and the three
                sentences of the property (SafeNoExec, NamesSupersetDir, InferPlainExact).
                The harness validates these operators against CPython on every emitted case.
   Design     = transcription of jedi/inference/compiled/getattr_static.py:getattr_static,
                access.py:is_allowed_getattr / getattr_paths / py__simple_getitem__ /
                py__getitem__all_values / has_iter / py__iter__list / py__bool__ /
                ALLOWED_GETITEM_TYPES / ALLOWED_DESCRIPTOR_ACCESS,
                value.py:CompiledValueFilter.get/_get/values, CompiledName.api_type,
                mixed.py:MixedObject routing / MixedName.infer / _create.
   Deviations of the code from the Reference are modelled as they are and named D1..D7;
   the constant Fixed selects which of them are modelled as repaired (Fixed = {} is the
   unchanged tree, Fixed = AllDev is the tree with every proposed patch).                 *)
EXTENDS Naturals, Sequences, FiniteSets, TLC, Json

CONSTANTS MaxPath,      \* maximal number of holders in a path case
          EmitMod, EmitRem,
          Fixed         \* subset of AllDev modelled as repaired

AllDev == {"D1", "D2", "D3", "D4", "D5", "D6", "D7"}
(* D1  getattr_static reports a hit on the *metaclass* (receiver is a class) with
       is_get_descriptor = FALSE, so a property / descriptor on the metaclass is executed
       by getattr() in safe mode                                  (getattr_static.py, tail)
   D2  getattr_static ignores that a *data descriptor on the metaclass* has priority over
       the class's own attribute of the same name (type.__getattribute__), so K.a with a
       harmless class attribute runs the metaclass descriptor's __get__
   D3  DirectObjectAccess.has_iter calls iter(obj) -> user __iter__ (no safe gate)
   D4  DirectObjectAccess.py__bool__ calls bool(obj) -> user __bool__/__len__ (no safe gate)
   D5  py__getitem__all_values iterates any *subclass* of list/tuple (isinstance instead of
       the exact-type gate) -> user __iter__ of a list subclass, reached in safe mode when
       py__simple_getitem__ has refused the subclass
   D6  MixedName.infer returns the empty set for a function-valued attribute that the
       source of the class does not define (dynamic attribute holding a function)
   D7  CompiledValue.get_signatures -> _parse_function_doc -> DirectObjectAccess.py__doc__ =
       inspect.getdoc(obj): for a function / bound method without a docstring CPython's
       inspect._finddoc does a real getattr(C, name) on the class of the method and on every
       class of its MRO, i.e. type.__getattribute__, which runs a property / user data
       descriptor of the same name on the *metaclass* (`k.a(` in safe mode)                *)

---------------------------------------------------------------------------
(* Vocabulary *)
\* user descriptor objects, by the protocol methods their type defines:
\*   nddesc {get}   setonly {set}   delonly {delete}   ddesc {get,set}   gddesc {get,delete}
\*   sddesc {set,delete}   gsddesc {get,set,delete}
ClsKinds  == <<"none", "plain", "func", "prop", "propann", "ddesc", "nddesc", "setonly",
               "static", "clsm", "slot", "dcls", "delonly", "gddesc", "sddesc", "gsddesc">>
MetaKinds == <<"none", "plain", "func", "prop", "ddesc", "nddesc", "setonly", "delonly",
               "gddesc", "sddesc", "gsddesc">>
Hooks     == <<"none", "getattr", "getattribute">>
Protos    == <<"getitem", "iter", "next", "call", "len", "bool">>
Holders   == <<"inst", "dict", "list", "tuple", "lsub">>
Leaves    == <<"int", "str", "float", "none", "bytes", "list", "dict", "tuple", "inst", "func", "cls">>
AttrForms == <<"dot", "dot_type", "attr_c", "attr_dot", "infer", "goto", "help", "sig">>
ProtoForms == <<"dot", "item", "item_i", "call", "call_sig", "for", "unpack", "if", "or", "not",
                "next", "len">>
PathForms == <<"infer", "dot">>
Range(s) == {s[i] : i \in 1..Len(s)}
Idx(s, x) == CHOOSE i \in 1..Len(s) : s[i] = x

\* tags logged by the user-defined special methods of the rendered objects
Judged == {"prop", "dget", "ndget", "gdget", "gsdget", "mprop", "mdget", "mndget", "mgdget", "mgsdget",
           "getitem", "iter", "next", "call", "len", "bool"}

---------------------------------------------------------------------------
(* Reference, part 1: what CPython does  (validated against CPython by the harness) *)

\* The object vocabulary: which descriptor protocol methods type(attr) defines
\* (property and member_descriptor define all three; functions, staticmethod, classmethod only __get__)
Methods(k) == CASE k \in {"func", "static", "clsm", "nddesc"} -> {"get"}
              [] k \in {"prop", "propann", "slot", "gsddesc"} -> {"get", "set", "delete"}
              [] k = "ddesc" -> {"get", "set"}
              [] k = "gddesc" -> {"get", "delete"}
              [] k = "setonly" -> {"set"}
              [] k = "delonly" -> {"delete"}
              [] k = "sddesc" -> {"set", "delete"}
              [] OTHER -> {}
\* Python data model: a descriptor with __get__ is a *data* descriptor iff it defines __set__ OR
\* __delete__ (CPython: tp_descr_set is filled by either); data descriptors on the type take
\* priority over the instance __dict__ (over the class's own MRO for a class receiver)
HasGet(k) == "get" \in Methods(k)
IsData(k) == Methods(k) \cap {"set", "delete"} # {}
\* user code run when the descriptor's __get__ is invoked with an instance
GetTag(k)  == CASE k \in {"prop", "propann"} -> {"prop"} [] k = "ddesc" -> {"dget"}
              [] k = "nddesc" -> {"ndget"} [] k = "gddesc" -> {"gdget"} [] k = "gsddesc" -> {"gsdget"}
              [] OTHER -> {}
\* ... with instance None (access through the class): property.__get__(None, K) returns the
\* property object and runs nothing; user descriptors run
GetTagViaClass(k) == CASE k = "ddesc" -> {"dget"} [] k = "nddesc" -> {"ndget"}
                     [] k = "gddesc" -> {"gdget"} [] k = "gsddesc" -> {"gsdget"} [] OTHER -> {}
MetaTag(k) == CASE k = "prop" -> {"mprop"} [] k = "ddesc" -> {"mdget"}
              [] k = "nddesc" -> {"mndget"} [] k = "gddesc" -> {"mgdget"} [] k = "gsddesc" -> {"mgsdget"}
              [] OTHER -> {}

\* class name of the object the lookup yields ("other": functions, bound methods, descriptor
\* objects, classes: presence is compared, not the name)
InstVal(k) == CASE k = "plain" -> "str" [] k = "prop" -> "float" [] k = "propann" -> "bytes"
              [] k \in {"ddesc", "gddesc", "gsddesc"} -> "complex" [] k = "nddesc" -> "bytearray"
              [] k = "slot" -> "list" [] OTHER -> "other"
ClsVal(k)  == CASE k = "plain" -> "str" [] k \in {"ddesc", "gddesc", "gsddesc"} -> "complex"
              [] k = "nddesc" -> "bytearray" [] OTHER -> "other"
MetaVal(k) == CASE k = "plain" -> "frozenset" [] k = "prop" -> "tuple"
              [] k \in {"ddesc", "gddesc", "gsddesc"} -> "set"
              [] k = "nddesc" -> "dict" [] OTHER -> "other"

\* getattr(k, 'a') / getattr(K, 'a'):  [where the value comes from, user code run, class of value]
PyLookup(s) ==
  IF s.recv = "inst" THEN
    \* object.__getattribute__: data descriptor on type > instance dict > non-data descriptor /
    \* class attribute > __getattr__
    IF HasGet(s.ck) /\ IsData(s.ck) THEN [where |-> "cls", exec |-> GetTag(s.ck), val |-> InstVal(s.ck)]
    ELSE IF s.inst THEN [where |-> "inst", exec |-> {}, val |-> "int"]
    ELSE IF s.ck # "none" THEN [where |-> "cls", exec |-> GetTag(s.ck), val |-> InstVal(s.ck)]
    ELSE IF s.hook = "getattr" THEN [where |-> "hook", exec |-> {}, val |-> "range"]
    ELSE [where |-> "none", exec |-> {}, val |-> "none"]
  ELSE
    \* type.__getattribute__: data descriptor on metatype > class MRO (its __get__(None, K)) >
    \* non-data descriptor / attribute on metatype
    IF HasGet(s.mk) /\ IsData(s.mk) THEN [where |-> "meta", exec |-> MetaTag(s.mk), val |-> MetaVal(s.mk)]
    ELSE IF s.ck # "none" THEN [where |-> "cls", exec |-> GetTagViaClass(s.ck), val |-> ClsVal(s.ck)]
    ELSE IF s.mk # "none" THEN [where |-> "meta", exec |-> MetaTag(s.mk), val |-> MetaVal(s.mk)]
    ELSE [where |-> "none", exec |-> {}, val |-> "none"]

\* 'a' in dir(receiver): instance dict and class MRO; never the metaclass
InDir(s) == (s.recv = "inst" /\ s.inst) \/ s.ck # "none"

\* bool(k), iter(k), k[0] on an instance of a class deriving from object / list
PyBoolExec(s) == IF "bool" \in s.protos THEN {"bool"} ELSE IF "len" \in s.protos THEN {"len"} ELSE {}
PyIterExec(s) == IF "iter" \in s.protos THEN {"iter"} ELSE {}
PyItemExec(s) == IF "getitem" \in s.protos THEN {"getitem"} ELSE {}

---------------------------------------------------------------------------
(* Design: attribute access *)

\* access.ALLOWED_DESCRIPTOR_ACCESS: type(attr) in (FunctionType, GetSetDescriptorType,
\* MemberDescriptorType, ..., staticmethod, classmethod)
AllowedDescr(k) == k \in {"func", "static", "clsm", "slot"}

\* getattr_static._safe_hasattr(attr, '__get__'): _check_class(type(attr), '__get__') is not _sentinel
SafeHasGet(k) == "get" \in Methods(k)
\* getattr_static._safe_is_data_descriptor(attr):
\*   _safe_hasattr(attr, '__set__') or _safe_hasattr(attr, '__delete__')
SafeIsDataDescr(k) == IF "set" \in Methods(k) THEN TRUE ELSE "delete" \in Methods(k)

\* getattr_static(obj, 'a') -> [hit, isget, kind]
GetattrStatic(s, F) ==
  LET instRes == s.recv = "inst" /\ s.inst      \* _check_instance (only when not _is_type(obj))
      clsRes  == s.ck # "none"                  \* _check_class(klass, attr) over the MRO
  IN IF instRes /\ clsRes /\ SafeHasGet(s.ck) /\ SafeIsDataDescr(s.ck)
       THEN [hit |-> "cls", isget |-> TRUE, kind |-> s.ck]        \* data descriptor has priority over the instance dict
     ELSE IF s.recv = "cls" /\ "D2" \in F /\ SafeHasGet(s.mk) /\ SafeIsDataDescr(s.mk)
       THEN [hit |-> "meta", isget |-> TRUE, kind |-> s.mk]       \* repaired: metatype data descriptor first
     ELSE IF instRes THEN [hit |-> "inst", isget |-> FALSE, kind |-> "plain"]
     ELSE IF clsRes THEN [hit |-> "cls", isget |-> SafeHasGet(s.ck), kind |-> s.ck]
     ELSE IF s.recv = "cls" /\ s.mk # "none"
       THEN [hit |-> "meta", kind |-> s.mk,
             isget |-> IF "D1" \in F THEN SafeHasGet(s.mk) ELSE FALSE]  \* D1: `return entry.__dict__[attr], False`
     ELSE [hit |-> "none", isget |-> FALSE, kind |-> "none"]

\* DirectObjectAccess.is_allowed_getattr(name, safe) -> [has, isdesc, annot, exec]
IsAllowedGetattr(s, safe, F) ==
  LET g == GetattrStatic(s, F) IN
  IF g.hit = "none" THEN
    IF ~safe THEN LET p == PyLookup(s) IN                       \* hasattr(obj, name): real lookup
                  [has |-> p.where # "none", isdesc |-> FALSE, annot |-> FALSE, exec |-> p.exec]
             ELSE [has |-> FALSE, isdesc |-> FALSE, annot |-> FALSE, exec |-> {}]
  ELSE IF g.isget /\ ~AllowedDescr(g.kind)
    THEN [has |-> TRUE, isdesc |-> TRUE, annot |-> g.kind = "propann", exec |-> {}]
  ELSE [has |-> TRUE, isdesc |-> FALSE, annot |-> FALSE, exec |-> {}]

\* CompiledValueFilter.get(name) -> _get(..., check_has_attribute=True): kind of name produced
\*   "annot" CompiledValueName of the executed return annotation, "none" [], "empty"
\*   EmptyCompiledName, "real" CompiledName (MixedName around it for a MixedObject)
FilterGet(s, F) ==
  LET safe == s.mode = "safe"
      a == IsAllowedGetattr(s, safe, F)
  IN [kind |-> IF a.annot THEN "annot"
               ELSE IF ~a.has THEN "none"
               ELSE IF (a.isdesc \/ ~a.has) /\ safe THEN "empty"
               ELSE "real",
      isdesc |-> a.isdesc, exec |-> a.exec]

\* CompiledValueFilter.values(): dir_infos are computed with safe=True in both modes
FilterValues(s, F) ==
  IF ~InDir(s) THEN [kind |-> "absent", isdesc |-> FALSE]
  ELSE LET a == IsAllowedGetattr(s, TRUE, F) IN
       [kind |-> IF a.annot THEN "annot"
                 ELSE IF (a.isdesc \/ ~a.has) /\ s.mode = "safe" THEN "empty"
                 ELSE "real",
        isdesc |-> a.isdesc]

\* py__doc__ of the value found for `k.a` = inspect.getdoc(value) [D7]: a bound method (function,
\* classmethod) -> _finddoc: getattr(K, 'a') for K and every base; a staticmethod is a bare function ->
\* _findclass resolves K through sys.modules[__module__] and __qualname__ (only a class of a real module,
\* and only the class whose body defines it), then getattr(K, 'a').  getattr on the class runs a
\* data descriptor of the metaclass (PyLookup of the class receiver).
DocExec(s, F) ==
  IF "D7" \in F THEN {}
  ELSE IF /\ s.recv = "inst" /\ PyLookup(s).where = "cls"
          /\ (s.ck \in {"func", "clsm"} \/ (s.ck = "static" /\ s.cw = "own" /\ s.src = "file"))
       THEN LET viaClass == PyLookup([s EXCEPT !.recv = "cls", !.inst = FALSE])
            IN IF viaClass.where = "meta" THEN viaClass.exec ELSE {}
       ELSE {}

\* user code run by one attribute query
AttrExec(s, F) ==
  LET n == FilterGet(s, F)
      real == PyLookup(s).exec          \* create_from_name -> getattr_paths -> getattr(obj, name)
  IN CASE s.form \in {"dot", "attr_c"} -> {}
     [] s.form = "dot_type" ->          \* Completion.type -> CompiledName.api_type
          LET v == FilterValues(s, F) IN IF v.kind = "real" /\ ~v.isdesc THEN real ELSE {}
     [] s.form \in {"infer", "attr_dot"} -> n.exec \cup (IF n.kind = "real" THEN real ELSE {})
     \* `r.a(` get_signatures: infers r.a, then value.get_signatures(): inspect.signature + py__doc__
     [] s.form = "sig" -> n.exec \cup (IF n.kind = "real" THEN real \cup DocExec(s, F) ELSE {})
     [] OTHER ->                        \* goto / help (+ Name.type read by the harness):
          \* MixedName.start_pos infers when the receiver is a MixedObject (class source
          \* available); CompiledName.api_type infers unless is_descriptor
          n.exec \cup (IF n.kind = "real" /\ (s.src = "file" \/ ~n.isdesc) THEN real ELSE {})

\* class name reported by infer on `r.a`
AttrRes(s, F) ==
  LET n == FilterGet(s, F) IN
  IF n.kind = "annot" THEN "bytes"
  ELSE IF n.kind = "real" THEN PyLookup(s).val
  \* instance.py py__getattribute__alternatives: the tree instance analyses the *source* of
  \* __getattr__ (no execution) when the filters gave nothing
  ELSE IF s.src = "file" /\ s.recv = "inst" /\ s.hook = "getattr" THEN "range"
  ELSE "none"

\* is the name `a` offered after `r.` ?
AttrOffered(s, F) == FilterValues(s, F).kind # "absent"

---------------------------------------------------------------------------
(* Design: protocols *)
\* exact builtin container type (access.ALLOWED_GETITEM_TYPES, compared with `type(obj) in`):
\* instances of user classes never are, not even subclasses of list
ProtoExec(s, F) ==
  IF s.src = "file" THEN {}      \* MixedObject: py__iter__/py__bool__/py__getitem__ of the *tree* instance
  ELSE CASE s.form \in {"for", "unpack"} ->
              \* CompiledValue.py__iter__: has_iter() = iter(obj) [D3]; py__iter__list stops at the
              \* ALLOWED_GETITEM_TYPES gate
              IF "D3" \in F THEN {} ELSE PyIterExec(s)
         [] s.form \in {"if", "or", "not"} ->
              \* flow_analysis._check_if / infer_or_test / infer_factor -> py__bool__ = bool(obj) [D4]
              IF "D4" \in F THEN {} ELSE PyBoolExec(s)
         [] s.form \in {"item", "item_i"} ->
              IF s.mode = "unsafe" THEN PyItemExec(s)            \* py__simple_getitem__(safe=False): obj[index]
              ELSE IF s.base = "list" /\ "D5" \notin F
                   THEN PyIterExec(s)   \* safe: refused, then py__getitem__all_values: isinstance(list) -> for v in obj [D5]
                   ELSE {}
         [] OTHER -> {}          \* k(). / k( : getattr_paths('__call__') only binds the method; next()/len(): no stubs

ProtoRes(s, F) ==
  IF s.form # "item_i" THEN "na"
  ELSE IF s.src = "file" THEN (IF "getitem" \in s.protos THEN "float" ELSE "none")   \* static analysis of `return 1.5`
  ELSE IF s.mode = "unsafe" THEN (IF "getitem" \in s.protos THEN "float" ELSE IF s.base = "list" THEN "int" ELSE "none")
  ELSE IF s.base = "list" THEN (IF "D5" \in F THEN "none" ELSE IF "iter" \in s.protos THEN "bytes" ELSE "int")
  ELSE "none"

---------------------------------------------------------------------------
(* Design: paths.  A value is represented as a MixedObject ("mixed": compiled object + tree
   value from the class source) or a bare CompiledValue ("compiled").                       *)
\* mixed._create: objects whose class source is found become MixedObjects, dict/list/tuple stay compiled
FileBacked(kind) == kind \in {"inst", "lsub", "func", "cls"}
RECURSIVE Walk(_, _, _, _, _)
\* Walk(holders, i, wrap, s, F) -> "exact" | "union" | "none": outcome of inferring the path suffix from holder i
Walk(hs, i, wrap, s, F) ==
  LET h == hs[i]
      nxt == IF i = Len(hs) THEN s.leaf ELSE hs[i + 1]
      cont(w) == IF i = Len(hs) THEN "exact" ELSE Walk(hs, i + 1, w, s, F)
  IN CASE h = "inst" ->
            \* CompiledValueFilter.get: instance-dict hit, not a descriptor -> real name -> getattr
            IF wrap = "mixed"
            THEN IF nxt = "func" /\ "D6" \notin F THEN "none"       \* MixedName.infer: tree lookup of a dynamic attribute is empty [D6]
                 ELSE cont(IF FileBacked(nxt) THEN "mixed" ELSE "compiled")
            ELSE cont("compiled")
       [] h \in {"dict", "list", "tuple"} -> cont("compiled")        \* py__simple_getitem__: exact builtin type -> obj[index]
       [] OTHER ->  \* "lsub": only as last holder
            IF wrap = "mixed" THEN "none"                             \* tree value of the subclass; nothing without stubs
            ELSE IF s.mode = "unsafe" THEN "exact"
            \* safe: refused -> py__getitem__all_values: all items of the subclass [D5: isinstance gate]
            ELSE IF "D5" \in F THEN "none" ELSE "union"
PathRes(s, F) ==
  Walk(s.path, 1, IF s.src = "file" /\ FileBacked(s.path[1]) THEN "mixed" ELSE "compiled", s, F)

---------------------------------------------------------------------------
(* Design summary of a case *)
Exec(s, F)  == CASE s.model = "attr" -> AttrExec(s, F) [] s.model = "proto" -> ProtoExec(s, F) [] OTHER -> {}
Res(s, F)   == CASE s.model = "attr" -> (IF s.form = "infer" THEN AttrRes(s, F) ELSE "na")
               [] s.model = "proto" -> ProtoRes(s, F)
               [] OTHER -> PathRes(s, F)
\* all names of dir(receiver) offered after `r.` (the harness compares the whole of dir())
NamesOK(s, F) == CASE s.model = "attr" -> (InDir(s) => AttrOffered(s, F))
                 [] s.model = "path" -> PathRes(s, F) # "none"
                 [] OTHER -> TRUE
\* deviations that shape this case: repairing d changes the Design's answer
Dev(s) == {d \in AllDev \ Fixed :
             \/ Exec(s, Fixed) # Exec(s, Fixed \cup {d})
             \/ Res(s, Fixed) # Res(s, Fixed \cup {d})
             \/ NamesOK(s, Fixed) # NamesOK(s, Fixed \cup {d})}

---------------------------------------------------------------------------
(* Reference, part 2: the sentences of the property *)
\* (1) safe mode runs no getter / __get__ / protocol method
RefSafe(s, exec) == s.mode = "safe" => exec \cap Judged = {}
\* (2) names after `obj.` include dir(obj): judged on the boolean the harness measures
\* (3) a path of plain attributes and builtin-container items reports the class stored there
PlainAttrCase(s) == /\ s.model = "attr" /\ s.form = "infer"
                    /\ LET p == PyLookup(s) IN
                       /\ p.exec = {} /\ p.val \notin {"other", "none"}
                       /\ \/ p.where = "inst"
                          \/ p.where = "cls" /\ s.ck = "plain"
                          \/ p.where = "meta" /\ s.mk = "plain"
PlainPathCase(s) == s.model = "path" /\ \A i \in 1..Len(s.path) : s.path[i] # "lsub"
RefInfer(s, res) == /\ PlainAttrCase(s) => res = PyLookup(s).val
                    /\ (PlainPathCase(s) /\ s.form = "infer") => res = "exact"
RefNames(s, ok)  == (s.form \in {"dot", "dot_type"} /\ (s.model # "path" \/ PlainPathCase(s))) => ok

RefWhy(s, exec, res, ok) ==
     (IF ~RefSafe(s, exec) THEN {"SafeNoExec"} ELSE {})
  \cup (IF ~RefInfer(s, res) THEN {"InferPlainExact"} ELSE {})
  \cup (IF ~RefNames(s, ok) THEN {"NamesSupersetDir"} ELSE {})

---------------------------------------------------------------------------
(* Bounded model: the case is built field by field *)
VARIABLES c, st
vars == <<c, st>>

Blank == [model |-> "attr", recv |-> "inst", inst |-> FALSE, ck |-> "none", cw |-> "own",
          mk |-> "none", hook |-> "none", base |-> "object", protos |-> {}, path |-> <<>>,
          leaf |-> "int", src |-> "exec", mode |-> "safe", form |-> "dot"]

Init == /\ \E m \in {"attr", "proto", "path"} : c = [Blank EXCEPT !.model = m]
        /\ st = "start"

Set(field, dom, from, to) ==
  /\ st = from
  /\ \E v \in dom : c' = [c EXCEPT ![field] = v]
  /\ st' = to

Start == /\ st = "start" /\ c' = c
         /\ st' = CASE c.model = "attr" -> "recv" [] c.model = "proto" -> "base" [] OTHER -> "path"

\* attr
ChooseRecv == Set("recv", {"inst", "cls"}, "recv", "inst")
ChooseInst == Set("inst", IF c.recv = "inst" THEN BOOLEAN ELSE {FALSE}, "inst", "ck")
ChooseCk   == Set("ck", IF c.inst THEN Range(ClsKinds) \ {"slot"} ELSE Range(ClsKinds), "ck", "cw")
ChooseCw   == Set("cw", IF c.ck \in {"none", "slot"} THEN {"own"} ELSE {"own", "base"}, "cw", "mk")
ChooseMk   == Set("mk", Range(MetaKinds), "mk", "hook")
ChooseHook == Set("hook", Range(Hooks), "hook", "src")
\* proto
ChooseBase == Set("base", {"object", "list"}, "base", "protos")
AddProto   == /\ st = "protos"
              /\ \E p \in Range(Protos) :
                   /\ \A q \in c.protos : Idx(Protos, q) < Idx(Protos, p)    \* canonical order
                   /\ c' = [c EXCEPT !.protos = @ \cup {p}]
              /\ st' = st
EndProtos  == st = "protos" /\ c' = c /\ st' = "src"
\* path
AddHolder  == /\ st = "path" /\ Len(c.path) < MaxPath
              /\ \E h \in Range(Holders) \ {"lsub"} : c' = [c EXCEPT !.path = Append(@, h)]
              /\ st' = st
EndPath    == st = "path" /\ Len(c.path) >= 1 /\ c' = c /\ st' = "leaf"
\* a list subclass (not a builtin container: outside sentence 3) only as the last holder
EndPathSub == /\ st = "path" /\ Len(c.path) < MaxPath
              /\ c' = [c EXCEPT !.path = Append(@, "lsub")]
              /\ st' = "leaf"
ChooseLeaf == Set("leaf", Range(Leaves), "leaf", "src")
\* common tail
ChooseSrc  == Set("src", {"exec", "file"}, "src", "mode")
ChooseMode == Set("mode", {"safe", "unsafe"}, "mode", "form")
ChooseForm == Set("form", CASE c.model = "attr" -> Range(AttrForms) [] c.model = "proto" -> Range(ProtoForms)
                          [] OTHER -> Range(PathForms), "form", "done")

Next == \/ Start \/ ChooseRecv \/ ChooseInst \/ ChooseCk \/ ChooseCw \/ ChooseMk \/ ChooseHook
        \/ ChooseBase \/ AddProto \/ EndProtos \/ AddHolder \/ EndPath \/ EndPathSub \/ ChooseLeaf
        \/ ChooseSrc \/ ChooseMode \/ ChooseForm

Done == st = "done"

---------------------------------------------------------------------------
(* Invariants: Design |= Reference *)

\* strict: violated on the unchanged tree (Fixed = {}) by D1..D5, D7; holds with Fixed = AllDev
SafeNoExec == Done => RefSafe(c, Exec(c, Fixed))
InferPlainExact == Done => RefInfer(c, Res(c, Fixed))
NamesSupersetDir == Done => RefNames(c, NamesOK(c, Fixed))

\* on the tree as it is: every breach of the Reference is one of the named deviations, and
\* repairing the named deviations of a case removes the breach
OnlyKnownDeviations ==
  Done => (RefWhy(c, Exec(c, Fixed), Res(c, Fixed), NamesOK(c, Fixed)) # {} => Dev(c) # {})
RepairedMeetsReference ==
  Done => RefWhy(c, Exec(c, AllDev), Res(c, AllDev), NamesOK(c, AllDev)) = {}

\* the static lookup is what the safety argument rests on: whenever the (repaired) static
\* lookup lets the real getattr happen, CPython's lookup runs no user code
StaticLookupSound ==
  (Done /\ c.model = "attr") =>
     LET g == GetattrStatic(c, AllDev) IN
       (g.hit # "none" /\ (~g.isget \/ AllowedDescr(g.kind))) => PyLookup(c).exec \cap Judged = {}
\* the static lookup finds the attribute wherever CPython finds it without a hook, and in the same place
StaticLookupComplete ==
  (Done /\ c.model = "attr") =>
     LET g == GetattrStatic(c, AllDev)  p == PyLookup(c) IN
       /\ (p.where \in {"inst", "cls", "meta"}) = (g.hit # "none")
       /\ g.hit # "none" => g.hit = p.where
\* unsafe mode resolves whatever CPython resolves (the first half of the title)
UnsafeReflectsLive ==
  (Done /\ c.model = "attr" /\ c.form = "infer" /\ c.mode = "unsafe") =>
     LET p == PyLookup(c) IN p.where # "none" => AttrRes(c, Fixed) \in {p.val, "bytes"}

---------------------------------------------------------------------------
(* Emission of cases with the Design's prediction *)
RECURSIVE SeqNo(_, _)
SeqNo(s, tab) == IF s = <<>> THEN 0 ELSE Idx(tab, s[1]) + 7 * SeqNo(Tail(s), tab)
B2N(b) == IF b THEN 1 ELSE 0
CaseNo == Idx(ClsKinds, c.ck) + 13 * Idx(MetaKinds, c.mk) + 3 * Idx(Hooks, c.hook) + B2N(c.inst)
          + 5 * B2N(c.recv = "cls") + 2 * B2N(c.cw = "base") + 11 * B2N(c.src = "file")
          + 17 * B2N(c.mode = "safe") + 19 * B2N(c.base = "list")
          + 23 * Cardinality(c.protos) + 29 * B2N("iter" \in c.protos) + 31 * B2N("bool" \in c.protos)
          + 37 * SeqNo(c.path, Holders) + 41 * Idx(Leaves, c.leaf)
          + 43 * (CASE c.model = "attr" -> Idx(AttrForms, c.form) [] c.model = "proto" -> Idx(ProtoForms, c.form)
                  [] OTHER -> Idx(PathForms, c.form))
Pred(s) == [exec |-> Exec(s, Fixed), res |-> Res(s, Fixed), names_ok |-> NamesOK(s, Fixed),
            dev |-> Dev(s), py |-> IF s.model = "attr" THEN PyLookup(s) ELSE [where |-> "na", exec |-> {}, val |-> "na"],
            indir |-> IF s.model = "attr" THEN InDir(s) ELSE FALSE,
            offered |-> IF s.model = "attr" THEN AttrOffered(s, Fixed) ELSE FALSE,
            pyproto |-> [bool |-> PyBoolExec(s), iter |-> PyIterExec(s), item |-> PyItemExec(s)],
            why |-> RefWhy(s, Exec(s, Fixed), Res(s, Fixed), NamesOK(s, Fixed))]
Emit == (Done /\ CaseNo % EmitMod = EmitRem) => PrintT(<<"CASE", ToJson([c |-> c, pred |-> Pred(c)])>>)
=============================================================================
