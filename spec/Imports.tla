--------------------------- MODULE Imports ---------------------------
(* C10 -- import statements resolve to what Python's import system would load.

   One directory tree below the project directory L.  A directory is a path =
   sequence of names from L (<<>> is L itself, <<"rta">> / <<"rtb">> are the two
   root directories, <<"^">> stands for any directory above L).  `layout` maps the
   present node paths (length >= 2) to a kind; sys.path (`sp`) is a sequence of
   directories (roots, or a directory nested in a root); `pmode` says that the
   second root is really called "rtab" (a string prefix relation between roots).

   Reference = importlib (PathFinder/FileFinder precedence per path entry,
               namespace portions, walk over the dotted name, relative level
               arithmetic on __package__, `from a import b` = attribute else
               sub-module, failures).  Written from Python's rules.
   Design    = jedi: Script._get_module (transform_path_to_dotted, buffer put into
               module_cache), Importer.__init__ (level rewriting and the
               _level_to_base_import_path fallback), Importer.follow,
               import_module_by_names / import_module (+ the cache look-up of
               typeshed.import_module_decorator at every step), infer_import /
               goto_import (attribute, sub_modules_dict, fall-back Importer),
               ModuleMixin.star_imports.  Module discovery itself is delegated by
               jedi to the target interpreter's importlib (helper process), hence
               the Design uses the same PathFind as the Reference.
   Deviations of the code from the ideal are modelled as they are and named:
     SelfCache, ShortestDotted, StrVsPath, StrPrefix, GotoPhantom.              *)
EXTENDS Naturals, Sequences, FiniteSets, TLC, Json

CONSTANTS Names,        \* names of nodes below a root, e.g. {"pka","pkb"}
          AttrNames,    \* names defined as attributes by a "pkga" __init__
          MaxDepth,     \* depth of the trees below a root
          MaxNodes,     \* number of present nodes
          Kinds,        \* node kinds used by the builder
          Shapes,       \* sys.path shapes used by the builder
          MaxLevel,     \* relative import levels 1..MaxLevel
          MaxFromPath,  \* length of the dotted part of from-imports
          EmitMod, EmitRem

VARIABLES layout, sp, pmode, imp, phase
vars == <<layout, sp, pmode, imp, phase>>

---------------------------------------------------------------------------
(* Sequences *)
Front(s)      == SubSeq(s, 1, Len(s) - 1)
Last(s)       == s[Len(s)]
Drop(s, k)    == SubSeq(s, k + 1, Len(s))
IsPrefix(a, b) == Len(a) <= Len(b) /\ SubSeq(b, 1, Len(a)) = a
Range(s)      == {s[i] : i \in 1..Len(s)}

---------------------------------------------------------------------------
(* The tree.  Kinds:  mod   name.py
                      pkg   name/__init__.py
                      pkga  name/__init__.py that also defines every AttrNames as attribute
                      ns    name/                      (no __init__)
                      both  name.py and name/__init__.py
                      modns name.py and name/          (no __init__)               *)
HasDir(k)  == k \in {"pkg", "pkga", "ns", "both", "modns"}
HasInit(k) == k \in {"pkg", "pkga", "both"}
HasMod(k)  == k \in {"mod", "both", "modns"}
RootNames  == {"rta", "rtb"}
ScriptName == "zmain"

KindAt(p) == IF p \in DOMAIN layout THEN layout[p]
             ELSE IF p = <<>> \/ (Len(p) = 1 /\ p[1] \in RootNames) THEN "ns"
             ELSE IF p = <<ScriptName>> THEN "mod"
             ELSE "abs"

\* A file: d = containing directory, n = node name, init = it is n/__init__.py (else n.py)
File(d, n, init) == [d |-> d, n |-> n, init |-> init]
Script  == File(<<>>, ScriptName, FALSE)
FP(f)   == f.d \o <<f.n>>           \* path of the node the file belongs to
FilesOf == {File(Front(p), Last(p), FALSE) : p \in {q \in DOMAIN layout : HasMod(layout[q])}}
           \cup {File(Front(p), Last(p), TRUE) : p \in {q \in DOMAIN layout : HasInit(layout[q])}}
           \cup {Script}

\* Results (uniform records): t in none | file | attr | ns | phantom
R(t, d, n, init, dirs) == [t |-> t, d |-> d, n |-> n, init |-> init, dirs |-> dirs]
Nothing      == R("none", <<>>, "", FALSE, <<>>)
FileR(f)     == R("file", f.d, f.n, f.init, <<>>)
AttrR(f)     == R("attr", f.d, f.n, f.init, <<>>)
NsR(dirs)    == R("ns", <<>>, "", FALSE, dirs)
Phantom      == R("phantom", <<>>, "", FALSE, <<>>)
FileOfR(r)   == File(r.d, r.n, r.init)

\* names the parse tree of a file defines (besides `tag`)
TreeAttrs(f) == {"att"} \cup (IF f.init /\ KindAt(FP(f)) = "pkga" THEN AttrNames ELSE {})

---------------------------------------------------------------------------
(* importlib.machinery.PathFinder over a list of directories: per entry, a directory
   with __init__ is a package, else a module file is a module, else a directory is a
   namespace portion (collected, search continues).                               *)
RECURSIVE PF(_, _, _)
PF(entries, n, portions) ==
  IF entries = <<>> THEN (IF portions = <<>> THEN Nothing ELSE NsR(portions))
  ELSE LET e == Head(entries)
           k == KindAt(e \o <<n>>)
       IN IF HasInit(k) THEN FileR(File(e, n, TRUE))
          ELSE IF HasMod(k) THEN FileR(File(e, n, FALSE))
          ELSE IF HasDir(k) THEN PF(Tail(entries), n, Append(portions, e \o <<n>>))
          ELSE PF(Tail(entries), n, portions)
PathFind(entries, n) == PF(entries, n, <<>>)

---------------------------------------------------------------------------
(* Reference *)

\* __path__ of a found module; <<>> = not a package
SearchPath(m) == IF m.t = "ns" THEN m.dirs
                 ELSE IF m.t = "file" /\ m.init THEN << m.d \o <<m.n>> >>
                 ELSE <<>>

RECURSIVE PyWalk(_, _, _)
PyWalk(names, i, parent) ==
  IF i > Len(names) THEN parent
  ELSE LET found == IF i = 1 THEN PathFind(sp, names[1])
                    ELSE IF SearchPath(parent) = <<>> THEN Nothing
                    ELSE PathFind(SearchPath(parent), names[i])
       IN IF found.t = "none" THEN Nothing ELSE PyWalk(names, i + 1, found)
PyAbs(names) == PyWalk(names, 1, Nothing)

\* the dotted names under which Python can load file f from the configured sys.path
PyCands(f)  == {Drop(FP(f), Len(e)) : e \in {x \in Range(sp) : Len(x) < Len(FP(f)) /\ IsPrefix(x, FP(f))}}
RunNames(f) == {c \in PyCands(f) : PyAbs(c) = FileR(f)}
\* how the importer runs: as the module of one of its names, else as a script
Identities(f) ==
  IF RunNames(f) = {} THEN {[pkg |-> <<>>, names |-> <<>>]}
  ELSE {[pkg |-> IF f.init THEN c ELSE Front(c), names |-> c] : c \in RunNames(f)}

\* an answer: any = the property does not constrain jedi here; ok = acceptable results
Ans(any, ok, why) == [any |-> any, ok |-> ok, why |-> why]
Must(r, why)      == Ans(FALSE, {r}, why)
Free(why)         == Ans(TRUE, {}, why)

PyFrom(m, x, full, id, importer) ==
  LET sub == IF SearchPath(m) = <<>> THEN Nothing ELSE PathFind(SearchPath(m), x)
  IN IF m.t = "file" /\ x \in TreeAttrs(FileOfR(m)) /\ FileOfR(m) = importer
     THEN Free("SELF_ATTR")   \* a module importing its own attribute from itself: left open
     ELSE IF m.t = "file" /\ x \in TreeAttrs(FileOfR(m))
     THEN \* a sub-module that was already imported on the way to the importer has
          \* re-bound the attribute: import-history dependent, both are accepted
          IF sub.t # "none" /\ IsPrefix(full \o <<x>>, id.names)
          THEN Ans(FALSE, {AttrR(FileOfR(m)), sub}, "attr-or-loaded-submodule")
          ELSE Must(AttrR(FileOfR(m)), "attr")
     ELSE IF sub.t # "none" THEN Must(sub, "submodule")
     ELSE Must(Nothing, "IE_NAME")          \* ImportError: cannot import name

PyResolve(id, f, importer) ==
  IF f.lvl > 0 /\ id.pkg = <<>> THEN Free("IE_NOPARENT")
  ELSE IF f.lvl > Len(id.pkg) THEN Free("IE_BEYOND")
  ELSE LET full == IF f.lvl = 0 THEN f.path
                   ELSE SubSeq(id.pkg, 1, Len(id.pkg) - f.lvl + 1) \o f.path
           m    == PyAbs(full)
       IN IF m.t = "none" THEN Must(Nothing, "MNFE")
          ELSE IF f.k \in {"imp", "impas"} THEN Must(m, m.t)
          ELSE IF f.k = "from" THEN PyFrom(m, f.name, full, id, importer)
          ELSE \* star: the name `tag` afterwards (every file but the importer defines it)
               IF m.t = "file" /\ FileOfR(m) # importer THEN Must(AttrR(FileOfR(m)), "star-tag")
               ELSE Must(Nothing, "star-nothing")

SameR(j, r) == IF r.t = "ns" THEN j.t = "ns" /\ Range(j.dirs) = Range(r.dirs) ELSE j = r
Holds1(j, a) == a.any \/ \E r \in a.ok : SameR(j, r)
\* the property relation for one query
Holds(j, f, importer) == \E id \in Identities(importer) : Holds1(j, PyResolve(id, f, importer))

---------------------------------------------------------------------------
(* Design.  sw = switches that turn named deviations off (for attribution only):
   sw.selfcache  FALSE: the buffer is not put into module_cache
   sw.shortest   FALSE: the dotted name is one that imports back, if there is one   *)
AsIs == [selfcache |-> TRUE, shortest |-> TRUE]

\* sys_path.transform_path_to_dotted.  DEVIATION StrPrefix: `str(path).startswith(p)` is a
\* string prefix test, so root "rta" also matches files below "rtab" (rest "b/...").
StrRest(a, b) == IF pmode /\ a = "rta" /\ b = "rtb" THEN "b" ELSE ""
DCand(e, p) ==
  IF Len(e) < Len(p) /\ IsPrefix(e, p) THEN << Drop(p, Len(e)) >>
  ELSE IF Len(e) >= 1 /\ Len(e) <= Len(p) /\ Front(e) = SubSeq(p, 1, Len(e) - 1)
          /\ StrRest(Last(e), p[Len(e)]) # ""
       THEN << <<StrRest(Last(e), p[Len(e)])>> \o Drop(p, Len(e)) >>
  ELSE <<>>
RECURSIVE DCands(_, _)
DCands(entries, p) == IF entries = <<>> THEN <<>> ELSE DCand(Head(entries), p) \o DCands(Tail(entries), p)
\* DEVIATION ShortestDotted: the shortest candidate wins (first one among equals)
Shortest(cs) == IF cs = <<>> THEN <<>>
                ELSE cs[CHOOSE i \in 1..Len(cs) :
                          /\ \A j \in 1..Len(cs) : Len(cs[i]) <= Len(cs[j])
                          /\ \A j \in 1..(i - 1) : Len(cs[j]) > Len(cs[i])]
DDotted(f, sw) ==
  LET cs == DCands(sp, FP(f))
  IN IF sw.shortest \/ ~(\E i \in 1..Len(cs) : cs[i] \in RunNames(f)) THEN Shortest(cs)
     ELSE cs[CHOOSE i \in 1..Len(cs) : cs[i] \in RunNames(f) /\ \A j \in 1..(i - 1) : cs[j] \notin RunNames(f)]

\* jedi module values
V(t, d, n, init, pkg, names, dirs, walked) ==
  [t |-> t, d |-> d, n |-> n, init |-> init, pkg |-> pkg, names |-> names, dirs |-> dirs, walked |-> walked]
NoV == V("none", <<>>, "", FALSE, FALSE, <<>>, <<>>, FALSE)
Proj(v) == IF v.t = "file" THEN FileR(File(v.d, v.n, v.init))
           ELSE IF v.t = "ns" THEN NsR(v.dirs) ELSE Nothing

\* Script._get_module: the buffer as a ModuleValue (is_package only with a dotted name)
Buf(f, sw) == LET dn == DDotted(f, sw)
              IN V("file", f.d, f.n, f.init, dn # <<>> /\ f.init,
                   IF dn = <<>> THEN <<"__main__">> ELSE dn, <<>>, TRUE)

DPath(v)    == IF v.t = "ns" THEN v.dirs                         \* py__path__
               ELSE IF v.t = "file" /\ v.pkg THEN << v.d \o <<v.n>> >> ELSE <<>>
DPackage(v) == IF v.t = "ns" \/ v.pkg THEN v.names ELSE Front(v.names)   \* py__package__
AsValue(found, names) ==
  IF found.t = "file" THEN V("file", found.d, found.n, found.init, found.init, names, <<>>, TRUE)
  ELSE IF found.t = "ns" THEN V("ns", <<>>, "", FALSE, TRUE, names, found.dirs, TRUE)
  ELSE NoV

\* DEVIATION SelfCache: module_cache (keyed by dotted names only, whatever sys.path or parent
\* was used, negative results included) initially contains the buffer under its dotted name;
\* it is consulted in Importer.follow and before every step of the walk.
NoCache == [x \in {} |-> NoV]
Cache0(buf, sw) == IF sw.selfcache THEN (buf.names :> buf) ELSE NoCache
RC(v, c) == [v |-> v, c |-> c]

\* imports.import_module behind typeshed.import_module_decorator
DStep(names, parent, first, path, c) ==
  IF names \in DOMAIN c THEN RC(c[names], c)
  ELSE LET v == IF first THEN AsValue(PathFind(path, Last(names)), names)
                ELSE IF DPath(parent) = <<>> THEN NoV
                ELSE AsValue(PathFind(DPath(parent), Last(names)), names)
       IN RC(v, c @@ (names :> v))

\* imports.import_module_by_names
RECURSIVE DWalkFrom(_, _, _, _, _)
DWalkFrom(names, i, parent, path, c) ==
  IF i > Len(names) THEN RC(parent, c)
  ELSE LET s == DStep(SubSeq(names, 1, i), parent, i = 1, path, c)
       IN IF s.v.t = "none" THEN RC(NoV, s.c) ELSE DWalkFrom(names, i + 1, s.v, path, s.c)

\* Importer.__init__: [ip = rewritten import path, fixed = <<dir>> or <<>>]
UpDir(dir, k) == IF dir = <<"^">> \/ Len(dir) < k THEN <<"^">> ELSE SubSeq(dir, 1, Len(dir) - k)
DirOf(f)      == IF f.init THEN FP(f) ELSE f.d                 \* os.path.dirname(py__file__)
DRewrite(lvl, path, f, buf) ==
  LET base == DPackage(buf)
      b    == IF buf.names = <<"__main__">> THEN <<>> ELSE base
  IN IF lvl = 0 THEN [ip |-> path, fixed |-> <<>>]
     ELSE IF lvl <= Len(b) THEN [ip |-> SubSeq(b, 1, Len(b) - lvl + 1) \o path, fixed |-> <<>>]
     ELSE \* DEVIATION StrVsPath: _level_to_base_import_path compares a str with project.path
          \* (a Path), never equal: base_import_path is always None, the import path stays
          \* as written and sys.path becomes [directory `level-1` above the file]
          [ip |-> path, fixed |-> << UpDir(DirOf(f), lvl - 1) >>]

BaseName(dir) == IF dir = <<>> THEN "L" ELSE IF dir = <<"^">> THEN "^" ELSE Last(dir)
SearchOf(rw)  == IF rw.fixed # <<>> THEN rw.fixed ELSE sp

\* Importer.follow
DFollow(rw, c) ==
  IF rw.ip = <<>>
  THEN RC(IF rw.fixed # <<>>
          THEN V("ns", <<>>, "", FALSE, TRUE, <<BaseName(rw.fixed[1])>>, rw.fixed, FALSE)
          ELSE NoV, c)
  ELSE IF rw.ip \in DOMAIN c THEN RC(c[rw.ip], c)
  ELSE DWalkFrom(rw.ip, 1, NoV, SearchOf(rw), c)

IsBuf(v, f)    == v.t = "file" /\ File(v.d, v.n, v.init) = f
Listed(dirs, x) == \E i \in 1..Len(dirs) : KindAt(dirs[i] \o <<x>>) # "abs"   \* iter_module_names

\* infer_import / goto_import for `from <rw> import x`:
\*   attribute of the module (tree names, then sub_modules_dict -> SubModuleName.infer() =
\*   Importer([x], context of v, level=1).follow() with the normal sys.path), and when that
\*   gives nothing Importer(import_path + (x,), module_context, level).follow()
DFrom(rw, x, f, buf, sw, goto) ==
  LET s1 == DFollow(rw, Cache0(buf, sw))
      v  == s1.v
      fb(c) == DFollow([ip |-> rw.ip \o <<x>>, fixed |-> rw.fixed], c).v
  IN IF v.t = "none" THEN Nothing
     ELSE IF IsBuf(v, f)       \* (also when loaded "from disk": parso's cache returns the buffer's tree)
          THEN Proj(fb(s1.c))  \* the name found in the buffer is the import itself: nothing, fall back
     ELSE IF v.t = "file" /\ x \in TreeAttrs(File(v.d, v.n, v.init)) THEN AttrR(File(v.d, v.n, v.init))
     ELSE IF (v.t = "ns" \/ v.pkg) /\ Listed(DPath(v), x)
          THEN LET s2 == DFollow([ip |-> DPackage(v) \o <<x>>, fixed |-> <<>>], s1.c)
               IN IF s2.v.t # "none" THEN Proj(s2.v)
                  ELSE IF goto THEN Phantom      \* DEVIATION GotoPhantom: SubModuleName returned unresolved
                  ELSE Proj(fb(s2.c))
     ELSE Proj(fb(s1.c))

\* buf = Buf(f, sw), passed in so that TLC computes it once per state
DResolveB(form, f, buf, sw, goto) ==
  LET rw == DRewrite(form.lvl, form.path, f, buf)
  IN IF form.k \in {"imp", "impas"} THEN Proj(DFollow(rw, Cache0(buf, sw)).v)
     ELSE IF form.k = "from" THEN DFrom(rw, form.name, f, buf, sw, goto)
     ELSE LET v == DFollow(rw, Cache0(buf, sw)).v   \* ModuleMixin.star_imports + first filter
          IN IF v.t = "file" /\ ~IsBuf(v, f) THEN AttrR(File(v.d, v.n, v.init)) ELSE Nothing
DResolve(form, f, sw, goto) == DResolveB(form, f, Buf(f, sw), sw, goto)

---------------------------------------------------------------------------
(* Queries *)
PathsUpTo(k) == UNION {[1..n -> Names] : n \in 0..k}
Form(k, lvl, path, name) == [k |-> k, lvl |-> lvl, path |-> path, name |-> name]
Forms ==
  {Form(k, 0, p, "") : k \in {"imp", "impas"}, p \in PathsUpTo(MaxDepth) \ {<<>>}}
  \cup {Form("from", l, p, x) : l \in 0..MaxLevel, p \in PathsUpTo(MaxFromPath), x \in Names \cup {"att"}}
  \cup {Form("star", l, p, "tag") : l \in 0..MaxLevel, p \in PathsUpTo(MaxFromPath)}
ValidForm(f) == f.lvl > 0 \/ f.path # <<>>

\* which named deviations explain a failure (switching them off repairs it)
SwitchSets == {[selfcache |-> FALSE, shortest |-> TRUE], [selfcache |-> TRUE, shortest |-> FALSE],
               [selfcache |-> FALSE, shortest |-> FALSE]}
SwName(sw) == IF ~sw.selfcache /\ ~sw.shortest THEN "SelfCache+ShortestDotted"
              ELSE IF ~sw.selfcache THEN "SelfCache" ELSE "ShortestDotted"
\* ids = Identities(f), buf = Buf(f, sw)
OKqB(form, f, buf, sw, ids) ==
  LET ans == {PyResolve(id, form, f) : id \in ids}
      ji  == DResolveB(form, f, buf, sw, FALSE)
      jg  == DResolveB(form, f, buf, sw, TRUE)
  IN (\E a \in ans : Holds1(ji, a)) /\ (\E a \in ans : Holds1(jg, a))
OKq(form, f, sw) == OKqB(form, f, Buf(f, sw), sw, Identities(f))
ExplainsB(form, f, ids) == {SwName(sw) : sw \in {s \in SwitchSets : OKqB(form, f, Buf(f, s), s, ids)}}
Explains(form, f) == ExplainsB(form, f, Identities(f))
ValidForms == {x \in Forms : ValidForm(x)}

\* the invariants
SameTargetStrict == phase = "query" =>
  LET buf == Buf(imp, AsIs)
      ids == Identities(imp)
  IN \A form \in ValidForms : OKqB(form, imp, buf, AsIs, ids)
\* ... modulo the named deviations that are recorded as known findings
SameTarget == phase = "query" =>
  LET buf == Buf(imp, AsIs)
      ids == Identities(imp)
  IN \A form \in ValidForms : OKqB(form, imp, buf, AsIs, ids) \/ ExplainsB(form, imp, ids) # {}

OnPath(f) == DCands(sp, FP(f)) # <<>> /\ PyCands(f) # {}
RoundTripOK(f, sw) == (OnPath(f) /\ RunNames(f) # {}) => DDotted(f, sw) \in RunNames(f)
DottedRoundTripStrict == phase = "query" => RoundTripOK(imp, AsIs)
DottedRoundTrip == phase = "query" =>
  (RoundTripOK(imp, AsIs) \/ RoundTripOK(imp, [selfcache |-> TRUE, shortest |-> FALSE]))
\* the Reference is a function of the run identity only where Python leaves no choice
RefTotal == phase = "query" => Identities(imp) # {}

---------------------------------------------------------------------------
(* Bounded model: layouts, sys.path shapes and importers are built by actions *)
NodePaths == {<<r>> \o s : r \in RootNames, s \in PathsUpTo(MaxDepth) \ {<<>>}}
ParentOK(p) == Len(p) = 2 \/ (Front(p) \in DOMAIN layout /\ HasDir(layout[Front(p)]))

Init == layout = <<>> /\ sp = <<>> /\ pmode = FALSE /\ imp = Script /\ phase = "build"

AddNode(p, k) == /\ phase = "build" /\ p \notin DOMAIN layout /\ Cardinality(DOMAIN layout) < MaxNodes
                 /\ ParentOK(p) = TRUE
                 /\ layout' = layout @@ (p :> k)
                 /\ UNCHANGED <<sp, pmode, imp, phase>>

RootEmpty(r) == \A p \in DOMAIN layout : p[1] # r
ChoosePath(shape, n) ==
  /\ phase = "build"
  /\ (IF shape \in {"nestafter", "nestbefore"}
      THEN HasDir(KindAt(<<"rta", n>>)) /\ RootEmpty("rtb") ELSE n = CHOOSE x \in Names : TRUE) = TRUE
  /\ sp' = (CASE shape \in {"one", "onep"} -> << <<"rta">> >>
             [] shape \in {"two", "twop"} -> << <<"rta">>, <<"rtb">> >>
             [] shape = "rev" -> << <<"rtb">>, <<"rta">> >>      \* search order differs from the alphabetical order of the roots
             [] shape = "nestafter" -> << <<"rta">>, <<"rta", n>> >>
             [] shape = "nestbefore" -> << <<"rta", n>>, <<"rta">> >>)
  /\ pmode' = (shape \in {"onep", "twop"})
  /\ phase' = "path"
  /\ UNCHANGED <<layout, imp>>

ChooseImporter(f) == /\ phase = "path" /\ imp' = f /\ phase' = "query" /\ UNCHANGED <<layout, sp, pmode>>

Next == \/ \E p \in NodePaths, k \in Kinds : AddNode(p, k)
        \/ \E s \in Shapes, n \in Names : ChoosePath(s, n)
        \/ \E f \in FilesOf : ChooseImporter(f)

---------------------------------------------------------------------------
(* Emission of cases for the replay *)
NameIdx == "rta" :> 1 @@ "rtb" :> 2 @@ "pka" :> 3 @@ "pkb" :> 4 @@ "pkc" :> 5 @@ "pkd" :> 6
           @@ "zmain" :> 7 @@ "^" :> 8
KindIdx == "mod" :> 1 @@ "pkg" :> 2 @@ "pkga" :> 3 @@ "ns" :> 4 @@ "both" :> 5 @@ "modns" :> 6
RECURSIVE SeqNo(_)
SeqNo(s) == IF s = <<>> THEN 0 ELSE (NameIdx[s[1]] + 7 * SeqNo(Tail(s))) % 1000003
RECURSIVE SumOver(_)
SumOver(S) == IF S = {} THEN 0
              ELSE LET p == CHOOSE x \in S : TRUE
                   IN (SeqNo(p) * KindIdx[layout[p]] + SumOver(S \ {p})) % 1000003
CaseNo == (SumOver(DOMAIN layout) + 13 * Len(sp) + 5 * SeqNo(sp[1]) + (IF pmode THEN 3 ELSE 0)
           + 11 * SeqNo(FP(imp)) + (IF imp.init THEN 17 ELSE 0)) % 1000003

RECURSIVE Listify(_)
Listify(S) == IF S = {} THEN <<>> ELSE LET x == CHOOSE y \in S : TRUE IN <<x>> \o Listify(S \ {x})

QueryRec(form) ==
  [form |-> form,
   infer |-> DResolve(form, imp, AsIs, FALSE),
   goto  |-> DResolve(form, imp, AsIs, TRUE),
   ref   |-> Listify({PyResolve(id, form, imp) : id \in Identities(imp)}),
   ok    |-> OKq(form, imp, AsIs),
   dev   |-> Listify(IF OKq(form, imp, AsIs) THEN {} ELSE Explains(form, imp))]

CaseRec ==
  [nodes  |-> Listify({[p |-> p, k |-> layout[p]] : p \in DOMAIN layout}),
   sp     |-> sp, pmode |-> pmode, imp |-> imp,
   dotted |-> DDotted(imp, AsIs),
   run    |-> Listify(RunNames(imp)),
   onpath |-> OnPath(imp),
   rtok   |-> RoundTripOK(imp, AsIs),
   qs     |-> Listify({QueryRec(form) : form \in ValidForms})]

\* witnesses of the named deviations: the strict invariants, printing the case they fail on
SameTargetWitness == SameTargetStrict \/ (PrintT(<<"CASE", ToJson(CaseRec)>>) /\ FALSE)
DottedWitness     == DottedRoundTripStrict \/ (PrintT(<<"CASE", ToJson(CaseRec)>>) /\ FALSE)

Emit == (phase = "query" /\ CaseNo % EmitMod = EmitRem) => PrintT(<<"CASE", ToJson(CaseRec)>>)
=============================================================================
