INIT TInit
NEXT TNext
CONSTANTS
  MaxParams = 6
  MaxArgs = 5
  Mode = "index"
  EmitMod = 1
  EmitRem = 0
  EmitParts = 1
  EmitPart = 0
CONSTRAINT Verdict
CHECK_DEADLOCK FALSE
