INIT Init
NEXT Next
CONSTANTS
  TplLo = 1
  TplHi = 38
  SecondTpls = {1, 2, 3, 4, 5, 6, 7, 8, 9, 10, 11, 12, 13, 14, 15, 16, 17, 18, 19, 20, 21, 22, 23, 24, 25, 26, 27, 28, 29, 30, 31, 32, 33, 34, 35, 36, 37, 38}
  MaxStmts = 2
  MaxMods1 = 1
  MaxMods2 = 0
  NNames = 5
  StripDunder = FALSE
  EmitMod = 1
  EmitRem = 0
INVARIANT SplitLinesOK
INVARIANT NamesOK
INVARIANT TextAtPos
INVARIANT RangeEncloses
INVARIANT LineCodeOK
INVARIANT LineCodeCtxOK
CHECK_DEADLOCK FALSE
