\* Reference configuration of the quick tier (the check writes its run-specific cfgs into its tmp dir).
INIT Init
NEXT Next
CONSTANTS
  Pool = "quick"
  MaxDirs = 3
  MaxDepth = 2
  MaxFiles = 1
  MaxGi = 1
  MaxLines = 1
  ParseLimit = 30
  OpenLimit = 2000
  EmitMod = 1
  EmitRem = 0
  Fixed = {"DEV1", "DEV2", "DEV4"}
INVARIANT DesignMeetsReference
\* what-if (sensitivity): with a DEV removed from Fixed the matching strict invariant must fail:
\*   DEV1 -> StrictComplete, DEV2 -> StrictNoIgnoredFile, DEV4 -> StrictNoSysPathLeak
\* with open deviations the main invariant is DesignMeetsReferenceModuloKnown
CHECK_DEADLOCK FALSE
