\* Reference configuration of the quick tier (the check writes its run-specific cfgs into its tmp dir).
INIT Init
NEXT Next
CONSTANTS
  Pool = "quick"
  MaxDirs = 3
  MaxDepth = 2
  MaxFiles = 1
  MaxGi = 1
  MaxLines = 1
  ParseLimit = 30
  OpenLimit = 2000
  EmitMod = 1
  EmitRem = 0
  Fixed = {}
INVARIANT DesignMeetsReferenceModuloKnown
\* with Fixed = {"DEV1", "DEV2", "DEV4"} the full statement holds:  INVARIANT DesignMeetsReference
\* counterexamples of the open findings:  INVARIANT StrictComplete / StrictNoIgnoredFile / StrictNoSysPathLeak
CHECK_DEADLOCK FALSE
