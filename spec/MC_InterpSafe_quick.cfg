INIT Init
NEXT Next
CONSTANTS
  MaxPath = 3
  EmitMod = 1
  EmitRem = 0
  Fixed = {}
INVARIANT OnlyKnownDeviations
INVARIANT RepairedMeetsReference
INVARIANT StaticLookupSound
INVARIANT StaticLookupComplete
INVARIANT UnsafeReflectsLive
CHECK_DEADLOCK FALSE
