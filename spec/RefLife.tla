------------------------------ MODULE RefLife ------------------------------
(* C07 -- refactoring results are self-consistent and touch nothing until applied.

   Text is a sequence of line ids (a line id stands for one line INCLUDING its
   ending; two lines with the same text but different endings have different ids; the
   harness keeps the id <-> bytes table).  A file system maps paths to contents.

   Reference
     Patch(orig, hunks)   application of a unified diff
     Splice(orig, chg)    the announced new code: replace the touched lines
     Announced(fs0, r)    the file system apply() must produce
   Design (jedi/api/refactoring/__init__.py)
     Request  -> a Refactoring value r = [chg, renames] or an error
     Inspect  get_diff / get_changed_files / get_renames / get_new_code: pure
     Apply    for every changed file in sorted order: write new code at its FROM path
              (fails with RefactoringError when the path is None, after the earlier
              files were written -- modelled as ApplyFailNoPath); then every rename
              in sorted order.
   Named deviation, modelled as the code does it:
     DiffPadsFinalNewline   get_diff appends "\n" to a last line without one on
                            both sides, so for such a file the patch result differs
                            from get_new_code() in exactly that last line ending.     *)
EXTENDS Naturals, Sequences, FiniteSets, TLC

---------------------------------------------------------------------------
(* Unified diffs over line ids.  A hunk = [os, ol, ns, nl, ops], ops = Seq(<<kind, id>>),
   kind in {" ", "-", "+"}.                                                     *)
RECURSIVE OldSide(_), NewSide(_)
OldSide(ops) == IF ops = <<>> THEN <<>>
                ELSE IF ops[1][1] = "+" THEN OldSide(Tail(ops))
                ELSE <<ops[1][2]>> \o OldSide(Tail(ops))
NewSide(ops) == IF ops = <<>> THEN <<>>
                ELSE IF ops[1][1] = "-" THEN NewSide(Tail(ops))
                ELSE <<ops[1][2]>> \o NewSide(Tail(ops))

HunkWellFormed(h) ==
  /\ Len(OldSide(h.ops)) = h.ol
  /\ Len(NewSide(h.ops)) = h.nl
  /\ \A i \in 1..Len(h.ops) : h.ops[i][1] \in {" ", "-", "+"}

\* position of the first old line of a hunk ("@@ -s,0" addresses the line after which to insert)
OldStart(h) == IF h.ol = 0 THEN h.os + 1 ELSE h.os

\* hunks apply in order, do not overlap, and their old sides match the original
RECURSIVE PatchFrom(_, _, _)
PatchFrom(orig, pos, hunks) ==          \* pos = next unconsumed line of orig
  IF hunks = <<>> THEN (IF pos > Len(orig) THEN <<>> ELSE SubSeq(orig, pos, Len(orig)))
  ELSE LET h == hunks[1] s == OldStart(h) IN
       (IF s > pos THEN SubSeq(orig, pos, s - 1) ELSE <<>>)
       \o NewSide(h.ops) \o PatchFrom(orig, s + h.ol, Tail(hunks))
Patch(orig, hunks) == PatchFrom(orig, 1, hunks)

RECURSIVE Applicable(_, _, _)
Applicable(orig, pos, hunks) ==
  IF hunks = <<>> THEN TRUE
  ELSE LET h == hunks[1] s == OldStart(h) IN
       /\ HunkWellFormed(h)
       /\ s >= pos
       /\ s + h.ol - 1 <= Len(orig)
       /\ (h.ol > 0 => SubSeq(orig, s, s + h.ol - 1) = OldSide(h.ops))
       /\ Applicable(orig, s + h.ol, Tail(hunks))

\* old line numbers removed / rewritten by the diff
RECURSIVE MinusOfHunk(_, _)
MinusOfHunk(ops, n) == IF ops = <<>> THEN {}
                       ELSE IF ops[1][1] = "-" THEN {n} \cup MinusOfHunk(Tail(ops), n + 1)
                       ELSE IF ops[1][1] = " " THEN MinusOfHunk(Tail(ops), n + 1)
                       ELSE MinusOfHunk(Tail(ops), n)
MinusLines(hunks) == UNION {MinusOfHunk(hunks[i].ops, OldStart(hunks[i])) : i \in 1..Len(hunks)}

---------------------------------------------------------------------------
(* The lifecycle as a state machine (bounded model). *)
CONSTANTS Paths,       \* path atoms; NoPath stands for a Script without path
          NoPath,
          Contents,    \* possible file contents (opaque values)
          Absent

VARIABLES fs,     \* [Paths -> Contents \cup {Absent}]
          fs0,    \* file system when the refactoring was requested
          ref,    \* the Refactoring value: [chg : subset of (Paths \cup {NoPath}) -> Contents, ren : Seq(<<from, to>>)]
          pc,     \* "none" | "ready" | "applying" | "applied" | "failed" | "error"
          wq, rq  \* files still to write (sorted), renames still to perform
vars == <<fs, fs0, ref, pc, wq, rq>>

NoRef == [chg |-> <<>>, ren |-> <<>>]   \* chg as a sequence of <<path, newContent>> sorted by path

Init == /\ fs \in [Paths -> Contents \cup {Absent}]
        /\ fs0 = fs /\ ref = NoRef /\ pc = "none" /\ wq = <<>> /\ rq = <<>>

\* the refactoring changes existing files (or the path-less buffer) and may rename one file
ChangeSeqs == {<<>>} \cup {<<<<p, c>>>> : p \in Paths \cup {NoPath}, c \in Contents}
              \cup {<<<<p, c>>, <<q, d>>>> : p \in Paths, q \in Paths \cup {NoPath}, c \in Contents, d \in Contents}
RenSeqs == {<<>>} \cup {<<<<p, q>>>> : p \in Paths, q \in Paths}
ValidRef(r) ==
  /\ \A i \in 1..Len(r.chg) : IF r.chg[i][1] = NoPath THEN TRUE ELSE fs[r.chg[i][1]] # Absent
  /\ \A i, j \in 1..Len(r.chg) : i # j => r.chg[i][1] # r.chg[j][1]
  /\ \A i \in 1..Len(r.ren) : fs[r.ren[i][1]] # Absent /\ fs[r.ren[i][2]] = Absent /\ r.ren[i][1] # r.ren[i][2]

Request == /\ pc \in {"none", "error"}
           /\ \/ \E c \in ChangeSeqs, n \in RenSeqs :
                   /\ ValidRef([chg |-> c, ren |-> n]) /\ (c # <<>> \/ n # <<>>)
                   /\ ref' = [chg |-> c, ren |-> n] /\ pc' = "ready"
              \/ /\ ref' = NoRef /\ pc' = "error"             \* RefactoringError / ValueError
           /\ fs0' = fs /\ UNCHANGED <<fs, wq, rq>>

Inspect == pc = "ready" /\ UNCHANGED vars        \* get_diff, get_changed_files, get_renames, get_new_code

ApplyBegin == /\ pc = "ready" /\ pc' = "applying"
              /\ wq' = ref.chg /\ rq' = ref.ren /\ UNCHANGED <<fs, fs0, ref>>

\* ChangedFile.apply: open(self._from_path, 'w', newline='').write(new code)
WriteFile == /\ pc = "applying" /\ wq # <<>> /\ wq[1][1] # NoPath
             /\ fs' = [fs EXCEPT ![wq[1][1]] = wq[1][2]]
             /\ wq' = Tail(wq) /\ UNCHANGED <<fs0, ref, pc, rq>>
ApplyFailNoPath == /\ pc = "applying" /\ wq # <<>> /\ wq[1][1] = NoPath
                   /\ pc' = "failed" /\ UNCHANGED <<fs, fs0, ref, wq, rq>>
\* old.rename(new)
RenameStep == /\ pc = "applying" /\ wq = <<>> /\ rq # <<>>
              /\ fs' = [fs EXCEPT ![rq[1][1]] = Absent, ![rq[1][2]] = fs[rq[1][1]]]
              /\ rq' = Tail(rq) /\ UNCHANGED <<fs0, ref, pc, wq>>
ApplyEnd == /\ pc = "applying" /\ wq = <<>> /\ rq = <<>>
            /\ pc' = "applied" /\ UNCHANGED <<fs, fs0, ref, wq, rq>>

Next == Request \/ Inspect \/ ApplyBegin \/ WriteFile \/ ApplyFailNoPath \/ RenameStep \/ ApplyEnd
Spec == Init /\ [][Next]_vars

\* the file system the Refactoring announces: new code at every changed path, then the renames
RECURSIVE WithChanges(_, _), WithRenames(_, _)
WithChanges(f, chg) == IF chg = <<>> THEN f
                       ELSE WithChanges(IF chg[1][1] = NoPath THEN f ELSE [f EXCEPT ![chg[1][1]] = chg[1][2]], Tail(chg))
WithRenames(f, ren) == IF ren = <<>> THEN f
                       ELSE WithRenames([f EXCEPT ![ren[1][1]] = Absent, ![ren[1][2]] = f[ren[1][1]]], Tail(ren))
Announced(f, r) == WithRenames(WithChanges(f, r.chg), r.ren)

NoWriteBeforeApply == [][(pc \in {"none", "ready", "error"} /\ pc' # "applying") => (fs' = fs)]_vars
NothingBeforeApply == pc \in {"ready", "error"} => fs = fs0
ApplyAnnounced == pc = "applied" => fs = Announced(fs0, ref)
\* every write goes to a file that exists (writes happen at the from-paths, before the renames)
WritesHitExistingFiles == (pc = "applying" /\ wq # <<>> /\ wq[1][1] # NoPath) => fs[wq[1][1]] # Absent
OnlyAnnouncedTouched ==
  pc \in {"applying", "applied", "failed"} =>
    \A p \in Paths : fs[p] # fs0[p] =>
      \/ \E i \in 1..Len(ref.chg) : ref.chg[i][1] = p
      \/ \E i \in 1..Len(ref.ren) : p \in {ref.ren[i][1], ref.ren[i][2]}
=============================================================================
