INIT Init
NEXT Next
CONSTANTS
  TplLo = 1
  TplHi = 38
  SecondTpls = {1, 10, 13, 21, 35}
  MaxStmts = 2
  MaxMods1 = 2
  MaxMods2 = 1
  NNames = 5
  StripDunder = FALSE
  EmitMod = 1
  EmitRem = 0
INVARIANT SplitLinesOK
INVARIANT NamesOK
INVARIANT TextAtPos
INVARIANT RangeEncloses
INVARIANT LineCodeOK
INVARIANT LineCodeCtxOK
CHECK_DEADLOCK FALSE
