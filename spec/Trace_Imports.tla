------------------------ MODULE Trace_Imports ------------------------
(* Code -> spec for C10.  A trace is one recorded event on one rendered layout:

     ev = "query":  jedi's infer()/goto(follow_imports=True) results for one import
                    statement issued from file `imp`, and CPython's answers (one per way
                    the importer can run) as logged ground truth
     ev = "dotted": the dotted name jedi derived for file `imp`, whether CPython can load
                    the file under some name, and what importing jedi's name gives

   Clauses (names are printed on REJECT):
     RefVsOracle      the Reference of Imports.tla, evaluated on the recorded layout,
                      agrees with what CPython did (keeps the Reference honest)
     SameTarget       jedi's result is the one the import system selected (property)
     DottedRoundTrip  jedi's dotted name imports back to the file (property)
   plus the names of the modelled deviations (Imports.tla) that explain a failure.   *)
EXTENDS Naturals, Sequences, FiniteSets, TLC, Json, IOUtils

CONSTANTS Names, AttrNames, MaxDepth, MaxNodes, Kinds, Shapes, MaxLevel, MaxFromPath, EmitMod, EmitRem
VARIABLES layout, sp, pmode, imp, phase
INSTANCE Imports

Traces == JsonDeserialize(IOEnv.TRACE_FILE)
VARIABLES tid, l

LayoutOf(nodes) ==
  LET idx(p) == CHOOSE i \in 1..Len(nodes) : nodes[i].p = p
  IN [p \in {nodes[i].p : i \in 1..Len(nodes)} |-> nodes[idx(p)].k]

TInit == /\ tid \in 1..Len(Traces) /\ l = 1
         /\ layout = LayoutOf(Traces[tid][1].nodes)
         /\ sp = Traces[tid][1].sp
         /\ pmode = Traces[tid][1].pmode
         /\ imp = Traces[tid][1].imp
         /\ phase = "query"
Ev == Traces[tid][l]

\* jedi returns a list of results; the empty list is "nothing"
JSet(rs) == IF rs = <<>> THEN {Nothing} ELSE Range(rs)
\* logged answer b (ok is a list) is covered by reference answer a (ok is a set)
Cov(b, a) == a.any \/ (~b.any /\ \A i \in 1..Len(b.ok) : \E r \in a.ok : SameR(b.ok[i], r))
RefAns(e) == {PyResolve(id, e.form, e.imp) : id \in Identities(e.imp)}
RefAgrees(e) ==
  /\ \A i \in 1..Len(e.py) : \E a \in RefAns(e) : Cov(e.py[i], a)
  /\ \A a \in RefAns(e) : a.any \/ \E i \in 1..Len(e.py) : ~e.py[i].any /\ Cov(e.py[i], a)

HoldsLogged(rs, e) ==
  /\ Cardinality(JSet(rs)) = 1
  /\ \E i \in 1..Len(e.py) :
        e.py[i].any \/ \E k \in 1..Len(e.py[i].ok) : \A j \in JSet(rs) : SameR(j, e.py[i].ok[k])
SameT(e) == HoldsLogged(e.infer, e) /\ HoldsLogged(e.goto, e)

\* dotted events: importable = CPython loads the file under some dotted name
DotRef(e)  == (RunNames(e.imp) # {}) = e.importable
DotOK(e)   == (e.importable /\ e.dotted # <<>>) => (e.back = <<FileR(e.imp)>>)

Why(e) ==
  IF e.ev = "query"
  THEN (IF RefAgrees(e) THEN {} ELSE {"RefVsOracle"})
       \cup (IF SameT(e) THEN {} ELSE {"SameTarget"} \cup Explains(e.form, e.imp))
  ELSE (IF DotRef(e) THEN {} ELSE {"RefVsOracle"})
       \cup (IF DotOK(e) THEN {} ELSE {"DottedRoundTrip"}
                \cup (IF RoundTripOK(e.imp, [selfcache |-> TRUE, shortest |-> FALSE])
                      THEN {"ShortestDotted"} ELSE {}))

TNext == /\ l <= Len(Traces[tid])
         /\ (Why(Ev) = {}) = TRUE
         /\ l' = l + 1
         /\ UNCHANGED <<tid, layout, sp, pmode, imp, phase>>
Verdict ==
  IF l = Len(Traces[tid]) + 1 THEN PrintT(<<"ACCEPT", tid>>)
  ELSE (Why(Ev) = {}) \/ PrintT(<<"REJECT", tid, l, Why(Ev)>>)
=============================================================================
