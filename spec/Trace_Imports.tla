------------------------ MODULE Trace_Imports ------------------------
(* Code -> spec for C10.  A trace is one recorded event on one rendered layout:

     ev = "query":  jedi's infer()/goto(follow_imports=True) results for one import
                    statement issued from file `imp`, and CPython's answers (one per way
                    the importer can run) as logged ground truth
     ev = "dotted": the dotted name jedi derived for file `imp`, whether CPython can load
                    the file under some name, and what importing jedi's name gives

   Clauses (names are printed on REJECT):
     RO RefVsOracle      the Reference of Imports.tla, evaluated on the recorded layout,
                         agrees with what CPython did (keeps the Reference honest)
     ST SameTarget       jedi's result is the one the import system selected (property)
     RT DottedRoundTrip  jedi's dotted name imports back to the file (property)
   plus the codes of the modelled deviations (Imports.tla) that explain a failure.   *)
EXTENDS Naturals, Sequences, FiniteSets, TLC, Json, IOUtils

CONSTANTS Names, AttrNames, MaxDepth, MaxNodes, Kinds, Shapes, MaxLevel, MaxFromPath, EmitMod, EmitRem
VARIABLES layout, sp, pmode, imp, phase
INSTANCE Imports

Traces == JsonDeserialize(IOEnv.TRACE_FILE)
VARIABLES tid, l

LayoutOf(nodes) ==
  LET idx(p) == CHOOSE i \in 1..Len(nodes) : nodes[i].p = p
  IN [p \in {nodes[i].p : i \in 1..Len(nodes)} |-> nodes[idx(p)].k]

TInit == /\ tid \in 1..Len(Traces) /\ l = 1
         /\ layout = LayoutOf(Traces[tid][1].nodes)
         /\ sp = Traces[tid][1].sp
         /\ pmode = Traces[tid][1].pmode
         /\ imp = Traces[tid][1].imp
         /\ phase = "query"
Ev == Traces[tid][l]

\* jedi returns a list of results; the empty list is "nothing"
JSet(rs) == IF rs = <<>> THEN {Nothing} ELSE Range(rs)
\* logged answer b (ok is a list) is covered by reference answer a (ok is a set)
Cov(b, a) == a.any \/ (~b.any /\ \A i \in 1..Len(b.ok) : \E r \in a.ok : SameR(b.ok[i], r))
RefAns(e) == {PyResolve(id, e.form, e.imp) : id \in Identities(e.imp)}
RefAgrees(e) ==
  /\ \A i \in 1..Len(e.py) : \E a \in RefAns(e) : Cov(e.py[i], a)
  /\ \A a \in RefAns(e) : a.any \/ \E i \in 1..Len(e.py) : ~e.py[i].any /\ Cov(e.py[i], a)

\* judged with the Reference's answers, which RefAgrees ties to what CPython did (the Reference
\* leaves a few classes open on purpose, e.g. a module importing its own attribute)
HoldsLogged(rs, e) ==
  /\ Cardinality(JSet(rs)) = 1
  /\ \E a \in RefAns(e) : \A j \in JSet(rs) : Holds1(j, a)
SameT(e) == HoldsLogged(e.infer, e) /\ HoldsLogged(e.goto, e)

\* dotted events: importable = CPython loads the file under some dotted name
DotRef(e)  == (RunNames(e.imp) # {}) = e.importable
DotOK(e)   == (e.importable /\ e.dotted # <<>>) => (e.back = <<FileR(e.imp)>>)

\* a failure is attributed to a named deviation of Imports.tla only when the recorded results
\* are exactly what the Design (as it is) predicts and switching the deviation off repairs it
Devs(e) ==
  IF /\ ~OKq(e.form, e.imp, AsIs)
     /\ JSet(e.infer) = {DResolve(e.form, e.imp, AsIs, FALSE)}
     /\ JSet(e.goto) = {DResolve(e.form, e.imp, AsIs, TRUE)}
  THEN Explains(e.form, e.imp) ELSE {}
DotDevs(e) ==
  IF /\ e.dotted = DDotted(e.imp, AsIs) /\ ~RoundTripOK(e.imp, AsIs)
     /\ RoundTripOK(e.imp, [selfcache |-> TRUE, shortest |-> FALSE])
  THEN {"ShortestDotted"} ELSE {}

\* short codes keep the printed verdict on one line: RO RefVsOracle, ST SameTarget,
\* RT DottedRoundTrip, SC SelfCache, SD ShortestDotted, SC+SD both
Code(n) == IF n = "SelfCache" THEN "SC" ELSE IF n = "ShortestDotted" THEN "SD" ELSE "SC+SD"
Why(e) ==
  IF e.ev = "query"
  THEN (IF RefAgrees(e) THEN {} ELSE {"RO"})
       \cup (IF SameT(e) THEN {} ELSE {"ST"} \cup {Code(n) : n \in Devs(e)})
  ELSE (IF DotRef(e) THEN {} ELSE {"RO"})
       \cup (IF DotOK(e) THEN {} ELSE {"RT"} \cup {Code(n) : n \in DotDevs(e)})

TNext == /\ l <= Len(Traces[tid])
         /\ (Why(Ev) = {}) = TRUE
         /\ l' = l + 1
         /\ UNCHANGED <<tid, layout, sp, pmode, imp, phase>>
Verdict ==
  IF l = Len(Traces[tid]) + 1 THEN PrintT(<<"ACCEPT", tid>>)
  ELSE (Why(Ev) = {}) \/ PrintT(<<"REJECT", tid, l, Why(Ev)>>)
=============================================================================
