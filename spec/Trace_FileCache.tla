------------------------- MODULE Trace_FileCache -------------------------
(* Code -> spec for C09.  One trace = one history of file-system mutations on a real project with
   queries after every step, in a long-lived process A, periodically in a new process B sharing the
   pickle cache directory, always against a fresh process with an empty cache.
     Mutate{kind, mods}                         a file-system mutation was performed on the modules mods; kind
                                                "open_buffer": no file changed, a Script for the UNSAVED buffer of the
                                                module's path was analysed in process A
     Resolve{proc, same, n}                     n query results in process proc; same = all equal to the
                                                fresh process' results
     Decision{had, freshenough, hit}            one parso.cache.load_module call in process A:
                                                had = an in-memory entry existed, freshenough = file mtime <=
                                                entry change_time, hit = the entry's tree was returned
   Checked: Seen (FileCache.tla's property, with the fresh process as the logged truth) and the
   parso rule the Design relies on: hit  <=>  had /\ freshenough.                                  *)
EXTENDS Naturals, Sequences, FiniteSets, TLC, Json, IOUtils

Traces == JsonDeserialize(IOEnv.TRACE_FILE)
VARIABLES tid, l, muts, shadow      \* shadow: modules whose unsaved buffer was analysed and whose file was not touched since
Ev == Traces[tid][l]
S(q) == {q[i] : i \in 1..Len(q)}
\* mutations that give the module's file a newer modification time (FileCache.tla: the cached entry is then dropped)
Touching == {"write", "overwrite_same_size", "delete", "rename", "to_package", "to_module", "remove_init", "add_init"}

Why(e) ==
  CASE e.ev = "Mutate" -> {}
    [] e.ev = "Resolve" -> IF e.same THEN {}
                           ELSE IF e.proc = "A" /\ shadow # {} THEN {"BufferShadowsDisk"}     \* FileCache.tla OpenBuffer
                           ELSE {"NotSeen"}
    [] e.ev = "Decision" -> IF e.hit = (e.had /\ e.freshenough) THEN {} ELSE {"ParsoRule"}
    [] OTHER -> {"UnknownEvent"}

\* recorded and reported, but the rest of the history is still judged
Tolerated == {"ParsoRule", "BufferShadowsDisk"}
TInit == tid \in 1..Len(Traces) /\ l = 1 /\ muts = 0 /\ shadow = {}
TNext == /\ l <= Len(Traces[tid]) /\ (Why(Ev) \subseteq Tolerated) = TRUE
         /\ muts' = IF Ev.ev = "Mutate" THEN muts + 1 ELSE muts
         /\ shadow' = IF Ev.ev # "Mutate" THEN shadow
                      ELSE IF Ev.kind = "open_buffer" THEN shadow \cup S(Ev.mods)
                      ELSE IF Ev.kind \in Touching THEN shadow \ S(Ev.mods) ELSE shadow
         /\ l' = l + 1 /\ UNCHANGED tid
Verdict ==
  /\ (l <= Len(Traces[tid]) /\ "ParsoRule" \in Why(Ev)) => PrintT(<<"NOTE", tid, l, "ParsoRule">>)
  /\ (l <= Len(Traces[tid]) /\ "BufferShadowsDisk" \in Why(Ev)) => PrintT(<<"NOTE", tid, l, "BufferShadowsDisk">>)
  /\ IF l = Len(Traces[tid]) + 1 THEN PrintT(<<"ACCEPT", tid>>)
     ELSE (Why(Ev) \subseteq Tolerated) \/ PrintT(<<"REJECT", tid, l, Why(Ev)>>)
=============================================================================
