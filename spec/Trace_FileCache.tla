------------------------- MODULE Trace_FileCache -------------------------
(* Code -> spec for C09.  One trace = one history of file-system mutations on a real project with
   queries after every step, in a long-lived process A, periodically in a new process B sharing the
   pickle cache directory, always against a fresh process with an empty cache.
     Mutate{kind}                               a file-system mutation was performed
     Resolve{proc, same, n}                     n query results in process proc; same = all equal to the
                                                fresh process' results
     Decision{had, freshenough, hit}            one parso.cache.load_module call in process A:
                                                had = an in-memory entry existed, freshenough = file mtime <=
                                                entry change_time, hit = the entry's tree was returned
   Checked: Seen (FileCache.tla's property, with the fresh process as the logged truth) and the
   parso rule the Design relies on: hit  <=>  had /\ freshenough.                                  *)
EXTENDS Naturals, Sequences, FiniteSets, TLC, Json, IOUtils

Traces == JsonDeserialize(IOEnv.TRACE_FILE)
VARIABLES tid, l, muts
Ev == Traces[tid][l]

Why(e) ==
  CASE e.ev = "Mutate" -> {}
    [] e.ev = "Resolve" -> IF e.same THEN {} ELSE {"NotSeen"}
    [] e.ev = "Decision" -> IF e.hit = (e.had /\ e.freshenough) THEN {} ELSE {"ParsoRule"}
    [] OTHER -> {"UnknownEvent"}

TInit == tid \in 1..Len(Traces) /\ l = 1 /\ muts = 0
TNext == /\ l <= Len(Traces[tid]) /\ (Why(Ev) \subseteq {"ParsoRule"}) = TRUE
         /\ muts' = IF Ev.ev = "Mutate" THEN muts + 1 ELSE muts
         /\ l' = l + 1 /\ UNCHANGED tid
Verdict ==
  /\ (l <= Len(Traces[tid]) /\ "ParsoRule" \in Why(Ev)) => PrintT(<<"NOTE", tid, l, "ParsoRule">>)
  /\ IF l = Len(Traces[tid]) + 1 THEN PrintT(<<"ACCEPT", tid>>)
     ELSE (Why(Ev) \subseteq {"ParsoRule"}) \/ PrintT(<<"REJECT", tid, l, Why(Ev)>>)
=============================================================================
