INIT TInit
NEXT TNext
CONSTANTS
  NNames = 4
  MaxItems = 0
  MaxDepth = 0
  Feat = {}
  EmitMod = 1
  EmitRem = 0
  SpecMod = 1
CONSTRAINT TraceVerdict
CHECK_DEADLOCK FALSE
