------------------------------- MODULE Rename -------------------------------
(* C05 -- rename rewrites exactly the references and preserves behaviour.

   A program is abstracted to its identifier occurrences 1..N.  spell[o] is the spelling of
   occurrence o and var[o] the variable it denotes (Reference: Python's scoping -- owner scope and
   name; for attributes the defining class).  Two programs behave the same iff their var maps are
   isomorphic and every occurrence still denotes "the same" variable, i.e. iff the partition of the
   occurrences induced by var is unchanged AND no two different variables that are visible from one
   another got the same spelling (capture).  With a FRESH new name capture is impossible, so:

     Theorem WholeClassPreserves   renaming exactly a class of the partition to a fresh name keeps
                                   the partition (behaviour preserved)
     Theorem SubsetBreaks          renaming a proper non-empty subset of a class splits it
     Theorem SupersetBreaks        renaming a class plus an occurrence of another variable merges two
   TLC checks them for every var map over N occurrences and S spellings: they justify the property
   (rewrite exactly the references <=> behaviour preserved) and guard the trace clauses against vacuity.

   The resolution rule after a rename is modelled at the level the property needs: an occurrence
   denotes the variable of the occurrences that share its spelling AND its original variable's scope
   chain; with a fresh name that is exactly "same spelling => same variable".                       *)
EXTENDS Naturals, Sequences, FiniteSets, TLC

CONSTANTS N, Spellings, Fresh
Occ == 1..N

VARIABLES spell, var, chosen
vars == <<spell, var, chosen>>

\* well-formed original program: occurrences of one variable share a spelling
WellFormed(sp, v) == \A a, b \in Occ : v[a] = v[b] => sp[a] = sp[b]

Init == /\ spell \in [Occ -> Spellings] /\ var \in [Occ -> 1..N]
        /\ WellFormed(spell, var)
        /\ chosen \in SUBSET Occ /\ chosen # {}
Next == UNCHANGED vars
Spec == Init /\ [][Next]_vars

Class(o) == {p \in Occ : var[p] = var[o]}
Renamed(S) == [o \in Occ |-> IF o \in S THEN Fresh ELSE spell[o]]
\* after the rename an occurrence with the fresh spelling can only denote the (one) fresh variable; the others
\* keep theirs.  The induced partition:
NewVar(S) == [o \in Occ |-> IF o \in S THEN 0 ELSE var[o]]
SamePartition(S) == \A a, b \in Occ : (var[a] = var[b]) = (NewVar(S)[a] = NewVar(S)[b])

IsClass(S) == \E o \in Occ : S = Class(o)
WholeClassPreserves == IsClass(chosen) => SamePartition(chosen)
SubsetBreaks   == (\E o \in Occ : chosen \subseteq Class(o) /\ chosen # Class(o)) => ~SamePartition(chosen)
SupersetBreaks == (\E o \in Occ : Class(o) \subseteq chosen /\ chosen # Class(o)) => ~SamePartition(chosen)
\* hence: behaviour is preserved iff exactly a class is rewritten
Exactly == SamePartition(chosen) = IsClass(chosen)
=============================================================================
