--------------------------- MODULE Positions ---------------------------
(* C17 -- every reported source position is faithful to the text.

   Text is Seq(Nat) (code points).  A buffer is a sequence of statement templates
   (parse trees in the shape parso builds them) whose identifier slots are filled from
   Names and whose gaps are filled with separators; TLC builds every layout by actions.

   Reference = the property text + Python's lexical rules, written over the TEXT only:
     * physical lines end at \n, \r\n, \r (language reference 2.1.2); \f \v \x1c..\x1e
       \x85     do not end a line;
     * Pos(token)  = (number of line ends before its offset + 1, offset - line start),
       columns in code points;
     * TextAtPos, RangeEncloses, LineCodeOK, NamesBijection, IsDefOK exactly as the
       property states them; the tokens that bind are given by the template's roles
       (language reference 4.2.1 "Binding of names"), validated by the harness against
       CPython's ast Store/Del contexts on every emitted case.
   Design    = what jedi/parso do, transcribed:
     * parso.utils.split_lines (str.splitlines + re-merge of _NON_LINE_BREAKS + trailing '')
       -> code_lines; tokenizer position = (index of the line, index in the line);
     * parso Name.get_definition / is_definition, _defined_names and every
       get_defined_names() (ExprStmt, ForStmt, WithStmt, ImportName, ImportFrom, Param,
       KeywordStatement(del), NamedExpr, SyncCompFor) over the tree;
     * jedi api/helpers.get_module_names (used_names filtered by role), Script._names
       (sorted by start_pos), ModuleContext.create_name (AnonymousParamName for params),
       BaseName.line/column/name, get_definition_start_position/_end_position (function
       and class: last leaf before the newline), get_line_code(before, after).
   Deviations of the code, modelled as they are (each is named where it is modelled):
     DEV-DunderParam (repaired in /repo 7f3412e): get_public_name used to strip a leading
       "__" from every parameter name, so Name.name differed from the text at
       Name.line/column; now it does so only in stubs.  The old behaviour is kept as the
       what-if StripDunder = TRUE, under which TextAtPos must fail (sensitivity run).
     DEV-NoFinalNewline: a buffer without final line terminator has no newline leaf and the
       last simple_stmt collapses into its child (ranges end at the last token).
     DEV-FormFeedIndent: parso's tokenizer counts a form feed at line start as one column of
       indentation (CPython ignores it).  Usually this only adds a spurious INDENT error leaf
       (no name, no position moves).  But a compound statement whose suite is indented by a
       single tab (also column 1) is then not recognised: error nodes, and none of the header's
       names is a definition (known finding).  Such buffers are marked out.modelled = FALSE:
       the Design makes no prediction, the invariants skip them, and the real code is judged
       on them by the Reference alone (Trace_Positions).                                  *)
EXTENDS Naturals, Sequences, FiniteSets, TLC, Json, PositionsText

CONSTANTS TplLo, TplHi,  \* templates allowed for the first statement (partition for parallel emission)
          SecondTpls,    \* templates allowed for the statements after the first
          MaxStmts,      \* statements per buffer
          MaxMods1,      \* layout modifications allowed in a 1-statement buffer
          MaxMods2,      \* ... in a longer buffer
          NNames,        \* size of the identifier pool used (4, or 5 = with "__a")
          StripDunder,   \* what-if: the code before 7f3412e (get_public_name strips "__" outside stubs too)
          EmitMod, EmitRem

(* Code points, the text-level REFERENCE (lines, positions, the clauses of the property) and the
   text-level DESIGN (parso split_lines, tokenizer positions, get_line_code): PositionsText.tla *)

---------------------------------------------------------------------------
(* Parse trees (the shapes parso 0.8 builds).  One record shape for nodes and leaves. *)
Nd(ty, ch)   == [k |-> "node", ty |-> ty, s |-> <<>>, slot |-> 0, role |-> "", ind |-> 0, gc |-> "auto", ch |-> ch]
I(slot, r)   == [k |-> "id", ty |-> "name", s |-> <<>>, slot |-> slot, role |-> r, ind |-> 0, gc |-> "auto", ch |-> <<>>]
K(s)         == [k |-> "op", ty |-> "op", s |-> s, slot |-> 0, role |-> "", ind |-> 0, gc |-> "auto", ch |-> <<>>]
NL           == [k |-> "nl", ty |-> "newline", s |-> <<>>, slot |-> 0, role |-> "", ind |-> 0, gc |-> "auto", ch |-> <<>>]
At(n, leaf)  == [leaf EXCEPT !.ind = n]                 \* first leaf of a line indented n levels
Gc(c, leaf)  == [leaf EXCEPT !.gc = c]                  \* class of the gap before this leaf
\* first leaf of the subtree indented
RECURSIVE AtN(_, _)
AtN(n, node) == IF node.k = "node" THEN [node EXCEPT !.ch = <<AtN(n, Head(node.ch))>> \o Tail(node.ch)]
                ELSE At(n, node)

kDef == <<100,101,102>>  kClass == <<99,108,97,115,115>>  kImport == <<105,109,112,111,114,116>>
kFrom == <<102,114,111,109>>  kAs == <<97,115>>  kFor == <<102,111,114>>  kIn == <<105,110>>
kWith == <<119,105,116,104>>  kTry == <<116,114,121>>  kExcept == <<101,120,99,101,112,116>>
kGlobal == <<103,108,111,98,97,108>>  kNonlocal == <<110,111,110,108,111,99,97,108>>
kDel == <<100,101,108>>  kLambda == <<108,97,109,98,100,97>>  kReturn == <<114,101,116,117,114,110>>
kPass == <<112,97,115,115>>  kIf == <<105,102>>  kElse == <<101,108,115,101>>
oEq == <<61>>  oPlusEq == <<43,61>>  oColon == <<58>>  oComma == <<44>>  oLp == <<40>>  oRp == <<41>>
oLb == <<91>>  oRb == <<93>>  oLc == <<123>>  oRc == <<125>>  oDot == <<46>>  oWalrus == <<58,61>>
oAt == <<64>>  oArrow == <<45,62>>  oStar == <<42>>  oStarStar == <<42,42>>  nOne == <<49>>
fStart == <<102,34>>  fEnd == <<34>>

Pass        == Nd("simple_stmt", <<K(kPass), NL>>)
Suite(n, b) == Nd("suite", <<NL>> \o [i \in 1..Len(b) |-> AtN(n, b[i])])
Simple(x)   == Nd("simple_stmt", <<x, NL>>)
Assign(t, v) == Simple(Nd("expr_stmt", <<t, K(oEq), v>>))
Tr(ch)      == Nd("trailer", ch)

(* Roles.  Binding (language reference 4.2.1): targets of assignment/for/with/del/walrus/
   comprehension ("store"/"del", attribute targets "attrstore"/"attrdel"), parameters,
   def/class names, the name an import binds ("alias" after as, else "import"), except-as. *)
Binding == {"store", "del", "attrstore", "attrdel", "param", "def", "class", "alias", "import", "except"}
\* non-binding: "load", "attr", "kwarg", "modpath", "orig", "global", "nonlocal"

Templates == <<
  (* 1  a = bb *)
  Assign(I(1, "store"), I(2, "load")),
  (* 2  a = bb = e *)
  Simple(Nd("expr_stmt", <<I(1, "store"), K(oEq), I(2, "store"), K(oEq), I(3, "load")>>)),
  (* 3  a, bb = e *)
  Assign(Nd("testlist_star_expr", <<I(1, "store"), K(oComma), I(2, "store")>>), I(3, "load")),
  (* 4  (a, [bb, *e]) = n *)
  Assign(Nd("atom", <<K(oLp), Nd("testlist_comp", <<I(1, "store"), K(oComma),
            Nd("atom", <<K(oLb), Nd("testlist_comp", <<I(2, "store"), K(oComma),
                 Nd("star_expr", <<K(oStar), I(3, "store")>>)>>), K(oRb)>>)>>), K(oRp)>>), I(4, "load")),
  (* 5  a.bb[e].n = a *)
  Assign(Nd("atom_expr", <<I(1, "load"), Tr(<<K(oDot), I(2, "attr")>>), Tr(<<K(oLb), I(3, "load"), K(oRb)>>),
            Tr(<<K(oDot), I(4, "attrstore")>>)>>), I(1, "load")),
  (* 6  a[bb] = e *)
  Assign(Nd("atom_expr", <<I(1, "load"), Tr(<<K(oLb), I(2, "load"), K(oRb)>>)>>), I(3, "load")),
  (* 7  a += bb *)
  Simple(Nd("expr_stmt", <<I(1, "store"), K(oPlusEq), I(2, "load")>>)),
  (* 8  a: bb = e *)
  Simple(Nd("expr_stmt", <<I(1, "store"), Nd("annassign", <<K(oColon), I(2, "load"), K(oEq), I(3, "load")>>)>>)),
  (* 9  a: bb *)
  Simple(Nd("expr_stmt", <<I(1, "store"), Nd("annassign", <<K(oColon), I(2, "load")>>)>>)),
  (* 10 @a / def bb(e, n=a): / return e *)
  Nd("decorated", <<Nd("decorator", <<K(oAt), I(1, "load"), NL>>),
     Nd("funcdef", <<K(kDef), I(2, "def"),
        Nd("parameters", <<K(oLp), Nd("param", <<I(3, "param"), K(oComma)>>),
                           Nd("param", <<I(4, "param"), K(oEq), I(1, "load")>>), K(oRp)>>),
        K(oColon), Suite(1, <<Simple(Nd("return_stmt", <<K(kReturn), I(3, "load")>>))>>)>>)>>),
  (* 11 def a(bb: e, *n, **a) -> bb: / pass *)
  Nd("funcdef", <<K(kDef), I(1, "def"),
     Nd("parameters", <<K(oLp), Nd("param", <<Nd("tfpdef", <<I(2, "param"), K(oColon), I(3, "load")>>), K(oComma)>>),
                        Nd("param", <<K(oStar), I(4, "param"), K(oComma)>>),
                        Nd("param", <<K(oStarStar), I(1, "param")>>), K(oRp)>>),
     K(oArrow), I(2, "load"), K(oColon), Suite(1, <<Pass>>)>>),
  (* 12 @a.bb(e) / class n(a, bb=e): / a = bb *)
  Nd("decorated", <<Nd("decorator", <<K(oAt), Nd("atom_expr", <<I(1, "load"), Tr(<<K(oDot), I(2, "attr")>>),
                                                 Tr(<<K(oLp), I(3, "load"), K(oRp)>>)>>), NL>>),
     Nd("classdef", <<K(kClass), I(4, "class"), K(oLp),
        Nd("arglist", <<I(1, "load"), K(oComma), Nd("argument", <<I(2, "kwarg"), K(oEq), I(3, "load")>>)>>), K(oRp),
        K(oColon), Suite(1, <<Assign(I(1, "store"), I(2, "load"))>>)>>)>>),
  (* 13 class a: pass *)
  Nd("classdef", <<K(kClass), I(1, "class"), K(oColon), Pass>>),
  (* 14 import a.bb as e *)
  Simple(Nd("import_name", <<K(kImport), Nd("dotted_as_name",
     <<Nd("dotted_name", <<I(1, "modpath"), K(oDot), I(2, "modpath")>>), K(kAs), I(3, "alias")>>)>>)),
  (* 15 import a.bb *)
  Simple(Nd("import_name", <<K(kImport), Nd("dotted_name", <<I(1, "import"), K(oDot), I(2, "modpath")>>)>>)),
  (* 16 import a, bb as e *)
  Simple(Nd("import_name", <<K(kImport), Nd("dotted_as_names",
     <<I(1, "import"), K(oComma), Nd("dotted_as_name", <<I(2, "modpath"), K(kAs), I(3, "alias")>>)>>)>>)),
  (* 17 from a import bb as e *)
  Simple(Nd("import_from", <<K(kFrom), I(1, "modpath"), K(kImport),
     Nd("import_as_name", <<I(2, "orig"), K(kAs), I(3, "alias")>>)>>)),
  (* 18 from a.bb import e *)
  Simple(Nd("import_from", <<K(kFrom), Nd("dotted_name", <<I(1, "modpath"), K(oDot), I(2, "modpath")>>),
     K(kImport), I(3, "import")>>)),
  (* 19 from a import (bb, e as n) *)
  Simple(Nd("import_from", <<K(kFrom), I(1, "modpath"), K(kImport), K(oLp),
     Nd("import_as_names", <<I(2, "import"), K(oComma), Nd("import_as_name", <<I(3, "orig"), K(kAs), I(4, "alias")>>)>>),
     K(oRp)>>)),
  (* 20 from . import a *)
  Simple(Nd("import_from", <<K(kFrom), K(oDot), K(kImport), I(1, "import")>>)),
  (* 21 for a in bb: / pass *)
  Nd("for_stmt", <<K(kFor), I(1, "store"), K(kIn), I(2, "load"), K(oColon), Suite(1, <<Pass>>)>>),
  (* 22 for a, bb in e: pass *)
  Nd("for_stmt", <<K(kFor), Nd("exprlist", <<I(1, "store"), K(oComma), I(2, "store")>>), K(kIn), I(3, "load"),
     K(oColon), Pass>>),
  (* 23 with a as bb, e as (n, a): pass *)
  Nd("with_stmt", <<K(kWith), Nd("with_item", <<I(1, "load"), K(kAs), I(2, "store")>>), K(oComma),
     Nd("with_item", <<I(3, "load"), K(kAs),
        Nd("atom", <<K(oLp), Nd("testlist_comp", <<I(4, "store"), K(oComma), I(1, "store")>>), K(oRp)>>)>>),
     K(oColon), Pass>>),
  (* 24 with a as bb.e: / pass *)
  Nd("with_stmt", <<K(kWith), Nd("with_item", <<I(1, "load"), K(kAs),
        Nd("atom_expr", <<I(2, "load"), Tr(<<K(oDot), I(3, "attrstore")>>)>>)>>),
     K(oColon), Suite(1, <<Pass>>)>>),
  (* 25 try: / pass / except a as bb: / pass *)
  Nd("try_stmt", <<K(kTry), K(oColon), Suite(1, <<Pass>>),
     Nd("except_clause", <<K(kExcept), I(1, "load"), K(kAs), I(2, "except")>>), K(oColon), Suite(1, <<Pass>>)>>),
  (* 26 a = (bb := e) *)
  Assign(I(1, "store"), Nd("atom", <<K(oLp), Nd("namedexpr_test", <<I(2, "store"), K(oWalrus), I(3, "load")>>), K(oRp)>>)),
  (* 27 def a(): / global bb, e / bb = 1 *)
  Nd("funcdef", <<K(kDef), I(1, "def"), Nd("parameters", <<K(oLp), K(oRp)>>), K(oColon),
     Suite(1, <<Simple(Nd("global_stmt", <<K(kGlobal), I(2, "global"), K(oComma), I(3, "global")>>)),
                Assign(I(2, "store"), K(nOne))>>)>>),
  (* 28 def a(): / bb = 1 / def e(): / nonlocal bb *)
  Nd("funcdef", <<K(kDef), I(1, "def"), Nd("parameters", <<K(oLp), K(oRp)>>), K(oColon),
     Suite(1, <<Assign(I(2, "store"), K(nOne)),
                Nd("funcdef", <<K(kDef), I(3, "def"), Nd("parameters", <<K(oLp), K(oRp)>>), K(oColon),
                   Suite(2, <<Simple(Nd("nonlocal_stmt", <<K(kNonlocal), I(2, "nonlocal")>>))>>)>>)>>)>>),
  (* 29 del a, bb.e *)
  Simple(Nd("del_stmt", <<K(kDel), Nd("exprlist", <<I(1, "del"), K(oComma),
     Nd("atom_expr", <<I(2, "load"), Tr(<<K(oDot), I(3, "attrdel")>>)>>)>>)>>)),
  (* 30 del (a, bb[e]) *)
  Simple(Nd("del_stmt", <<K(kDel), Nd("atom", <<K(oLp), Nd("testlist_comp", <<I(1, "del"), K(oComma),
     Nd("atom_expr", <<I(2, "load"), Tr(<<K(oLb), I(3, "load"), K(oRb)>>)>>)>>), K(oRp)>>)>>)),
  (* 31 a = lambda bb, e=n: bb *)
  Assign(I(1, "store"), Nd("lambdef", <<K(kLambda), Nd("param", <<I(2, "param"), K(oComma)>>),
     Nd("param", <<I(3, "param"), K(oEq), I(4, "load")>>), K(oColon), I(2, "load")>>)),
  (* 32 a = [bb for bb in e if n] *)
  Assign(I(1, "store"), Nd("atom", <<K(oLb), Nd("testlist_comp", <<I(2, "load"),
     Nd("sync_comp_for", <<K(kFor), I(2, "store"), K(kIn), I(3, "load"), Nd("comp_if", <<K(kIf), I(4, "load")>>)>>)>>),
     K(oRb)>>)),
  (* 33 a = {bb: e for bb, e in n} *)
  Assign(I(1, "store"), Nd("atom", <<K(oLc), Nd("dictorsetmaker", <<I(2, "load"), K(oColon), I(3, "load"),
     Nd("sync_comp_for", <<K(kFor), Nd("exprlist", <<I(2, "store"), K(oComma), I(3, "store")>>), K(kIn), I(4, "load")>>)>>),
     K(oRc)>>)),
  (* 34 a = bb.e(n).a *)
  Assign(I(1, "store"), Nd("atom_expr", <<I(2, "load"), Tr(<<K(oDot), I(3, "attr")>>),
     Tr(<<K(oLp), I(4, "load"), K(oRp)>>), Tr(<<K(oDot), I(1, "attr")>>)>>)),
  (* 35 a(bb=e, *n) *)
  Simple(Nd("atom_expr", <<I(1, "load"), Tr(<<K(oLp), Nd("arglist", <<Nd("argument", <<I(2, "kwarg"), K(oEq), I(3, "load")>>),
     K(oComma), Nd("argument", <<K(oStar), I(4, "load")>>)>>), K(oRp)>>)>>)),
  (* 36 a = bb(e)(n=a) *)
  Assign(I(1, "store"), Nd("atom_expr", <<I(2, "load"), Tr(<<K(oLp), I(3, "load"), K(oRp)>>),
     Tr(<<K(oLp), Nd("argument", <<I(4, "kwarg"), K(oEq), I(1, "load")>>), K(oRp)>>)>>)),
  (* 37 a = f"{bb}" *)
  Assign(I(1, "store"), Nd("fstring", <<K(fStart), Nd("fstring_expr", <<Gc("tight", K(oLc)), Gc("inline", I(2, "load")),
     Gc("inline", K(oRc))>>), Gc("tight", K(fEnd))>>)),
  (* 38 if a: / bb = e / else: / n = a *)
  Nd("if_stmt", <<K(kIf), I(1, "load"), K(oColon), Suite(1, <<Assign(I(2, "store"), I(3, "load"))>>),
     K(kElse), K(oColon), Suite(1, <<Assign(I(4, "store"), I(1, "load"))>>)>>)
>>
NT == Len(Templates)

---------------------------------------------------------------------------
(* DESIGN, tree level: parso's Name.get_definition and the get_defined_names family.
   A node is addressed by its path (child indices from the statement's root).        *)
RECURSIVE NodeAt(_, _)
NodeAt(T, p)  == IF p = <<>> THEN T ELSE NodeAt(T.ch[Head(p)], Tail(p))
Parent(p)     == SubSeq(p, 1, Len(p) - 1)
Ty(T, p)      == NodeAt(T, p).ty
Odd(n)        == {j \in 1..n : j % 2 = 1}
Even(n)       == {j \in 1..n : j % 2 = 0}
IsPrefix(p, q) == Len(p) <= Len(q) /\ SubSeq(q, 1, Len(p)) = p

\* _defined_names(current, include_setitem=False)
RECURSIVE DN(_, _)
DN(T, p) ==
  LET n == NodeAt(T, p) IN
  IF n.ty \in {"testlist_star_expr", "testlist_comp", "exprlist", "testlist"}
    THEN UNION {DN(T, Append(p, i)) : i \in Odd(Len(n.ch))}                 \* children[::2]
  ELSE IF n.ty \in {"atom", "star_expr"} THEN DN(T, Append(p, 2))            \* children[1]
  ELSE IF n.ty \in {"power", "atom_expr"} THEN
    IF n.ch[Len(n.ch) - 1].s # oStarStar                                    \* children[-2] != '**'
      THEN LET tr == n.ch[Len(n.ch)] IN
           IF tr.ch[1].s = oDot THEN {p \o <<Len(n.ch), 2>>} ELSE {}        \* '[': only with include_setitem
      ELSE {}
  ELSE {p}

Has(s, c) == \E i \in 1..Len(s) : s[i] = c
\* <Node>.get_defined_names() per node type
DefinedNames(T, p) ==
  LET n == NodeAt(T, p)  c == n.ch IN
  CASE n.ty = "expr_stmt" ->
         (IF c[2].ty = "annassign" THEN DN(T, Append(p, 1)) ELSE {})
         \cup UNION {IF Has(c[i + 1].s, EQ) THEN DN(T, Append(p, i)) ELSE {} : i \in Odd(Len(c) - 2)}
    [] n.ty \in {"for_stmt", "sync_comp_for", "del_stmt"} -> DN(T, Append(p, 2))
    [] n.ty = "namedexpr_test" -> DN(T, Append(p, 1))
    [] n.ty = "with_stmt" ->                                                 \* children[1:-2:2]
         UNION {IF c[j].ty = "with_item" THEN DN(T, p \o <<j, 3>>) ELSE {} : j \in {x \in Even(Len(c) - 2) : TRUE}}
    [] n.ty = "param" ->
         LET off == IF c[1].s \in {oStar, oStarStar} THEN 2 ELSE 1
         IN IF c[off].ty = "tfpdef" THEN {p \o <<off, 1>>} ELSE {Append(p, off)}
    [] n.ty = "import_name" ->                                               \* alias or path[0]
         LET one(q) == LET a == NodeAt(T, q) IN
                       IF a.ty = "dotted_as_name"
                         THEN {q \o <<3>>}
                         ELSE IF a.ty = "name" THEN {q} ELSE {q \o <<1>>}
         IN IF c[2].ty = "dotted_as_names" THEN UNION {one(p \o <<2, i>>) : i \in Odd(Len(c[2].ch))}
            ELSE one(Append(p, 2))
    [] n.ty = "import_from" ->                                               \* alias or name
         LET li   == IF c[Len(c)].s = oRp THEN Len(c) - 1 ELSE Len(c)
             one(q) == LET a == NodeAt(T, q) IN IF a.ty = "name" THEN {q} ELSE {q \o <<3>>}
         IN IF c[Len(c)].s = oStar THEN {}
            ELSE IF c[li].ty = "import_as_names" THEN UNION {one(p \o <<li, i>>) : i \in Odd(Len(c[li].ch))}
            ELSE one(Append(p, li))
    [] OTHER -> {}

GetDefTypes == {"expr_stmt", "sync_comp_for", "with_stmt", "for_stmt", "import_name", "import_from", "param",
                "del_stmt", "namedexpr_test"}
RECURSIVE Walk(_, _, _)
Walk(T, n, p) ==
  LET t == Ty(T, n) IN
  IF t = "suite" THEN <<>>
  ELSE IF t \in GetDefTypes THEN (IF p \in DefinedNames(T, n) THEN <<n>> ELSE <<>>)
  ELSE IF n = <<>> THEN <<>>                     \* the statement's parent is file_input, then None
  ELSE Walk(T, Parent(n), p)
\* Name.get_definition(): <<path of the definition node>> or <<>> (None)
GetDefinition(T, p) ==
  LET par == Parent(p)  pt == Ty(T, par)  i == Last(p) IN
  IF pt \in {"funcdef", "classdef"} THEN (IF i = 2 THEN <<par>> ELSE <<>>)      \* self == node.name
  ELSE IF pt = "except_clause"
    THEN (IF i > 1 /\ NodeAt(T, par).ch[i - 1].s = kAs THEN <<Parent(par)>> ELSE <<>>)   \* the try_stmt
  ELSE Walk(T, par, p)

\* leaves in order, with their paths
RECURSIVE Leaves(_, _)
Leaves(n, p) == IF n.k # "node" THEN <<[leaf |-> n, path |-> p]>>
                ELSE Flat([i \in 1..Len(n.ch) |-> Leaves(n.ch[i], Append(p, i))])
\* ancestors' types, nearest first (up to the statement root)
RECURSIVE Anc(_, _)
Anc(T, p) == IF p = <<>> THEN <<>> ELSE <<Ty(T, Parent(p))>> \o Anc(T, Parent(p))

(* Everything layout-independent about the leaves of a template, computed once:
   def = <<path>> of the definition node, dfirst/dlast = its first/last leaf index,
   dfunc = api type is function/class, pname = ModuleContext.create_name makes an
   AnonymousParamName (definition is a param and the name is its name).               *)
Analyse(T) ==
  LET ls == Leaves(T, <<>>)
      info(j) ==
        LET l == ls[j].leaf  p == ls[j].path
            d == IF l.k = "id" THEN GetDefinition(T, p) ELSE <<>>
            inside == IF d = <<>> THEN {} ELSE {x \in 1..Len(ls) : IsPrefix(d[1], ls[x].path)}
        IN [k |-> l.k, s |-> l.s, slot |-> l.slot, role |-> l.role, ind |-> l.ind, gc |-> l.gc,
            anc |-> IF l.k = "id" THEN Anc(T, p) ELSE <<>>,
            \* index in anc of the simple_stmt holding the statement's final newline leaf (0: not below it)
            ssk |-> LET q == Parent(ls[Len(ls)].path) IN IF IsPrefix(q, p) /\ Len(p) > Len(q) THEN Len(p) - Len(q) ELSE 0,
            isdef |-> d # <<>>,
            dfirst |-> IF d = <<>> THEN 0 ELSE CHOOSE x \in inside : \A y \in inside : x <= y,
            dlast  |-> IF d = <<>> THEN 0 ELSE Max(inside),
            dfunc  |-> d # <<>> /\ Ty(T, d[1]) \in {"funcdef", "classdef"},
            pname  |-> d # <<>> /\ Ty(T, d[1]) = "param"]
  IN Explicit([j \in 1..Len(ls) |-> info(j)])
Tpl == Explicit([t \in 1..NT |-> Analyse(Templates[t])])

---------------------------------------------------------------------------
(* Layout: separators, line ends, indentation, form feed, blank lines *)
AllNames == <<<<97>>, <<98, 98>>, <<233>>, <<21517>>, <<US, US, 97>>>>      \* a bb e-acute CJK __a
NameOf(slot, rot) == AllNames[((slot - 1 + rot) % NNames) + 1]
Eols == <<<<LF>>, <<CR, LF>>, <<CR>>>>
Pres == {"none", "blank", "cmline"}
CmChars == [cmc |-> 99, cmff |-> FF, cmfs |-> FS, cmls |-> LS]
IsCm(sep) == sep \in DOMAIN CmChars

IsWord(li) == li.k = "id" \/ (li.k = "op" /\ li.s # <<>> /\ (li.s[1] \in 97..122 \/ li.s[1] \in 48..57))
Opens(li)  == li.k = "op" /\ li.gc = "auto" /\ li.s \in {oLp, oLb, oLc}
Closes(li) == li.k = "op" /\ li.gc = "auto" /\ li.s \in {oRp, oRb, oRc}
\* bracket depth before leaf j of template t
Depth(t, j) == Cardinality({x \in 1..(j - 1) : Opens(Tpl[t][x])}) - Cardinality({x \in 1..(j - 1) : Closes(Tpl[t][x])})
FirstOfLine(t, j) == j = 1 \/ Tpl[t][j - 1].k = "nl"
Required(t, j) == IsWord(Tpl[t][j]) /\ IsWord(Tpl[t][j - 1])
\* separators allowed in the gap before leaf j
Allowed(t, j) ==
  LET li == Tpl[t][j] IN
  IF FirstOfLine(t, j) THEN {}
  ELSE IF li.gc = "tight" THEN {"none"}
  ELSE IF li.gc = "inline" THEN {"none", "sp1", "tab"}
  ELSE IF li.k = "nl" THEN {"none", "sp1", "cmc", "cmff", "cmfs", "cmls"}
  ELSE (IF Required(t, j) THEN {} ELSE {"none"})
       \cup {"sp1", "sp2", "tab", "bsnl", "bsnl2"}
       \cup (IF Depth(t, j) > 0 THEN {"brnl", "brnl2", "cmc", "cmfs", "cmls"} ELSE {})
DefaultSep(t, j) == IF FirstOfLine(t, j) THEN "none"
                    ELSE IF Tpl[t][j].k # "nl" /\ Tpl[t][j].gc = "auto" /\ Required(t, j) THEN "sp1" ELSE "none"
GapT == Explicit([t \in 1..NT |-> Explicit([j \in 1..Len(Tpl[t]) |-> [allowed |-> Allowed(t, j), def |-> DefaultSep(t, j)]])])
HasIndent(t) == \E j \in 1..Len(Tpl[t]) : Tpl[t][j].ind > 0
FFBreaks(t)  == HasIndent(t) /\ Tpl[t][1].s # oAt        \* DEV-FormFeedIndent (a decorator line in front absorbs it)

SepText(sep, eol, innl) ==
  CASE sep = "none" -> <<>>   [] sep = "sp1" -> <<SP>>   [] sep = "sp2" -> <<SP, SP>>   [] sep = "tab" -> <<TAB>>
    [] sep = "bsnl" -> <<BSL>> \o eol         [] sep = "bsnl2" -> <<SP, BSL>> \o eol \o <<SP, SP>>
    [] sep = "brnl" -> eol                    [] sep = "brnl2" -> eol \o <<TAB>>
    [] IsCm(sep) -> IF innl THEN <<SP, HASH, CmChars[sep]>>                  \* comment before the logical newline
                    ELSE <<SP, HASH, CmChars[sep]>> \o eol \o <<SP>>         \* comment + newline inside brackets

VARIABLES stmts,   \* <<[tpl, rot, eol (1..3), ff, pre]>>
          mods,    \* set of [i (statement), j (leaf), sep]: gaps that deviate from the default
          tabs,    \* indentation unit is a tab instead of four spaces
          final,   \* the buffer ends with a line terminator
          lay,     \* derived: the rendered text and the offsets of all leaves
          out      \* derived: what the Design says jedi reports
vars == <<stmts, mods, tabs, final, lay, out>>

SepOf(md, i, t, j) == IF \E m \in md : m.i = i /\ m.j = j THEN (CHOOSE m \in md : m.i = i /\ m.j = j).sep
                      ELSE GapT[t][j].def

\* text in front of leaf j of statement i (the parso "prefix")
Prefix(st, md, tb, i, j) ==
  LET s == st[i]  t == s.tpl  li == Tpl[t][j]  eol == Eols[s.eol] IN
  IF FirstOfLine(t, j) THEN
       (IF j = 1 THEN (CASE s.pre = "none" -> <<>>
                         [] s.pre = "blank" -> <<SP>> \o eol
                         [] s.pre = "cmline" -> <<HASH, 99>> \o eol)
                      \o (IF s.ff THEN <<FF>> ELSE <<>>)
        ELSE <<>>)
       \o Flat([x \in 1..li.ind |-> IF tb THEN <<TAB>> ELSE <<SP, SP, SP, SP>>])
  ELSE SepText(SepOf(md, i, t, j), eol, li.k = "nl")
LeafText(st, fin, i, j) ==
  LET s == st[i]  li == Tpl[s.tpl][j] IN
  CASE li.k = "id" -> NameOf(li.slot, s.rot)
    [] li.k = "op" -> li.s
    [] li.k = "nl" -> IF ~fin /\ i = Len(st) /\ j = Len(Tpl[s.tpl]) THEN <<>> ELSE Eols[s.eol]

\* all leaves of the buffer as <<i, j>>
AllLeaves(st) == Flat([i \in 1..Len(st) |-> Explicit([j \in 1..Len(Tpl[st[i].tpl]) |-> <<i, j>>])])
RECURSIVE LayFrom(_, _, _, _, _, _, _, _)
LayFrom(st, md, tb, fin, ls, text, offs, lens) ==
  IF ls = <<>> THEN [text |-> text, offs |-> offs, lens |-> lens]
  ELSE LET i == Head(ls)[1]  j == Head(ls)[2]
           pre == Prefix(st, md, tb, i, j)
           tx  == LeafText(st, fin, i, j)
       IN LayFrom(st, md, tb, fin, Tail(ls), text \o pre \o tx, Append(offs, Len(text) + Len(pre)), Append(lens, Len(tx)))
\* [text, leaves, offs (0-based offset of every leaf), lens, starts (Reference line starts of the text)]
Layout(st, md, tb, fin) ==
  LET ls == AllLeaves(st)  r == LayFrom(st, md, tb, fin, ls, <<>>, <<>>, <<>>)
  IN [text |-> r.text, offs |-> r.offs, lens |-> r.lens, leaves |-> ls, starts |-> Starts(r.text)]

---------------------------------------------------------------------------
(* DESIGN, API level: Script.get_names(all_scopes=True, definitions=True, references=True)
   and the accessors of every returned Name *)
\* BaseTreeParamName.get_public_name: the buffer is never a stub, so the name is the token's text;
\* what-if StripDunder: the behaviour before the repair (DEV-DunderParam)
PublicName(li, text) == IF StripDunder /\ li.pname /\ Len(text) >= 2 /\ text[1] = US /\ text[2] = US
                        THEN SubSeq(text, 3, Len(text)) ELSE text

RECURSIVE InsertByPos(_, _)
InsertByPos(sorted, r) ==
  IF sorted = <<>> THEN <<r>>
  ELSE IF PosLeq(<<Head(sorted).line, Head(sorted).col>>, <<r.line, r.col>>)
       THEN <<Head(sorted)>> \o InsertByPos(Tail(sorted), r) ELSE <<r>> \o sorted
RECURSIVE SortByPos(_)
SortByPos(rs) == IF rs = <<>> THEN <<>> ELSE InsertByPos(SortByPos(Tail(rs)), Head(rs))

DesignOut(st, tb, fin, L) ==
  LET lines == DSplitLines(L.text)
      info(g) == Tpl[st[L.leaves[g][1]].tpl][L.leaves[g][2]]
      base(g) == g - L.leaves[g][2]                \* global index of the statement's leaf 0
      spos(g) == DPos(lines, L.offs[g])
      txt(g)  == SubSeq(L.text, L.offs[g] + 1, L.offs[g] + L.lens[g])
      epos(g) == IF info(g).k = "nl" THEN DNlEndPos(spos(g), txt(g)) ELSE DEndPos(spos(g), L.lens[g])
      \* DEV-NoFinalNewline: without a line terminator at the end of the buffer parso builds no newline
      \* leaf, and the simple_stmt left with a single child is replaced by that child
      absent(g) == ~fin /\ g = Len(L.leaves)
      eofstmt(g) == ~fin /\ L.leaves[g][1] = Len(st)
      rec(g)  ==
        LET li == info(g)  p == spos(g)
            dl == base(g) + li.dlast
        IN [line |-> p[1], col |-> p[2], name |-> PublicName(li, txt(g)), isdef |-> li.isdef,
            \* get_definition_start_position: definition is None -> name.start_pos
            ds |-> <<IF li.isdef THEN spos(base(g) + li.dfirst) ELSE p>>,
            \* get_definition_end_position: function/class -> last leaf, or the one before a newline leaf
            de |-> <<IF ~li.isdef THEN epos(g)
                     ELSE IF absent(dl) THEN epos(dl - 1)
                     ELSE IF li.dfunc /\ info(dl).k = "nl" THEN epos(dl - 1)
                     ELSE epos(dl)>>,
            lc |-> DLineCode(lines, p[1], 0, 0),
            lc11 |-> DLineCode(lines, p[1], 1, 1),
            role |-> li.role, g |-> g,
            anc |-> IF eofstmt(g) /\ li.ssk > 0
                    THEN SubSeq(li.anc, 1, li.ssk - 1) \o SubSeq(li.anc, li.ssk + 1, Len(li.anc)) ELSE li.anc]
      \* get_module_names: every name leaf (module.get_used_names()), def_ref_filter lets all pass
      RECURSIVE From(_)
      From(g) == IF g > Len(L.leaves) THEN <<>>
                 ELSE (IF info(g).k = "id" THEN <<rec(g)>> ELSE <<>>) \o From(g + 1)
  IN [names |-> SortByPos(From(1)), lines |-> lines,          \* Script._names: sorted by start_pos
      modelled |-> ~\E i \in 1..Len(st) : st[i].ff /\ tb /\ FFBreaks(st[i].tpl)]   \* DEV-FormFeedIndent

---------------------------------------------------------------------------
(* The bounded input space, built by actions *)
NMods(st, md, tb, fin) ==
  Cardinality(md) + (IF tb THEN 1 ELSE 0) + (IF fin THEN 0 ELSE 1)
  + Cardinality({i \in 1..Len(st) : st[i].rot # 0}) + Cardinality({i \in 1..Len(st) : st[i].eol # 1})
  + Cardinality({i \in 1..Len(st) : st[i].ff}) + Cardinality({i \in 1..Len(st) : st[i].pre # "none"})
Budget(st) == IF Len(st) <= 1 THEN MaxMods1 ELSE MaxMods2

Set(st, md, tb, fin) ==
  /\ stmts' = st /\ mods' = md /\ tabs' = tb /\ final' = fin
  /\ LET L == Layout(st, md, tb, fin) IN lay' = L /\ out' = DesignOut(st, tb, fin, L)

Init == /\ stmts = <<>> /\ mods = {} /\ tabs = FALSE /\ final = TRUE
        /\ lay = [text |-> <<>>, offs |-> <<>>, lens |-> <<>>, leaves |-> <<>>, starts |-> <<0>>]
        /\ out = [names |-> <<>>, lines |-> <<<<>>>>, modelled |-> TRUE]
Fresh(t) == [tpl |-> t, rot |-> 0, eol |-> 1, ff |-> FALSE, pre |-> "none"]
CanMod == stmts # <<>> /\ NMods(stmts, mods, tabs, final) < Budget(stmts)
AddStmt(t) == /\ Len(stmts) < MaxStmts /\ NMods(stmts, mods, tabs, final) = 0
              /\ (IF stmts = <<>> THEN t \in TplLo..TplHi ELSE t \in SecondTpls)
              /\ Set(Append(stmts, Fresh(t)), mods, tabs, final)
Rotate(i, r) == /\ CanMod /\ stmts[i].rot = 0 /\ Set([stmts EXCEPT ![i].rot = r], mods, tabs, final)
SetEol(i, e) == /\ CanMod /\ stmts[i].eol = 1 /\ Set([stmts EXCEPT ![i].eol = e], mods, tabs, final)
SetFF(i)     == /\ CanMod /\ ~stmts[i].ff /\ Set([stmts EXCEPT ![i].ff = TRUE], mods, tabs, final)
SetPre(i, p) == /\ CanMod /\ stmts[i].pre = "none" /\ Set([stmts EXCEPT ![i].pre = p], mods, tabs, final)
UseTabs      == /\ CanMod /\ ~tabs /\ (\E i \in 1..Len(stmts) : HasIndent(stmts[i].tpl)) = TRUE
                /\ Set(stmts, mods, TRUE, final)
DropFinal    == /\ CanMod /\ final /\ Set(stmts, mods, tabs, FALSE)
SetSep(i, j, sep) == /\ CanMod /\ (\A m \in mods : ~(m.i = i /\ m.j = j))
                     /\ sep # GapT[stmts[i].tpl][j].def
                     /\ Set(stmts, mods \cup {[i |-> i, j |-> j, sep |-> sep]}, tabs, final)
Next ==
  \/ \E t \in 1..NT : AddStmt(t)
  \/ \E i \in 1..Len(stmts) :
       \/ \E r \in 1..(NNames - 1) : Rotate(i, r)
       \/ \E e \in 2..3 : SetEol(i, e)
       \/ SetFF(i)
       \/ \E p \in Pres \ {"none"} : SetPre(i, p)
       \/ \E j \in 1..Len(Tpl[stmts[i].tpl]) : \E sep \in GapT[stmts[i].tpl][j].allowed : SetSep(i, j, sep)
  \/ UseTabs
  \/ DropFinal

---------------------------------------------------------------------------
(* REFERENCE, token level: the identifier tokens of the buffer, from the text and the roles *)
LeafInfo(g) == Tpl[stmts[lay.leaves[g][1]].tpl][lay.leaves[g][2]]
IdentLeaves == {g \in 1..Len(lay.leaves) : LeafInfo(g).k = "id"}
TokText(g)  == SubSeq(lay.text, lay.offs[g] + 1, lay.offs[g] + lay.lens[g])
RefBinds(g) == LeafInfo(g).role \in Binding
\* the tokens in text order = increasing offset
RECURSIVE RefToksFrom(_)
RefToksFrom(g) == IF g > Len(lay.leaves) THEN <<>>
                  ELSE (IF g \in IdentLeaves
                        THEN LET p == RefPos(lay.starts, lay.offs[g])
                             IN <<[line |-> p[1], col |-> p[2], binds |-> RefBinds(g), text |-> TokText(g)]>>
                        ELSE <<>>) \o RefToksFrom(g + 1)
RefToks == RefToksFrom(1)

(* Design |= Reference *)
T  == lay.text
ST == lay.starts
SplitLinesOK   == out.modelled => out.lines = RefLines(T, ST)
NamesOK        == out.modelled => LET toks == RefToks IN ClBijection(toks, out.names) /\ ClIsDef(toks, out.names)
NamesBijection == out.modelled => ClBijection(RefToks, out.names)
IsDefOK        == out.modelled => ClIsDef(RefToks, out.names)
TextAtPos      == out.modelled => \A i \in 1..Len(out.names) : ClTextAtPos(T, ST, out.names[i])
RangeEncloses  == out.modelled => \A i \in 1..Len(out.names) : ClRange(T, ST, out.names[i])
LineCodeOK     == out.modelled => \A i \in 1..Len(out.names) : ClLineCode(T, ST, out.names[i])
\* documented meaning of before/after (not part of the property text; kept apart)
LineCodeCtxOK  == out.modelled => \A i \in 1..Len(out.names) :
                    LET r == out.names[i]  n == Len(ST)
                        lo == IF r.line > 1 THEN r.line - 1 ELSE 1
                        hi == IF r.line < n THEN r.line + 1 ELSE n
                    IN r.lc11 = SubSeq(T, ST[lo] + 1, LineEnd(T, ST, hi))

---------------------------------------------------------------------------
(* emission of cases for replay *)
RECURSIVE SumSeq(_)
SumSeq(s) == IF s = <<>> THEN 0 ELSE (s[1] + 3 * SumSeq(Tail(s))) % 100003
CaseNo == (SumSeq(lay.text) + 7 * Len(lay.text) + (IF tabs THEN 1 ELSE 0)) % 100003
Emit == (stmts # <<>> /\ CaseNo % EmitMod = EmitRem) =>
          PrintT(<<"CASE", ToJson([stmts |-> stmts, mods |-> mods, tabs |-> tabs, final |-> final,
                                   text |-> lay.text, names |-> out.names, toks |-> RefToks, modelled |-> out.modelled,
                                   nlines |-> Len(lay.starts)])>>)
=============================================================================
