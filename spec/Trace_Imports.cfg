INIT TInit
NEXT TNext
CONSTANTS
  Names = {"pka", "pkb", "pkc", "pkd"}
  AttrNames = {"pka", "pkb", "pkc", "pkd"}
  MaxDepth = 4
  MaxNodes = 30
  Kinds = {"mod", "pkg", "pkga", "ns", "both", "modns"}
  Shapes = {"one"}
  MaxLevel = 4
  MaxFromPath = 2
  EmitMod = 1
  EmitRem = 0
CONSTRAINT Verdict
CHECK_DEADLOCK FALSE
