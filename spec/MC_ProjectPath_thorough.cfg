\* reference copy of the thorough configuration (second of two: deep script locations; the first is MaxSys=3 MaxAdded=1 MaxDepth=1); the check writes its run-specific cfgs into its tmp dir
INIT Init
NEXT Next
CONSTANTS
  MaxSys = 2
  MaxAdded = 2
  MaxDepth = 4
  MaxChain = 3
  SysIdx = {1,3,4,7,10,13,14}
  AddedIdx = {7,10}
  EmitMod = 1
  EmitRem = 0
  FixEnvPath = TRUE
  FixRelProject = TRUE
INVARIANT InvRoundTrip
INVARIANT InvSysPath
INVARIANT InvImport
INVARIANT InvKnownEnvPath
INVARIANT InvKnownRelProject
INVARIANT InvVariants
CHECK_DEADLOCK FALSE
