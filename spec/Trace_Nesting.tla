------------------------ MODULE Trace_Nesting ------------------------
(* Code -> spec for C18.  A trace = one source file (a rendered TLC case or a corpus
   file).  Event 1 carries the scope table computed by CPython's `ast` from the text
   and the module's dotted import path; the other events are observations of the real
   jedi, each judged against the Reference operators of Nesting.tla:
     ctx    get_context(l, c)            -> got = table row of the answer (0 module, 9999 unknown)
     dchain parent() chain of definition `row`           -> got = rows, innermost first
     nchain parent() chain of a name (definition or reference; from get_names, goto or infer)
            -> got = rows (own = function of a parameter); 10000 + k = the k-th lambda of the
            file (lams), 9998 = a parent() result that is not a usable Name (.name/.type/.line raise).
            Comprehensions and lambdas are transparent; an enclosing lambda may be visited.
            (event 1 also carries lams / comps: the extents of the lambdas / comprehensions of the
             file from the ast; comps only names the shape of a rejected chain)
     achain oracle: the def/class nodes of the ast around a name (structural nesting), which must
            equal the geometric Reference (a mismatch is a failure of the machinery, not of jedi)
     full   full_name of definition `row`                -> got = <<>> (None) or <<code points>>
            (mods = the dotted paths under which the file is importable given the sys.path
             the Script works with; any of them counts as "the module's import path")
   Every failing event is reported (<<"REJECT", tid, l, why>>); ACCEPT only if none failed. *)
EXTENDS Naturals, Sequences, FiniteSets, TLC, Json, IOUtils

CONSTANTS MaxItems, MaxDepth, MaxScopes, MaxExtras, Units, EmitMod, EmitRem, Fixed, MaxNest, NestKinds, Plain
VARIABLES prog, unit
INSTANCE Nesting

Traces == JsonDeserialize(IOEnv.TRACE_FILE)
VARIABLES tid, l, bad

TabOf(t) == Traces[t][1].scopes
ModOf(t) == Traces[t][1].mods
Ev == Traces[tid][l]

EvOK(tab, mod, ev) ==
  CASE ev.k = "ctx"    -> ev.got \in Allowed(tab, <<ev.l, ev.c>>)
    [] ev.k = "dchain" -> ev.got = RefChain(tab, ev.row)
    [] ev.k = "nchain" -> NameChainOK(tab, Traces[tid][1].lams, <<ev.l, ev.c>>, ev.own, ev.got)
    \* oracle event: the chain of def/class nodes of the ast around the name == the Reference
    [] ev.k = "achain" -> ev.got = RefNameChain(tab, <<ev.l, ev.c>>, ev.own)
    [] ev.k = "full"   -> (FullJudged(tab, ev.row) =>
                             \E m \in 1..Len(mod) : ev.got = <<RefFull(tab, mod[m], ev.row)>>)
    [] OTHER -> FALSE
Why(tab, mod, ev) ==
  CASE ev.k = "ctx" -> <<"ctx", (IF HeaderOf(tab, <<ev.l, ev.c>>) = {} THEN "body" ELSE "header"),
                         Shape(tab, Traces[tid][1].lams, <<ev.l, ev.c>>, ev.got), RefCtx(tab, <<ev.l, ev.c>>)>>
    \* (kept short: TLC wraps long values over several lines)
    [] ev.k = "dchain" -> <<"parent-chain", "def", Len(RefChain(tab, ev.row))>>
    \* shape code: UN unusable Name on the way, LC lambda-in-class, AH anon-in-header, OT other; then the number of
    \* comprehensions / lambdas around the name
    [] ev.k = "nchain" -> <<"parent-chain", "name", Len(RefNameChain(tab, <<ev.l, ev.c>>, ev.own)),
                            (LET sh == ChainShape(tab, Traces[tid][1].lams, Traces[tid][1].comps, <<ev.l, ev.c>>, ev.got)
                             IN IF sh = "unusable" THEN "UN" ELSE IF sh = "lambda-in-class" THEN "LC"
                                ELSE IF sh = "anon-in-header" THEN "AH" ELSE "OT"),
                            CompDepth(Traces[tid][1].comps, <<ev.l, ev.c>>),
                            LamDepth(Traces[tid][1].lams, <<ev.l, ev.c>>)>>
    [] ev.k = "achain" -> <<"ast-chain", "name">>
    [] ev.k = "full" -> <<"full-name", (IF ev.got = <<>> THEN "none" ELSE "wrong"), Len(RefFull(tab, mod[1], ev.row))>>
    [] OTHER -> <<"unknown-event">>

TInit == /\ tid \in 1..Len(Traces) /\ l = 2 /\ bad = FALSE /\ prog = <<>> /\ unit = 0
TNext == /\ l <= Len(Traces[tid])
         /\ bad' = (bad \/ ~EvOK(TabOf(tid), ModOf(tid), Ev))
         /\ l' = l + 1
         /\ UNCHANGED <<tid, prog, unit>>
Verdict ==
  IF l = Len(Traces[tid]) + 1 THEN (bad \/ PrintT(<<"ACCEPT", tid>>))
  ELSE EvOK(TabOf(tid), ModOf(tid), Ev) \/ PrintT(<<"REJECT", tid, l, Why(TabOf(tid), ModOf(tid), Ev)>>)
=============================================================================
