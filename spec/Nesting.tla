------------------------------ MODULE Nesting ------------------------------
(* C18 -- get_context, parent() and full_name describe the lexical nesting.

   A program is a sequence of ITEMS (text lines of fixed templates) built by actions;
   indentation of an item at depth d is unit*d.  The LAYOUT section turns a program
   into (a) a token list with exact (line, column) extents -- what parso's tree offers
   to jedi -- and (b) a SCOPE TABLE with the extents of every def/class: header start,
   keyword column, body start, body end.  The harness renders the same templates to
   text and CPython's `ast` recomputes the scope table from the text (layout binding).

   Reference = the sentences of the property, purely geometric over the scope table:
                Ctx(pos) = innermost def/class whose BODY extent contains pos (module
                otherwise); Chain(def) = the scopes whose body contains the definition;
                FullName(def) = module path . __qualname__ (Python's rule) when every
                enclosing scope is a class.  The same operators judge recorded traces of
                corpus files (Trace_Nesting.tla, table logged from `ast`).
   Design    = transcription of jedi, over tokens and the syntactic item tree:
                parso get_leaf_for_position (first leaf with end_pos >= pos), the
                previous-leaf rule, Script.get_context's special case
                `n.start_pos < pos <= suite.start_pos`, TreeContextMixin.create_context
                (parent_scope + header rule + param exception), the skip of anonymous
                contexts (comprehension / lambda), the indentation walk-up
                `scope.start_pos[1] < column`, BaseName.parent (search_ancestor),
                get_qualified_names (TreeNameDefinition route and value route).
   Deviations of the code from the Reference, modelled and named.  The last three were
   defects of Script.get_context; each has a repair (tools/patches/c18_*.diff) and a
   switch: the constant Fixed (a subset of {"AsyncColumn", "DedentCont", "LambdaInClass"})
   says which repairs the modelled code contains.  Default = all three (the repaired
   code); Fixed = {} is the what-if model of the old code, which must still violate
   CtxStrict (sensitivity run of the harness).
     HeaderSelf   positions on a def/class header (after the first character of the
                  keyword) answer the definition itself, not the enclosing scope
                  (pinned by upstream test_context; the Reference tolerates both).
     AsyncColumn  the walk-up compares the cursor column with the column of the `def`
                  keyword of an `async def` (funcdef.start_pos), which lies right of the
                  body's indentation -> body code of an async def answers the parent.
     DedentCont   code on a continuation line left of (or at) the column of its enclosing
                  def/class keyword answers an outer scope.
     LambdaInClass code inside a lambda written in a class body answers the scope around
                  the class (the lambda's name has no tree_name; its parent_context is
                  stripped of classes by FunctionValue.from_context).
   AsyncColumn, DedentCont and LambdaInClass break the property text on code positions
   (findings C18/ctx:*, now "fixed").  A deviation that is NOT in Fixed is excused in
   CtxOK by the named predicate KnownDeviation; with all three fixed CtxOK = CtxStrict.
   CtxLiteral (expected to fail) documents HeaderSelf.

   NESTS (anonymous scopes).  An item of kind "nest" is  vN = <expression>  where the
   expression is a TREE of anonymous scopes: list / set / dict comprehensions, generator
   expressions and lambdas, each of which may hold another one in its element/body
   (slot "e") and in its first iterable / parameter default (slot "i"), to MaxNest
   nodes (= nesting depth up to MaxNest).  The tree is grown node by node (GrowNest), in
   preorder, so that every tree has one construction path.  Python: these scopes are
   not classes or functions with a name -- the Reference stays geometric over the
   def/class table: a definition or reference written anywhere in such an expression
   has the chain of the def/class bodies that contain it (comprehensions and lambdas
   are transparent); a lambda that really encloses the name may be reported on the way
   (a lambda is a function), in nesting order, but nothing else; every Name on the way
   must be usable (UNUSABLE marks a parent() result whose .name/.type/.line raise).
   Design: TreeContextMixin.create_context builds one CompForContext per enclosing
   comp_for -- except when the node lies in the comp_for's last child (the iterable):
   then the comprehension is left out -- and a function context per lambdef;
   BaseName.parent() leaves ALL nameless (comprehension) contexts (`while`, switch
   "CompWhile": without it only one is left and the second is handed on as a Name
   without a name), answers a lambda by its LambdaName, whose parent() continues with
   LambdaName.parent_context, which FunctionValue.from_context stripped of classes:
     LambdaParent  (NOT repaired, finding C18/parent-chain:lambda-in-class): the chain
                  of a name inside a lambda written directly in a class body leaves out
                  the class(es).  Excused in ParentOK by KnownParentDeviation while
                  "LambdaParent" is not in Fixed.                                      *)
EXTENDS Naturals, Sequences, FiniteSets, TLC, Json, SequencesExt

---------------------------------------------------------------------------
(* Positions: <<line, column>>, lexicographic *)
PLt(p, q) == p[1] < q[1] \/ (p[1] = q[1] /\ p[2] < q[2])
PLe(p, q) == p = q \/ PLt(p, q)

None == <<>>
Some(x) == <<x>>

---------------------------------------------------------------------------
(* REFERENCE -- over a scope table tab: Seq of
     [hl, hc  header start (first decorator / `async` / keyword),
      kc      column of the def/class keyword,
      bl, bc  start of the first body token,
      el, ec  end (exclusive) of the last body token,
      cls     TRUE for classes, asy TRUE for async def, nm name as code points]      *)
HS(s) == <<s.hl, s.hc>>
BS(s) == <<s.bl, s.bc>>
BE(s) == <<s.el, s.ec>>
InBody(s, p)   == PLe(BS(s), p) /\ PLt(p, BE(s))
InHeader(s, p) == PLe(HS(s), p) /\ PLt(p, BS(s))

Containing(tab, p) == {i \in 1..Len(tab) : InBody(tab[i], p)}
\* innermost = the containing body that starts last (bodies nest, starts are distinct)
RefCtx(tab, p) ==
  LET S == Containing(tab, p)
  IN IF S = {} THEN 0 ELSE CHOOSE i \in S : \A j \in S : PLe(BS(tab[j]), BS(tab[i]))
HeaderOf(tab, p) == {i \in 1..Len(tab) : InHeader(tab[i], p)}
\* what get_context may answer on a code position: the property's scope; on a header of
\* definition i additionally i itself (HeaderSelf, see above)
Allowed(tab, p) == {RefCtx(tab, p)} \cup HeaderOf(tab, p)

RefParent(tab, i) == RefCtx(tab, HS(tab[i]))
RECURSIVE RefChain(_, _)
RefChain(tab, i) == LET p == RefParent(tab, i)
                    IN IF p = 0 THEN <<>> ELSE <<p>> \o RefChain(tab, p)
\* chain of a plain position (variables, parameters): scopes whose body contains it
RefChainAt(tab, p) == LET c == RefCtx(tab, p)
                      IN IF c = 0 THEN <<>> ELSE <<c>> \o RefChain(tab, c)
\* own = the function whose parameter the name is (0 otherwise): a parameter is local
\* to its function although it is written in the header
RefNameChain(tab, p, own) == IF own # 0 THEN <<own>> \o RefChain(tab, own) ELSE RefChainAt(tab, p)

\* Python's __qualname__ rule (validated against code objects' co_qualname / imported
\* objects by the harness)
LOCALS == <<60, 108, 111, 99, 97, 108, 115, 62>>      \* "<locals>"
RECURSIVE Qual(_, _)
Qual(tab, i) == LET p == RefParent(tab, i)
                IN IF p = 0 THEN <<tab[i].nm>>
                   ELSE Qual(tab, p) \o (IF tab[p].cls THEN <<>> ELSE <<LOCALS>>) \o <<tab[i].nm>>
\* "a definition at module or class level": importable by a dotted path, i.e. every
\* enclosing scope is a class
FullJudged(tab, i) == \A k \in 1..Len(RefChain(tab, i)) : tab[RefChain(tab, i)[k]].cls
RECURSIVE Join(_)
Join(parts) == IF parts = <<>> THEN <<>>
               ELSE IF Len(parts) = 1 THEN parts[1]
               ELSE parts[1] \o <<46>> \o Join(Tail(parts))
RefFull(tab, mod, i) == Join(mod \o Qual(tab, i))

\* classification of a wrong answer `got` on a body position (names of the known shapes)
RECURSIVE UpTo(_, _, _)
UpTo(tab, from, to) == \* scopes from `from` upward, excluding `to`
  IF from = 0 \/ from = to THEN {} ELSE {from} \cup UpTo(tab, RefParent(tab, from), to)
IsAncestorOrModule(tab, a, i) == a = 0 \/ \E k \in 1..Len(RefChain(tab, i)) : RefChain(tab, i)[k] = a
\* lams: extents <<l, c, el, ec>> of the lambda expressions of the file
InLambda(lams, p) == \E k \in 1..Len(lams) : PLe(<<lams[k][1], lams[k][2]>>, p) /\ PLt(p, <<lams[k][3], lams[k][4]>>)
RECURSIVE RefSkipClasses(_, _)
RefSkipClasses(tab, r) == IF r = 0 THEN 0 ELSE IF tab[r].cls THEN RefSkipClasses(tab, RefParent(tab, r)) ELSE r
Shape(tab, lams, p, got) ==
  LET r == RefCtx(tab, p)
  IN IF r # 0 /\ got # r /\ IsAncestorOrModule(tab, got, r)
        /\ \A s \in UpTo(tab, r, got) : tab[s].kc >= p[2]
     THEN (IF \E s \in UpTo(tab, r, got) : tab[s].asy /\ tab[s].hc < p[2]
           THEN "async-def-column" ELSE "dedented-continuation")
     ELSE IF r # 0 /\ got # r /\ tab[r].cls /\ InLambda(lams, p) /\ got = RefSkipClasses(tab, r)
     THEN "lambda-in-class"
     ELSE "other"

\* ---- parent() chains of names (definitions and references).  A chain is a sequence of
\* table rows; LAMBASE + k stands for the k-th lambda of the file (lams), UNUSABLE for a
\* parent() result that is not a usable Name, UNKNOWN for anything else.
LAMBASE  == 10000
UNKNOWN  == 9999
UNUSABLE == 9998
StripLams(s) == SelectSeq(s, LAMBDA x : x < LAMBASE)
LamStart(lams, x) == <<lams[x - LAMBASE][1], lams[x - LAMBASE][2]>>
\* lambdas may be visited: only real ones that contain the position, before any def/class,
\* innermost first
LamsOK(lams, p, s) ==
  \A j \in 1..Len(s) : s[j] >= LAMBASE =>
     /\ s[j] - LAMBASE \in 1..Len(lams)
     /\ PLe(LamStart(lams, s[j]), p)
     /\ PLt(p, <<lams[s[j] - LAMBASE][3], lams[s[j] - LAMBASE][4]>>)
     /\ \A i \in 1..(j - 1) : /\ s[i] >= LAMBASE
                              /\ s[i] - LAMBASE \in 1..Len(lams)
                              /\ PLt(LamStart(lams, s[j]), LamStart(lams, s[i]))
NameChainOK(tab, lams, p, own, got) ==
  /\ StripLams(got) = RefNameChain(tab, p, own)
  /\ LamsOK(lams, p, got)
RowsFrom(tab, r) == IF r = 0 THEN <<>> ELSE <<r>> \o RefChain(tab, r)
\* comps: extents <<l, c, el, ec>> of the comprehensions / generator expressions
CompDepth(comps, p) ==
  Cardinality({k \in 1..Len(comps) : PLe(<<comps[k][1], comps[k][2]>>, p) /\ PLt(p, <<comps[k][3], comps[k][4]>>)})
LamDepth(lams, p) ==
  Cardinality({k \in 1..Len(lams) : PLe(<<lams[k][1], lams[k][2]>>, p) /\ PLt(p, <<lams[k][3], lams[k][4]>>)})
\* names of the known shapes of a wrong chain:
\*   unusable         a parent() result on the way is not a usable Name
\*   lambda-in-class  the name is inside a lambda, the innermost def/class around is a class, and
\*                    the class(es) are left out
\*   anon-in-header   the name is inside a comprehension / lambda written in the HEADER of a
\*                    def/class (parameter default, annotation, base class), and the chain
\*                    starts with that def/class itself (create_context applies its header rule
\*                    only to nodes directly in the header, not through an anonymous scope)
ChainShape(tab, lams, comps, p, got) ==
  LET r == RefCtx(tab, p)
      H == HeaderOf(tab, p)
  IN IF \E j \in 1..Len(got) : got[j] = UNUSABLE THEN "unusable"
     ELSE IF r # 0 /\ tab[r].cls /\ InLambda(lams, p) /\ LamsOK(lams, p, got)
             /\ StripLams(got) = RowsFrom(tab, RefSkipClasses(tab, r))
     THEN "lambda-in-class"
     ELSE IF H # {} /\ CompDepth(comps, p) + LamDepth(lams, p) > 0 /\ LamsOK(lams, p, got)
             /\ \E h \in H : StripLams(got) = RowsFrom(tab, h)
     THEN "anon-in-header" ELSE "other"

---------------------------------------------------------------------------
(* BOUNDED MODEL: programs *)
CONSTANTS MaxItems, MaxDepth, MaxScopes, MaxExtras, Units, EmitMod, EmitRem,
          Fixed,     \* which repairs / loops the modelled code contains (see header)
          MaxNest,   \* nodes (anonymous scopes) of one nest expression; 0 = no nest items
          NestKinds, \* subset of {"list", "set", "dict", "gen", "lam"}
          Plain      \* TRUE: no decorated / async definitions (the nest space: these do not matter
                     \* for what is inside an expression)
VARIABLES prog, unit
vars == <<prog, unit>>

\* item = [k, d, dec, as, x, sh]
\*   k    "def" | "class"  (header line + indented suite)   "idef" (def f(p): return p)
\*        "stmt" (v = wv)  "lam" (v = lambda q=df: q)  "comp" (v = [i for i in sq])
\*        "cont" (v = (wv, NEWLINE uv) with the second line at column unit*x)
\*        "cmt"  (a comment line at column unit*x; no tokens, pure prefix)
\*        "nest" (v = <tree of comprehensions / generator expressions / lambdas>, shape sh)
\*   dec  preceded by a decorator line  @dc(da)         as   async def
\*   sh   (nest) Seq of nodes [k, par, slot] in preorder: kind, parent node (0 = root),
\*        slot of the parent it fills: "e" element / lambda body, "i" iterable / default
\*          list  [E for a3 in I]      set  {E for a3 in I}      gen  (E for a3 in I)
\*          dict  {a3: E for a3 in I}  lam  (lambda a3=I: E)
\*        an empty slot "e" is a reference to the node's own variable, an empty slot "i" is
\*        `sq` (`df` for a lambda); the variable of node n of item i is  chr(96+n) i
SuiteKinds == {"def", "class"}
OpenKinds  == {"def", "class", "idef"}
CodeKinds  == {"def", "class", "idef", "stmt", "lam", "comp", "cont", "nest"}
IsCode(it)  == it.k \in CodeKinds
IsOpen(it)  == it.k \in OpenKinds
HasSuite(it) == it.k \in SuiteKinds

RECURSIVE LastCode(_, _)
LastCode(p, i) == IF i = 0 THEN 0 ELSE IF IsCode(p[i]) THEN i ELSE LastCode(p, i - 1)
\* depth at which the next item may be written / whether a body is still owed
Need(p) == LET j == LastCode(p, Len(p)) IN j # 0 /\ HasSuite(p[j])
Cur(p)  == LET j == LastCode(p, Len(p))
           IN IF j = 0 THEN 0 ELSE p[j].d + (IF HasSuite(p[j]) THEN 1 ELSE 0)
NScopes(p) == Cardinality({i \in 1..Len(p) : IsOpen(p[i])})
NExtras(p) == Cardinality({i \in 1..Len(p) : p[i].k \in {"idef", "lam", "comp", "cont", "cmt", "nest"}})

\* nest shapes
Child(sh, n, slot) == LET S == {c \in 1..Len(sh) : sh[c].par = n /\ sh[c].slot = slot}
                      IN IF S = {} THEN 0 ELSE CHOOSE c \in S : TRUE
RECURSIVE Ancestors(_, _)
Ancestors(sh, n) == IF n = 0 THEN {} ELSE {n} \cup Ancestors(sh, sh[n].par)
RightPath(sh) == Ancestors(sh, Len(sh))
RECURSIVE NodeDepth(_, _)
NodeDepth(sh, n) == IF n = 0 THEN 0 ELSE 1 + NodeDepth(sh, sh[n].par)
Complete(p) == p # <<>> /\ ~Need(p) /\ LastCode(p, Len(p)) # 0

Depths(p) == IF Need(p) THEN {Cur(p)} ELSE 0..Cur(p)

Init == prog = <<>> /\ unit \in Units
AddOpen(k, d, dec, as) ==
  /\ Len(prog) < MaxItems /\ NScopes(prog) < MaxScopes
  /\ d \in Depths(prog)
  /\ (k \in SuiteKinds) => (d < MaxDepth /\ Len(prog) + 1 < MaxItems)
  /\ (k = "class") => ~as
  /\ Plain => (~dec /\ ~as)
  /\ (k = "idef") => (~dec /\ NExtras(prog) < MaxExtras)
  /\ prog' = Append(prog, [k |-> k, d |-> d, dec |-> dec, as |-> as, x |-> 0, sh |-> <<>>])
  /\ UNCHANGED unit
AddStmt(k, d, x) ==
  /\ Len(prog) < MaxItems
  /\ d \in Depths(prog)
  /\ (k # "stmt") => NExtras(prog) < MaxExtras
  /\ (k = "cont") => x \in 0..(d + 1)
  /\ (k # "cont") => x = 0
  /\ prog' = Append(prog, [k |-> k, d |-> d, dec |-> FALSE, as |-> FALSE, x |-> x, sh |-> <<>>])
  /\ UNCHANGED unit
AddCmt(x) ==
  /\ Len(prog) < MaxItems /\ ~Need(prog) /\ prog # <<>>
  /\ NExtras(prog) < MaxExtras
  /\ x \in 0..(Cur(prog) + 1)
  /\ prog' = Append(prog, [k |-> "cmt", d |-> Cur(prog), dec |-> FALSE, as |-> FALSE, x |-> x, sh |-> <<>>])
  /\ UNCHANGED unit
\* a nest starts with its root node and grows node by node while it is the last item; the
\* nodes are appended in preorder (parent on the rightmost path, slot "e" before slot "i"),
\* so every tree is built along exactly one path
AddNest(k, d) ==
  /\ MaxNest > 0 /\ k \in NestKinds
  /\ Len(prog) < MaxItems /\ NExtras(prog) < MaxExtras
  /\ d \in Depths(prog)
  /\ prog' = Append(prog, [k |-> "nest", d |-> d, dec |-> FALSE, as |-> FALSE, x |-> 0,
                           sh |-> << [k |-> k, par |-> 0, slot |-> "e"] >>])
  /\ UNCHANGED unit
GrowNest(k, par, slot) ==
  /\ prog # <<>> /\ k \in NestKinds
  /\ prog[Len(prog)].k = "nest"
  /\ Len(prog[Len(prog)].sh) < MaxNest
  /\ par \in RightPath(prog[Len(prog)].sh)
  /\ Child(prog[Len(prog)].sh, par, slot) = 0
  /\ (slot = "e") => (Child(prog[Len(prog)].sh, par, "i") = 0)
  /\ prog' = [prog EXCEPT ![Len(prog)].sh = Append(@, [k |-> k, par |-> par, slot |-> slot])]
  /\ UNCHANGED unit
Next ==
  \/ \E k \in OpenKinds, d \in 0..MaxDepth, dec \in BOOLEAN, as \in BOOLEAN : AddOpen(k, d, dec, as)
  \/ \E k \in {"stmt", "lam", "comp", "cont"}, d \in 0..MaxDepth, x \in 0..(MaxDepth + 1) : AddStmt(k, d, x)
  \/ \E x \in 0..(MaxDepth + 1) : AddCmt(x)
  \/ \E k \in NestKinds, d \in 0..MaxDepth : AddNest(k, d)
  \/ \E k \in NestKinds, par \in 1..MaxNest, slot \in {"e", "i"} : GrowNest(k, par, slot)

---------------------------------------------------------------------------
(* LAYOUT: lines, tokens, scope table (shared by Reference and Design; bound to the
   rendered text by the harness: tokenize extents, `ast` table).  Everything that is
   needed more than once per program is computed once into the record M == Mk(p).     *)
NLines(it) == 1 + (IF it.dec THEN 1 ELSE 0) + (IF it.k = "cont" THEN 1 ELSE 0)
RECURSIVE FirstLine(_, _)
FirstLine(p, i) == IF i = 1 THEN 1 ELSE FirstLine(p, i - 1) + NLines(p[i - 1])
Base(it) == unit * it.d
KwCol(it) == Base(it) + (IF it.as THEN 6 ELSE 0)
NameOf(it, i) == <<(IF it.k = "class" THEN 67 ELSE 102), 48 + i>>     \* "C3" / "f3"

\* nd / pt: node of the nest and part of the node the token belongs to (0 / "none" elsewhere)
Tk(i, ln, s, e, c, inn) == [it |-> i, ln |-> ln, s |-> s, eln |-> ln, e |-> e, c |-> c, inn |-> inn,
                            nd |-> 0, pt |-> "none"]
NL(i, ln, s, c)         == [it |-> i, ln |-> ln, s |-> s, eln |-> ln + 1, e |-> 0, c |-> c, inn |-> "none",
                            nd |-> 0, pt |-> "none"]
\* token of node nd of a nest; pt: "o" the brackets (they belong to the place the node is
\* written in), "e" element side / everything of a lambda, "f" `for a in`, "i" the iterable
NTk(i, ln, s, e, c, nd, pt) == [it |-> i, ln |-> ln, s |-> s, eln |-> ln, e |-> e, c |-> c, inn |-> "nest",
                                nd |-> nd, pt |-> pt]

DecoToks(i, ln, b) ==                      \* @dc(da)
  << Tk(i, ln, b, b + 1, "at", "none"), Tk(i, ln, b + 1, b + 3, "dname", "none"),
     Tk(i, ln, b + 3, b + 4, "dlpar", "none"), Tk(i, ln, b + 4, b + 6, "darg", "none"),
     Tk(i, ln, b + 6, b + 7, "drpar", "none"), NL(i, ln, b + 7, "dnl") >>
AsyncTok(i, ln, b) == << Tk(i, ln, b, b + 5, "async", "none") >>
DefToks(i, ln, k) ==                       \* def f1(p1: an = df) -> rt:
  << Tk(i, ln, k, k + 3, "kw", "none"), Tk(i, ln, k + 4, k + 6, "name", "none"),
     Tk(i, ln, k + 6, k + 7, "lpar", "none"), Tk(i, ln, k + 7, k + 9, "aparam", "none"),
     Tk(i, ln, k + 9, k + 10, "pcolon", "none"), Tk(i, ln, k + 11, k + 13, "ann", "none"),
     Tk(i, ln, k + 14, k + 15, "eq", "none"), Tk(i, ln, k + 16, k + 18, "dflt", "none"),
     Tk(i, ln, k + 18, k + 19, "rpar", "none"), Tk(i, ln, k + 20, k + 22, "arrow", "none"),
     Tk(i, ln, k + 23, k + 25, "ret", "none"), Tk(i, ln, k + 25, k + 26, "colon", "none"),
     NL(i, ln, k + 26, "hnl") >>
ClassToks(i, ln, k) ==                     \* class C1(Bs):
  << Tk(i, ln, k, k + 5, "kw", "none"), Tk(i, ln, k + 6, k + 8, "name", "none"),
     Tk(i, ln, k + 8, k + 9, "lpar", "none"), Tk(i, ln, k + 9, k + 11, "base", "none"),
     Tk(i, ln, k + 11, k + 12, "rpar", "none"), Tk(i, ln, k + 12, k + 13, "colon", "none"),
     NL(i, ln, k + 13, "hnl") >>
IDefToks(i, ln, k) ==                      \* def f1(p1): return p1
  << Tk(i, ln, k, k + 3, "kw", "none"), Tk(i, ln, k + 4, k + 6, "name", "none"),
     Tk(i, ln, k + 6, k + 7, "lpar", "none"), Tk(i, ln, k + 7, k + 9, "param", "none"),
     Tk(i, ln, k + 9, k + 10, "rpar", "none"), Tk(i, ln, k + 10, k + 11, "colon", "none"),
     Tk(i, ln, k + 12, k + 18, "ikw", "none"), Tk(i, ln, k + 19, k + 21, "ibody", "none"),
     NL(i, ln, k + 21, "inl") >>
StmtToks(i, ln, b) ==                      \* v1 = wv
  << Tk(i, ln, b, b + 2, "var", "none"), Tk(i, ln, b + 3, b + 4, "op", "none"),
     Tk(i, ln, b + 5, b + 7, "val", "none"), NL(i, ln, b + 7, "nl") >>
LamToks(i, ln, b) ==                       \* v1 = lambda q1=df: q1
  << Tk(i, ln, b, b + 2, "var", "none"), Tk(i, ln, b + 3, b + 4, "op", "none"),
     Tk(i, ln, b + 5, b + 11, "lkw", "lam"), Tk(i, ln, b + 12, b + 14, "lparam", "lam"),
     Tk(i, ln, b + 14, b + 15, "leq", "lam"), Tk(i, ln, b + 15, b + 17, "ldflt", "lam"),
     Tk(i, ln, b + 17, b + 18, "lcolon", "lam"), Tk(i, ln, b + 19, b + 21, "lbody", "lam"),
     NL(i, ln, b + 21, "nl") >>
CompToks(i, ln, b) ==                      \* v1 = [i1 for i1 in sq]
  << Tk(i, ln, b, b + 2, "var", "none"), Tk(i, ln, b + 3, b + 4, "op", "none"),
     Tk(i, ln, b + 5, b + 6, "lbr", "none"), Tk(i, ln, b + 6, b + 8, "celt", "comp"),
     Tk(i, ln, b + 9, b + 12, "cfor", "comp"), Tk(i, ln, b + 13, b + 15, "cvar", "comp"),
     Tk(i, ln, b + 16, b + 18, "cin", "comp"), Tk(i, ln, b + 19, b + 21, "citer", "comp"),
     Tk(i, ln, b + 21, b + 22, "rbr", "none"), NL(i, ln, b + 22, "nl") >>
ContToks(i, ln, b, cc) ==                  \* v1 = (wv,   /   uv)
  << Tk(i, ln, b, b + 2, "var", "none"), Tk(i, ln, b + 3, b + 4, "op", "none"),
     Tk(i, ln, b + 5, b + 6, "lpar", "none"), Tk(i, ln, b + 6, b + 8, "val", "none"),
     Tk(i, ln, b + 8, b + 9, "comma", "none"),
     Tk(i, ln + 1, cc, cc + 2, "cval", "none"), Tk(i, ln + 1, cc + 2, cc + 3, "crpar", "none"),
     NL(i, ln + 1, cc + 3, "nl") >>

\* width of the text of node n
RECURSIVE NodeW(_, _)
NodeW(sh, n) ==
  LET ce == Child(sh, n, "e")
      ci == Child(sh, n, "i")
  IN (IF ce = 0 THEN 2 ELSE NodeW(sh, ce)) + (IF ci = 0 THEN 2 ELSE NodeW(sh, ci))
     + (CASE sh[n].k = "dict" -> 17 [] sh[n].k = "lam" -> 14 [] OTHER -> 13)
RECURSIVE NodeToks(_, _, _, _, _)
NodeToks(i, ln, sh, n, c) ==
  LET ce == Child(sh, n, "e")
      ci == Child(sh, n, "i")
      we == IF ce = 0 THEN 2 ELSE NodeW(sh, ce)
      wi == IF ci = 0 THEN 2 ELSE NodeW(sh, ci)
      E(col) == IF ce = 0 THEN << NTk(i, ln, col, col + 2, "nref", n, "e") >> ELSE NodeToks(i, ln, sh, ce, col)
      I(col) == IF ci = 0 THEN << NTk(i, ln, col, col + 2, "nit", n, "i") >> ELSE NodeToks(i, ln, sh, ci, col)
  IN CASE sh[n].k = "lam" ->                  \* (lambda a1=I: E)
            << NTk(i, ln, c, c + 1, "nop", n, "o"), NTk(i, ln, c + 1, c + 7, "nlk", n, "e"),
               NTk(i, ln, c + 8, c + 10, "nlp", n, "e"), NTk(i, ln, c + 10, c + 11, "nleq", n, "e") >>
            \o I(c + 11) \o << NTk(i, ln, c + 11 + wi, c + 12 + wi, "nlc", n, "e") >>
            \o E(c + 13 + wi) \o << NTk(i, ln, c + 13 + wi + we, c + 14 + wi + we, "ncp", n, "o") >>
       [] sh[n].k = "dict" ->                 \* {a1: E for a1 in I}
            << NTk(i, ln, c, c + 1, "nob", n, "o"), NTk(i, ln, c + 1, c + 3, "nkey", n, "e"),
               NTk(i, ln, c + 3, c + 4, "ncol", n, "e") >>
            \o E(c + 5)
            \o << NTk(i, ln, c + 6 + we, c + 9 + we, "nfor", n, "f"), NTk(i, ln, c + 10 + we, c + 12 + we, "nvar", n, "f"),
                  NTk(i, ln, c + 13 + we, c + 15 + we, "nin", n, "f") >>
            \o I(c + 16 + we) \o << NTk(i, ln, c + 16 + we + wi, c + 17 + we + wi, "ncb", n, "o") >>
       [] OTHER ->                            \* [E for a1 in I]   {E for a1 in I}   (E for a1 in I)
            << NTk(i, ln, c, c + 1, "nob", n, "o") >>
            \o E(c + 1)
            \o << NTk(i, ln, c + 2 + we, c + 5 + we, "nfor", n, "f"), NTk(i, ln, c + 6 + we, c + 8 + we, "nvar", n, "f"),
                  NTk(i, ln, c + 9 + we, c + 11 + we, "nin", n, "f") >>
            \o I(c + 12 + we) \o << NTk(i, ln, c + 12 + we + wi, c + 13 + we + wi, "ncb", n, "o") >>
NestToks(i, ln, b, sh) ==                   \* v1 = <nest>
  << Tk(i, ln, b, b + 2, "var", "none"), Tk(i, ln, b + 3, b + 4, "op", "none") >>
  \o NodeToks(i, ln, sh, 1, b + 5) \o << NL(i, ln, b + 5 + NodeW(sh, 1), "nl") >>

ItemToks(it, i, fl) ==
  LET b  == Base(it)
      k  == KwCol(it)
      hl == fl + (IF it.dec THEN 1 ELSE 0)
      pre == (IF it.dec THEN DecoToks(i, fl, b) ELSE <<>>) \o (IF it.as THEN AsyncTok(i, hl, b) ELSE <<>>)
  IN CASE it.k = "def"   -> pre \o DefToks(i, hl, k)
       [] it.k = "class" -> pre \o ClassToks(i, hl, k)
       [] it.k = "idef"  -> pre \o IDefToks(i, hl, k)
       [] it.k = "stmt"  -> StmtToks(i, fl, b)
       [] it.k = "lam"   -> LamToks(i, fl, b)
       [] it.k = "comp"  -> CompToks(i, fl, b)
       [] it.k = "cont"  -> ContToks(i, fl, b, unit * it.x)
       [] it.k = "nest"  -> NestToks(i, fl, b, it.sh)
       [] it.k = "cmt"   -> <<>>
RECURSIVE ToksFrom(_, _, _)
ToksFrom(p, fl, i) == IF i > Len(p) THEN <<>> ELSE ItemToks(p[i], i, fl[i]) \o ToksFrom(p, fl, i + 1)
TStart(t) == <<t.ln, t.s>>
TEnd(t)   == <<t.eln, t.e>>
NewlineClasses == {"nl", "hnl", "dnl", "inl", "end"}

\* end (exclusive) of the last non-newline token of a suite-less item
ItemEnd(it, fl) ==
  LET b == Base(it)
  IN CASE it.k = "stmt" -> <<fl, b + 7>>
       [] it.k = "lam"  -> <<fl, b + 21>>
       [] it.k = "comp" -> <<fl, b + 22>>
       [] it.k = "cont" -> <<fl + 1, unit * it.x + 3>>
       [] it.k = "idef" -> <<fl, KwCol(it) + 21>>
       [] it.k = "nest" -> <<fl, b + 5 + NodeW(it.sh, 1)>>
       [] OTHER -> <<0, 0>>
\* the items of the suite of i: the maximal run of comments and deeper code after it
RECURSIVE LastBody(_, _, _, _)
LastBody(p, i, j, best) ==
  IF j > Len(p) THEN best
  ELSE IF ~IsCode(p[j]) THEN LastBody(p, i, j + 1, best)
  ELSE IF p[j].d > p[i].d THEN LastBody(p, i, j + 1, j)
  ELSE best
RECURSIVE ScopeEnd(_, _, _)
ScopeEnd(p, fl, i) == IF HasSuite(p[i])
                      THEN LET j == LastBody(p, i, i + 1, 0) IN
                           IF HasSuite(p[j]) THEN ScopeEnd(p, fl, j) ELSE ItemEnd(p[j], fl[j])
                      ELSE ItemEnd(p[i], fl[i])
Opens(p) == {i \in 1..Len(p) : IsOpen(p[i])}
ScopeRec(p, fl, i) ==
  LET it == p[i]
      hl == fl[i] + (IF it.dec THEN 1 ELSE 0)
      bs == IF HasSuite(it) THEN <<fl[i + 1], Base(p[i + 1])>> ELSE <<hl, KwCol(it) + 12>>
      be == ScopeEnd(p, fl, i)
  IN [id |-> i, hl |-> fl[i], hc |-> Base(it), kc |-> KwCol(it),
      bl |-> bs[1], bc |-> bs[2], el |-> be[1], ec |-> be[2],
      cls |-> it.k = "class", asy |-> it.as, nm |-> NameOf(it, i)]
RECURSIVE TabFrom(_, _, _)
TabFrom(p, fl, i) == IF i > Len(p) THEN <<>>
                     ELSE (IF IsOpen(p[i]) THEN <<ScopeRec(p, fl, i)>> ELSE <<>>) \o TabFrom(p, fl, i + 1)
\* extents of the lambdas / comprehensions of a nest, in text order (= token order): a
\* lambda runs from its keyword to the closing parenthesis (exclusive), a comprehension
\* from its opening to its closing bracket (inclusive)
RECURSIVE ExtFrom(_, _, _, _)
ExtFrom(toks, sh, c, k) ==
  IF k > Len(toks) THEN <<>>
  ELSE (IF toks[k].c = c
        THEN << <<toks[k].ln, toks[k].s, toks[k].ln,
                  toks[k].s + NodeW(sh, toks[k].nd) - (IF c = "nlk" THEN 2 ELSE 0)>> >>
        ELSE <<>>) \o ExtFrom(toks, sh, c, k + 1)
RECURSIVE LamsFrom(_, _, _)
LamsFrom(p, fl, i) == IF i > Len(p) THEN <<>>
                      ELSE (IF p[i].k = "lam" THEN << <<fl[i], Base(p[i]) + 5, fl[i], Base(p[i]) + 21>> >>
                            ELSE IF p[i].k = "nest"
                            THEN ExtFrom(NodeToks(i, fl[i], p[i].sh, 1, Base(p[i]) + 5), p[i].sh, "nlk", 1)
                            ELSE <<>>) \o LamsFrom(p, fl, i + 1)
RECURSIVE CompsFrom(_, _, _)
CompsFrom(p, fl, i) == IF i > Len(p) THEN <<>>
                       ELSE (IF p[i].k = "comp" THEN << <<fl[i], Base(p[i]) + 5, fl[i], Base(p[i]) + 22>> >>
                             ELSE IF p[i].k = "nest"
                             THEN ExtFrom(NodeToks(i, fl[i], p[i].sh, 1, Base(p[i]) + 5), p[i].sh, "nob", 1)
                             ELSE <<>>) \o CompsFrom(p, fl, i + 1)

\* syntactic tree: the def/class whose suite holds item i (parso parent chain)
RECURSIVE EncFrom(_, _, _)
EncFrom(p, i, j) == IF j = 0 THEN 0
                    ELSE IF HasSuite(p[j]) /\ p[j].d = p[i].d - 1 THEN j
                    ELSE EncFrom(p, i, j - 1)

\* (TLC keeps [i \in S |-> e] lazy and re-evaluates e on every application: SubSeq makes
\*  the per-item tables concrete tuples)
Mk(p) ==
  LET n   == Len(p)
      fl  == SubSeq([i \in 1..n |-> FirstLine(p, i)], 1, n)
      tot == fl[n] + NLines(p[n]) - 1
  IN [p   |-> p,
      fl  |-> fl,
      hl  |-> SubSeq([i \in 1..n |-> fl[i] + (IF p[i].dec THEN 1 ELSE 0)], 1, n),          \* header line
      enc |-> SubSeq([i \in 1..n |-> IF p[i].d = 0 THEN 0 ELSE EncFrom(p, i, i - 1)], 1, n),
      row |-> SubSeq([i \in 1..n |-> Cardinality({j \in 1..i : IsOpen(p[j])})], 1, n),
      \* parso's endmarker sits at the start of the line after the last newline
      T   |-> ToksFrom(p, fl, 1) \o << [it |-> 0, ln |-> tot + 1, s |-> 0, eln |-> tot + 1, e |-> 0,
                                         c |-> "end", inn |-> "none"] >>,
      tab |-> TabFrom(p, fl, 1),
      lams |-> LamsFrom(p, fl, 1),
      comps |-> CompsFrom(p, fl, 1)]

RowOf(M, i) == IF i = 0 THEN 0 ELSE M.row[i]

---------------------------------------------------------------------------
(* DESIGN (M = Mk(program)) *)

\* token classes that are children of the funcdef/classdef node of their item; the
\* decorator line and the `async` keyword are children of decorated / async_stmt,
\* i.e. they live in the enclosing suite
InDefNode == {"kw", "name", "lpar", "param", "aparam", "pcolon", "ann", "eq", "dflt", "rpar",
              "arrow", "ret", "base", "colon", "hnl", "ikw", "ibody", "inl"}
\* leaf.search_ancestor('funcdef', 'classdef')  (lambdef is not searched for)
AncDef(M, t) == IF t.it = 0 THEN 0
                ELSE IF IsOpen(M.p[t.it]) /\ t.c \in InDefNode THEN t.it
                ELSE M.enc[t.it]

\* per-scope geometry used by get_context / create_context
KwPos(M, i)    == <<M.hl[i], KwCol(M.p[i])>>                       \* n.start_pos
ColonPos(M, i) == <<M.hl[i], KwCol(M.p[i]) + (CASE M.p[i].k = "def" -> 25 [] M.p[i].k = "class" -> 12 [] OTHER -> 10)>>
\* n.children[-1].start_pos: the suite starts with the newline after the colon; a
\* one-line body is a simple_stmt starting at its first token
LastChildStart(M, i) == <<M.hl[i], KwCol(M.p[i]) + (CASE M.p[i].k = "def" -> 26 [] M.p[i].k = "class" -> 13 [] OTHER -> 12)>>

\* parso BaseNode.get_leaf_for_position(pos, include_prefixes=True): binary search for
\* the first leaf with position <= end_pos.  (`from` is only a starting hint <= the answer.)
RECURSIVE Scan(_, _, _)
Scan(T, pos, k) == IF k >= Len(T) THEN Len(T)
                   ELSE IF PLe(pos, TEnd(T[k])) THEN k ELSE Scan(T, pos, k + 1)

\* TreeContextMixin.create_context(node) projected on the named scope it ends in.
\*   parent_scope(node): lambdef / comp_for are scopes too (inn); their contexts have
\*   name None (CompForContext) or a name without tree_name (lambda) and are skipped by
\*   get_context / parent(), ending in create_context(the lambda/comprehension node).
\*   Header rule: a node of a funcdef/classdef that starts before its colon belongs to
\*   parent_scope(scope) -- unless it is the name of a param whose parent node is the
\*   `param` itself (an annotated name hangs below tfpdef, so the exception misses it).
HeaderRule(M, sc, start, isParam) ==
  IF sc # 0 /\ PLt(start, ColonPos(M, sc)) /\ ~isParam THEN M.enc[sc] ELSE sc
CreateContext(M, t) ==
  IF t.inn = "none" THEN HeaderRule(M, AncDef(M, t), TStart(t), t.c = "param")
  ELSE HeaderRule(M, AncDef(M, t), TStart(t), FALSE)     \* via the anonymous scope's own node
\* The context a lambda's interior ends in, as get_context sees it: the lambda's name has
\* no tree_name, so parent() takes name.parent_context, and FunctionValue.from_context
\* strips every class context from it ("functions in classes have the module as
\* parent_context").  Deviation LambdaInClass: code inside a lambda of a class body
\* answers the scope around the class(es).
RECURSIVE SkipClasses(_, _)
SkipClasses(M, c) == IF c = 0 THEN 0 ELSE IF M.p[c].k = "class" THEN SkipClasses(M, M.enc[c]) ELSE c
\* ---- anonymous contexts of a nest token, innermost first (node numbers of its item).
\* create_context: parent_scope() finds the comp_for of the element side through
\* testlist_comp / dictorsetmaker, the sync_comp_for / lambdef itself from inside;
\* from_scope_node(comp_for) drops the comprehension when node.start_pos >=
\* comp_for.children[-1].start_pos (the node is in the iterable); the brackets are children
\* of the atom, i.e. they live where the expression is written.  A lambdef has no header rule.
RECURSIVE AnonAt(_, _, _)
AnonAt(sh, n, pt) ==
  LET up == IF sh[n].par = 0 THEN <<>> ELSE AnonAt(sh, sh[n].par, sh[n].slot)
  IN IF pt = "o" THEN up
     ELSE IF sh[n].k # "lam" /\ pt = "i" THEN up
     ELSE <<n>> \o up
AnonOf(M, t) == IF t.nd = 0 THEN <<>> ELSE AnonAt(M.p[t.it].sh, t.nd, t.pt)
\* LambdaName.parent_context = FunctionValue.from_context(create_context(lambdef)): a class
\* context (and the classes around it) is skipped -- only when the lambda is written
\* directly in the class body (a CompForContext in between is not a class)
LamEnc(M, rest, enc, fixed) == IF rest = <<>> /\ ~fixed THEN SkipClasses(M, enc) ELSE enc
\* the named context the OLD get_context ended in from inside lambdas (walks Name.parent())
RECURSIVE OldNamed(_, _, _, _)
OldNamed(M, sh, A, enc) ==
  IF A = <<>> THEN enc
  ELSE IF sh[A[1]].k # "lam" THEN OldNamed(M, sh, Tail(A), enc)
  ELSE OldNamed(M, sh, Tail(A), LamEnc(M, Tail(A), enc, FALSE))
\* Repair LambdaInClass: get_context leaves a lambda context through
\* create_context(lambdef node), i.e. the context the lambda is written in.
NamedContext(M, t) == IF "LambdaInClass" \in Fixed THEN CreateContext(M, t)
                      ELSE IF t.inn = "lam" THEN SkipClasses(M, CreateContext(M, t))
                      ELSE IF t.nd # 0 THEN OldNamed(M, M.p[t.it].sh, AnonOf(M, t), CreateContext(M, t))
                      ELSE CreateContext(M, t)

\* the indentation walk-up of get_context: leave every scope that does not start left
\* of the cursor column.  Old code: scope = funcdef, whose start_pos is the `def` of an
\* async def (AsyncColumn); repair: scope = the async_stmt / async_funcdef parent, which
\* starts at `async`.  Repair DedentCont: a position on code (onCode) is never walked up.
ScopeCol(it) == IF "AsyncColumn" \in Fixed THEN Base(it) ELSE KwCol(it)
RECURSIVE WalkUp(_, _, _, _)
WalkUp(M, c, col, onCode) == IF c = 0 THEN 0
                             ELSE IF onCode \/ ScopeCol(M.p[c]) < col THEN c
                             ELSE WalkUp(M, M.enc[c], col, onCode)

DesignCtxFrom(M, pos, from) ==
  LET T    == M.T
      k0   == Scan(T, pos, from)
      k    == IF (PLt(pos, TStart(T[k0])) \/ T[k0].c = "end") /\ k0 > 1 THEN k0 - 1 ELSE k0
      leaf == T[k]
      n    == AncDef(M, leaf)
      ctx  == IF n # 0 /\ PLt(KwPos(M, n), pos) /\ PLe(pos, LastChildStart(M, n))
              THEN n                                   \* special case: create_value(n).as_context()
              ELSE NamedContext(M, leaf)
      \* on_code = leaf.start_pos <= pos and leaf.type not in ('newline', 'endmarker'),
      \* taken from the leaf found first (before the previous-leaf substitution)
      onCode == "DedentCont" \in Fixed /\ PLe(TStart(T[k0]), pos) /\ T[k0].c \notin NewlineClasses
  IN WalkUp(M, ctx, pos[2], onCode)
DesignCtx(M, pos) == DesignCtxFrom(M, pos, 1)

\* BaseName.parent(): function/class/param -> tree_name.get_definition()
\* .search_ancestor('funcdef', 'classdef', 'file_input'); other names -> parent_context,
\* anonymous contexts skipped.  Chain = repeated parent() until the module.
RECURSIVE EncChain(_, _)
EncChain(M, i) == LET e == M.enc[i] IN IF e = 0 THEN <<>> ELSE <<e>> \o EncChain(M, e)
DesignDefChain(M, i) == EncChain(M, i)
\* a name defined by token t (variable, parameter, comprehension / lambda variable)
DesignNameChain(M, t) ==
  LET c == IF t.c \in {"param", "aparam"} THEN t.it           \* param -> its funcdef
           ELSE IF t.c = "lparam" THEN M.enc[t.it]           \* lambdef is not searched for
           ELSE CreateContext(M, t)                          \* TreeNameDefinition.parent_context
  IN IF c = 0 THEN <<>> ELSE <<c>> \o EncChain(M, c)

\* FunctionAndClassBase.get_qualified_names / MethodValue.get_qualified_names (value route)
RECURSIVE QNVal(_, _)
QNVal(M, i) ==
  LET e == M.enc[i]
      nm == NameOf(M.p[i], i)
  IN IF e = 0 THEN Some(<<nm>>)                               \* parent_context.is_module()
     ELSE IF M.p[e].k = "class"                               \* parent_context.is_class()
          THEN (LET q == QNVal(M, e) IN IF q = None THEN None ELSE Some(q[1] \o <<nm>>))
          ELSE None                                           \* function in function
\* TreeNameDefinition._get_qualified_names = parent_context.get_qualified_names() + name,
\* parent_context = create_context(name leaf) = the enclosing scope (header rule)
QNName(M, i) ==
  LET e == M.enc[i]
      nm == NameOf(M.p[i], i)
  IN IF e = 0 THEN Some(<<nm>>)
     ELSE (LET q == QNVal(M, e) IN IF q = None THEN None ELSE Some(q[1] \o <<nm>>))
DesignFull(mod, q) == IF q = None THEN None ELSE Some(Join(mod \o q[1]))

\* ---- parent() chains in row space (table rows, LAMBASE + k for lambdas, UNUSABLE), for
\* every identifier token: definitions and references (get_names(references=True) builds
\* TreeNameDefinition(create_context(name), name) for both).
RowOfM(M, i) == IF i = 0 THEN 0 ELSE M.row[i]
NamedRows(M, enc) == IF enc = 0 THEN <<>>
                     ELSE <<RowOfM(M, enc)>> \o [k \in 1..Len(EncChain(M, enc)) |-> RowOfM(M, EncChain(M, enc)[k])]
LamIdxAt(lams, l, c) == CHOOSE k \in 1..Len(lams) : lams[k][1] = l /\ lams[k][2] = c
NestLamIdx(M, it, nd) ==
  LET k == CHOOSE j \in 1..Len(M.T) : M.T[j].it = it /\ M.T[j].nd = nd /\ M.T[j].c = "nlk"
  IN LamIdxAt(M.lams, M.T[k].ln, M.T[k].s)
\* BaseName.parent(): `while context.name is None: context = context.parent_context`
\* ("CompWhile"; the what-if model without it leaves one comprehension only)
Budget0 == IF "CompWhile" \in Fixed THEN 99 ELSE 1
RECURSIVE NChain(_, _, _, _, _)
NChain(M, it, A, enc, budget) ==
  IF A = <<>> THEN NamedRows(M, enc)
  ELSE IF M.p[it].sh[A[1]].k # "lam"
       THEN (IF budget = 0 THEN <<UNUSABLE>> ELSE NChain(M, it, Tail(A), enc, budget - 1))
       ELSE <<LAMBASE + NestLamIdx(M, it, A[1])>>
            \o NChain(M, it, Tail(A), LamEnc(M, Tail(A), enc, "LambdaParent" \in Fixed), Budget0)
DesignChainRows(M, t) ==
  IF t.c \in {"param", "aparam"} THEN NamedRows(M, t.it)                  \* param -> its funcdef
  ELSE IF t.c \in {"lparam", "nlp"} THEN NamedRows(M, M.enc[t.it])       \* lambdef is not searched for
  ELSE IF t.nd # 0 THEN NChain(M, t.it, AnonOf(M, t), M.enc[t.it], Budget0)
  ELSE IF t.inn = "lam"
       THEN <<LAMBASE + LamIdxAt(M.lams, t.ln, Base(M.p[t.it]) + 5)>>
            \o NamedRows(M, LamEnc(M, <<>>, M.enc[t.it], "LambdaParent" \in Fixed))
  ELSE NamedRows(M, CreateContext(M, t))                                  \* TreeNameDefinition.parent_context

---------------------------------------------------------------------------
(* POSITIONS of the bounded model: every token at start / start+1 / end, and the
   interesting columns of every line prefix (0, 1, each possible keyword column +-).
   A position record [l, c, k, on, cls]: k = a token index not after the leaf (scan
   hint), on = a non-newline token covers the character at (l, c).                     *)
ModPath == << <<112, 107>>, <<109, 111, 100>> >>                     \* pk.mod
PrefixCols(lim) == {c \in {0, 1} \cup UNION {{unit * x, unit * x + 1, unit * x + 6, unit * x + 7} : x \in 0..(MaxDepth + 1)} : c < lim}
Hint(k) == IF k > 1 THEN k - 1 ELSE 1
NestPunct == {"nob", "nop", "nlk", "nleq", "nlc", "ncol", "nfor", "nin"}
TokPositions(T, k) ==
  LET t == T[k]
      adj == T[k + 1].ln = t.ln /\ T[k + 1].s = t.e /\ T[k + 1].c \notin NewlineClasses
  IN {[l |-> t.ln, c |-> t.s, k |-> Hint(k), on |-> TRUE, cls |-> t.c]}
     \* (brackets and keywords inside a nest: the start only -- the end is the start of, or the
     \*  blank before, the next token of the same expression)
     \cup (IF t.c \in NestPunct THEN {}
           ELSE {[l |-> t.ln, c |-> t.e, k |-> Hint(k), on |-> adj, cls |-> IF adj THEN T[k + 1].c ELSE "after"]})
     \cup (IF t.s + 1 < t.e /\ t.c \notin NestPunct
           THEN {[l |-> t.ln, c |-> t.s + 1, k |-> Hint(k), on |-> TRUE, cls |-> t.c]} ELSE {})
     \cup (IF k = 1 \/ T[Hint(k)].ln < t.ln
           THEN {[l |-> t.ln, c |-> c, k |-> Hint(k), on |-> FALSE, cls |-> "prefix"] : c \in PrefixCols(t.s)}
           ELSE {})
CmtPositions(M, i) ==
  {[l |-> M.fl[i], c |-> c, k |-> 1, on |-> FALSE, cls |-> "comment"] :
     c \in PrefixCols(unit * M.p[i].x + 4) \cup {unit * M.p[i].x + 2}}
Positions(M) ==
       UNION {TokPositions(M.T, k) : k \in {j \in 1..(Len(M.T) - 1) : M.T[j].c \notin NewlineClasses}}
  \cup UNION {CmtPositions(M, i) : i \in {j \in 1..Len(M.p) : M.p[j].k = "cmt"}}
Pos(q) == <<q.l, q.c>>

---------------------------------------------------------------------------
(* INVARIANTS: Design |= Reference *)
\* deviations the modelled code still has (none by default)
KnownDeviations == (IF "AsyncColumn" \in Fixed THEN {} ELSE {"async-def-column"})
              \cup (IF "DedentCont" \in Fixed THEN {} ELSE {"dedented-continuation"})
              \cup (IF "LambdaInClass" \in Fixed THEN {} ELSE {"lambda-in-class"})
KnownDeviation(M, pos, got) == Shape(M.tab, M.lams, pos, got) \in KnownDeviations
KnownParentDeviations == IF "LambdaParent" \in Fixed THEN {} ELSE {"lambda-in-class"}

CtxOKm(M) == \A q \in Positions(M) :
  (q.on => LET got == RowOf(M, DesignCtxFrom(M, Pos(q), q.k))
           IN IF got \in Allowed(M.tab, Pos(q)) THEN TRUE ELSE KnownDeviation(M, Pos(q), got)) = TRUE
\* holds iff the modelled code has no deviation left; must FAIL for Fixed = {} (old code)
CtxStrictm(M) == \A q \in Positions(M) :
  (q.on => RowOf(M, DesignCtxFrom(M, Pos(q), q.k)) \in Allowed(M.tab, Pos(q))) = TRUE
\* expected to FAIL: the literal reading without HeaderSelf
CtxLiteralm(M) == \A q \in Positions(M) :
  (q.on => LET got == RowOf(M, DesignCtxFrom(M, Pos(q), q.k))
           IN IF got = RefCtx(M.tab, Pos(q)) THEN TRUE ELSE KnownDeviation(M, Pos(q), got)) = TRUE
\* the scan hint is only an optimisation
HintOKm(M) == \A q \in Positions(M) : DesignCtxFrom(M, Pos(q), q.k) = DesignCtx(M, Pos(q))

RowSeq(M, s) == [k \in 1..Len(s) |-> RowOf(M, s[k])]
OwnRow(M, t) == IF t.c \in {"param", "aparam"} THEN RowOf(M, t.it) ELSE 0
DefClasses == {"var", "param", "aparam", "lparam", "cvar", "nvar", "nlp"}
RefClasses == {"dname", "darg", "ann", "dflt", "ret", "base", "ibody", "val", "cval", "ldflt", "lbody",
               "celt", "citer", "nref", "nkey", "nit"}
DefTokens(T)  == {k \in 1..Len(T) : T[k].c \in DefClasses}
NameTokens(T) == {k \in 1..Len(T) : T[k].c \in DefClasses \cup RefClasses}
\* the two transcriptions of parent() agree where both apply (names outside lambdas)
ChainsAgree(M, t) == (t.c \in {"var", "param", "aparam", "lparam", "cvar"}) =>
                        RowSeq(M, DesignNameChain(M, t)) = DesignChainRows(M, t)
ParentOKm(M) ==
  /\ \A i \in Opens(M.p) : RowSeq(M, DesignDefChain(M, i)) = RefChain(M.tab, RowOf(M, i))
  /\ \A k \in NameTokens(M.T) :
       LET t == M.T[k]
           got == DesignChainRows(M, t)
       IN /\ ChainsAgree(M, t)
          /\ (IF NameChainOK(M.tab, M.lams, TStart(t), OwnRow(M, t), got) THEN TRUE
              ELSE ChainShape(M.tab, M.lams, M.comps, TStart(t), got) \in KnownParentDeviations) = TRUE
\* holds iff parent() has no deviation left; must FAIL while "LambdaParent" is not repaired
ParentStrictm(M) ==
  \A k \in NameTokens(M.T) :
     NameChainOK(M.tab, M.lams, TStart(M.T[k]), OwnRow(M, M.T[k]), DesignChainRows(M, M.T[k]))
FullNameOKm(M) ==
  \A i \in Opens(M.p) :
    FullJudged(M.tab, RowOf(M, i)) =>
      /\ DesignFull(ModPath, QNName(M, i)) = Some(RefFull(M.tab, ModPath, RowOf(M, i)))
      /\ DesignFull(ModPath, QNVal(M, i))  = Some(RefFull(M.tab, ModPath, RowOf(M, i)))
\* the layout itself is sane: bodies nest or are disjoint
LayoutOKm(M) ==
  \A i, j \in 1..Len(M.tab) : i < j =>
    \/ PLe(BE(M.tab[i]), HS(M.tab[j]))                                       \* disjoint
    \/ (PLe(BS(M.tab[i]), HS(M.tab[j])) /\ PLe(BE(M.tab[j]), BE(M.tab[i])))  \* nested

CtxOK      == Complete(prog) => \A M \in {Mk(prog)} : CtxOKm(M)
CtxStrict  == Complete(prog) => \A M \in {Mk(prog)} : CtxStrictm(M)
CtxLiteral == Complete(prog) => \A M \in {Mk(prog)} : CtxLiteralm(M)
ParentOK   == Complete(prog) => \A M \in {Mk(prog)} : ParentOKm(M)
ParentStrict == Complete(prog) => \A M \in {Mk(prog)} : ParentStrictm(M)
FullNameOK == Complete(prog) => \A M \in {Mk(prog)} : FullNameOKm(M)
LayoutOK   == Complete(prog) => \A M \in {Mk(prog)} : LayoutOKm(M)
HintOK     == Complete(prog) => \A M \in {Mk(prog)} : HintOKm(M)
\* all of the above in one pass over the program
DesignMeetsReference ==
  Complete(prog) => \A M \in {Mk(prog)} : CtxOKm(M) /\ ParentOKm(M) /\ FullNameOKm(M) /\ LayoutOKm(M)

---------------------------------------------------------------------------
(* EMISSION of cases for replay *)
PosRec(M, q) == [l |-> q.l, c |-> q.c, cls |-> q.cls, on |-> q.on,
                 des |-> RowOf(M, DesignCtxFrom(M, Pos(q), q.k)), ref |-> RefCtx(M.tab, Pos(q))]
DefRec(M, i) ==
  LET r == RowOf(M, i)
  IN [row |-> r, it |-> i, dchain |-> RowSeq(M, DesignDefChain(M, i)), rchain |-> RefChain(M.tab, r),
      judged |-> FullJudged(M.tab, r), qual |-> Join(Qual(M.tab, r)),
      rfull |-> RefFull(M.tab, ModPath, r),
      dfull |-> DesignFull(ModPath, QNName(M, i)), dfullv |-> DesignFull(ModPath, QNVal(M, i))]
NameRec(M, k) ==
  LET t == M.T[k]
  IN [l |-> t.ln, c |-> t.s, cls |-> t.c, def |-> t.c \in DefClasses, it |-> t.it, nd |-> t.nd,
      dchain |-> DesignChainRows(M, t),
      rchain |-> RefNameChain(M.tab, TStart(t), OwnRow(M, t)),
      cd |-> CompDepth(M.comps, TStart(t)), ld |-> LamDepth(M.lams, TStart(t))]
CaseRec ==
  LET M == Mk(prog)
      T == M.T
      ps == SetToSeq(Positions(M))
      os == SetToSeq(Opens(prog))
      ds == SetToSeq(NameTokens(T))
  IN [prog |-> prog, unit |-> unit, tab |-> M.tab, lams |-> M.lams, comps |-> M.comps,
      toks |-> [k \in 1..(Len(T) - 1) |-> [l |-> T[k].ln, s |-> T[k].s, e |-> T[k].e, c |-> T[k].c]],
      pos |-> [k \in 1..Len(ps) |-> PosRec(M, ps[k])],
      defs |-> [k \in 1..Len(os) |-> DefRec(M, os[k])],
      names |-> [k \in 1..Len(ds) |-> NameRec(M, ds[k])]]
KindNo(k) == CASE k = "def" -> 1 [] k = "class" -> 2 [] k = "idef" -> 3 [] k = "stmt" -> 4 [] k = "lam" -> 5
               [] k = "comp" -> 6 [] k = "cont" -> 7 [] k = "nest" -> 9 [] OTHER -> 8
NodeNo(nd) == (CASE nd.k = "list" -> 1 [] nd.k = "set" -> 2 [] nd.k = "dict" -> 3 [] nd.k = "gen" -> 4 [] OTHER -> 5)
              + 7 * nd.par + (IF nd.slot = "i" THEN 3 ELSE 0)
RECURSIVE ShapeNo(_)
ShapeNo(sh) == IF sh = <<>> THEN 0 ELSE (NodeNo(sh[1]) + 17 * ShapeNo(Tail(sh))) % 1000003
RECURSIVE ProgNo(_)
ProgNo(p) == IF p = <<>> THEN 0
             ELSE (KindNo(p[1].k) + 3 * p[1].d + (IF p[1].dec THEN 5 ELSE 0) + (IF p[1].as THEN 11 ELSE 0)
                   + 2 * p[1].x + 19 * ShapeNo(p[1].sh) + 13 * ProgNo(Tail(p))) % 1000003
CaseNo == ProgNo(prog) + unit
Emit == (Complete(prog) /\ CaseNo % EmitMod = EmitRem) => PrintT(<<"CASE", ToJson(CaseRec)>>)
=============================================================================
