------------------------ MODULE Trace_Complete ------------------------
(* Code -> spec for C04: every recorded Script.complete() call must satisfy the
   Reference clauses of Complete.tla.  A trace = the calls made on one source
   file; an event = [frag, fuzzy, out] with text as code-point sequences.      *)
EXTENDS Naturals, Sequences, FiniteSets, TLC, Json, IOUtils

CONSTANTS MaxCands, MaxFrag, EmitMod, EmitRem
VARIABLES cands, frag, fuzzy
INSTANCE Complete

Traces == JsonDeserialize(IOEnv.TRACE_FILE)
VARIABLES tid, l

TInit == tid \in 1..Len(Traces) /\ l = 1 /\ cands = <<>> /\ frag = <<>> /\ fuzzy = FALSE
Ev == Traces[tid][l]
TNext == /\ l <= Len(Traces[tid])
         /\ RefOK(Ev.out, Ev.frag, Ev.fuzzy) = TRUE   \* '= TRUE': evaluate as an expression, do not split disjuncts into branches
         /\ l' = l + 1
         /\ UNCHANGED <<tid, cands, frag, fuzzy>>
Verdict ==
  IF l = Len(Traces[tid]) + 1 THEN PrintT(<<"ACCEPT", tid>>)
  ELSE RefOK(Ev.out, Ev.frag, Ev.fuzzy) \/ PrintT(<<"REJECT", tid, l, Why(Ev.out, Ev.frag, Ev.fuzzy)>>)
=============================================================================
