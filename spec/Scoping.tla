---------------------------- MODULE Scoping ----------------------------
(* C03 -- name resolution follows Python's scoping rules.

   A program is a flat, textually ordered list of items (prog) plus, per item, the
   index of the Open item of the scope whose body contains it (sc; 0 = module).
   It is built item by item by actions, so the bounded state space IS the space of
   programs (scope nestings x binding patterns x uses).

     open(fn|class|lambda|comp) ... close      scopes
     bind(n, assign|param|walrus|except|del)   bindings ("assign" stands for every
                                               plain statement binding: = / import /
                                               for / with / def / class / walrus stmt;
                                               the renderer picks the concrete one)
     target(n)                                 the for-target of a comprehension
     cif                                       start of the comprehension's if-clause
     use(n), huse(n)                           loads; huse = load in a def/class header
     global(n), nonlocal(n)
     loop ... endloop                          `for i_ in (0, 1):` around statements

   Rendering convention the semantics below relies on (harness/scoping.py):
   every fn/lambda is called exactly once, immediately after its definition or (open
   item with d = 1) at the end of the block containing the definition; class
   bodies and comprehensions run in place; every statement is protected separately
   against NameError.  Hence execution order = textual order, except inside a
   comprehension (iterable, target, condition, element) and in a loop (body twice).

   Reference = CPython: symbol-table analysis (Python/symtable.c analyze_block /
               analyze_name), run-time lookup (LOAD_FAST/DEREF/GLOBAL/NAME), Obs = for
               every use the set of bindings whose value it observes; Landings.
   Design    = jedi: create_context, get_global_filters, ParserTreeFilter,
               GlobalNameFilter, finder.filter_name, AbstractTreeName.goto.
   Verdict(u, g, o) judges a landing set g of use u that observed bindings o:
     scope  o # {} /\ g # {} => g \subseteq Landings   (only bindings of consulted scopes)
     exact  straight-line code of one scope => g = o    (exactly the binding observed)
   Invariant DesignOK: Design |= Reference outside the named deviation mechanisms (Mech);
   each mechanism is a confirmed defect of the real code (known_findings.d/C03.json)
   and is modelled as the code behaves.  DesignOKStrict (no guard) must be violated.   *)
EXTENDS Naturals, Sequences, FiniteSets, TLC, Json

CONSTANTS NNames,     \* size of the identifier pool
          MaxItems,   \* bound on content items (close/endloop are free)
          MaxDepth,   \* bound on nesting of opened scopes (module = 0)
          Feat,       \* enabled constructs: subset of AllFeat (restricting it buys depth)
          EmitMod, EmitRem,   \* emitted slice of the complete programs
          SpecMod             \* denser slice for the programs singled out by Special

VARIABLES prog, sc, stack, loopAt,
          cnt,    \* number of content items (derived; kept for cheap guards)
          maxn    \* largest identifier used so far (derived)
vars == <<prog, sc, stack, loopAt, cnt, maxn>>

AllFeat == {"fn", "defer", "class", "lambda", "comp", "loop", "cif", "iteruse", "walrus", "param", "huse",
            "global", "nonlocal", "except", "del"}
Names == 1..NNames
It(t, n, h) == [t |-> t, n |-> n, h |-> h, d |-> 0]
\* d = 1 on open(fn): the single call of the function is deferred to the end of the block
\* that contains the def (the usual shape: functions first, the data they read later)
Inf == 1000000

---------------------------------------------------------------------------
(* Structure *)
N        == Len(prog)
Idx      == 1..N
Kind(s)  == IF s = 0 THEN "module" ELSE prog[s].h
IsExpr(s)  == Kind(s) \in {"lambda", "comp"}
IsStmtSc(s) == Kind(s) \in {"module", "fn", "class"}
Scopes   == {0} \cup {i \in Idx : prog[i].t = "open"}

Find(s, t) == IF \E i \in Idx : sc[i] = s /\ prog[i].t = t
              THEN CHOOSE i \in Idx : sc[i] = s /\ prog[i].t = t ELSE 0
TargetOf(c) == Find(c, "target")
CifOf(c)    == Find(c, "cif")
CloseOf(s)  == Find(s, "close")
EndOf(l)    == CHOOSE e \in Idx : /\ e > l /\ prog[e].t = "endloop" /\ sc[e] = sc[l]
                                  /\ \A x \in (l + 1)..(e - 1) : ~(prog[x].t = "endloop" /\ sc[x] = sc[l])

\* part of a comprehension a direct item of it lies in
InElt(c, i)  == TargetOf(c) = 0 \/ i < TargetOf(c)
InIter(c, i) == TargetOf(c) # 0 /\ i > TargetOf(c) /\ (CifOf(c) = 0 \/ i < CifOf(c))
InCond(c, i) == CifOf(c) # 0 /\ i > CifOf(c)

RECURSIVE NonComp(_)
NonComp(s) == IF Kind(s) = "comp" THEN NonComp(sc[s]) ELSE s

RECURSIVE Depth(_)
Depth(s) == IF s = 0 THEN 0 ELSE 1 + Depth(sc[s])

IsBind(i) == prog[i].t \in {"bind", "target"} /\ prog[i].n # 0
IsUse(i)  == prog[i].t \in {"use", "huse"}

---------------------------------------------------------------------------
(* Reference, part 1: CPython's symbol table (Python/symtable.c) *)

\* the block whose symbol table receives the flag of item i
SymScope(i) ==
  CASE prog[i].t = "huse" -> sc[sc[i]]                    \* defaults / bases: enclosing block
    [] prog[i].t = "use"  -> IF Kind(sc[i]) = "comp" /\ InIter(sc[i], i)
                             THEN sc[sc[i]]                \* first iterable: enclosing block
                             ELSE sc[i]
    [] prog[i].t = "bind" /\ prog[i].h = "walrus" -> NonComp(sc[i])  \* PEP 572
    [] OTHER -> sc[i]

\* walrus items lying directly in comprehension c
WalrusIn(c, n) == \E i \in Idx : sc[i] = c /\ prog[i].t = "bind" /\ prog[i].h = "walrus" /\ prog[i].n = n
Decl(s, n, d)  == \E i \in Idx : sc[i] = s /\ prog[i].t = d /\ prog[i].n = n

\* symtable_extend_namedexpr_scope: the comprehension itself gets DEF_GLOBAL / DEF_NONLOCAL
DefGlobal(s, n) ==
  \/ Decl(s, n, "global")
  \/ /\ Kind(s) = "comp" /\ WalrusIn(s, n)
     /\ (NonComp(s) = 0 \/ Decl(NonComp(s), n, "global"))
DefNonlocal(s, n) ==
  \/ Decl(s, n, "nonlocal")
  \/ /\ Kind(s) = "comp" /\ WalrusIn(s, n)
     /\ NonComp(s) # 0 /\ ~Decl(NonComp(s), n, "global")
DefBound(s, n) == \E i \in Idx : IsBind(i) /\ prog[i].n = n /\ SymScope(i) = s
Mentioned(s, n) == \/ DefGlobal(s, n) \/ DefNonlocal(s, n) \/ DefBound(s, n)
                   \/ \E i \in Idx : IsUse(i) /\ prog[i].n = n /\ SymScope(i) = s

LocalOf(s) == {n \in Names : ~DefGlobal(s, n) /\ ~DefNonlocal(s, n) /\ DefBound(s, n)}
GlobOf(s)  == {n \in Names : DefGlobal(s, n)}

\* analyze_block: the sets `bound` and `global` handed to block s by its parent.
\* A class hands down what it received (copied BEFORE its own names are analysed);
\* a function hands down its locals + what it received minus its global declarations.
RECURSIVE BoundIn(_), GlobIn(_)
BoundIn(s) == IF s = 0 THEN {} ELSE
              LET p == sc[s] IN
              IF p = 0 THEN {}
              ELSE IF Kind(p) = "class" THEN BoundIn(p)
              ELSE LocalOf(p) \cup (BoundIn(p) \ GlobOf(p))
GlobIn(s)  == IF s = 0 THEN {} ELSE
              LET p == sc[s] IN
              IF Kind(p) = "class" THEN GlobIn(p)
              ELSE (GlobIn(p) \cup GlobOf(p)) \ LocalOf(p)

\* analyze_name: L local, GE global explicit, GI global implicit, F free
Cls(s, n) == IF DefGlobal(s, n) THEN "GE"
             ELSE IF DefNonlocal(s, n) THEN "F"
             ELSE IF DefBound(s, n) THEN "L"
             ELSE IF n \in BoundIn(s) THEN "F"
             ELSE "GI"

\* the function block that owns the cell of a free variable (class blocks own no cells)
RECURSIVE OwnerFrom(_, _)
OwnerFrom(p, n) == IF p = 0 THEN 0
                   ELSE IF Kind(p) = "class" THEN OwnerFrom(sc[p], n)
                   ELSE IF Cls(p, n) = "L" THEN p
                   ELSE OwnerFrom(sc[p], n)
Owner(s, n) == IF s = 0 THEN 0 ELSE OwnerFrom(sc[s], n)

\* the scope whose variable n a store executed in block s writes
StoreVar(s, n) == CASE s = 0 -> 0
                    [] Cls(s, n) = "L"  -> s
                    [] Cls(s, n) = "F"  -> Owner(s, n)
                    [] OTHER -> 0
VarOfBind(b) == StoreVar(SymScope(b), prog[b].n)

\* The analysis is static: Static tabulates it once per program (st below) so that the
\* execution walk and the verdicts do not re-derive the symbol table at every step.
\*   st.var[b]  the scope whose variable bind item b writes
\*   st.use[u]  for load u: its block s, the class c of the name there, the owner of the cell
NoUse == [s |-> 0, c |-> "", own |-> 0]
Static == [var |-> [b \in Idx |-> IF IsBind(b) THEN VarOfBind(b) ELSE 0],
           use |-> [u \in Idx |-> IF prog[u].t \in {"use", "huse"}
                                  THEN [s |-> SymScope(u), c |-> Cls(SymScope(u), prog[u].n),
                                        own |-> Owner(SymScope(u), prog[u].n)]
                                  ELSE NoUse]]

\* programs CPython compiles (everything else is pruned by the actions)
TargetsUpTo(c) == \* iteration variables of the comprehension chain around c
  LET RECURSIVE T(_)
      T(x) == IF Kind(x) # "comp" THEN {} ELSE
              (IF TargetOf(x) # 0 THEN {prog[TargetOf(x)].n} ELSE {}) \cup T(sc[x])
  IN T(c)
Valid ==
  /\ \A i \in Idx : prog[i].t = "nonlocal" => prog[i].n \in BoundIn(sc[i])
  /\ \A i \in Idx : (prog[i].t = "bind" /\ prog[i].h = "walrus" /\ Kind(sc[i]) = "comp") =>
        /\ Kind(NonComp(sc[i])) # "class"
        /\ prog[i].n \notin TargetsUpTo(sc[i])
        /\ ~InIter(sc[i], i)
  \* a declaration precedes every other mention of the name in its block
  /\ \A i \in Idx : prog[i].t \in {"global", "nonlocal"} =>
        \A j \in 1..(i - 1) : (prog[j].n = prog[i].n /\ prog[j].t # "open") => SymScope(j) # sc[i]

Complete == stack = <<>> /\ loopAt = 0

\* Oracle hazard, not Python semantics: CPython 3.12.1 (PEP 709 inlining) raises
\* UnboundLocalError when a comprehension inside a function reads a global/free name that a
\* sibling or nested comprehension of the same function uses as iteration variable.  Such
\* programs are checked by TLC (DesignOK) but are not replayed against this interpreter.
Hazard ==
  \E a \in Idx : prog[a].t = "target" /\ prog[a].n # 0 /\
    LET f == NonComp(sc[a])  n == prog[a].n IN
    /\ Kind(f) \in {"fn", "lambda"} /\ Cls(f, n) # "L"
    /\ \E u \in Idx : /\ prog[u].t = "use" /\ prog[u].n = n /\ Kind(sc[u]) = "comp"
                       /\ NonComp(sc[u]) = f /\ SymScope(u) # f /\ Cls(SymScope(u), n) # "L"

---------------------------------------------------------------------------
(* Reference, part 2: execution.  ExecSeq = item indices in execution order. *)
\* Body(lo, hi, dfr): the sibling items lo..hi of one block; dfr = bodies of deferred
\* functions defined so far in this block, run when the block ends
RECURSIVE Body(_, _, _), CompOrder(_, _)
Body(lo, hi, dfr) ==
  IF lo > hi THEN dfr
  ELSE IF prog[lo].t = "open" THEN
         LET c == CloseOf(lo) IN
         IF prog[lo].h = "comp" THEN CompOrder(lo, c) \o Body(c + 1, hi, dfr)
         ELSE IF prog[lo].d = 1
              THEN Body(c + 1, hi, dfr \o <<lo>> \o Body(lo + 1, c - 1, <<>>) \o <<c>>)
              ELSE <<lo>> \o Body(lo + 1, c - 1, <<>>) \o <<c>> \o Body(c + 1, hi, dfr)
  ELSE IF prog[lo].t = "loop" THEN
         LET e == EndOf(lo)  b == Body(lo + 1, e - 1, <<>>) IN
         b \o b \o Body(e + 1, hi, dfr)
  ELSE <<lo>> \o Body(lo + 1, hi, dfr)
CompOrder(o, c) ==
  LET t == TargetOf(o)  f == CifOf(o) IN
  <<o>> \o Body(t + 1, (IF f = 0 THEN c ELSE f) - 1, <<>>) \o <<t>>
        \o (IF f = 0 THEN <<>> ELSE Body(f + 1, c - 1, <<>>))
        \o Body(o + 1, t - 1, <<>>) \o <<c>>
ExecSeq == Body(1, N, <<>>)

RECURSIVE OutermostExpr(_)
OutermostExpr(s) == IF IsExpr(sc[s]) THEN OutermostExpr(sc[s]) ELSE s

\* where the value of load u comes from, given the environment
LoadFrom(x, n, env) ==        \* x = st.use[u]
  CASE x.s = 0 -> 0
    [] Kind(x.s) = "class" -> (CASE x.c = "L" -> IF env[x.s][n] # 0 THEN x.s ELSE 0  \* LOAD_NAME
                                 [] x.c = "F" -> x.own
                                 [] OTHER -> 0)
    [] OTHER -> (CASE x.c = "L" -> x.s
                   [] x.c = "F" -> x.own
                   [] OTHER -> 0)

Env0 == [s \in 0..N |-> [n \in Names |-> 0]]
Obs0 == [i \in Idx |-> {}]

\* a failing load (NameError) aborts the enclosing statement: skip to this close item
AbortTo(i) == IF prog[i].t = "huse" THEN CloseOf(sc[i])
              ELSE IF IsExpr(sc[i]) THEN CloseOf(OutermostExpr(sc[i]))
              ELSE 0

RECURSIVE Run(_, _, _, _, _, _)
Run(st, E, k, env, obs, skip) ==
  IF k > Len(E) THEN obs
  ELSE LET i == E[k]  it == prog[i] IN
    IF skip # 0 THEN Run(st, E, k + 1, env, obs, IF i = skip THEN 0 ELSE skip)
    ELSE IF it.t = "open" THEN Run(st, E, k + 1, [env EXCEPT ![i] = [n \in Names |-> 0]], obs, 0)
    ELSE IF IsBind(i) THEN
      LET v == st.var[i] IN
      IF it.h = "except" THEN Run(st, E, k + 1, [env EXCEPT ![v][it.n] = 0], obs, 0)  \* bound, then deleted
      ELSE IF it.h = "del" THEN
           Run(st, E, k + 1, [env EXCEPT ![v][it.n] = 0], obs, 0)   \* failing del: NameError, no effect
      ELSE Run(st, E, k + 1, [env EXCEPT ![v][it.n] = i], obs, 0)
    ELSE IF IsUse(i) THEN
      LET val == env[LoadFrom(st.use[i], it.n, env)][it.n] IN
      IF val # 0 THEN Run(st, E, k + 1, env, [obs EXCEPT ![i] = @ \cup {val}], 0)
      ELSE Run(st, E, k + 1, env, obs, AbortTo(i))
    ELSE Run(st, E, k + 1, env, obs, 0)

ObsOf(st) == Run(st, ExecSeq, 1, Env0, Obs0, 0)
Obs == ObsOf(Static)

\* scopes Python took the value of use u from, and the bindings counted for them
TakenFrom(st, o) == {st.var[b] : b \in o}
\* a class-local name is looked up in the class namespace first, then in the globals
\* (LOAD_NAME): both scopes are consulted, whichever supplied the value
Consulted(st, u, o) == TakenFrom(st, o) \cup
  (LET x == st.use[u] IN
   IF x.s # 0 /\ Kind(x.s) = "class" /\ x.c = "L" THEN {x.s} ELSE {})
LandingsOf(st, u, o) ==
  LET n == prog[u].n  T == Consulted(st, u, o) IN
  {b \in Idx : prog[b].n = n /\
     \/ (IsBind(b) /\ st.var[b] \in T)
     \/ (prog[b].t = "global" /\ 0 \in T)
     \/ (prog[b].t = "nonlocal" /\ Owner(sc[b], n) \in T)}

\* "the use and its bindings are straight-line code of one scope"
InLoop(i) == \E l \in Idx : prog[l].t = "loop" /\ l < i /\ i < EndOf(l)
RECURSIVE InAnyLoop(_)
InAnyLoop(i) == InLoop(i) \/ (sc[i] # 0 /\ InAnyLoop(sc[i]))
StraightLine(st, u, o) ==
  LET n == prog[u].n  s == st.use[u].s IN
  /\ prog[u].t = "use" /\ sc[u] = s /\ ~InAnyLoop(u)
  /\ Cardinality(o) = 1
  /\ TakenFrom(st, o) = {s}
  /\ \A b \in Idx :
       (prog[b].n = n /\ (\/ (IsBind(b) /\ st.var[b] = s)
                          \/ (prog[b].t = "global" /\ s = 0)
                          \/ (prog[b].t = "nonlocal" /\ Owner(sc[b], n) = s)))
       => (IsBind(b) /\ sc[b] = s)

---------------------------------------------------------------------------
(* Design: jedi *)

\* parser_utils.get_parent_scope seen from a definition name.  The comp_for node is a
\* SIBLING of the element expression, so names in the element belong to the scope
\* around the comprehension; names in the for/if part belong to the comprehension.
RECURSIVE JAnc(_)
JAnc(i) == LET c == sc[i] IN
           IF Kind(c) # "comp" THEN c
           ELSE IF InElt(c, i) THEN JAnc(c) ELSE c
JDefScope(b) == IF prog[b].t = "target" THEN sc[b] ELSE JAnc(b)
Defs(S, n) == {b \in Idx : IsBind(b) /\ prog[b].n = n /\ JDefScope(b) = S}

\* context.py create_context / from_scope_node.  Deviation D4: "the iterable belongs to
\* the parent" is tested as `node.start_pos >= comp_for.children[-1].start_pos`, and the
\* last child is the if-clause when there is one.
LastStart(c)  == IF CifOf(c) # 0 THEN CifOf(c) ELSE TargetOf(c)
InLast(c, nd) == nd > LastStart(c)
RECURSIVE SkipClasses(_)
SkipClasses(q) == IF q # <<>> /\ Kind(q[1]) = "class" THEN SkipClasses(Tail(q)) ELSE q
RECURSIVE Chain(_, _)
Chain(s, nd) ==
  IF s = 0 THEN <<0>>
  ELSE IF Kind(s) = "comp" THEN
         (IF InLast(s, nd) THEN Chain(sc[s], nd) ELSE <<s>> \o Chain(sc[s], nd))
  ELSE IF Kind(s) = "class" THEN <<s>> \o Chain(sc[s], s)      \* D3: parent = enclosing context, even a class
  ELSE <<s>> \o SkipClasses(Chain(sc[s], s))                   \* FunctionValue.from_context skips classes
CStart(u) == IF prog[u].t = "huse" THEN sc[sc[u]] ELSE sc[u]    \* header rule
Pos0(u)   == IF prog[u].t = "huse" THEN sc[u] ELSE u            \* _get_global_filters_for_name

\* flow_analysis: a definition inside try/except is UNSURE, everything else REACHABLE
Unsure(b) == prog[b].h = "except"
CheckFlows(c) == {b \in c : \A b2 \in c : b2 > b => Unsure(b2)}
GlobalStmts(n) == {g \in Idx : prog[g].t = "global" /\ prog[g].n = n}
Dels(n) == {b \in Idx : prog[b].t = "bind" /\ prog[b].h = "del" /\ prog[b].n = n}

RECURSIVE Look(_, _, _, _)
Look(q, k, p, n) ==
  IF k > Len(q) THEN {}
  ELSE LET S == q[k]
           c == {b \in Defs(S, n) : Kind(S) = "comp" \/ b < p}     \* CompForContext ignores until_position
           r == CheckFlows(c) \cup (IF S = 0 THEN GlobalStmts(n) ELSE {})
       IN IF r # {} THEN r \ Dels(n)                               \* finder._remove_del_stmt
          ELSE Look(q, k + 1, IF Kind(S) \in {"fn", "lambda", "module"} THEN Inf ELSE p, n)
JediGoto(u) == Look(Chain(CStart(u), u), 1, Pos0(u), prog[u].n)

---------------------------------------------------------------------------
(* Deviation shapes (confirmed defects of the code, see known_findings.d/C03.json).
   Mech(st, u, bad, o) names the mechanism by which the landings leave the Reference.  *)
Mech(st, u, bad, o) ==
  LET n == prog[u].n
      T == TakenFrom(st, o)
      s == st.use[u].s
      cl == st.use[u].c
      FnLike(x) == Kind(x) \in {"fn", "lambda", "comp"}
  IN IF \E c \in Scopes : Kind(c) = "comp" /\ c < u /\ u < CloseOf(c)
                          /\ CifOf(c) # 0 /\ u > TargetOf(c)
          THEN "comp-if-clause"              \* D4: for/if part of a comprehension that has an if-clause
     ELSE IF cl \in {"GE", "GI"} /\ (\E b \in bad : IsBind(b) /\ FnLike(JDefScope(b)))
          THEN "global-declaration-ignored"  \* D6: `global n` is not a definition, the walk goes on outward
     ELSE IF \E b \in bad : IsBind(b) /\ Kind(JDefScope(b)) = "class" /\ JDefScope(b) # CStart(u)
          THEN "class-scope-visible-inside"  \* D2/D3: class variables seen from nested scopes
     ELSE IF s # 0 /\ Kind(s) = "class" /\ cl = "L"
             /\ (\E b \in bad : IsBind(b) /\ FnLike(JDefScope(b)))
          THEN "class-body-sees-function"    \* D3': class-local name, LOAD_NAME skips enclosing functions
     ELSE IF \E b \in Idx : IsBind(b) /\ prog[b].n = n /\ st.var[b] \in T /\ b > u
          THEN "use-before-binding"          \* D1: position based visibility
     ELSE IF \E b \in Idx : prog[b].t = "bind" /\ prog[b].h = "walrus" /\ prog[b].n = n
                            /\ Kind(sc[b]) = "comp"
          THEN "walrus-in-comprehension"     \* D5
     ELSE "other"

---------------------------------------------------------------------------
(* Invariants: Design |= Reference *)
UseSet == {u \in Idx : IsUse(u)}
ScopeBad(st, u, g, o) == o # {} /\ g # {} /\ ~(g \subseteq LandingsOf(st, u, o))   \* o # {}: executed with a value
ExactBad(st, u, g, o) == o # {} /\ StraightLine(st, u, o) /\ g # o
\* <<"ok"|"scope"|"exact", mechanism>>: the verdict of the Reference on landing set g
Verdict(st, u, g, o) ==
  IF o # {} /\ 0 \in g THEN <<"scope", "unmapped">>   \* (traces) a landing that is no binding of the program
  ELSE IF ScopeBad(st, u, g, o) THEN <<"scope", Mech(st, u, g \ LandingsOf(st, u, o), o)>>
  ELSE IF ExactBad(st, u, g, o) THEN <<"exact", Mech(st, u, {}, o)>>
  ELSE <<"ok", "ok">>

\* Design |= Reference outside the named deviation shapes
DesignOK == (Complete /\ Valid) =>
             LET st == Static  o == ObsOf(st) IN \A u \in UseSet : Verdict(st, u, JediGoto(u), o[u])[2] # "other"
\* without the deviation guard: must be violated (the deviations are reachable)
DesignOKStrict == (Complete /\ Valid) =>
             LET st == Static  o == ObsOf(st) IN \A u \in UseSet : Verdict(st, u, JediGoto(u), o[u])[1] = "ok"

---------------------------------------------------------------------------
(* Actions: the program is written item by item *)
Top == IF stack = <<>> THEN 0 ELSE stack[Len(stack)]
NameOK(n) == n <= maxn + 1                   \* identifiers are interchangeable: canonical order
Last == IF N = 0 THEN It("none", 0, "") ELSE prog[N]

Add(it, s) == /\ cnt < MaxItems
              /\ prog' = Append(prog, it) /\ sc' = Append(sc, s)
              /\ cnt' = cnt + 1 /\ maxn' = IF it.n > maxn THEN it.n ELSE maxn

\* phase of the comprehension on top of the stack
Phase == LET c == Top IN
         IF TargetOf(c) = 0 THEN "elt" ELSE IF CifOf(c) # 0 THEN "cond" ELSE "iter"

MentionedBefore(s, n) == \E j \in Idx : prog[j].n = n /\ prog[j].t # "open" /\ SymScope(j) = s

AddUse(n) == /\ NameOK(n) /\ cnt < MaxItems
             /\ (IF Kind(Top) = "comp" /\ Phase = "iter" THEN Last.t = "target" /\ "iteruse" \in Feat ELSE TRUE)
             /\ Add(It("use", n, ""), Top) /\ UNCHANGED <<stack, loopAt>>
AddHUse(n) == /\ "huse" \in Feat /\ NameOK(n) /\ cnt < MaxItems /\ Kind(Top) \in {"fn", "class"}
              /\ prog[Top].d = 0
              /\ (IF Last.t = "open" THEN N = Top
                  ELSE Last.t = "bind" /\ Last.h = "param" /\ sc[N] = Top)
              /\ Add(It("huse", n, ""), Top) /\ UNCHANGED <<stack, loopAt>>
AddParam(n) == /\ "param" \in Feat /\ NameOK(n) /\ cnt < MaxItems /\ Kind(Top) \in {"fn", "lambda"}
               /\ (IF Last.t = "open" THEN N = Top
                   ELSE Last.t = "bind" /\ Last.h = "param" /\ sc[N] = Top)
               /\ ~\E j \in Idx : sc[j] = Top /\ prog[j].n = n
               /\ Add(It("bind", n, "param"), Top) /\ UNCHANGED <<stack, loopAt>>
AddBind(n, h) == /\ NameOK(n) /\ cnt < MaxItems /\ IsStmtSc(Top) /\ (h = "assign" \/ h \in Feat) = TRUE
                 /\ Add(It("bind", n, h), Top) /\ UNCHANGED <<stack, loopAt>>
AddWalrus(n) == /\ "walrus" \in Feat /\ NameOK(n) /\ cnt < MaxItems /\ IsExpr(Top)
                /\ (IF Kind(Top) = "comp"
                    THEN Phase # "iter" /\ Kind(NonComp(Top)) # "class" /\ n \notin TargetsUpTo(Top)
                    ELSE TRUE)
                /\ Add(It("bind", n, "walrus"), Top) /\ UNCHANGED <<stack, loopAt>>
AddDecl(n, d) == /\ d \in Feat /\ NameOK(n) /\ cnt < MaxItems /\ Kind(Top) \in {"fn", "class"}
                 /\ ~MentionedBefore(Top, n)
                 /\ Add(It(d, n, ""), Top) /\ UNCHANGED <<stack, loopAt>>
AddTarget(n) == /\ NameOK(n) /\ cnt < MaxItems /\ Kind(Top) = "comp" /\ Phase = "elt"
                /\ Add(It("target", n, ""), Top) /\ UNCHANGED <<stack, loopAt>>
AddCif == /\ "cif" \in Feat /\ cnt < MaxItems /\ Kind(Top) = "comp" /\ Phase = "iter"
          /\ Add(It("cif", 0, ""), Top) /\ UNCHANGED <<stack, loopAt>>
OpenScope(k, d) ==
                /\ k \in Feat /\ cnt < MaxItems /\ Len(stack) < MaxDepth
                /\ (IF d = 1 THEN k = "fn" /\ "defer" \in Feat ELSE TRUE)
                /\ (IF IsExpr(Top) THEN k \in {"lambda", "comp"} ELSE TRUE)
                /\ (IF Kind(Top) = "comp" THEN Phase # "iter" ELSE TRUE)
                /\ Add([It("open", 0, k) EXCEPT !.d = d], Top)
                /\ stack' = Append(stack, N + 1) /\ UNCHANGED loopAt
CloseScope == /\ stack # <<>>
              /\ (IF Kind(Top) = "comp" THEN TargetOf(Top) # 0 ELSE TRUE)
              /\ (IF loopAt # 0 THEN sc[loopAt] # Top ELSE TRUE)
              /\ prog' = Append(prog, It("close", 0, "")) /\ sc' = Append(sc, Top)
              /\ stack' = SubSeq(stack, 1, Len(stack) - 1) /\ UNCHANGED <<loopAt, cnt, maxn>>
OpenLoop == /\ "loop" \in Feat /\ cnt < MaxItems /\ loopAt = 0 /\ IsStmtSc(Top) /\ ~\E i \in Idx : prog[i].t = "loop"
            /\ Add(It("loop", 0, ""), Top) /\ loopAt' = N + 1 /\ UNCHANGED stack
CloseLoop == /\ loopAt # 0 /\ sc[loopAt] = Top /\ N > loopAt
             /\ prog' = Append(prog, It("endloop", 0, "")) /\ sc' = Append(sc, Top)
             /\ loopAt' = 0 /\ UNCHANGED <<stack, cnt, maxn>>

Init == prog = <<>> /\ sc = <<>> /\ stack = <<>> /\ loopAt = 0 /\ cnt = 0 /\ maxn = 0
Next == \/ \E n \in Names : AddUse(n) \/ AddHUse(n) \/ AddParam(n) \/ AddWalrus(n)
        \/ \E n \in Names, h \in {"assign", "except", "del"} : AddBind(n, h)
        \/ \E n \in Names, d \in {"global", "nonlocal"} : AddDecl(n, d)
        \/ \E n \in 0..NNames : AddTarget(n)
        \/ AddCif
        \/ \E k \in {"fn", "class", "lambda", "comp"}, d \in {0, 1} : OpenScope(k, d)
        \/ CloseScope \/ OpenLoop \/ CloseLoop

---------------------------------------------------------------------------
(* Emission of cases for replay *)
RECURSIVE SetToSeq(_)
SetToSeq(S) == IF S = {} THEN <<>>
               ELSE LET m == CHOOSE x \in S : \A y \in S : x <= y IN <<m>> \o SetToSeq(S \ {m})
Code(it) == (CASE it.t = "bind" -> 1 [] it.t = "use" -> 2 [] it.t = "open" -> 3 [] it.t = "close" -> 4
               [] it.t = "target" -> 5 [] it.t = "global" -> 6 [] it.t = "nonlocal" -> 7
               [] it.t = "huse" -> 8 [] it.t = "loop" -> 9 [] it.t = "cif" -> 10 [] OTHER -> 11)
            + 13 * it.n + 29 * Len(it.h) + 37 * it.d
RECURSIVE Hash(_)
Hash(p) == IF p = <<>> THEN 7 ELSE (Code(Head(p)) + 31 * Hash(Tail(p))) % 1000003
UseRec(st, u, o) == LET g == JediGoto(u) IN
  [i |-> u, obs |-> SetToSeq(o[u]), goto |-> SetToSeq(g), land |-> SetToSeq(LandingsOf(st, u, o[u])),
   exact |-> (o[u] # {} /\ StraightLine(st, u, o[u])), verdict |-> Verdict(st, u, g, o[u])]
ClsScopes == SetToSeq({x \in Scopes : x # 0 /\ Kind(x) # "comp"})
ClsRec(s) == [s |-> s, c |-> [n \in Names |-> Cls(s, n)], m |-> [n \in Names |-> Mentioned(s, n)]]
CaseRec == LET st == Static  o == ObsOf(st) IN
  [prog |-> prog, sc |-> sc,
   uses |-> [k \in 1..Cardinality(UseSet) |-> UseRec(st, SetToSeq(UseSet)[k], o)],
   cls |-> [k \in 1..Len(ClsScopes) |-> ClsRec(ClsScopes[k])]]
\* besides the slice, a denser slice of the programs where resolution has something to
\* decide: an executed use deviates, lands on a textually later binding (position reset /
\* comprehension scope at work), sits in a header, or its name is bound in two scopes
Special == LET st == Static  o == ObsOf(st) IN
           \E u \in UseSet : o[u] # {} /\ LET g == JediGoto(u) IN
              \/ Verdict(st, u, g, o[u])[1] # "ok"
              \/ \E b \in g : b > u
              \/ prog[u].t = "huse"
              \/ \E b1, b2 \in Idx : /\ IsBind(b1) /\ IsBind(b2) /\ prog[b1].n = prog[u].n
                                      /\ prog[b2].n = prog[u].n /\ st.var[b1] # st.var[b2]
Emit == (Complete /\ Valid /\ UseSet # {} /\ ~Hazard /\ (IF Hash(prog) % EmitMod = EmitRem THEN TRUE
                                                   ELSE Hash(prog) % SpecMod = 0 /\ Special)) =>
          PrintT(<<"CASE", ToJson(CaseRec)>>)
=============================================================================
