--------------------------- MODULE Trace_Rename ---------------------------
(* Code -> spec for C05: one event per identifier occurrence of an executable program.
     Rename{outcome, refsets, rewritten, refclass, known, samerun, roundtrip, extra}
       refsets    get_references asked from every reported occurrence: a sequence of occurrence-id sets
                  (first = asked from the occurrence under the cursor)
       rewritten  the occurrences whose text the rename's new code changed (byte comparison with the original)
       extra      bytes changed outside identifier occurrences (must be 0)
       refclass   the occurrences Python's symbol tables say denote the same variable (known = TRUE), for
                  lexical variables of single-module programs
       samerun    old and new program print the same and raise the same
       roundtrip  renaming the new name back restores the original bytes
   Clauses: Partition, RewritesExactlyRefs, RefsExact (Rename.tla: exactly a class <=> behaviour preserved),
   BehaviourPreserved, RoundTrip.                                                                    *)
EXTENDS Naturals, Sequences, FiniteSets, TLC, Json, IOUtils

Traces == JsonDeserialize(IOEnv.TRACE_FILE)
VARIABLES tid, l
Ev == Traces[tid][l]
S(q) == {q[i] : i \in 1..Len(q)}

Why(e) ==
  IF e.outcome # "ok" THEN (IF e.outcome = "RefactoringError" THEN {} ELSE {"WrongFailure"})
  ELSE (IF \E i \in 1..Len(e.refsets) : S(e.refsets[i]) # S(e.refsets[1]) THEN {"Partition"} ELSE {})
  \cup (IF S(e.rewritten) # S(e.refsets[1]) \/ e.extra # 0 THEN {"RewritesExactlyRefs"} ELSE {})
  \* keyword-argument names (`f(height=1)`) denote a parameter of whatever is called: the lexical Reference
  \* (symtable) does not place them, so they are left out of this clause; Partition, RewritesExactlyRefs and
  \* BehaviourPreserved still judge them (a keyword left behind makes the run differ)
  \cup (IF e.known /\ S(e.refsets[1]) \ S(e.kwrefs) # S(e.refclass) \ S(e.kwrefs) THEN {"RefsExact"} ELSE {})
  \cup (IF ~e.samerun THEN {"BehaviourPreserved"} ELSE {})
  \cup (IF ~e.roundtrip THEN {"RoundTrip"} ELSE {})

TInit == tid \in 1..Len(Traces) /\ l = 1
TNext == l <= Len(Traces[tid]) /\ (Why(Ev) = {}) = TRUE /\ l' = l + 1 /\ UNCHANGED tid
Verdict ==
  IF l = Len(Traces[tid]) + 1 THEN PrintT(<<"ACCEPT", tid>>)
  ELSE (Why(Ev) = {}) \/ PrintT(<<"REJECT", tid, l, Why(Ev)>>)
=============================================================================
