\* reference copy of the quick configuration; the check writes its run-specific cfgs into its tmp dir
INIT Init
NEXT Next
CONSTANTS
  MaxSys = 2
  MaxAdded = 1
  MaxDepth = 2
  MaxChain = 3
  SysIdx = {1,3,4,5,6,7}
  AddedIdx = {1,4,7}
  EmitMod = 1
  EmitRem = 0
  FixEnvPath = TRUE
  FixRelProject = TRUE
INVARIANT InvRoundTrip
INVARIANT InvSysPath
INVARIANT InvImport
INVARIANT InvKnownEnvPath
INVARIANT InvKnownRelProject
INVARIANT InvVariants
CHECK_DEADLOCK FALSE
