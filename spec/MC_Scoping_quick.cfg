\* quick tier, first of the two exhaustive configurations (the check writes the run-specific
\* cfgs, incl. the emission slice, into its tmp dir; see harness/props/c03.py):
\*   all : Feat <- AllFeat,            NNames 2, MaxItems 4, MaxDepth 2   (129 787 states)
\*   core: Feat = {fn, defer, class, comp, loop, cif, iteruse}, 2, 5, 2   (297 622 states)
INIT Init
NEXT Next
CONSTANTS
  NNames = 2
  MaxItems = 4
  MaxDepth = 2
  Feat <- AllFeat
  EmitMod = 1
  EmitRem = 0
  SpecMod = 1
INVARIANT DesignOK
CHECK_DEADLOCK FALSE
