------------------------ MODULE Trace_Scoping ------------------------
(* Code -> spec for C03.  A trace is one rendered program that was executed by CPython
   and queried with Script.goto:
     event 1   [k |-> "prog", prog, sc, cls]     the abstract program and what `symtable`
                                                 says: cls = <<scope, name, "L"|"GE"|"GI"|"F">>*
     event 2.. [k |-> "use", i, obs, goto]       per load: the bindings whose values CPython
                                                 observed there, and the items goto landed on
   Every event is judged against the Reference of Scoping.tla:
     Valid / Symtable   CPython compiled the program, and classifies names as Cls does
     Observed           the execution semantics (Obs) predicts exactly the observed bindings
     scope / exact      the property: landings within Landings; exact in straight-line code
   Programs with the oracle Hazard of Scoping.tla are reported as SKIP and not judged.
   A REJECT names the failing clause, the deviation mechanism (Mech) and "drift" when the
   Design (JediGoto) did not predict the recorded landings.                             *)
EXTENDS Naturals, Sequences, FiniteSets, TLC, Json, IOUtils

CONSTANTS NNames, MaxItems, MaxDepth, Feat, EmitMod, EmitRem, SpecMod
VARIABLES prog, sc, stack, loopAt, cnt, maxn
INSTANCE Scoping

Traces == JsonDeserialize(IOEnv.TRACE_FILE)
VARIABLES tid, l,
          stv, obsv,    \* Static and Obs of the program, computed once per trace
          hz            \* Hazard: this interpreter cannot serve as oracle for the program

ToSet(q) == {q[k] : k \in 1..Len(q)}
Tr == Traces[tid]
Ev == Tr[l]

TInit == /\ tid \in 1..Len(Traces) /\ l = 1
         /\ prog = Traces[tid][1].prog /\ sc = Traces[tid][1].sc
         /\ stack = <<>> /\ loopAt = 0 /\ cnt = 0 /\ maxn = 0
         /\ stv = Static /\ obsv = ObsOf(stv) /\ hz = Hazard

SymOK == \A e \in 1..Len(Ev.cls) : Cls(Ev.cls[e][1], Ev.cls[e][2]) = Ev.cls[e][3]
UseVerdict == Verdict(stv, Ev.i, ToSet(Ev.goto), obsv[Ev.i])
Drift == Ev.k = "use" /\ JediGoto(Ev.i) # ToSet(Ev.goto)
EvOK == IF Ev.k = "prog" THEN Valid /\ SymOK
        ELSE hz \/ (ToSet(Ev.obs) = obsv[Ev.i] /\ UseVerdict[1] = "ok")
Why == IF Ev.k = "prog" THEN (IF Valid THEN {} ELSE {"Valid"}) \cup (IF Valid /\ ~SymOK THEN {"Symtable"} ELSE {})
       ELSE IF ToSet(Ev.obs) # obsv[Ev.i] THEN {"Observed"}
       ELSE {UseVerdict[1], UseVerdict[2]} \cup (IF Drift THEN {"drift"} ELSE {})

\* every event is judged (a known deviation at one use must not hide the later uses)
TNext == /\ l <= Len(Tr)
         /\ l' = l + 1
         /\ UNCHANGED <<tid, prog, sc, stack, loopAt, cnt, maxn, stv, obsv, hz>>
TraceVerdict ==
  IF l = Len(Tr) + 1 THEN PrintT(<<"ACCEPT", tid>>)
  ELSE /\ (IF l = 1 /\ hz THEN PrintT(<<"SKIP", tid>>) ELSE TRUE)
       /\ (IF Drift /\ ~hz THEN PrintT(<<"DRIFT", tid, l>>) ELSE TRUE)
       /\ (EvOK \/ PrintT(<<"REJECT", tid, l, Why>>))
=============================================================================
