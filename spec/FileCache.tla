------------------------------ MODULE FileCache ------------------------------
(* C09 -- changes to project files on disk are always seen.

   One project directory with modules Mods.  A module on disk has a content version
   and a modification time; the directory has a modification time too.  The clock
   has a granularity: several mutations may fall into one tick unless the
   environment assumption MtimeMonotone holds.

   Design (what decides whether a later Script sees the current files)
     finder[p]   the helper process' importlib FileFinder of process p: a directory
                 listing cached together with the directory mtime; refreshed iff the
                 directory mtime differs (jedi asks the real importlib finders).
     mem[p][m]   parso's in-memory entry of process p: [ver, ctime]; reused iff
                 file mtime <= ctime (parso.cache.load_module)
     pick[m]     parso's pickle shared through settings.cache_directory: [ver, ptime];
                 used iff file mtime <= pickle mtime
     per Script  the module cache lives on the inference state: nothing survives a Script
   Reference: Resolve(m) = what a fresh process with an empty cache sees: the version
   on disk, or "absent".
   Environment assumption (named, TLC checks the spec with and without it):
     MtimeMonotone  every mutation gives the file, and its directory, a modification
                    time strictly greater than every time recorded before.
   Without it TLC finds the stale cases: rewrite within one tick, an older file
   renamed over a newer one, a file created in the tick the finder listed the
   directory -- they live in parso / importlib, outside /repo.                   *)
EXTENDS Naturals, Sequences, FiniteSets, TLC

CONSTANTS Mods, Procs, MaxVer, MaxClock,
          Assume          \* TRUE: MtimeMonotone is imposed on the mutations

Absent == 0
VARIABLES fs,       \* [Mods -> [ver, mtime]]   ver = Absent: no such file
          dirm,     \* directory mtime
          now,
          nver,     \* versions handed out (every write produces new content)
          maxseen,  \* the greatest time any cache has recorded (for the assumption)
          mem,      \* [Procs -> [Mods -> [ver, ctime]]]
          pick,     \* [Mods -> [ver, ptime]]
          finder,   \* [Procs -> [listing, dm]]  dm = 0: nothing cached
          ans       \* last answer [m, got, truth]
vars == <<fs, dirm, now, nver, maxseen, mem, pick, finder, ans>>

None == [ver |-> Absent, t |-> 0]
Init == /\ fs = [m \in Mods |-> None] /\ dirm = 1 /\ now = 1 /\ nver = 0 /\ maxseen = 0
        /\ mem = [p \in Procs |-> [m \in Mods |-> None]]
        /\ pick = [m \in Mods |-> None]
        /\ finder = [p \in Procs |-> [listing |-> {}, dm |-> 0]]
        /\ ans = [m |-> "none", got |-> Absent, truth |-> Absent]

Tick == now < MaxClock /\ now' = now + 1 /\ UNCHANGED <<fs, dirm, nver, maxseen, mem, pick, finder, ans>>
\* the assumption: a mutation happens at a time later than anything recorded so far
Later == Assume => now > maxseen

\* create or overwrite m with new content (same or different size: the caches only look at times)
Write(m) == /\ nver < MaxVer /\ Later
            /\ nver' = nver + 1
            /\ fs' = [fs EXCEPT ![m] = [ver |-> nver + 1, t |-> now]]
            /\ dirm' = IF fs[m].ver = Absent THEN now ELSE dirm      \* creation changes the directory
            /\ UNCHANGED <<now, maxseen, mem, pick, finder, ans>>
Delete(m) == /\ fs[m].ver # Absent /\ Later
             /\ fs' = [fs EXCEPT ![m] = None] /\ dirm' = now
             /\ UNCHANGED <<now, nver, maxseen, mem, pick, finder, ans>>
\* rename a over b: the content AND the modification time travel with the file
Rename(a, b) == /\ a # b /\ fs[a].ver # Absent /\ Later
                /\ (Assume => fs[a].t > maxseen)          \* under the assumption the moved file is newer, too
                /\ fs' = [fs EXCEPT ![b] = fs[a], ![a] = None] /\ dirm' = now
                /\ UNCHANGED <<now, nver, maxseen, mem, pick, finder, ans>>
NewProcess(p) == /\ mem' = [mem EXCEPT ![p] = [m \in Mods |-> None]]
                 /\ finder' = [finder EXCEPT ![p] = [listing |-> {}, dm |-> 0]]
                 /\ UNCHANGED <<fs, dirm, now, nver, maxseen, pick, ans>>

Max(a, b) == IF a > b THEN a ELSE b
\* a new Script in process p resolves `import m`
Resolve(p, m) ==
  LET present == {x \in Mods : fs[x].ver # Absent}
      fnd == IF finder[p].dm = dirm THEN finder[p] ELSE [listing |-> present, dm |-> dirm]
      truth == fs[m].ver
  IN /\ finder' = [finder EXCEPT ![p] = fnd]
     /\ IF m \notin fnd.listing
        THEN /\ ans' = [m |-> m, got |-> Absent, truth |-> truth]
             /\ maxseen' = Max(maxseen, dirm)
             /\ UNCHANGED <<mem, pick>>
        ELSE IF fs[m].ver = Absent
        THEN \* listed but gone: opening the file fails, the import resolves to nothing
             /\ ans' = [m |-> m, got |-> Absent, truth |-> truth]
             /\ maxseen' = Max(maxseen, dirm) /\ UNCHANGED <<mem, pick>>
        ELSE LET pt == fs[m].t IN
             /\ maxseen' = Max(Max(Max(maxseen, dirm), pt), now)    \* incl. the time a pickle may be written
             /\ IF mem[p][m].ver # Absent /\ pt <= mem[p][m].t
                THEN /\ ans' = [m |-> m, got |-> mem[p][m].ver, truth |-> truth] /\ UNCHANGED <<mem, pick>>
                ELSE IF mem[p][m].ver = Absent /\ pick[m].ver # Absent /\ pt <= pick[m].t
                THEN /\ mem' = [mem EXCEPT ![p][m] = pick[m]]
                     /\ ans' = [m |-> m, got |-> pick[m].ver, truth |-> truth] /\ UNCHANGED pick
                ELSE \* parse the file, store entry (ctime = file mtime) and pickle (its own mtime = now)
                     /\ mem' = [mem EXCEPT ![p][m] = [ver |-> fs[m].ver, t |-> pt]]
                     /\ pick' = [pick EXCEPT ![m] = [ver |-> fs[m].ver, t |-> now]]
                     /\ ans' = [m |-> m, got |-> fs[m].ver, truth |-> truth]
  /\ UNCHANGED <<fs, dirm, now, nver>>

Next == Tick \/ (\E m \in Mods : Write(m) \/ Delete(m)) \/ (\E a, b \in Mods : Rename(a, b))
        \/ (\E p \in Procs : NewProcess(p)) \/ (\E p \in Procs, m \in Mods : Resolve(p, m))
Spec == Init /\ [][Next]_vars

\* "a definition that no longer exists is never reported and a new one is never missed"
Seen == ans.m # "none" => ans.got = ans.truth
=============================================================================
