------------------------------ MODULE FileCache ------------------------------
(* C09 -- changes to project files on disk are always seen.

   One project directory with modules Mods.  A module on disk has a content version
   and a modification time; the directory has a modification time too.  The clock
   has a granularity: several mutations may fall into one tick unless the
   environment assumption MtimeMonotone holds.

   Design (what decides whether a later Script sees the current files)
     finder[p]   the helper process' importlib FileFinder of process p: a directory
                 listing cached together with the directory mtime; refreshed iff the
                 directory mtime differs (jedi asks the real importlib finders).
     mem[p][m]   parso's in-memory entry of process p: [ver, ctime]; reused iff
                 file mtime <= ctime (parso.cache.load_module)
     pick[m]     parso's pickle shared through settings.cache_directory: [ver, ptime];
                 used iff file mtime <= pickle mtime
     per Script  the module cache lives on the inference state: nothing survives a Script
     projpaths[p] the long-lived Project object an editor plugin passes to every Script of process p:
                 Project._get_sys_path COPIES added_sys_path before it appends the directories that
                 depend on the buffer (parents of the buffer without __init__.py, buildout paths), so
                 nothing a Script computed stays on the Project (ProjectKeepsScriptPaths = FALSE;
                 the what-if TRUE appends to the shared list).  bufpkg says whether the buffer's
                 directory has an __init__.py: without one the directory itself is a search root and
                 its modules are importable as top-level modules (`import m`).
   Reference: Resolve(m) = what a fresh process with an empty cache sees: the version
   on disk, or "absent".
   Environment assumption (named, TLC checks the spec with and without it):
     MtimeMonotone  every mutation gives the file, and its directory, a modification
                    time strictly greater than every time recorded before.
   Without it TLC finds the stale cases: rewrite within one tick, an older file
   renamed over a newer one, a file created in the tick the finder listed the
   directory -- they live in parso / importlib, outside /repo.                   *)
EXTENDS Naturals, Sequences, FiniteSets, TLC

CONSTANTS Mods, Procs, MaxVer, MaxClock,
          Assume,         \* TRUE: MtimeMonotone is imposed on the mutations
          ProjectKeepsScriptPaths,  \* FALSE (the code) | TRUE (what-if)
          BufferShadowsDisk         \* TRUE (the code): Script(code, path=m) files the tree of the UNSAVED buffer in the
                                    \* in-memory parser cache under the path of m, stamped with the file's mtime; a later
                                    \* Script that imports m gets that tree while the file is not newer.  FALSE = repaired

Absent == 0
VARIABLES fs,       \* [Mods -> [ver, mtime]]   ver = Absent: no such file
          dirm,     \* directory mtime
          now,
          nver,     \* versions handed out (every write produces new content)
          maxseen,  \* the greatest time any cache has recorded (for the assumption)
          mem,      \* [Procs -> [Mods -> [ver, ctime]]]
          pick,     \* [Mods -> [ver, ptime]]
          finder,   \* [Procs -> [listing, dm]]  dm = 0: nothing cached
          ans,      \* last answer [m, got, truth]
          bufpkg,   \* the buffer's directory has an __init__.py
          projpaths \* [Procs -> BOOLEAN]  the Project object of p carries the buffer directory as a search root
vars == <<fs, dirm, now, nver, maxseen, mem, pick, finder, ans, bufpkg, projpaths>>

None == [ver |-> Absent, t |-> 0]
Init == /\ fs = [m \in Mods |-> None] /\ dirm = 1 /\ now = 1 /\ nver = 0 /\ maxseen = 0
        /\ mem = [p \in Procs |-> [m \in Mods |-> None]]
        /\ pick = [m \in Mods |-> None]
        /\ finder = [p \in Procs |-> [listing |-> {}, dm |-> 0]]
        /\ ans = [m |-> "none", got |-> Absent, truth |-> Absent]
        /\ bufpkg = TRUE /\ projpaths = [p \in Procs |-> FALSE]

Tick == now < MaxClock /\ now' = now + 1 /\ UNCHANGED <<fs, dirm, nver, maxseen, mem, pick, finder, ans, bufpkg, projpaths>>
\* the assumption: a mutation happens at a time later than anything recorded so far
Later == Assume => now > maxseen

\* create or overwrite m with new content (same or different size: the caches only look at times)
Write(m) == /\ nver < MaxVer /\ Later
            /\ nver' = nver + 1
            /\ fs' = [fs EXCEPT ![m] = [ver |-> nver + 1, t |-> now]]
            /\ dirm' = IF fs[m].ver = Absent THEN now ELSE dirm      \* creation changes the directory
            /\ UNCHANGED <<now, maxseen, mem, pick, finder, ans, bufpkg, projpaths>>
Delete(m) == /\ fs[m].ver # Absent /\ Later
             /\ fs' = [fs EXCEPT ![m] = None] /\ dirm' = now
             /\ UNCHANGED <<now, nver, maxseen, mem, pick, finder, ans, bufpkg, projpaths>>
\* rename a over b: the content AND the modification time travel with the file
Rename(a, b) == /\ a # b /\ fs[a].ver # Absent /\ Later
                /\ (Assume => fs[a].t > maxseen)          \* under the assumption the moved file is newer, too
                /\ fs' = [fs EXCEPT ![b] = fs[a], ![a] = None] /\ dirm' = now
                /\ UNCHANGED <<now, nver, maxseen, mem, pick, finder, ans, bufpkg, projpaths>>
NewProcess(p) == /\ mem' = [mem EXCEPT ![p] = [m \in Mods |-> None]]
                 /\ finder' = [finder EXCEPT ![p] = [listing |-> {}, dm |-> 0]]
                 /\ projpaths' = [projpaths EXCEPT ![p] = FALSE]
                 /\ UNCHANGED <<fs, dirm, now, nver, maxseen, pick, ans, bufpkg>>
\* an editor buffer of module m with unsaved changes is analysed in process p (nothing is written to disk)
OpenBuffer(p, m) ==
  /\ fs[m].ver # Absent /\ nver < MaxVer
  /\ nver' = nver + 1                                   \* the buffer's content is a text of its own
  /\ mem' = IF BufferShadowsDisk THEN [mem EXCEPT ![p][m] = [ver |-> nver + 1, t |-> fs[m].t]] ELSE mem
  /\ UNCHANGED <<fs, dirm, now, maxseen, pick, finder, ans, bufpkg, projpaths>>
\* the buffer's directory gets / loses its __init__.py (regular package <-> plain directory)
ToggleInit == /\ Later /\ bufpkg' = ~bufpkg /\ dirm' = now
              /\ UNCHANGED <<fs, now, nver, maxseen, mem, pick, finder, ans, projpaths>>

Max(a, b) == IF a > b THEN a ELSE b
\* a new Script in process p looks m up in the directory (through the finder and the parser caches)
Lookup(p, m, truth) ==
  LET present == {x \in Mods : fs[x].ver # Absent}
      fnd == IF finder[p].dm = dirm THEN finder[p] ELSE [listing |-> present, dm |-> dirm]
  IN /\ finder' = [finder EXCEPT ![p] = fnd]
     /\ IF m \notin fnd.listing
        THEN /\ ans' = [m |-> m, got |-> Absent, truth |-> truth]
             /\ maxseen' = Max(maxseen, dirm)
             /\ UNCHANGED <<mem, pick>>
        ELSE IF fs[m].ver = Absent
        THEN \* listed but gone: opening the file fails, the import resolves to nothing
             /\ ans' = [m |-> m, got |-> Absent, truth |-> truth]
             /\ maxseen' = Max(maxseen, dirm) /\ UNCHANGED <<mem, pick>>
        ELSE LET pt == fs[m].t IN
             /\ maxseen' = Max(Max(Max(maxseen, dirm), pt), now)    \* incl. the time a pickle may be written
             /\ IF mem[p][m].ver # Absent /\ pt <= mem[p][m].t
                THEN /\ ans' = [m |-> m, got |-> mem[p][m].ver, truth |-> truth] /\ UNCHANGED <<mem, pick>>
                ELSE IF mem[p][m].ver = Absent /\ pick[m].ver # Absent /\ pt <= pick[m].t
                THEN /\ mem' = [mem EXCEPT ![p][m] = pick[m]]
                     /\ ans' = [m |-> m, got |-> pick[m].ver, truth |-> truth] /\ UNCHANGED pick
                ELSE \* parse the file, store entry (ctime = file mtime) and pickle (its own mtime = now)
                     /\ mem' = [mem EXCEPT ![p][m] = [ver |-> fs[m].ver, t |-> pt]]
                     /\ pick' = [pick EXCEPT ![m] = [ver |-> fs[m].ver, t |-> now]]
                     /\ ans' = [m |-> m, got |-> fs[m].ver, truth |-> truth]
  /\ UNCHANGED <<fs, dirm, now, nver, bufpkg>>
\* `import pkg.m` / `from . import m`: always reachable through the project root
Resolve(p, m) == Lookup(p, m, fs[m].ver) /\ UNCHANGED projpaths
\* `import m` as a top-level module: reachable only while the buffer's directory is a search root, i.e. has no
\* __init__.py -- or while the Project object still carries it from an earlier Script (what-if)
ResolveTop(p, m) ==
  LET root == ~bufpkg \/ projpaths[p]
      truth == IF bufpkg THEN Absent ELSE fs[m].ver IN
  /\ projpaths' = IF ProjectKeepsScriptPaths /\ ~bufpkg THEN [projpaths EXCEPT ![p] = TRUE] ELSE projpaths
  /\ IF root THEN Lookup(p, m, truth)
     ELSE /\ ans' = [m |-> m, got |-> Absent, truth |-> truth]
          /\ UNCHANGED <<fs, dirm, now, nver, maxseen, mem, pick, finder, bufpkg>>

Next == Tick \/ (\E m \in Mods : Write(m) \/ Delete(m)) \/ (\E a, b \in Mods : Rename(a, b))
        \/ (\E p \in Procs : NewProcess(p)) \/ (\E p \in Procs, m \in Mods : Resolve(p, m) \/ ResolveTop(p, m))
        \/ ToggleInit \/ (\E p \in Procs, m \in Mods : OpenBuffer(p, m))
Spec == Init /\ [][Next]_vars

\* "a definition that no longer exists is never reported and a new one is never missed"
Seen == ans.m # "none" => ans.got = ans.truth
=============================================================================
