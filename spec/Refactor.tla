------------------------------ MODULE Refactor ------------------------------
(* C06 -- extract and inline keep the program valid and equivalent.

   Part 1: inlining `v = <rhs>` into a use of v.  The state space is the case table
   rhs kind x syntactic context of the use.

   Reference (Python's grammar as a precedence ladder): substituting the text of rhs for
   the name is the same tree as substituting the expression iff the binding strength of
   rhs is at least what the context requires; otherwise parentheses are needed
   (without them the result is another program or a syntax error).
     level  0 namedexpr  1 lambda   2 ternary   3 or   4 and   5 not   6 comparison
            7 |   8 ^   9 &   10 shift   11 arith   12 term   13 factor   14 power
            15 await   16 atom / atom_expr          tuple (testlist_star_expr), yield: -1
   Design (jedi/api/refactoring/__init__.py inline): parenthesise iff
        rhs.type = testlist_star_expr
     \/ parent type of the name in EXPRESSION_PARTS
        (or_test and_test not_test comparison expr xor_expr and_expr shift_expr arith_expr term
         factor power atom_expr)
     \/ parent is a trailer that has a following sibling
     \/ LowPrec (constant; TRUE = the repaired code): rhs.type is one of test (ternary), lambdef,
        yield_expr -- the kinds that bind weaker than or_test and whose parent contexts
        (test, comp_if, sync_comp_for, argument, fstring_expr ...) are not in EXPRESSION_PARTS.
   Part 2: the precondition table of inline (refuse with RefactoringError) is checked as a second
   table.  Extract (variable / function) is bound to the code by the harness' selection sweeps
   and judged by Trace_Refactor.tla.                                                    *)
EXTENDS Naturals, Sequences, FiniteSets, TLC, Json

CONSTANT LowPrec

\* rhs kinds: [id, text, level, type]   (text over the free names a b c k r lst f)
R(id, text, level, type) == [id |-> id, text |-> text, level |-> level, type |-> type]
Rhs == <<
  R("tuple", "1, 2", 0 - 0, "testlist_star_expr"),
  R("lambda", "lambda: 7", 1, "lambdef"),
  R("ternary", "3 if c else 4", 2, "test"),
  R("or", "k or b", 3, "or_test"),
  R("and", "a and b", 4, "and_test"),
  R("not", "not k", 5, "not_test"),
  R("cmp", "a < b", 6, "comparison"),
  R("bitor", "a | b", 7, "expr"),
  R("xor", "a ^ b", 8, "xor_expr"),
  R("bitand", "a & b", 9, "and_expr"),
  R("shift", "a << b", 10, "shift_expr"),
  R("arith", "a + b", 11, "arith_expr"),
  R("term", "a * b", 12, "term"),
  R("factor", "-a", 13, "factor"),
  R("power", "a ** b", 14, "power"),
  R("call", "f(a)", 16, "atom_expr"),
  R("attr", "a.real", 16, "atom_expr"),
  R("name", "a", 16, "name"),
  R("number", "5", 16, "number"),
  R("paren", "(a + b)", 16, "atom"),
  R("list", "[a, b]", 16, "atom") >>
TupleLevel == 0     \* the tuple row is special-cased below (level "-1")
Level(r) == IF r.id = "tuple" THEN 0 ELSE r.level + 1     \* shifted by one so that tuple = 0 fits Nat

\* contexts: [id, tmpl (with V for the name), req (shifted level the position requires), parent (parso type of the
\*            name's parent), sibling (a trailer parent with a following sibling)]
C(id, tmpl, req, parent, sibling) == [id |-> id, tmpl |-> tmpl, req |-> req, parent |-> parent, sibling |-> sibling]
Ctx == <<
  C("arith_l", "V + 1", 12, "arith_expr", FALSE),
  C("arith_r", "1 - V", 13, "arith_expr", FALSE),
  C("term_l", "V * 2", 13, "term", FALSE),
  C("power_r", "2 ** V", 14, "power", FALSE),
  C("power_l", "V ** 2", 16, "power", FALSE),
  C("factor", "-V", 14, "factor", FALSE),
  C("not", "not V", 6, "not_test", FALSE),
  C("and_l", "V and k", 6, "and_test", FALSE),
  C("or_r", "k or V", 5, "or_test", FALSE),
  C("cmp_l", "V < 9", 8, "comparison", FALSE),
  C("tern_then", "V if k else 0", 4, "test", FALSE),
  C("tern_cond", "0 if V else 1", 4, "test", FALSE),
  C("tern_else", "0 if k else V", 2, "test", FALSE),
  C("arg", "f(V)", 1, "trailer", FALSE),
  C("arg2", "f(k, V)", 1, "arglist", FALSE),
  C("kwarg", "f(k=V)", 2, "argument", FALSE),
  C("index", "lst[V]", 0, "trailer", FALSE),
  C("attr_recv", "V.real", 17, "atom_expr", FALSE),
  C("call_recv", "V()", 17, "atom_expr", FALSE),
  C("comp_elt", "[V for _ in r]", 1, "testlist_comp", FALSE),
  C("comp_iter", "[0 for _ in V]", 4, "sync_comp_for", FALSE),
  C("comp_if", "[0 for _ in r if V]", 4, "comp_if", FALSE),
  C("lambda_body", "(lambda: V)()", 2, "lambdef", FALSE),
  C("assign", "V", 0, "expr_stmt", FALSE),
  C("slice", "lst[V:]", 2, "subscript", FALSE),
  C("tuple_elt", "(V, 1)", 1, "testlist_comp", FALSE),
  C("list_elt", "[V, 1]", 1, "testlist_comp", FALSE),
  C("dict_val", "{1: V}", 2, "dictorsetmaker", FALSE),
  C("arg_then_attr", "f(V).count(1)", 1, "trailer", TRUE),
  C("star_arg", "f(*V)", 2, "argument", FALSE) >>

ExpressionParts == {"or_test", "and_test", "not_test", "comparison", "expr", "xor_expr", "and_expr", "shift_expr",
                    "arith_expr", "term", "factor", "power", "atom_expr"}

\* (one lexical special case: `5.real` is a float literal followed by a name)
NeedParens(r, c) == Level(r) < c.req \/ (r.id = "number" /\ c.id = "attr_recv")
JediParens(r, c) ==
  \/ r.type = "testlist_star_expr"
  \/ c.parent \in ExpressionParts
  \/ (c.parent = "trailer" /\ c.sibling)
  \/ (LowPrec /\ r.type \in {"test", "lambdef", "yield_expr"} /\ c.parent # "expr_stmt")

VARIABLES ri, ci
vars == <<ri, ci>>
Init == ri \in 1..Len(Rhs) /\ ci \in 1..Len(Ctx)
Next == UNCHANGED vars
Spec == Init /\ [][Next]_vars

\* inlining never changes the program: where parentheses are needed they are written
InlineSound == NeedParens(Rhs[ri], Ctx[ci]) => JediParens(Rhs[ri], Ctx[ci])
Emit == PrintT(<<"CASE", ToJson([rhs |-> Rhs[ri], ctx |-> Ctx[ci], need |-> NeedParens(Rhs[ri], Ctx[ci]),
                                 parens |-> JediParens(Rhs[ri], Ctx[ci])])>>)

---------------------------------------------------------------------------
(* Part 2: preconditions of inline.  A request is described by what is under the cursor. *)
Pre == [ hasName : BOOLEAN, isModuleOrNs : BOOLEAN, isBuiltin : BOOLEAN, ndefs : 0..2, nrefs : 0..1,
         defKind : {"expr_stmt", "funcdef", "classdef", "param", "for_stmt", "import"},
         targets : 1..2, op : {"=", "annassign_value", "annassign_only", "augassign"} ]
Refuses(p) ==
  \/ ~p.hasName \/ p.isModuleOrNs \/ p.isBuiltin
  \/ p.ndefs # 1 \/ p.nrefs = 0
  \/ p.defKind # "expr_stmt"
  \/ p.targets > 1
  \/ p.op \in {"annassign_only", "augassign"}
\* what the property needs: whenever inline does NOT refuse, the name has exactly one definition that is a plain
\* (possibly annotated) assignment with a value, and at least one reference -- substitution is meaningful
Meaningful(p) == p.hasName /\ ~p.isModuleOrNs /\ ~p.isBuiltin /\ p.ndefs = 1 /\ p.nrefs >= 1
                 /\ p.defKind = "expr_stmt" /\ p.targets = 1 /\ p.op \in {"=", "annassign_value"}
PreSound == \A p \in Pre : ~Refuses(p) => Meaningful(p)
PreSoundInv == PreSound
=============================================================================
