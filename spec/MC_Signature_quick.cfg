\* Quick exhaustive configuration of Signature.tla, index mode (the check writes its run-specific
\* cfgs itself: index 3/2, render 3, wrap 2/1 in quick; index 4/3, render 4, wrap 3/2 in thorough).
INIT Init
NEXT Next
CONSTANTS
  MaxParams = 3
  MaxArgs = 2
  Mode = "index"
  EmitMod = 1
  EmitRem = 0
  EmitParts = 1
  EmitPart = 0
INVARIANT IndexOK
INVARIANT DevTight
INVARIANT MirrorOK
INVARIANT KindOK
INVARIANT RoundTripOK
INVARIANT GrammarOK
CHECK_DEADLOCK FALSE
