INIT Init
NEXT Next
CONSTANTS
  NNames = 2
  MaxItems = 4
  MaxDepth = 2
  EmitMod = 1
  EmitRem = 0
INVARIANT DesignOK
CHECK_DEADLOCK FALSE
