---------------------------- MODULE Trace_Infer ----------------------------
(* Code -> spec for C02: one event per probed expression that the run reached.
     {runtime, rline, inferred, single}
       runtime   name of the class of the run-time value (of the class itself when the value is a class)
       rline     line of the class statement that created it (0 for builtins)
       inferred  what Script.infer reports: sequence of <<name, line (0 for builtins)>>
       single    every run of the program gives the same class at this expression
   Sound  : the run-time class is among the inferred ones
   Site   : and that definition points at the class statement that really created the value
   Precise: where single, exactly that class is inferred.                                          *)
EXTENDS Naturals, Sequences, FiniteSets, TLC, Json, IOUtils

Traces == JsonDeserialize(IOEnv.TRACE_FILE)
VARIABLES tid, l
Ev == Traces[tid][l]
Names(e) == {e.inferred[i][1] : i \in 1..Len(e.inferred)}
Why(e) ==
     (IF e.runtime \notin Names(e) THEN {"Sound"} ELSE {})
  \cup (IF e.runtime \in Names(e) /\ e.rline # 0
           /\ ~\E i \in 1..Len(e.inferred) : e.inferred[i][1] = e.runtime /\ e.inferred[i][2] = e.rline
        THEN {"Site"} ELSE {})
  \cup (IF e.single /\ e.runtime \in Names(e) /\ Names(e) # {e.runtime} THEN {"Precise"} ELSE {})

TInit == tid \in 1..Len(Traces) /\ l = 1
TNext == l <= Len(Traces[tid]) /\ (Why(Ev) = {}) = TRUE /\ l' = l + 1 /\ UNCHANGED tid
Verdict ==
  IF l = Len(Traces[tid]) + 1 THEN PrintT(<<"ACCEPT", tid>>)
  ELSE (Why(Ev) = {}) \/ PrintT(<<"REJECT", tid, l, Why(Ev)>>)
=============================================================================
