------------------------------ MODULE BufCache ------------------------------
(* C08 -- answers do not depend on the editing history of a buffer.

   Texts are opaque ids.  A slot is a path, or NoPath which ALL path-less buffers
   share (parso's cache key is the path).  Every cached datum carries the text it was
   computed from, so staleness is visible.

   Design (the mechanisms the property is anchored in)
     pitem[s]   parso's cache entry parser_cache[grammar][s]: [gen, lines, tree].
                Script.__init__ parses with diff_cache=True: equal lines -> same entry,
                same tree; different lines -> the diff parser updates the tree and
                try_to_save_module stores a NEW entry (new gen).
     defc/scopec  jedi.inference.filters._definition_name_cache and
                parser_utils' parent-scope cache: weak-keyed on the parso ENTRY
                (DerivedKey = "entry"), so they die with it.  What-if DerivedKey =
                "slot" models keying on the path / module node instead.
     sigc       jedi.cache signature_time_cache, cleared of expired entries at Script
                construction.  Its key contains an re.Match object, which is never
                equal to another one, so it cannot hit (SigKeyComparable = FALSE);
                the what-if TRUE shows what a comparable key would do.
     memo       all inference memoisation lives on the per-Script inference state.
   Reference: the answer to a query is F(text of the buffer), nothing else.
   Proviso of the property: the incrementally re-parsed tree equals a fresh parse
   (ParsoDeviates = FALSE).                                                       *)
EXTENDS Naturals, Sequences, FiniteSets, TLC

CONSTANTS Slots, NoText, Texts, MaxGen, MaxClock, Validity,
          DerivedKey,          \* "entry" (the code) | "slot" (what-if)
          SigKeyComparable,    \* FALSE (the code) | TRUE (what-if)
          ParsoDeviates        \* FALSE = the proviso holds

VARIABLES buf,      \* [Slots -> Texts]        what the editor shows
          pitem,    \* [Slots -> [gen, lines, tree]]   gen = 0: no entry
          gens,     \* entries created so far (entry identities)
          defc,     \* [key -> text the cached names were computed from, NoText = nothing cached]
          sigc,     \* [Slots -> [exp, text]]  exp = 0: nothing cached
          clock,
          script,   \* the Script under use: [slot, text, gen, memo]   slot = "none": no Script yet
          ans       \* last answer: [q, basis]  basis = the text the answer was derived from
vars == <<buf, pitem, gens, defc, sigc, clock, script, ans>>

NoScript == [slot |-> "none", text |-> NoText, gen |-> 0, memo |-> NoText]
Keys == IF DerivedKey = "entry" THEN 1..MaxGen ELSE Slots

Init == /\ buf \in [Slots -> Texts]
        /\ pitem = [s \in Slots |-> [gen |-> 0, lines |-> NoText, tree |-> NoText]]
        /\ gens = 0
        /\ defc = [k \in Keys |-> NoText]
        /\ sigc = [s \in Slots |-> [exp |-> 0, text |-> NoText]]
        /\ clock = 0 /\ script = NoScript /\ ans = [q |-> "none", basis |-> NoText]

\* any edit: insert/delete/replace lines, indent/dedent, paste, undo -- all are "the text becomes t"
Edit(s, t) == /\ buf[s] # t /\ buf' = [buf EXCEPT ![s] = t]
              /\ UNCHANGED <<pitem, gens, defc, sigc, clock, script, ans>>

Tick == clock < MaxClock /\ clock' = clock + 1 /\ UNCHANGED <<buf, pitem, gens, defc, sigc, script, ans>>

\* Script(code=buf[s], path=s): diff parse against the entry of the slot, clear expired time caches
NewScript(s) ==
  /\ IF pitem[s].gen # 0 /\ pitem[s].lines = buf[s]
     THEN UNCHANGED <<pitem, gens>>
     ELSE /\ gens < MaxGen /\ gens' = gens + 1
          /\ \E tr \in (IF ParsoDeviates THEN Texts ELSE {buf[s]}) :
               pitem' = [pitem EXCEPT ![s] = [gen |-> gens + 1, lines |-> buf[s], tree |-> tr]]
  /\ sigc' = [x \in Slots |-> IF sigc[x].exp # 0 /\ sigc[x].exp <= clock THEN [exp |-> 0, text |-> NoText] ELSE sigc[x]]
  /\ script' = [slot |-> s, text |-> buf[s], gen |-> IF pitem[s].gen # 0 /\ pitem[s].lines = buf[s] THEN pitem[s].gen ELSE gens + 1,
                memo |-> NoText]
  /\ ans' = [q |-> "none", basis |-> NoText]
  /\ UNCHANGED <<buf, defc, clock>>

DKey == IF DerivedKey = "entry" THEN script.gen ELSE script.slot
\* a query that goes through the derived name caches (goto / infer / complete / references)
QueryNames ==
  /\ script.slot # "none" /\ buf[script.slot] = script.text      \* the Script is asked about the text it was built for
  /\ LET tree == pitem[script.slot].tree IN
     IF defc[DKey] # NoText
     THEN /\ ans' = [q |-> "names", basis |-> defc[DKey]] /\ UNCHANGED defc
     ELSE /\ defc' = [defc EXCEPT ![DKey] = tree] /\ ans' = [q |-> "names", basis |-> tree]
  /\ UNCHANGED <<buf, pitem, gens, sigc, clock, script>>
\* get_signatures goes through the time cache
QuerySig ==
  /\ script.slot # "none" /\ buf[script.slot] = script.text
  /\ LET s == script.slot tree == pitem[s].tree IN
     IF SigKeyComparable /\ sigc[s].exp # 0
     THEN /\ ans' = [q |-> "sig", basis |-> sigc[s].text] /\ UNCHANGED sigc
     ELSE /\ sigc' = [sigc EXCEPT ![s] = [exp |-> clock + Validity, text |-> tree]]
          /\ ans' = [q |-> "sig", basis |-> tree]
  /\ UNCHANGED <<buf, pitem, gens, defc, clock, script>>

Next == (\E s \in Slots, t \in Texts : Edit(s, t)) \/ Tick \/ (\E s \in Slots : NewScript(s)) \/ QueryNames \/ QuerySig
Spec == Init /\ [][Next]_vars

\* the answer is derived from the current text of the buffer the Script was built for
Fresh == ans.q # "none" => ans.basis = script.text
\* no cache entry that can be hit for the current Script was computed from another text
NoStaleHit == (script.slot # "none" /\ defc[DKey] # NoText) => defc[DKey] = script.text
=============================================================================
