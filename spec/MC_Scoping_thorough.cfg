\* thorough tier, first of the three exhaustive configurations:
\*   all : Feat <- AllFeat,  NNames 2, MaxItems 5, MaxDepth 3            (3 629 797 states)
\*   mid : all but huse/except/del,        2, 5, 3
\*   core: {fn, defer, class, comp, loop, cif, iteruse}, 2, 6, 3          (5 981 061 states)
\* beyond: -simulate with NNames 3, MaxItems 10/12, MaxDepth 4
INIT Init
NEXT Next
CONSTANTS
  NNames = 2
  MaxItems = 5
  MaxDepth = 3
  Feat <- AllFeat
  EmitMod = 1
  EmitRem = 0
  SpecMod = 1
INVARIANT DesignOK
CHECK_DEADLOCK FALSE
