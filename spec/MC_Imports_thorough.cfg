INIT Init
NEXT Next
CONSTANTS
  Names = {"pka", "pkb"}
  AttrNames = {"pka", "pkb", "pkc", "pkd"}
  MaxDepth = 2
  MaxNodes = 3
  Kinds = {"mod", "pkg", "pkga", "ns", "both", "modns"}
  Shapes = {"one", "onep", "two", "twop", "nestafter", "nestbefore", "rev"}
  MaxLevel = 3
  MaxFromPath = 1
  EmitMod = 1
  EmitRem = 0
INVARIANT SameTarget
INVARIANT DottedRoundTrip
INVARIANT RefTotal
CHECK_DEADLOCK FALSE
