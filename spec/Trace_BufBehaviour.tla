------------------------ MODULE Trace_BufBehaviour ------------------------
(* Spec -> code -> spec for C08.  A behaviour of BufCache.tla (produced by TLC -simulate) was executed
   step by step in ONE process on the real jedi with a virtual clock; every step comes back as an event
     [act |-> "edit", slot, text] | [act |-> "tick"] | [act |-> "script", slot]
     [act |-> "names" | "sig", same]      same = the answer equals the answer a FRESH process gives for
                                          the text the Script was built from (Reference: F(text))
   Each event must be the BufCache action of that name, and for a query the logged `same` must be what
   the model says about the answer it produced: ans'.basis = script.text.  With the constants of the
   code (SigKeyComparable = FALSE, DerivedKey = "entry") the model always answers from the current
   text, so `same = FALSE` is rejected (AnswerNotFromCurrentText); under the what-if constants the very
   same trace of a changed implementation can be accepted, which names the mechanism that changed.  *)
EXTENDS Naturals, Sequences, FiniteSets, TLC, Json, IOUtils

CONSTANTS Slots, NoText, Texts, MaxGen, MaxClock, Validity, DerivedKey, SigKeyComparable, ParsoDeviates
VARIABLES buf, pitem, gens, defc, sigc, clock, script, ans
INSTANCE BufCache

Traces == JsonDeserialize(IOEnv.TRACE_FILE)
VARIABLES tid, l
Ev == Traces[tid][l]

TInit == /\ tid \in 1..Len(Traces) /\ l = 1
         /\ buf = [s \in Slots |-> Traces[tid][1].init[s]]
         /\ pitem = [s \in Slots |-> [gen |-> 0, lines |-> NoText, tree |-> NoText]]
         /\ gens = 0 /\ defc = [k \in Keys |-> NoText]
         /\ sigc = [s \in Slots |-> [exp |-> 0, text |-> NoText]]
         /\ clock = 0 /\ script = NoScript /\ ans = [q |-> "none", basis |-> NoText]

Step(e) ==
  CASE e.act = "init"   -> UNCHANGED <<buf, pitem, gens, defc, sigc, clock, script, ans>>
    [] e.act = "edit"   -> Edit(e.slot, e.text)
    [] e.act = "tick"   -> Tick
    [] e.act = "script" -> NewScript(e.slot)
    [] e.act = "names"  -> QueryNames /\ (e.same = (ans'.basis = script.text))
    [] e.act = "sig"    -> QuerySig /\ (e.same = (ans'.basis = script.text))

\* what the model answers from, evaluated before the query is taken
NamesBasis == IF defc[DKey] # NoText THEN defc[DKey] ELSE pitem[script.slot].tree
SigBasis == IF SigKeyComparable /\ sigc[script.slot].exp # 0 THEN sigc[script.slot].text ELSE pitem[script.slot].tree
Asked == script.slot # "none" /\ buf[script.slot] = script.text
Why(e) ==
  CASE e.act = "names"  -> IF ~Asked THEN {"QueryWithoutScript"}
                           ELSE IF e.same # (NamesBasis = script.text) THEN {"AnswerNotFromCurrentText"} ELSE {}
    [] e.act = "sig"    -> IF ~Asked THEN {"QueryWithoutScript"}
                           ELSE IF e.same # (SigBasis = script.text) THEN {"AnswerNotFromCurrentText"} ELSE {}
    [] e.act = "tick"   -> IF clock >= MaxClock THEN {"ClockBound"} ELSE {}
    [] e.act = "script" -> IF ~(pitem[e.slot].gen # 0 /\ pitem[e.slot].lines = buf[e.slot]) /\ gens >= MaxGen THEN {"GenBound"} ELSE {}
    [] e.act = "edit"   -> IF buf[e.slot] = e.text THEN {"EditWithoutChange"} ELSE {}
    [] OTHER -> {}
TNext == l <= Len(Traces[tid]) /\ (Why(Ev) = {}) = TRUE /\ Step(Ev) /\ l' = l + 1 /\ UNCHANGED tid
Verdict ==
  IF l = Len(Traces[tid]) + 1 THEN PrintT(<<"ACCEPT", tid>>)
  ELSE (Why(Ev) = {}) \/ PrintT(<<"REJECT", tid, l, Why(Ev)>>)
=============================================================================
