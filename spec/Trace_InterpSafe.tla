------------------------ MODULE Trace_InterpSafe ------------------------
(* Code -> spec for C13.  A trace = the Interpreter queries made on one randomly generated
   object graph (several classes with several attributes, protocol methods, hooks, nested in
   containers, spread over two namespaces); an event = one query:

     s       the shape of what the query reaches, in the vocabulary of InterpSafe.tla
             (for attribute events: the shape of the attribute that is queried)
     exec    tags logged by the user-defined special methods while the query ran
     obs     what infer reported: sequence of "name:api_type" strings
     actual  "name:api_type" of the object CPython finds there (<<>> wrapped: <<x>> or <<>>)
     names_ok  dir(receiver) \subseteq offered names (only for `.` completions)
     py_exec / py_val  what the real getattr did (oracle), to keep PyLookup honest

   Every event is judged against the *Reference* sentences of InterpSafe.tla
   (SafeNoExec, InferPlainExact, NamesSupersetDir).  A REJECT carries the names of the failing
   clauses plus the named deviations (D1..D7) that the Design blames for this shape, so that
   the harness can tell a known finding from a new one.                                     *)
EXTENDS Naturals, Sequences, FiniteSets, TLC, Json, IOUtils

CONSTANTS MaxPath, EmitMod, EmitRem, Fixed
VARIABLES c, st
INSTANCE InterpSafe

Traces == JsonDeserialize(IOEnv.TRACE_FILE)
VARIABLES tid, l

ToSet(q) == {q[i] : i \in 1..Len(q)}
Shape(e) == [e.s EXCEPT !.protos = ToSet(e.s.protos)]

\* sentence 3 on the logged observation: exactly the class of the object actually stored
ObsExact(e) == e.actual # <<>> /\ e.obs = e.actual
EvRes(e)  == LET s == Shape(e) IN
             IF s.model = "attr" THEN (IF PlainAttrCase(s) /\ ObsExact(e) THEN PyLookup(s).val ELSE "wrong")
             ELSE IF ObsExact(e) THEN "exact" ELSE "wrong"
EvWhy(e)  == LET s == Shape(e) IN
             RefWhy(s, ToSet(e.exec), EvRes(e), e.names_ok)
             \cup (IF s.model = "attr" /\ e.py_known /\
                      (PyLookup(s).exec # ToSet(e.py_exec) \/ PyLookup(s).val # e.py_val)
                   THEN {"OracleMismatch"} ELSE {})
EvOK(e)   == EvWhy(e) = {}
\* the named deviations explain a breach only if the Design predicted this very execution
Blame(e)  == LET s == Shape(e) IN IF ToSet(e.exec) \subseteq Exec(s, Fixed) THEN Dev(s) ELSE {}

TInit == tid \in 1..Len(Traces) /\ l = 1 /\ c = Blank /\ st = "trace"
Ev == Traces[tid][l]
TNext == /\ l <= Len(Traces[tid])
         /\ EvOK(Ev) = TRUE
         /\ l' = l + 1
         /\ UNCHANGED <<tid, c, st>>
Verdict ==
  IF l = Len(Traces[tid]) + 1 THEN PrintT(<<"ACCEPT", tid>>)
  ELSE EvOK(Ev) \/ PrintT(<<"REJECT", tid, l, EvWhy(Ev) \cup Blame(Ev)>>)
=============================================================================
