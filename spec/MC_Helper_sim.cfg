INIT Init
NEXT Next
CONSTANTS
  MaxScripts = 4
  MaxCalls = 5
  MaxCrashes = 2
  MaxRaises = 1
  Addrs = {1, 2, 3}
  TruncIsEOF = TRUE
INVARIANT AtMostOnePerCrash
CHECK_DEADLOCK FALSE
