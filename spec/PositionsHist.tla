--------------------------- MODULE PositionsHist ---------------------------
(* C17, the multi-file / multi-version dimension.

   A project holds main.py (never changes) and hmod.py, a module main.py imports.  hmod.py has
   VERSIONS (texts; pool Vers): what is on disk and what an editor holds as unsaved buffer.
   The state space is the set of small HISTORIES of events
       write(v, t)   version v is written to disk, the file's mtime becomes t (any t: a later
                     one, the same one -- coarse mtime granularity --, an older one -- cp -p,
                     git checkout, rsync -t);
       buffer(v)     Script(code = text of v, path = hmod.py).get_names(...): an unsaved buffer;
       query(q)      a Script of main.py reaches hmod.py: q = "import" (goto/infer/help/
                     get_signatures/get_references/complete on `hmod.fun(1)`), q = "search"
                     (Project.search / complete_search, which scan the project's files).
   TLC enumerates the histories by actions.

   Reference (property text): every Name reported into hmod.py carries a line/column at which
   THE TEXT is its name, its definition range encloses it, and get_line_code() is THAT line.
   With several versions around, "the text" is ONE version: the text the reported module was
   analysed from.  For the Script of the buffer itself that is the buffer (exact).  For a module
   reached from another file the property text does not say how fresh the analysed version must
   be, so the Reference only demands: SOME version that existed so far (written or held in a
   buffer) satisfies all clauses (PositionsText: ClTextAtPos, ClRange, ClLineCode) at once.

   Design (jedi + parso, transcribed):
     * parso.cache.parser_cache[grammar][path] = (tree, lines, change_time): one entry per path;
     * Script(code, path): grammar.parse(code, path, cache=False, diff_cache=True): if the entry's
       lines equal the new lines the entry is kept AS IT IS (also its change_time); else the tree is
       updated (diff parser / full parse) and try_to_save_module stores (tree, lines of the BUFFER,
       change_time = mtime of the file on disk).  Script._code_lines = split_lines(code);
     * imports._load_python_module(file_io) <- import_module / load_module_from_path:
       inference_state.parse(file_io, cache=True, diff_cache=True): parso.cache.load_module reuses
       the entry iff  mtime(file) <= entry.change_time  -- whatever text it was made from
       (DEV-StaleTree: an unsaved buffer or an older disk version is served for the file);
       else the disk text is parsed and stored with change_time = mtime.
       code_lines = get_cached_code_lines(grammar, path) = the entry's lines: the tree and the
       lines always belong to the same version;
     * references.search_in_file_ios / _check_fs: a project file is loaded only if the regex
       \bname\b matches its DISK text (then as above);
     * Name.line/column = tokenizer position in the tree's text, get_line_code() = code_lines[line-1].
   What-if FreshLines = TRUE: code_lines taken from a fresh read of the file instead of the cache
   entry (tree of one version, lines of another): OneVersion must fail (sensitivity run); the
   counterexample is replayed on the real code, where it must not reproduce.

   The pickle cache on disk only matters across processes (the RAM entry has priority): not
   modelled; the harness replays one history in one process with unique paths.              *)
EXTENDS Naturals, Sequences, FiniteSets, TLC, Json, PositionsText

CONSTANTS NVer,        \* versions 1..NVer of the pool are in use
          MaxT,        \* mtimes 1..MaxT
          MaxEv,       \* events per history
          FreshLines,  \* what-if (see above)
          EmitMod, EmitRem

---------------------------------------------------------------------------
(* The version pool *)
lDef   == <<100,101,102,32,102,117,110,40,97,41,58>>                          \* 'def fun(a):'
lDefC  == <<100,101,102,32,102,117,110,40,97,41,58,32,32,35,32,120>>          \* 'def fun(a):  # x'
lRet   == <<32,32,32,32,114,101,116,117,114,110,32,97>>                       \* '    return a'
lAsg   == <<102,117,110,32,61,32,49>>                                         \* 'fun = 1'
lCls   == <<99,108,97,115,115,32,102,117,110,58>>                             \* 'class fun:'
lClsA  == <<32,32,32,32,97,32,61,32,49>>                                      \* '    a = 1'
lGun   == <<100,101,102,32,103,117,110,40,97,41,58,32,32,35,32,102,117,110>>  \* 'def gun(a):  # fun'
lIf    == <<105,102,32,49,58>>                                                \* 'if 1:'
lIDef  == <<32,32,32,32,100,101,102,32,102,117,110,40,97,41,58>>              \* '    def fun(a):'
lIRet  == <<32,32,32,32,32,32,32,32,114,101,116,117,114,110,32,97>>           \* '        return a'
lHc    == <<35,32,99>>                                                        \* '# c'
lHff   == <<35,32,99,12,102,117,110>>                                         \* '# c\ffun'
lGone  == <<120,32,61,32,49>>                                                 \* 'x = 1'
wFun   == <<102,117,110>>   wGun == <<103,117,110>>   wA == <<97>>   wX == <<120>>
MainText == <<105,109,112,111,114,116,32,104,109,111,100, LF,                 \* 'import hmod\n'
              104,109,111,100,46,102,117,110,40,49,41, LF>>                   \* 'hmod.fun(1)\n'
Word == wFun                 \* the name main.py asks about: cursor (2, 6); call brackets at (2, 9)

(* An identifier token of a version's body: line ln of the body, column col, text txt;
   rep = how a query of main.py can reach it ("def": the module-level definition of Word,
   "param": a parameter of it, reported by get_signatures().params, "": only by the buffer's
   own get_names()); the definition range as parso gives it: from the first leaf of the
   definition (dl, dc) to the end of its last leaf (ll, lc, llen) -- for a token that does not
   bind, the token itself.                                                                  *)
Tk(ln, col, txt, rep, dl, dc, ll, lc, llen) ==
  [ln |-> ln, col |-> col, txt |-> txt, rep |-> rep, dl |-> dl, dc |-> dc, ll |-> ll, lc |-> lc, llen |-> llen]
Kind(k) ==
  CASE k = "def"  -> [body |-> <<lDef, lRet>>,
                      toks |-> <<Tk(1, 4, wFun, "def", 1, 0, 2, 11, 1), Tk(1, 8, wA, "param", 1, 8, 1, 8, 1),
                                 Tk(2, 11, wA, "", 2, 11, 2, 11, 1)>>]
    [] k = "defc" -> [body |-> <<lDefC, lRet>>,
                      toks |-> <<Tk(1, 4, wFun, "def", 1, 0, 2, 11, 1), Tk(1, 8, wA, "param", 1, 8, 1, 8, 1),
                                 Tk(2, 11, wA, "", 2, 11, 2, 11, 1)>>]
    [] k = "asg"  -> [body |-> <<lAsg>>, toks |-> <<Tk(1, 0, wFun, "def", 1, 0, 1, 6, 1)>>]
    [] k = "cls"  -> [body |-> <<lCls, lClsA>>,
                      toks |-> <<Tk(1, 6, wFun, "def", 1, 0, 2, 8, 1), Tk(2, 4, wA, "", 2, 4, 2, 8, 1)>>]
    [] k = "ren"  -> [body |-> <<lGun, lRet>>,        \* the word only in a comment: the regex matches, no such name
                      toks |-> <<Tk(1, 4, wGun, "", 1, 0, 2, 11, 1), Tk(1, 8, wA, "", 1, 8, 1, 8, 1),
                                 Tk(2, 11, wA, "", 2, 11, 2, 11, 1)>>]
    [] k = "ind"  -> [body |-> <<lIf, lIDef, lIRet>>,
                      toks |-> <<Tk(2, 8, wFun, "def", 2, 4, 3, 15, 1), Tk(2, 12, wA, "param", 2, 12, 2, 12, 1),
                                 Tk(3, 15, wA, "", 3, 15, 3, 15, 1)>>]
    [] k = "gone" -> [body |-> <<lGone>>, toks |-> <<Tk(1, 0, wX, "", 1, 0, 1, 4, 1)>>]

Ver(hdr, kind, eol) == [hdr |-> hdr, kind |-> kind, eol |-> eol]
Vers == <<
  Ver(<<>>, "def", <<LF>>),                  \* 1  def fun(a): / return a
  Ver(<<lHc, <<>>>>, "defc", <<LF>>),        \* 2  two lines further down, another text on the def line
  Ver(<<>>, "asg", <<LF>>),                  \* 3  one line only, column 0
  Ver(<<lHc>>, "cls", <<CR, LF>>),           \* 4  one line further down, column 6, CRLF
  Ver(<<>>, "ren", <<LF>>),                  \* 5  the name is gone from the code, but \bfun\b still matches
  Ver(<<lHff>>, "ind", <<CR>>),              \* 6  form feed inside a comment (str.splitlines breaks there), CR, column 8
  Ver(<<>>, "gone", <<LF>>)                  \* 7  the word is gone from the text
>>
ASSUME NVer \in 1..Len(Vers)

VLines(v)   == v.hdr \o Kind(v.kind).body
VText(v)    == LET ls == VLines(v) IN Flat([i \in 1..Len(ls) |-> ls[i] \o v.eol])
\* offset of (line ln of the body, column col)
VOff(v, ln, col) == LET ls == VLines(v)  n == Len(v.hdr) + ln - 1
                    IN Len(Flat([i \in 1..n |-> ls[i] \o v.eol])) + col
IsWordCh(c) == c \in 48..57 \/ c \in 65..90 \/ c \in 97..122 \/ c = US
\* re.compile(r'\b' + name + r'\b').search(text)  (ASCII texts)
HasWord(t, w) == \E i \in 1..(Len(t) - Len(w) + 1) :
                   /\ SubSeq(t, i, i + Len(w) - 1) = w
                   /\ (i = 1 \/ ~IsWordCh(t[i - 1]))
                   /\ (i + Len(w) > Len(t) \/ ~IsWordCh(t[i + Len(w)]))
\* everything about a version, computed once
VerT == Explicit([x \in 1..Len(Vers) |->
        LET v == Vers[x]  t == VText(v)  tk == Kind(v.kind).toks
        IN [text |-> t, starts |-> Starts(t), dlines |-> DSplitLines(t), word |-> HasWord(t, Word),
            toks |-> Explicit([k \in 1..Len(tk) |->
                       [off |-> VOff(v, tk[k].ln, tk[k].col), txt |-> tk[k].txt, rep |-> tk[k].rep,
                        dsoff |-> VOff(v, tk[k].dl, tk[k].dc), lloff |-> VOff(v, tk[k].ll, tk[k].lc),
                        llen |-> tk[k].llen]])]])
\* the token table is right about the texts; the texts are pairwise different
ASSUME \A x \in 1..Len(Vers) : \A k \in 1..Len(VerT[x].toks) :
         LET tk == VerT[x].toks[k] IN SubSeq(VerT[x].text, tk.off + 1, tk.off + Len(tk.txt)) = tk.txt
ASSUME \A x, y \in 1..Len(Vers) : x # y => VerT[x].text # VerT[y].text
\* the harness renders from the spec's own table
ASSUME PrintT(<<"VERSIONS", ToJson([main |-> MainText, vers |-> [x \in 1..Len(Vers) |-> VerT[x].text]])>>)

---------------------------------------------------------------------------
(* DESIGN, API level: the Name jedi reports for token k of the tree of version tv while the
   module's code_lines are those of version lv *)
Rec(tv, lv, k) ==
  LET tk == VerT[tv].toks[k]  lines == VerT[tv].dlines  p == DPos(lines, tk.off)
  IN [line |-> p[1], col |-> p[2], name |-> tk.txt,
      ds |-> <<DPos(lines, tk.dsoff)>>,
      de |-> <<DEndPos(DPos(lines, tk.lloff), tk.llen)>>,
      lc |-> DLineCode(VerT[lv].dlines, p[1], 0, 0), tok |-> k]
Recs(tv, lv, ks) == LET s == SortedSeq(ks) IN [i \in 1..Len(s) |-> Rec(tv, lv, s[i])]
AllToks(v)     == 1..Len(VerT[v].toks)
QToks(q, v)    == {k \in AllToks(v) : IF q = "import" THEN VerT[v].toks[k].rep \in {"def", "param"}
                                      ELSE VerT[v].toks[k].rep = "def"}

VARIABLES disk,    \* [v, mt]: version on disk and its mtime (v = 0: no file yet)
          cache,   \* [v, ct, org]: parser_cache entry of hmod.py (v = 0: none); org = "buffer" | "disk"
          hist,    \* the events so far
          reps,    \* per event, what the Design says jedi reports into hmod.py
          seen     \* versions that existed so far
vars == <<disk, cache, hist, reps, seen>>

NoRep == [kind |-> "none", tv |-> 0, lv |-> 0, src |-> "", exact |-> FALSE, names |-> <<>>]
Init == /\ disk = [v |-> 0, mt |-> 0] /\ cache = [v |-> 0, ct |-> 0, org |-> ""]
        /\ hist = <<>> /\ reps = <<>> /\ seen = {}

Write(v, t) ==
  /\ Len(hist) < MaxEv
  /\ disk' = [v |-> v, mt |-> t] /\ UNCHANGED cache
  /\ hist' = Append(hist, [ev |-> "write", v |-> v, t |-> t, q |-> ""])
  /\ reps' = Append(reps, NoRep)
  /\ seen' = seen \cup {v}
\* Script(code, path = hmod.py).get_names(all_scopes, definitions, references)
Buffer(v) ==
  /\ Len(hist) < MaxEv /\ disk.v # 0
  /\ cache' = IF cache.v = v THEN cache ELSE [v |-> v, ct |-> disk.mt, org |-> "buffer"]   \* old_lines == lines: untouched
  /\ UNCHANGED disk
  /\ hist' = Append(hist, [ev |-> "buffer", v |-> v, t |-> 0, q |-> ""])
  /\ reps' = Append(reps, [kind |-> "buffer", tv |-> v, lv |-> v, src |-> "own", exact |-> TRUE,
                           names |-> Recs(v, v, AllToks(v))])
  /\ seen' = seen \cup {v}
Query(q) ==
  /\ Len(hist) < MaxEv /\ disk.v # 0
  /\ LET loads == IF q = "import" THEN TRUE ELSE VerT[disk.v].word          \* _check_fs looks at the disk text
         hit   == IF cache.v # 0 THEN disk.mt <= cache.ct ELSE FALSE      \* parso.cache.load_module
         c2    == IF loads /\ ~hit THEN [v |-> disk.v, ct |-> disk.mt, org |-> "disk"] ELSE cache
         tv    == c2.v
         lv    == IF FreshLines THEN disk.v ELSE c2.v                     \* get_cached_code_lines
         src   == IF tv = disk.v THEN "fresh" ELSE IF c2.org = "buffer" THEN "cached-buffer" ELSE "cached-old-disk"
     IN /\ cache' = c2
        /\ reps' = Append(reps, IF loads THEN [kind |-> q, tv |-> tv, lv |-> lv, src |-> src, exact |-> FALSE,
                                               names |-> Recs(tv, lv, QToks(q, tv))]
                                ELSE NoRep)
  /\ UNCHANGED <<disk, seen>>
  /\ hist' = Append(hist, [ev |-> "query", v |-> 0, t |-> 0, q |-> q])
Next == \/ \E v \in 1..NVer : \E t \in 1..MaxT : Write(v, t)
        \/ \E v \in 1..NVer : Buffer(v)
        \/ \E q \in {"import", "search"} : Query(q)

---------------------------------------------------------------------------
(* Design |= Reference *)
Fits(v, r)    == NameWhy(VerT[v].text, VerT[v].starts, r) = {}
Cands(rep)    == IF rep.exact THEN {rep.tv} ELSE seen
OneVersion    == reps # <<>> =>
                   LET rep == Last(reps) IN \A i \in 1..Len(rep.names) : \E v \in Cands(rep) : Fits(v, rep.names[i])
\* not demanded by the property (freshness), but what the code promises: tree and lines of one entry
SameEntry     == reps # <<>> => Last(reps).tv = Last(reps).lv
\* a module reached through another file is served from a stale entry (DEV-StaleTree); used by the
\* harness as a reachability probe (must be violated), never as a verdict
NeverStale    == reps # <<>> => Last(reps).src \in {"", "own", "fresh"}

---------------------------------------------------------------------------
(* emission of histories for replay: complete ones that end in an observation *)
RECURSIVE HashH(_)
HashH(h) == IF h = <<>> THEN 7
            ELSE LET e == Last(h)
                     c == IF e.ev = "write" THEN 10 * e.v + e.t ELSE IF e.ev = "buffer" THEN 100 + e.v
                          ELSE IF e.q = "import" THEN 201 ELSE 202
                 IN (31 * HashH(SubSeq(h, 1, Len(h) - 1)) + c) % 100003
\* the slice is denser where a stale parser-cache entry is served and thinner where the history ends in the
\* buffer's own get_names() (Positions.tla covers that): 1/(EmitMod \div 8), 1/EmitMod, 1/(8 * EmitMod) of the explored ones
EmitModOf(rep) == IF rep.src = "cached-old-disk" THEN (IF EmitMod >= 8 THEN EmitMod \div 8 ELSE 1)
                  ELSE IF rep.kind = "buffer" THEN 8 * EmitMod ELSE EmitMod
\* (the emission run explores a quarter of the two-event prefixes only: a single worker prints)
EmitPrefix == Len(hist) = 2 => HashH(hist) % 4 = EmitRem % 4
Emit == (Len(hist) = MaxEv /\ Last(hist).ev # "write"
         /\ LET m == EmitModOf(Last(reps)) IN HashH(hist) % m = EmitRem % m) =>
          PrintT(<<"CASE", ToJson([hist |-> hist, reps |-> reps])>>)
=============================================================================
