------------------------------- MODULE Switch -------------------------------
(* C16 -- temporary switches: what a query computes while a process-wide or Script-wide switch is
   turned the other way must not answer later queries.

   jedi/inference/references.py find_references sets inference_state.flow_analysis_enabled = False
   while it collects the defining names (both sides of every `if` are wanted), and restores it in a
   `finally` block.  Inference results are memoised in inference_state.memoize_cache under keys that
   do not contain the switch.

   The same pattern exists for process-wide settings (dynamic_arrays turns settings.dynamic_params_for_other_modules
   off while it searches for list.append calls) and for other per-Script switches (allow_descriptor_getattr,
   dynamic_params_depth, is_analysis): SwitchRestored is observed on the real code after EVERY query of the C16
   histories for every attribute of jedi.settings and these inference-state attributes.

   Model: variables V whose value depends on the switch: with flow analysis ON an `if 1: x = A() else:
   x = B()` yields {A}, with it OFF {A, B}.  Queries on one Script:
     Infer(v)   flow analysis on; answers memo[v] if present, else computes with the CURRENT switch
     Refs(v)    switch off; infers v underneath (memoised); restores the switch; may raise in the
                middle (the finally block still restores)
   Reference: Infer(v) always answers what a fresh Script answers: On(v).
   Deviation of the code, modelled as it is: MemoKeyedOnSwitch = FALSE -- the value computed under Refs
   is found by the later Infer.  The repaired design (TRUE) keys the memo on the switch.            *)
EXTENDS Naturals, Sequences, FiniteSets, TLC, Json

CONSTANTS V, MaxQueries, MemoKeyedOnSwitch

VARIABLES switch,      \* flow_analysis_enabled
          memo,        \* [V -> [on |-> "absent"|"on"|"off" ...]] : which computation the stored value came from, per key
          hist,        \* the queries so far: Seq([q, v, raised, ans])  ans = what an infer answered
          answer       \* last Infer answer: "none" | "on" | "off"   (which value set it is)
vars == <<switch, memo, hist, answer>>

Absent == "absent"
\* the memo has one slot per variable (code) or one per (variable, switch) (repaired design)
Slot(s) == IF MemoKeyedOnSwitch THEN (IF s THEN "k_on" ELSE "k_off") ELSE "k"
Slots == IF MemoKeyedOnSwitch THEN {"k_on", "k_off"} ELSE {"k"}

Init == /\ switch = TRUE /\ memo = [v \in V |-> [s \in Slots |-> Absent]]
        /\ hist = <<>> /\ answer = "none"

\* _infer_node_cached: look the value up, else compute it under the current switch and store it
Lookup(v, s) == IF memo[v][Slot(s)] # Absent THEN memo[v][Slot(s)] ELSE (IF s THEN "on" ELSE "off")
Stored(v, s) == [memo EXCEPT ![v][Slot(s)] = Lookup(v, s)]

Infer(v) ==
  /\ Len(hist) < MaxQueries
  /\ answer' = Lookup(v, switch) /\ memo' = Stored(v, switch)
  /\ hist' = Append(hist, [q |-> "infer", v |-> v, raised |-> FALSE, ans |-> Lookup(v, switch)])
  /\ UNCHANGED switch

\* find_references: try: switch off; infer the defining names ... finally: switch on
Refs(v, raises) ==
  /\ Len(hist) < MaxQueries
  /\ memo' = IF raises THEN memo ELSE Stored(v, FALSE)      \* a raise before anything was inferred stores nothing
  /\ switch' = TRUE                                          \* the finally block
  /\ answer' = "none"
  /\ hist' = Append(hist, [q |-> "refs", v |-> v, raised |-> raises, ans |-> "none"])

Next == \E v \in V : Infer(v) \/ \E r \in BOOLEAN : Refs(v, r)
Spec == Init /\ [][Next]_vars

SwitchRestored == switch = TRUE
\* an Infer answers what a fresh Script answers
Repeatable == answer \in {"none", "on"}

Emit == (Len(hist) = MaxQueries) => PrintT(<<"CASE", ToJson([hist |-> hist, answer |-> answer])>>)
=============================================================================
