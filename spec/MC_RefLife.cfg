SPECIFICATION Spec
CONSTANTS
  Paths = {p1, p2, p3}
  NoPath = NoPath
  Contents = {c1, c2}
  Absent = Absent
INVARIANT NothingBeforeApply
INVARIANT ApplyAnnounced
INVARIANT WritesHitExistingFiles
INVARIANT OnlyAnnouncedTouched
PROPERTY NoWriteBeforeApply
CHECK_DEADLOCK FALSE
