\* Design |= Reference, exhaustive (quick tier; harness/props/c18.py writes the run-specific copies)
INIT Init
NEXT Next
CONSTANTS
  MaxItems = 4
  MaxDepth = 3
  MaxScopes = 4
  MaxExtras = 1
  Units = {2, 4, 8}
  EmitMod = 1
  EmitRem = 0
  Fixed = {"AsyncColumn", "DedentCont", "LambdaInClass", "CompWhile"}
  MaxNest = 0
  NestKinds = {"list", "set", "dict", "gen", "lam"}
  Plain = FALSE
INVARIANT DesignMeetsReference
CHECK_DEADLOCK FALSE
