--------------------------- MODULE Signature ---------------------------
(* C11 -- signatures mirror the definition; index locates the argument.

   Text is Seq(Nat) (code points).  A *definition* is the sequence of children of
   parso's `parameters` node without the commas: parameter tokens, "/" and bare "*".
   A *call prefix* is a sequence of completed arguments followed by the slot being typed.

   Reference = Python: kinds as inspect.signature reports them (RefKind), binding of self
                (RefBound), call binding of the argument being typed (Acceptable, written
                from the language reference's call semantics; validated against real calls
                in CPython by the harness), the grammar of parameter lists (WF).
   Design    = what jedi does, transcribed:
                names.py   _ActualTreeParamName.get_kind        -> GetKind / Scan
                names.py   BaseTreeParamName.get_public_name    -> PublicName
                signature.py TreeSignature.get_param_names      -> DesignBound  (params[1:])
                signature.py _SignatureMixin.to_string          -> ToStr / TS
                helpers.py _iter_arguments (per argument shape) -> IterArguments
                helpers.py CallDetails.calculate_index          -> CalcIndex / Loop1 / Loop2
                star_args.py process_params , the kwargs-forwarding path -> Reported
   Deviations of the code from the Reference are modelled as they are and named Dev*.
   TLC checks Design |= Reference modulo the named deviations for every reachable state;
   the state space is the input space (a definition being typed token by token, then a
   call being typed argument by argument, then the slot).                                *)
EXTENDS Naturals, Sequences, FiniteSets, TLC, Json

CONSTANTS MaxParams,   \* parameters per definition
          MaxArgs,     \* completed arguments before the slot
          Mode,        \* "index": names vary, no default/annotation, form = func
                       \* "render": names by position, default/annotation vary, all forms, no call
                       \* "wrap": wrapped definition + **kwargs pass-through wrapper
          EmitMod, EmitRem,   \* emission: the slice CaseNo % EmitMod = EmitRem
          EmitParts, EmitPart \* emission: this run explores the calls of definitions hashing to EmitPart

---------------------------------------------------------------------------
(* Text *)
US == 95
StartsWith(s, p) == Len(p) <= Len(s) /\ \A i \in 1..Len(p) : s[i] = p[i]
IsDunder(n)  == Len(n) >= 2 /\ n[1] = US /\ n[2] = US
B2N(b) == IF b THEN 1 ELSE 0

---------------------------------------------------------------------------
(* Definitions as token sequences *)
Tok(t, name, stars, def, ann) == [t |-> t, name |-> name, stars |-> stars, def |-> def, ann |-> ann]
Slash    == Tok("/", <<>>, 0, FALSE, FALSE)
BareStar == Tok("*", <<>>, 0, FALSE, FALSE)
HasTok(d, t) == \E j \in 1..Len(d) : d[j].t = t
ParamSet(d)  == {j \in 1..Len(d) : d[j].t = "param"}
NParams(d)   == Cardinality(ParamSet(d))
RECURSIVE Positions(_, _)
Positions(d, j) == IF j > Len(d) THEN <<>>
                   ELSE (IF d[j].t = "param" THEN <<j>> ELSE <<>>) \o Positions(d, j + 1)

(* Reference: Python's grammar of parameter lists (what compiles).  WFLast judges the last
   token given a well-formed prefix; Complete = may be closed with ")". *)
KwOnlyRegion(d) == \E j \in 1..Len(d) : d[j].t = "*" \/ (d[j].t = "param" /\ d[j].stars = 1)
WFLast(d) ==
  LET n == Len(d)  last == d[n]  before == SubSeq(d, 1, n - 1) IN
  IF last.t = "/" THEN n > 1 /\ \A j \in 1..(n - 1) : before[j].t = "param" /\ before[j].stars = 0
  ELSE IF last.t = "*" THEN \A j \in 1..(n - 1) : before[j].t # "*" /\ before[j].stars = 0
  ELSE /\ \A j \in 1..(n - 1) : before[j].t = "param" => before[j].name # last.name
       /\ \A j \in 1..(n - 1) : before[j].stars # 2
       /\ last.stars = 1 => ~KwOnlyRegion(before)
       /\ last.stars = 2 => ~(n > 1 /\ before[n - 1].t = "*")
       /\ last.stars > 0 => ~last.def
       /\ (last.stars = 0 /\ ~last.def /\ ~KwOnlyRegion(before)) =>
             \A j \in 1..(n - 1) : ~(before[j].t = "param" /\ before[j].def)
RECURSIVE WF(_)
WF(d) == IF d = <<>> THEN TRUE ELSE WF(SubSeq(d, 1, Len(d) - 1)) /\ WFLast(d)
Complete(d) == IF d = <<>> THEN TRUE ELSE d[Len(d)].t # "*"

---------------------------------------------------------------------------
(* Reference: parameter kinds and binding of self, as inspect.signature reports them *)
RefKind(d, i) ==
  IF d[i].stars = 1 THEN "VP" ELSE IF d[i].stars = 2 THEN "VK"
  ELSE IF \E j \in (i + 1)..Len(d) : d[j].t = "/" THEN "PO"
  ELSE IF \E j \in 1..(i - 1) : d[j].t = "*" \/ d[j].stars = 1 THEN "KO"
  ELSE "PK"
Param(name, kind, def, ann) == [name |-> name, kind |-> kind, def |-> def, ann |-> ann]
RefParams(d) == LET ps == Positions(d, 1) IN
  [k \in 1..Len(ps) |-> Param(d[ps[k]].name, RefKind(d, ps[k]), d[ps[k]].def, d[ps[k]].ann)]

Forms == {"func", "method", "classmethod", "staticmethod", "init"}
BindsFirst(form) == form \in {"method", "classmethod", "init"}
\* Python binds the instance/class to the first *positional* parameter; when the first
\* parameter is *args the bound signature keeps it (self is swallowed by the tuple).
RefBound(form, ps) == IF BindsFirst(form) /\ ps # <<>> /\ ps[1].kind \in {"PO", "PK"}
                      THEN Tail(ps) ELSE ps
\* definitions that can be called through the form at all
FormOK(form, d) == IF BindsFirst(form)
                   THEN (IF d = <<>> THEN FALSE ELSE d[1].t = "param" /\ d[1].stars \in {0, 1})
                   ELSE TRUE

---------------------------------------------------------------------------
(* Design: names.py get_kind, transcribed.  j walks parent.children. *)
RECURSIVE Scan(_, _, _, _)
Scan(d, i, j, appeared) ==
  IF j > Len(d) THEN "PK"
  ELSE LET p == d[j] IN
       IF appeared THEN (IF p.t = "/" THEN "PO" ELSE Scan(d, i, j + 1, TRUE))
       ELSE IF p.t = "*" THEN "KO"
       ELSE IF p.t = "param" THEN (IF p.stars > 0 THEN "KO" ELSE Scan(d, i, j + 1, j = i))
       ELSE Scan(d, i, j + 1, FALSE)
GetKind(d, i) ==
  IF d[i].stars = 1 THEN "VP" ELSE IF d[i].stars = 2 THEN "VK"
  ELSE IF IsDunder(d[i].name) THEN "PO"    \* deviation DevDunder: "__x" => positional-only
  ELSE Scan(d, i, 1, FALSE)
\* get_public_name: the "__" is cut off only for parameters of stub files (repaired in /repo 7f3412e;
\* before, every "__x" was shown as "x").  The programs of this model are ordinary source.
PublicName(n) == n
\* a design parameter keeps string_name (used by calculate_index) and the public name
DParam(name, pub, kind, def, ann) == [name |-> name, pub |-> pub, kind |-> kind, def |-> def, ann |-> ann]
DesignParams(d) == LET ps == Positions(d, 1) IN
  [k \in 1..Len(ps) |-> DParam(d[ps[k]].name, PublicName(d[ps[k]].name), GetKind(d, ps[k]),
                                d[ps[k]].def, d[ps[k]].ann)]
\* star_args.process_params on a function that forwards nothing: positional(-only) parameters are
\* yielded at once, then *args, then the keyword-only names, then **kwargs.  The identity on every
\* list Python compiles -- except that a "__x" written after *args / "*" (positional-only for jedi)
\* jumps in front of *args.
ProcessOwn(ps) == SelectSeq(ps, LAMBDA p : p.kind \in {"PO", "PK"}) \o SelectSeq(ps, LAMBDA p : p.kind = "VP")
                  \o SelectSeq(ps, LAMBDA p : p.kind = "KO") \o SelectSeq(ps, LAMBDA p : p.kind = "VK")
\* TreeSignature.get_param_names: is_bound => params[1:], whatever the first parameter is
DesignBound(form, ps) == IF BindsFirst(form) THEN (IF ps = <<>> THEN <<>> ELSE Tail(ps)) ELSE ps
\* what the API shows (ParamName.name/.kind/.to_string)
Shown(ps) == [k \in 1..Len(ps) |-> Param(ps[k].pub, ps[k].kind, ps[k].def, ps[k].ann)]

(* Design: signature.py to_string, transcribed (the generator's two flags). The result is a
   token sequence again, so "re-parses to the same signature" is RefParams(ToStr(..)). *)
StarsOf(kind) == IF kind = "VP" THEN 1 ELSE IF kind = "VK" THEN 2 ELSE 0
RECURSIVE TS(_, _, _, _)
TS(P, i, isPositional, isKwOnly) ==
  IF i > Len(P) THEN (IF isPositional THEN <<Slash>> ELSE <<>>)
  ELSE LET kind == P[i].kind
           pos1 == isPositional \/ kind = "PO"
           emitSlash == pos1 /\ kind # "PO"
           emitStar  == kind # "VP" /\ kind = "KO" /\ ~isKwOnly
       IN (IF emitSlash THEN <<Slash>> ELSE <<>>)
          \o (IF emitStar THEN <<BareStar>> ELSE <<>>)
          \o <<Tok("param", P[i].pub, StarsOf(kind), P[i].def, P[i].ann)>>
          \o TS(P, i + 1, pos1 /\ ~emitSlash, isKwOnly \/ kind = "VP" \/ kind = "KO")
ToStr(P) == TS(P, 1, FALSE, FALSE)

---------------------------------------------------------------------------
(* Calls.  Completed argument: [t \in {"pos","kw","star","dstar"}, name]; slot: [t, s] with
   t \in {"empty","frag","kweq","star","dstar"}; s = fragment / keyword typed so far. *)
Arg(t, name) == [t |-> t, name |-> name]
Slot(t, s)   == [t |-> t, s |-> s]
HasArg(C, t) == \E j \in 1..Len(C) : C[j].t = t
KwNames(C)   == {C[j].name : j \in {j \in 1..Len(C) : C[j].t = "kw"}}
NPlain(C)    == Cardinality({j \in 1..Len(C) : C[j].t = "pos"})
\* Reference: Python's call syntax (what compiles)
ValidLastArg(C) ==
  LET n == Len(C)  last == C[n]  before == SubSeq(C, 1, n - 1) IN
  IF last.t = "pos" THEN ~HasArg(before, "kw") /\ ~HasArg(before, "dstar")
  ELSE IF last.t = "star" THEN ~HasArg(before, "dstar")
  ELSE IF last.t = "kw" THEN last.name \notin KwNames(before)
  ELSE TRUE
SlotAllowed(C, S) ==
  IF S.t = "kweq" THEN S.s \notin KwNames(C)
  ELSE IF S.t = "star" THEN ~HasArg(C, "dstar")
  ELSE TRUE

(* Reference: which parameter Python binds the argument being typed to.
   P is a parameter list as inspect.signature reports it (positional parameters first).
   Unknowns: a completed *expr contributes any number of positionals (a "world" = total number
   of positionals npos); a completed **expr may contribute any keywords -- the world with none
   dominates; an empty slot or a bare fragment may become a positional argument (if the syntax
   still allows one) or a keyword whose name starts with the fragment.                       *)
NPos(P) == Cardinality({i \in 1..Len(P) : P[i].kind \in {"PO", "PK"}})
IdxOf(P, kind) == IF \E i \in 1..Len(P) : P[i].kind = kind
                  THEN CHOOSE i \in 1..Len(P) : P[i].kind = kind ELSE 0
VPi(P) == IdxOf(P, "VP")
VKi(P) == IdxOf(P, "VK")
Named(P, n) == {i \in 1..Len(P) : P[i].name = n /\ P[i].kind \in {"PK", "KO"}}
\* target of keyword n when npos positionals were passed; 0 = TypeError
KwTarget(P, n, npos) ==
  IF Named(P, n) # {} THEN LET i == CHOOSE i \in Named(P, n) : TRUE IN
                           IF P[i].kind = "PK" /\ i <= npos THEN 0 ELSE i
  ELSE VKi(P)
\* (beyond NPos(P) + 1 positionals all worlds behave alike: everything further lands in *args or fails)
Worlds(P, C) == IF HasArg(C, "star")
                THEN NPlain(C)..(IF NPlain(C) > NPos(P) + 1 THEN NPlain(C) ELSE NPos(P) + 1)
                ELSE {NPlain(C)}
PrefixBinds(P, C, npos) == /\ (npos <= NPos(P) \/ VPi(P) # 0)
                           /\ \A n \in KwNames(C) : KwTarget(P, n, npos) # 0
Blocked(P, C, j) == P[j].kind = "PK" /\ P[j].name \in KwNames(C)
PosTarget(P, C, npos) == IF npos + 1 <= NPos(P) THEN (IF Blocked(P, C, npos + 1) THEN 0 ELSE npos + 1)
                         ELSE VPi(P)
KwSyntax(C) == HasArg(C, "kw") \/ HasArg(C, "dstar")
KwFree(P, C, npos) == {i \in 1..Len(P) : /\ P[i].kind \in {"PK", "KO"}
                                          /\ P[i].name \notin KwNames(C)
                                          /\ ~(P[i].kind = "PK" /\ i <= npos)}
SlotTargets(P, C, S, npos) ==
  IF S.t \in {"empty", "frag"} THEN
       (IF KwSyntax(C) THEN {} ELSE {PosTarget(P, C, npos)})
       \cup {i \in KwFree(P, C, npos) : StartsWith(P[i].name, S.s)}
       \cup {VKi(P)}                          \* a fresh keyword starting with the fragment
  ELSE IF S.t = "kweq" THEN {KwTarget(P, S.s, npos)}
  ELSE IF S.t = "star" THEN
       {i \in (npos + 1)..NPos(P) : \A j \in (npos + 1)..i : ~Blocked(P, C, j)}
       \cup (IF \A j \in (npos + 1)..NPos(P) : ~Blocked(P, C, j) THEN {VPi(P)} ELSE {})
  ELSE KwFree(P, C, npos) \cup {VKi(P)}
GoodWorlds(P, C) == {w \in Worlds(P, C) : PrefixBinds(P, C, w)}
PrefixOK(P, C)   == GoodWorlds(P, C) # {}
Acceptable(P, C, S) == UNION {SlotTargets(P, C, S, w) : w \in GoodWorlds(P, C)} \ {0}
\* the property's clause: 0 encodes None
IndexAgrees(P, C, S, idx) == IF Acceptable(P, C, S) = {} THEN idx = 0 ELSE idx \in Acceptable(P, C, S)

---------------------------------------------------------------------------
(* Design: helpers.py _iter_arguments, per argument shape.  A triple is
   [sc (star_count), ks (key_start wrapped: <<s>>, or <<>> for None), eq (had_equal)].   *)
Triple(sc, ks, eq) == [sc |-> sc, ks |-> ks, eq |-> eq]
XName == <<120>>
ArgTriple(c) == IF c.t = "pos" THEN Triple(0, <<<<>>>>, FALSE)          \* yielded by the ',' rule
                ELSE IF c.t = "kw" THEN Triple(0, <<c.name>>, TRUE)
                ELSE IF c.t = "star" THEN Triple(1, <<XName>>, FALSE)
                ELSE Triple(2, <<XName>>, FALSE)
SlotTriple(S) == IF S.t = "empty" THEN Triple(0, <<<<>>>>, FALSE)
                 ELSE IF S.t = "frag" THEN Triple(0, <<S.s>>, FALSE)
                 ELSE IF S.t = "kweq" THEN Triple(0, <<S.s>>, TRUE)
                 ELSE IF S.t = "star" THEN Triple(1, <<S.s>>, FALSE)
                 ELSE Triple(2, <<S.s>>, FALSE)
IterArguments(C, S) == [j \in 1..Len(C) |-> ArgTriple(C[j])] \o <<SlotTriple(S)>>

(* Design: CallDetails.calculate_index, line for line.  TLA+ indices are 1-based: i here is
   the code's i + 1; the result 0 is the code's None, k > 0 is the code's k - 1.          *)
RECURSIVE Loop1(_, _, _)
Loop1(A, j, st) ==                       \* for i, (star_count, key_start, had_equal) in enumerate(args)
  IF j > Len(A) THEN st
  ELSE LET a   == A[j]
           kw1 == st.kw \/ a.eq \/ a.sc = 2                        \* is_kwarg |= had_equal | (star_count == 2)
           st1 == IF a.sc # 0 THEN [st EXCEPT !.kw = kw1]           \* if star_count: pass
                  ELSE IF j # Len(A)                                \* if i + 1 != len(args)
                       THEN IF a.eq THEN [st EXCEPT !.kw = kw1, !.used = @ \cup {a.ks}]
                                    ELSE [st EXCEPT !.kw = kw1, !.pc = @ + 1]
                       ELSE [st EXCEPT !.kw = kw1]
       IN Loop1(A, j + 1, st1)
RECURSIVE Loop2(_, _, _, _)
Loop2(P, i, st, last) ==                 \* for i, param_name in enumerate(param_names)
  IF i > Len(P) THEN 0                   \* return None
  ELSE LET kind == P[i].kind
           posHit == ~st.kw /\ (kind = "VP" \/ (kind \in {"PK", "PO"} /\ (i - 1) = st.pc))
           \* key_start is not None and not star_count == 1 or star_count == 2
           kwBranch == (last.ks # <<>> /\ ~(last.sc = 1)) \/ last.sc = 2
           cand == /\ <<P[i].name>> \notin st.used
                   /\ (kind = "KO" \/ (kind = "PK" /\ st.pc <= i - 1))
           candHit == cand /\ (IF last.sc # 0 THEN TRUE
                               ELSE IF last.eq THEN last.ks = <<P[i].name>>
                               ELSE StartsWith(P[i].name, last.ks[1]))
       IN IF posHit THEN i
          ELSE IF kwBranch /\ candHit THEN i
          ELSE IF kwBranch /\ kind = "VK" THEN i
          ELSE Loop2(P, i + 1, st, last)
CalcIndex(P, A) ==
  IF A = <<>> THEN (IF P # <<>> THEN 1 ELSE 0)
  ELSE Loop2(P, 1, Loop1(A, 1, [kw |-> FALSE, pc |-> 0, used |-> {}]), A[Len(A)])

---------------------------------------------------------------------------
(* Design: star_args.py process_params, the **kwargs forwarding path:
       def w(<own params>, **k): return f(<given positionals>, <given keywords>, **k)
   _remove_given_params + process_params(.., star_count=2) + the outer merge.          *)
RECURSIVE RemoveGiven(_, _, _)
RemoveGiven(F, count, usedKeys) ==       \* F: design params of f
  IF F = <<>> THEN <<>>
  ELSE LET p == Head(F) IN
       IF count > 0 /\ p.kind \in {"PO", "PK", "VP"} THEN RemoveGiven(Tail(F), count - 1, usedKeys)
       ELSE IF p.name \in usedKeys /\ p.kind \in {"KO", "PK", "VK"} THEN RemoveGiven(Tail(F), count, usedKeys)
       ELSE <<p>> \o RemoveGiven(Tail(F), count, usedKeys)
\* process_params(rest, star_count=2): PO and *args dropped, PK -> keyword-only, KO kept, **kw last
KwOnlyOf(F) == SelectSeq([k \in 1..Len(F) |-> IF F[k].kind = "PK" THEN [F[k] EXCEPT !.kind = "KO"] ELSE F[k]],
                         LAMBDA p : p.kind = "KO")
VarKwOf(F)  == SelectSeq(F, LAMBDA p : p.kind = "VK")
RECURSIVE Dedupe(_, _)
Dedupe(ps, used) == IF ps = <<>> THEN <<>>
                    ELSE IF Head(ps).name \in used THEN Dedupe(Tail(ps), used)
                    ELSE <<Head(ps)>> \o Dedupe(Tail(ps), used \cup {Head(ps).name})
\* W: design params of w (its last one is the forwarded **k); given: positional count, keyword names
Reported(W, F, givenPos, givenKw) ==
  LET own   == SelectSeq(W, LAMBDA p : p.kind \in {"PO", "PK"})
      ownVP == SelectSeq(W, LAMBDA p : p.kind = "VP")
      ownKO == SelectSeq(W, LAMBDA p : p.kind = "KO")
      rest  == RemoveGiven(F, givenPos, givenKw)
      used  == {W[k].name : k \in {k \in 1..Len(W) : W[k].kind = "PK"}}
      vk    == VarKwOf(rest)
  IN own \o ownVP \o Dedupe(ownKO \o KwOnlyOf(rest), used) \o (IF vk = <<>> THEN <<>> ELSE <<vk[1]>>)

(* Reference for wrappers: a complete call (npos positionals, keyword set kws) is accepted by a
   parameter list iff Python binds it without TypeError (nothing missing, nothing extra). *)
Accepts(P, npos, kws) ==
  /\ (npos <= NPos(P) \/ VPi(P) # 0)
  /\ \A n \in kws : KwTarget(P, n, npos) # 0
  /\ \A i \in 1..Len(P) :
        (P[i].kind \in {"PO", "PK", "KO"} /\ ~P[i].def) =>
            \/ (P[i].kind \in {"PO", "PK"} /\ i <= npos)
            \/ (P[i].kind \in {"PK", "KO"} /\ P[i].name \in kws)
\* what the wrapper does with a call: its own parameters bind first, the remaining keywords
\* travel in **k to f together with the given arguments
OwnKwNames(W) == {W[k].name : k \in {k \in 1..Len(W) : W[k].kind \in {"PK", "KO"}}}
RunsWrapped(Wref, Fref, givenPos, givenKw, npos, kws) ==
  LET passed == {n \in kws : KwTarget(Wref, n, npos) = VKi(Wref)} IN
  /\ Accepts(Wref, npos, kws)
  /\ passed \cap givenKw = {}                   \* f(c=2, **{'c': ..}) -> multiple values
  /\ Accepts(Fref, givenPos, givenKw \cup passed)

---------------------------------------------------------------------------
(* Bounded model *)
a == 97  b == 98
NamePool == { <<a>>, <<a, b>>, <<b>>, <<US, US, 120>> }          \* a ab b __x
CallKw   == NamePool \cup { <<122>> }                           \* + z (no such parameter)
Frags    == { <<a>>, <<a, b>>, <<b>>, <<122>>, <<US>>, <<US, US, 120>> }
PosName(k) == <<112, 48 + k>>                                   \* p1 p2 ...

VARIABLES defn,      \* the definition (of f)
          wdefn,     \* Mode = "wrap": the wrapper's own parameter tokens (without **k)
          given,     \* Mode = "wrap": [pos |-> n, kw |-> set of names] passed explicitly to f
          call, slot, form, phase
vars == <<defn, wdefn, given, call, slot, form, phase>>

ParamToks(d) ==
  IF Mode = "index" THEN {Tok("param", n, s, FALSE, FALSE) : n \in NamePool, s \in 0..2}
  ELSE IF Mode = "render"
       THEN {Tok("param", PosName(NParams(d) + 1), s, df, an) : s \in 0..2, df \in BOOLEAN, an \in BOOLEAN}
  ELSE {Tok("param", n, s, df, FALSE) : n \in {<<a>>, <<b>>, <<99>>}, s \in 0..2, df \in BOOLEAN}
Toks(d) == ParamToks(d) \cup {Slash, BareStar}
ArgSet  == {Arg("pos", <<>>), Arg("star", <<>>), Arg("dstar", <<>>)} \cup {Arg("kw", n) : n \in CallKw}
SlotSet == {Slot("frag", s) : s \in Frags} \cup {Slot("kweq", n) : n \in CallKw}
           \cup {Slot("star", <<>>), Slot("star", XName), Slot("dstar", <<>>), Slot("dstar", XName)}
EmptySlot == Slot("empty", <<>>)
NoGiven == [pos |-> 0, kw |-> {}]

Init == /\ defn = <<>> /\ wdefn = <<>> /\ given = NoGiven /\ call = <<>> /\ slot = EmptySlot
        /\ phase = "def"
        /\ form \in (IF Mode = "render" THEN Forms ELSE {"func"})

AddTok(k) == /\ phase = "def"
             /\ (k.t = "param" => NParams(defn) < MaxParams)
             /\ WFLast(Append(defn, k))
             /\ defn' = Append(defn, k)
             /\ UNCHANGED <<wdefn, given, call, slot, form, phase>>
EndDef == /\ phase = "def" /\ Complete(defn) /\ FormOK(form, defn)
          /\ phase' = (IF Mode = "wrap" THEN "wdef" ELSE "call")
          /\ UNCHANGED <<defn, wdefn, given, call, slot, form>>
\* the wrapper: own plain parameters (PK / keyword-only after a bare star), then what it passes on
AddWTok(k) == /\ phase = "wdef"
              /\ (k.t = "param" => (k.stars = 0 /\ NParams(wdefn) < MaxArgs))   \* wrap mode: MaxArgs bounds the wrapper's own parameters
              /\ k.t # "/"
              /\ WFLast(Append(wdefn, k))
              /\ wdefn' = Append(wdefn, k)
              /\ UNCHANGED <<defn, given, call, slot, form, phase>>
EndWDef(g) == /\ phase = "wdef" /\ Complete(wdefn)
              /\ given' = g /\ phase' = "call"
              /\ UNCHANGED <<defn, wdefn, call, slot, form>>
AddArg(c) == /\ phase = "call" /\ Mode = "index" /\ slot = EmptySlot /\ Len(call) < MaxArgs
             /\ ValidLastArg(Append(call, c))
             /\ call' = Append(call, c)
             /\ UNCHANGED <<defn, wdefn, given, slot, form, phase>>
SetSlot(s) == /\ phase = "call" /\ Mode = "index" /\ slot = EmptySlot
              /\ SlotAllowed(call, s)
              /\ slot' = s
              /\ UNCHANGED <<defn, wdefn, given, call, form, phase>>
Givens == {[pos |-> n, kw |-> K] : n \in 0..1, K \in SUBSET {<<a>>, <<b>>, <<99>>}}
Next == \/ \E k \in Toks(defn) : AddTok(k)
        \/ EndDef
        \/ (Mode = "wrap" /\ \E k \in Toks(wdefn) : AddWTok(k))
        \/ (Mode = "wrap" /\ \E g \in {g \in Givens : Cardinality(g.kw) <= 1} : EndWDef(g))
        \/ \E c \in ArgSet : AddArg(c)
        \/ \E s \in SlotSet : SetSlot(s)

---------------------------------------------------------------------------
(* Design |= Reference *)
RP  == RefBound(form, RefParams(defn))                 \* what inspect.signature shows
DP  == DesignBound(form, ProcessOwn(DesignParams(defn)))   \* what jedi uses
Args == IterArguments(call, slot)
Idx  == CalcIndex(DP, Args)
Acc  == Acceptable(RP, call, slot)
RefView(ps) == [k \in 1..Len(ps) |-> [name |-> ps[k].name, kind |-> ps[k].kind]]

\* named deviations (each confirmed on the real code against CPython; known_findings.d/C11.json)
DevDunder == \E j \in 1..Len(defn) : defn[j].t = "param" /\ defn[j].stars = 0 /\ IsDunder(defn[j].name)
DevBoundVarPositional == BindsFirst(form) /\ defn # <<>> /\ defn[1].t = "param" /\ defn[1].stars = 1
\* "*expr" typed after a keyword argument: the code gives up (None) although Python binds the
\* elements to the free positional parameters
DevStarAfterKeyword == slot.t = "star" /\ HasArg(call, "kw") /\ Idx = 0
\* "name=" for a positional-or-keyword parameter that a positional argument already filled:
\* Python raises "multiple values", the code falls through to **kwargs
DevDuplicateToVarKw == /\ slot.t = "kweq" /\ Idx # 0 /\ Idx = VKi(DP)
                       /\ \E i \in 1..NPlain(call) : i <= Len(RP) /\ RP[i].name = slot.s /\ RP[i].kind = "PK"

Ready == phase = "call"
\* evaluated once per state with LET (TLC caches LET-bound values): the case analysis is
\*   agrees \/ dunder \/ star-after-keyword \/ duplicate-to-**kwargs, and the last two exemptions are
\*   tight (whenever taken, design and reference really disagree -- they hide nothing else).
IndexVerdict ==
  LET rp  == RP
      dp  == DP
      idx == CalcIndex(dp, Args)
      acc == Acceptable(rp, call, slot)
      agrees == IF acc = {} THEN idx = 0 ELSE idx \in acc
      starKw == slot.t = "star" /\ HasArg(call, "kw") /\ idx = 0
      dupKw  == /\ slot.t = "kweq" /\ idx # 0 /\ idx = VKi(dp)
                /\ \E i \in 1..NPlain(call) : i <= Len(rp) /\ rp[i].name = slot.s /\ rp[i].kind = "PK"
  IN IF ~PrefixOK(rp, call) THEN "undefined"
     ELSE IF DevDunder THEN (IF agrees THEN "agree" ELSE "dev-dunder")
     ELSE IF starKw /\ acc # {} THEN (IF agrees THEN "loose" ELSE "dev-star-after-keyword")
     ELSE IF dupKw THEN (IF agrees THEN "loose" ELSE "dev-kw-duplicates-positional")
     ELSE IF agrees THEN "agree" ELSE "VIOLATED"
IndexOK  == (Ready /\ Mode = "index") => IndexVerdict \notin {"VIOLATED"}
DevTight == (Ready /\ Mode = "index") => IndexVerdict # "loose"
DefOnly == call = <<>> /\ slot = EmptySlot      \* clauses about the definition alone: once per definition
\* names, kinds, defaults, annotations, order; self/cls removed where Python binds it
MirrorOK == (Ready /\ DefOnly) => (Shown(DP) = RP \/ DevDunder \/ DevBoundVarPositional)
\* get_kind alone, on every definition (also while it is being typed)
KindOK == (DefOnly /\ Complete(defn)) => \A j \in ParamSet(defn) :
              (GetKind(defn, j) = RefKind(defn, j) \/ (defn[j].stars = 0 /\ IsDunder(defn[j].name)))
\* to_string() compiles and re-parses to the signature that is reported
RoundTripOK == (Ready /\ DefOnly) => (DevDunder \/ (WF(ToStr(DP)) /\ Complete(ToStr(DP))
                                        /\ RefParams(ToStr(DP)) = Shown(DP)))
\* a definition is what Python compiles (the generator of the state space is the grammar)
GrammarOK == DefOnly => WF(defn)

\* wrappers: exactly the calls that bind against the reported signature run without TypeError
WP   == DesignParams(wdefn) \o <<DParam(<<107>>, <<107>>, "VK", FALSE, FALSE)>>
WRef == RefParams(wdefn) \o <<Param(<<107>>, "VK", FALSE, FALSE)>>
Rep  == Reported(WP, DesignParams(defn), given.pos, given.kw)
WrapCalls == {[pos |-> n, kw |-> K] : n \in 0..3, K \in SUBSET {<<a>>, <<b>>, <<99>>, <<122>>}}
\* A reported **kwargs promises only names unknown to f: no signature can say "any keyword except a",
\* so "accepted but does not run" counts only when every keyword landing in the reported **kwargs
\* is neither a parameter name of f nor a keyword the wrapper passes itself.
FNames == {defn[j].name : j \in ParamSet(defn)}
VKLanding(P, c) == {n \in c.kw : VKi(P) # 0 /\ KwTarget(P, n, c.pos) = VKi(P)}
WrapDisagree ==
  LET rep == Shown(Rep)  fref == RefParams(defn)  wref == WRef IN
  {c \in WrapCalls :
     LET acc  == Accepts(rep, c.pos, c.kw)
         runs == RunsWrapped(wref, fref, given.pos, given.kw, c.pos, c.kw)
     IN \/ (runs /\ ~acc)
        \/ (acc /\ ~runs /\ VKLanding(rep, c) \cap (FNames \cup given.kw) = {})}
\* the inner call f(<given>, **k) itself must be able to run (else the wrapper is dead code)
\* (when no call can run -- e.g. a required positional-only parameter of f that **k can never supply, or
\*  a required parameter of f shadowed by one of the wrapper's own names -- the clause says nothing)
WrapLive == LET wref == WRef  fref == RefParams(defn) IN
            \E c \in WrapCalls : RunsWrapped(wref, fref, given.pos, given.kw, c.pos, c.kw)
\* deviation: f's **name is dropped when the wrapper passes a keyword of that very name
DevWrapVarKwNamedLikeGiven == \E j \in 1..Len(defn) : defn[j].stars = 2 /\ defn[j].name \in given.kw
WrapperOK == (Ready /\ Mode = "wrap" /\ WrapLive) => (WrapDisagree = {} \/ DevWrapVarKwNamedLikeGiven)
\* to_string() of the reported wrapper signature compiles; deviation: f's **name equal to one of the
\* wrapper's own parameter names is reported next to it ("w(a=1, **a)": duplicate argument)
DevWrapVarKwNamedLikeOwn == \E j \in 1..Len(defn) : defn[j].stars = 2 /\
                               \E k \in ParamSet(wdefn) : wdefn[k].name = defn[j].name
WrapRoundTripOK == (Ready /\ Mode = "wrap") =>
                     \/ DevWrapVarKwNamedLikeOwn
                     \/ (WF(ToStr(Rep)) /\ Complete(ToStr(Rep)) /\ RefParams(ToStr(Rep)) = Shown(Rep))

---------------------------------------------------------------------------
(* Docstrings: which first statement of a body is the docstring.
   Reference: Python compiles the first statement into __doc__ iff it is an expression statement
   whose value is a str constant (u/r prefixes, implicit concatenation and parentheses included;
   bytes, f-strings, numbers are not).  inspect.getdoc = cleandoc(__doc__).
   Design: parso get_doc_node accepts only a leaf of type 'string' (neither 'strings' nor an atom),
   parser_utils.safe_literal_eval evaluates it, inspect.cleandoc (the same function) cleans it;
   a bytes literal is a 'string' leaf, so cleandoc receives bytes and raises.                     *)
DocShapes == {"string", "raw", "unicode", "bytes", "fstring", "strings", "paren", "number", "none", "later"}
RefHasDoc(sh) == sh \in {"string", "raw", "unicode", "strings", "paren"}
DesignDoc(sh) == IF sh \in {"string", "raw", "unicode"} THEN "doc"
                 ELSE IF sh = "bytes" THEN "crash" ELSE "empty"
DevDoc(sh) == sh \in {"bytes", "strings", "paren"}        \* named deviations, known findings doc-*
DocOK == DefOnly => \A sh \in DocShapes : DevDoc(sh) \/ DesignDoc(sh) = (IF RefHasDoc(sh) THEN "doc" ELSE "empty")

---------------------------------------------------------------------------
(* emission of cases for replay: a deterministic slice selected by the cfg *)
RECURSIVE HSeq(_)
HSeq(s) == IF s = <<>> THEN 7 ELSE (s[1] + 31 * HSeq(Tail(s))) % 1000003
HTok(k) == HSeq(k.name) + 7 * k.stars + 11 * B2N(k.def) + 13 * B2N(k.ann)
           + (IF k.t = "/" THEN 3 ELSE IF k.t = "*" THEN 5 ELSE 0)
RECURSIVE HDef(_)
HDef(d) == IF d = <<>> THEN 1 ELSE (HTok(d[1]) + 37 * HDef(Tail(d))) % 1000003
HArg(c) == HSeq(c.name) + (IF c.t = "pos" THEN 1 ELSE IF c.t = "kw" THEN 2 ELSE IF c.t = "star" THEN 3 ELSE 4)
RECURSIVE HCall(_)
HCall(C) == IF C = <<>> THEN 1 ELSE (HArg(C[1]) + 41 * HCall(Tail(C))) % 1000003
HSlot(S) == HSeq(S.s) + (IF S.t = "empty" THEN 0 ELSE IF S.t = "frag" THEN 17 ELSE IF S.t = "kweq" THEN 19
                         ELSE IF S.t = "star" THEN 23 ELSE 29)
HForm == IF form = "func" THEN 0 ELSE IF form = "method" THEN 1 ELSE IF form = "classmethod" THEN 2
         ELSE IF form = "staticmethod" THEN 3 ELSE 4
CaseNo == (HDef(defn) + 43 * HCall(call) + 47 * HSlot(slot) + 53 * HForm + 59 * HDef(wdefn)
           + 61 * given.pos + 67 * Cardinality(given.kw)) % 1000003
Devs == (IF DevDunder THEN {"dunder"} ELSE {})
        \cup (IF DevBoundVarPositional THEN {"bound-varpositional"} ELSE {})
        \cup (IF Mode = "index" /\ DevStarAfterKeyword /\ Acc # {} THEN {"star-after-keyword"} ELSE {})
        \cup (IF Mode = "index" /\ DevDuplicateToVarKw THEN {"kw-duplicates-positional"} ELSE {})
Case ==
  IF Mode = "wrap"
  THEN [defn |-> defn, wdefn |-> wdefn, gpos |-> given.pos, gkw |-> given.kw,
        reported |-> Shown(Rep), tostring |-> ToStr(Rep), live |-> WrapLive,
        disagree |-> WrapDisagree]
  ELSE [defn |-> defn, form |-> form, call |-> call, slot |-> slot,
        shown |-> Shown(DP), ref |-> RP, tostring |-> ToStr(DP),
        triples |-> Args, idx |-> Idx, acc |-> Acc, pok |-> PrefixOK(RP, call), devs |-> Devs,
        verdict |-> IF Mode = "index" THEN IndexVerdict ELSE "none"]
Emit == (Ready /\ CaseNo % EmitMod = EmitRem) => PrintT(<<"CASE", ToJson(Case)>>)
\* several single-worker emission runs share the space: every run types all definitions, the calls
\* (and wrappers) of a definition are explored only by the run that owns the definition
InPart == phase = "def" \/ HDef(defn) % EmitParts = EmitPart
=============================================================================
