------------------------ MODULE Trace_Positions ------------------------
(* Code -> spec for C17.  A trace = what the real jedi reported about one buffer:
     event 1     [ev |-> "files", files |-> <<[text, starts]>>]  the analysed buffer (file 1) and the
                 project files the results point into, as code points, with the line table the
                 harness claims (checked here against the Reference rule LineStarts);
     "name"      one reported Name/Completion/Signature/param:
                 [f, line, col, name, ds, de, lc] (ds/de = <<>> for None, else <<<<l, c>>>>);
     "names"     one Script.get_names(all_scopes=True, definitions=True, references=True) call:
                 toks = identifier tokens per CPython's tokenizer with binds per CPython's ast
                 (logged ground truth), got = <<[line, col, isdef]>> as reported.
   Every event is judged by the Reference clauses of Positions.tla.                         *)
EXTENDS Naturals, Sequences, FiniteSets, TLC, Json, IOUtils

CONSTANTS TplLo, TplHi, SecondTpls, MaxStmts, MaxMods1, MaxMods2, NNames, StripDunder, EmitMod, EmitRem
VARIABLES stmts, mods, tabs, final, lay, out
INSTANCE Positions

Traces == JsonDeserialize(IOEnv.TRACE_FILE)
VARIABLES tid, l

Files(t) == Traces[t][1].files
\* the claimed line table is the Reference's
StartsOK(t, st) == /\ Len(st) >= 1 /\ st[1] = 0
                   /\ \A k \in 1..(Len(st) - 1) : st[k] < st[k + 1]
                   /\ {st[k] : k \in 1..Len(st)} = LineStarts(t)
Why(t, e) ==
  IF e.ev = "files" THEN (IF \A k \in 1..Len(e.files) : StartsOK(e.files[k].text, e.files[k].starts)
                          THEN {} ELSE {"LineTable"})
  ELSE IF e.ev = "name" THEN
       (IF e.f \in 1..Len(Files(t)) THEN NameWhy(Files(t)[e.f].text, Files(t)[e.f].starts, e) ELSE {"NoSuchFile"})
  ELSE IF e.ev = "names" THEN
       (IF ClBijection(e.toks, e.got) THEN {} ELSE {"NamesBijection"})
       \cup (IF ClIsDef(e.toks, e.got) THEN {} ELSE {"IsDefOK"})
  ELSE {"UnknownEvent"}

VARIABLE nbad     \* events of this trace that failed so far (every event is judged, not only the first failure)
TInit == /\ tid \in 1..Len(Traces) /\ l = 1 /\ nbad = 0
         /\ stmts = <<>> /\ mods = {} /\ tabs = FALSE /\ final = TRUE /\ lay = <<>> /\ out = <<>>
Ev == Traces[tid][l]
TNext == /\ l <= Len(Traces[tid])
         /\ l' = l + 1
         /\ nbad' = IF Why(tid, Ev) = {} THEN nbad ELSE nbad + 1
         /\ UNCHANGED <<tid, stmts, mods, tabs, final, lay, out>>
\* always TRUE; prints the verdicts
Verdict ==
  IF l = Len(Traces[tid]) + 1 THEN (nbad > 0 \/ PrintT(<<"ACCEPT", tid>>))
  ELSE Why(tid, Ev) = {} \/ PrintT(<<"REJECT", tid, l, Why(tid, Ev)>>)
=============================================================================
