------------------------ MODULE Trace_Positions ------------------------
(* Code -> spec for C17.  A trace = what the real jedi reported about one buffer / during one
   history of a project:
     event 1     [ev |-> "files", files |-> <<[vers |-> <<[text, starts]>>]>>]  the analysed buffer
                 (file 1) and the project files the results point into, as code points, with the line
                 table the harness claims (checked here against the Reference rule LineStarts).
                 A file has VERSIONS: vers[1] is what exists when the trace starts, further ones
                 come into existence by "write" / "buffer" events;
     "write"     [f, v]: version v of file f is written to disk;
     "buffer"    [f, v]: version v of file f is analysed as an unsaved buffer (Script(code, path));
     "name"      one reported Name/Completion/Signature/param:
                 [f, line, col, name, ds, de, lc, exact] (ds/de = <<>> for None, else <<<<l, c>>>>);
                 exact = <<v>>: reported by the Script whose own buffer is version v of f (the text
                 must be exactly that one), exact = <<>>: f was reached from another file -- ONE of
                 the versions of f that existed so far must satisfy all clauses (PositionsHist.tla);
     "names"     one Script.get_names(all_scopes=True, definitions=True, references=True) call:
                 toks = identifier tokens per CPython's tokenizer with binds per CPython's ast
                 (logged ground truth), got = <<[line, col, isdef]>> as reported.
   Every event is judged by the Reference clauses of PositionsText.tla.                         *)
EXTENDS Naturals, Sequences, FiniteSets, TLC, Json, IOUtils

CONSTANTS TplLo, TplHi, SecondTpls, MaxStmts, MaxMods1, MaxMods2, NNames, StripDunder, EmitMod, EmitRem
VARIABLES stmts, mods, tabs, final, lay, out
INSTANCE Positions

Traces == JsonDeserialize(IOEnv.TRACE_FILE)
VARIABLES tid, l

Files(t) == Traces[t][1].files
\* the claimed line table is the Reference's
StartsOK(t, st) == /\ Len(st) >= 1 /\ st[1] = 0
                   /\ \A k \in 1..(Len(st) - 1) : st[k] < st[k + 1]
                   /\ {st[k] : k \in 1..Len(st)} = LineStarts(t)
VARIABLE seen     \* <<f, v>>: version v of file f existed so far
\* the versions a reported name may stand for
Cands(t, e) == IF e.exact # <<>> THEN {v \in {e.exact[1]} : v \in 1..Len(Files(t)[e.f].vers)}
               ELSE {v \in 1..Len(Files(t)[e.f].vers) : <<e.f, v>> \in seen}
WhyVer(t, e, v) == LET ver == Files(t)[e.f].vers[v] IN NameWhy(ver.text, ver.starts, e)
WhyName(t, e) ==
  LET cs == Cands(t, e) IN
  IF cs = {} THEN {"NoSuchVersion"}
  ELSE IF \E v \in cs : WhyVer(t, e, v) = {} THEN {}
  ELSE IF Cardinality(cs) = 1 THEN WhyVer(t, e, CHOOSE v \in cs : TRUE)
  \* no single version fits; the clauses that fail whichever version is taken are named too
  ELSE {"OneVersion"} \cup {c \in {"TextAtPos", "RangeEncloses", "LineCodeOK"} : \A v \in cs : c \in WhyVer(t, e, v)}
Why(t, e) ==
  IF e.ev = "files" THEN (IF \A k \in 1..Len(e.files) : \A v \in 1..Len(e.files[k].vers) :
                                StartsOK(e.files[k].vers[v].text, e.files[k].vers[v].starts)
                          THEN {} ELSE {"LineTable"})
  ELSE IF e.ev = "name" THEN (IF e.f \in 1..Len(Files(t)) THEN WhyName(t, e) ELSE {"NoSuchFile"})
  ELSE IF e.ev \in {"write", "buffer"} THEN
       (IF e.f \in 1..Len(Files(t)) THEN (IF e.v \in 1..Len(Files(t)[e.f].vers) THEN {} ELSE {"NoSuchVersion"})
        ELSE {"NoSuchFile"})
  ELSE IF e.ev = "names" THEN
       (IF ClBijection(e.toks, e.got) THEN {} ELSE {"NamesBijection"})
       \cup (IF ClIsDef(e.toks, e.got) THEN {} ELSE {"IsDefOK"})
  ELSE {"UnknownEvent"}

VARIABLE nbad     \* events of this trace that failed so far (every event is judged, not only the first failure)
TInit == /\ tid \in 1..Len(Traces) /\ l = 1 /\ nbad = 0
         /\ seen = {<<f, 1>> : f \in 1..Len(Files(tid))}
         /\ stmts = <<>> /\ mods = {} /\ tabs = FALSE /\ final = TRUE /\ lay = <<>> /\ out = <<>>
Ev == Traces[tid][l]
TNext == /\ l <= Len(Traces[tid])
         /\ l' = l + 1
         /\ nbad' = IF Why(tid, Ev) = {} THEN nbad ELSE nbad + 1
         /\ seen' = IF Ev.ev \in {"write", "buffer"} THEN seen \cup {<<Ev.f, Ev.v>>} ELSE seen
         /\ UNCHANGED <<tid, stmts, mods, tabs, final, lay, out>>
\* always TRUE; prints the verdicts
Verdict ==
  IF l = Len(Traces[tid]) + 1 THEN (nbad > 0 \/ PrintT(<<"ACCEPT", tid>>))
  ELSE Why(tid, Ev) = {} \/ PrintT(<<"REJECT", tid, l, Why(tid, Ev)>>)
=============================================================================
