--------------------------- MODULE Trace_NoExec ---------------------------
(* Code -> spec for C12: one event per executed case of the decision table (and per random project):
     Case{loc, syspath, unsafe, executed, bystanders, hostsame, projmods, execprojpath}
       executed      the module's import-time side effect was observed (sentinel), in any process
       bystanders    number of OTHER project files (conftest.py, setup.py, sitecustomize.py,
                     usercustomize.py, *.pth) whose side effect was observed
       hostsame      host sys.path, cwd and environ equal before and after all queries
       projmods      project modules that appeared in the host's sys.modules
       execprojpath  an ExecImport (hook H3) was issued with a project directory on its sys.path while
                     load_unsafe_extensions was False and no explicit sys_path contained the project
   judged with NoExec.tla's NoProjectExec and the host-state clause.                                                          *)
EXTENDS Naturals, Sequences, FiniteSets, TLC, Json, IOUtils

Traces == JsonDeserialize(IOEnv.TRACE_FILE)
VARIABLES tid, l
Ev == Traces[tid][l]

InProject(e) == e.loc \in {"project", "added"}
Explicit(e)  == e.loc = "project" /\ e.syspath = "explicit_with_project"
Why(e) ==
     (IF ~e.unsafe /\ InProject(e) /\ e.executed THEN {"ProjectCodeExecuted"} ELSE {})
  \cup (IF e.bystanders > 0 THEN {"BystanderFileExecuted"} ELSE {})
  \cup (IF ~e.hostsame THEN {"HostStateChanged"} ELSE {})
  \cup (IF ~e.unsafe /\ e.projmods > 0 THEN {"ProjectModuleInHostSysModules"} ELSE {})
  \cup (IF e.execprojpath THEN {"ImportWithProjectOnPath"} ELSE {})
Soft == {}

TInit == tid \in 1..Len(Traces) /\ l = 1
TNext == l <= Len(Traces[tid]) /\ (Why(Ev) \subseteq Soft) = TRUE /\ l' = l + 1 /\ UNCHANGED tid
Verdict ==
  /\ (l <= Len(Traces[tid]) /\ Why(Ev) \cap Soft # {}) => PrintT(<<"NOTE", tid, l, Why(Ev) \cap Soft>>)
  /\ IF l = Len(Traces[tid]) + 1 THEN PrintT(<<"ACCEPT", tid>>)
     ELSE (Why(Ev) \subseteq Soft) \/ PrintT(<<"REJECT", tid, l, Why(Ev)>>)
=============================================================================
