------------------------ MODULE Trace_Signature ------------------------
(* Code -> spec for C11.  A trace = the observations made on one rendered program; events:

   [k |-> "sig",  rp  : parameters as inspect.signature reports them for the executed object
                        (name, kind, def, ann; bound where Python binds),
                  jp  : parameters as Script.get_signatures reports them,
                  tp  : parameters of `def <to_string()>: pass` compiled by CPython,
                  call, slot : the call prefix that was typed, idx : Signature.index + 1 (0 = None),
                  bs / bsx : bracket_start reported / position of "(" in the text]
   [k |-> "doc",  raw : docstring(raw=True), exp : inspect.getdoc() or "" , full : docstring(),
                  sig : to_string() of the signatures joined by newlines,
                  cf  : whether the composition clause is demanded (it is for the Name of the definition;
                        the Signature object inside a call prepends the unbound signature of a method,
                        which the property does not decide)]

   Every event is judged against the Reference operators of Signature.tla (Acceptable, ...).
   Clause codes (TLC wraps printed values at 80 columns, so the verdict line must stay short):
     M Mirror (names, kinds, default/annotation flags, order)   R RoundTrip (to_string re-parses)
     B Bracket   I Index   DR docstring(raw=True) = inspect.getdoc   DF docstring() = signature + doc
     shapes: sD dunder-param  sV bound-varpositional  sS star-after-keyword  sK kw-duplicates-positional
   The known deviations are NOT exempted here: an event in such a shape is rejected with the
   shape label in Why, and the harness maps it to the known finding of that shape.            *)
EXTENDS Naturals, Sequences, FiniteSets, TLC, Json, IOUtils

CONSTANTS MaxParams, MaxArgs, Mode, EmitMod, EmitRem, EmitParts, EmitPart
VARIABLES defn, wdefn, given, call, slot, form, phase
INSTANCE Signature

Traces == JsonDeserialize(IOEnv.TRACE_FILE)
VARIABLES tid, l

NameKind(ps) == [k \in 1..Len(ps) |-> [name |-> ps[k].name, kind |-> ps[k].kind]]
AnyDunder(ps) == \E k \in 1..Len(ps) : IsDunder(ps[k].name) /\ ps[k].kind \notin {"VP", "VK"}
NL == 10

SigClauses(e) ==
     (IF e.jp # e.rp THEN {"M"} ELSE {})
  \cup (IF e.tp # e.jp THEN {"R"} ELSE {})
  \cup (IF e.bs # e.bsx THEN {"B"} ELSE {})
  \cup (IF PrefixOK(e.rp, e.call) /\ ~IndexAgrees(e.rp, e.call, e.slot, e.idx) THEN {"I"} ELSE {})
\* shape labels of the known deviations (evaluated on the CPython side of the record)
SigShapes(e) ==
     (IF AnyDunder(e.rp) THEN {"sD"} ELSE {})
  \cup (IF e.boundvp THEN {"sV"} ELSE {})
  \cup (IF e.slot.t = "star" /\ HasArg(e.call, "kw") /\ e.idx = 0 THEN {"sS"} ELSE {})
  \cup (IF /\ e.slot.t = "kweq" /\ e.idx # 0 /\ e.idx = VKi(e.rp)
           /\ \E i \in 1..NPlain(e.call) : i <= Len(e.rp) /\ e.rp[i].name = e.slot.s /\ e.rp[i].kind = "PK"
        THEN {"sK"} ELSE {})
DocClauses(e) ==
     (IF e.raw # e.exp THEN {"DR"} ELSE {})
  \cup (IF e.cf /\ e.full # (IF e.raw = <<>> THEN e.sig ELSE IF e.sig = <<>> THEN e.raw ELSE e.sig \o <<NL, NL>> \o e.raw)
        THEN {"DF"} ELSE {})
Clauses(e) == IF e.k = "sig" THEN SigClauses(e) ELSE DocClauses(e)
WhyOf(e)   == Clauses(e) \cup (IF e.k = "sig" THEN SigShapes(e) ELSE {})

TInit == /\ tid \in 1..Len(Traces) /\ l = 1
         /\ defn = <<>> /\ wdefn = <<>> /\ given = NoGiven /\ call = <<>> /\ slot = EmptySlot
         /\ form = "func" /\ phase = "trace"
Ev == Traces[tid][l]
TNext == /\ l <= Len(Traces[tid])
         /\ (Clauses(Ev) = {}) = TRUE
         /\ l' = l + 1
         /\ UNCHANGED <<tid, defn, wdefn, given, call, slot, form, phase>>
Verdict ==
  IF l = Len(Traces[tid]) + 1 THEN PrintT(<<"ACCEPT", tid>>)
  ELSE Clauses(Ev) = {} \/ PrintT(<<"REJECT", tid, l, WhyOf(Ev)>>)
=============================================================================
