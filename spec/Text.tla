------------------------------- MODULE Text -------------------------------
(* C01 -- the query API is total on any source text and cursor position.

   A buffer is a sequence of tokens (indices into the table Tok; the harness renders
   token i as Tok[i].s, with one space between two adjacent word tokens).  The state
   space is an editor session: starting from the prefixes of a few valid programs
   (code being typed) and from the empty buffer, tokens are typed, deleted and
   replaced (small edits, token soups).

   Reference: which positions are inside the text.  Lines follow parso.split_lines:
   "\n", "\r\n" and "\r" end a line ("\r" directly followed by "\n" is ONE ending,
   even when typed as two tokens); form feed does not.  A position (line, col) is
   inside iff 1 <= line <= #lines and 0 <= col <= length of that line without its
   ending.  MustAccept / MustReject leave one gray zone undecided: the column just
   after a lone "\r" (the text does not say whether the terminator is a column).

   Design: helpers.validate_line_column transcribed -- it works on the lines WITH
   their endings and subtracts 2 for "\r\n" and 1 for "\n" (nothing for "\r").
   Every query method is then total: resp = "ok" or "ValueError", nothing else.     *)
EXTENDS Naturals, Sequences, FiniteSets, TLC, Json

CONSTANTS NTok,        \* tokens 1..NTok of the table are in use
          MaxLen,      \* maximal number of tokens of a buffer
          MaxEdits,    \* edits applied to a program prefix
          MaxPrefix,   \* longest program prefix used as a seed (0 = only the empty buffer: token soups)
          EmitMod, EmitRem

NONE == 0  LF == 1  CRLF == 2  CR == 3
\* s: rendered text; len: code points; brk: line break kind; word: needs a separating space
T(s, len, brk, word) == [s |-> s, len |-> len, brk |-> brk, word |-> word]
Tok == <<
  T("def", 3, NONE, TRUE), T("class", 5, NONE, TRUE), T("(", 1, NONE, FALSE), T(")", 1, NONE, FALSE),
  T(":", 1, NONE, FALSE), T(".", 1, NONE, FALSE), T(",", 1, NONE, FALSE), T("=", 1, NONE, FALSE),
  T("a", 1, NONE, TRUE), T("import", 6, NONE, TRUE), T("from", 4, NONE, TRUE), T("\n", 1, LF, FALSE),
  T("    ", 4, NONE, FALSE), T("\"", 1, NONE, FALSE),
  \* thorough alphabet
  T("lambda", 6, NONE, TRUE), T("@", 1, NONE, FALSE), T("if", 2, NONE, TRUE), T("else", 4, NONE, TRUE),
  T("for", 3, NONE, TRUE), T("in", 2, NONE, TRUE), T("1", 1, NONE, TRUE), T("\\", 1, NONE, FALSE),
  T("#", 1, NONE, FALSE), T("e_acute", 1, NONE, TRUE), T("\t", 1, NONE, FALSE), T("\r\n", 2, CRLF, FALSE),
  T("\f", 1, NONE, FALSE), T("[", 1, NONE, FALSE), T("]", 1, NONE, FALSE), T("*", 1, NONE, FALSE),
  T("\r", 1, CR, FALSE), T("return", 6, NONE, TRUE), T("self", 4, NONE, TRUE), T("b", 1, NONE, TRUE) >>

\* valid programs whose prefixes seed the session (token indices)
Programs == <<
  <<1, 9, 3, 9, 4, 5, 12, 13, 32, 9, 12, 9, 3>>,          \* def a(a):\n    return a\na(
  <<2, 9, 5, 12, 13, 9, 8, 21, 12, 9, 6>>,                 \* class a:\n    a=1\na.
  <<11, 9, 10, 9, 12, 9, 6, 9>>,                           \* from a import a\na.a
  <<9, 8, 28, 21, 7, 21, 29, 12, 19, 34, 20, 9, 5, 12, 13, 34, 6>>,  \* a=[1,1]\nfor b in a:\n    b.
  \* one value that is an instance of a class of the buffer OR a builtin (results mix names with and without position)
  <<2, 9, 5, 12, 13, 9, 8, 21, 12, 34, 8, 9, 3, 4, 17, 21, 18, 21, 12, 34, 6>>,  \* class a:\n    a=1\nb=a()if 1 else 1\nb.
  \* the same with the quick alphabet: the parameter is called with the function itself and with a string
  <<1, 9, 3, 9, 4, 5, 12, 13, 9, 6, 12, 9, 3, 9, 4, 12, 9, 3, 14, 14, 4>>          \* def a(a):\n    a.\na(a)\na("")
>>

\* the token table is printed once so that the harness renders from the spec's own table
ASSUME PrintT(<<"TOKENS", ToJson(Tok)>>)

VARIABLES text, edits
vars == <<text, edits>>

---------------------------------------------------------------------------
(* Reference: line structure.  Lines(t) = sequence of [len, brk] (brk of the last line = NONE) *)
SpaceBefore(t, i) == i > 1 /\ Tok[t[i - 1]].word /\ Tok[t[i]].word
\* a CR token directly followed by an LF token is one CRLF ending
MergedCR(t, i) == Tok[t[i]].brk = CR /\ i < Len(t) /\ Tok[t[i + 1]].brk = LF
SecondOfMerged(t, i) == i > 1 /\ Tok[t[i]].brk = LF /\ Tok[t[i - 1]].brk = CR

RECURSIVE LinesFrom(_, _, _)
LinesFrom(t, i, cur) ==           \* cur = length of the current line so far
  IF i > Len(t) THEN <<[len |-> cur, brk |-> NONE]>>
  ELSE LET k == Tok[t[i]]
           sp == IF SpaceBefore(t, i) THEN 1 ELSE 0 IN
       IF k.brk = NONE THEN LinesFrom(t, i + 1, cur + sp + k.len)
       ELSE IF MergedCR(t, i) THEN <<[len |-> cur, brk |-> CRLF]>> \o LinesFrom(t, i + 2, 0)
       ELSE <<[len |-> cur, brk |-> k.brk]>> \o LinesFrom(t, i + 1, 0)
Lines(t) == LinesFrom(t, 1, 0)

\* (operators below take L = Lines(t), computed once per state)
Inside(L, line, col) == /\ line >= 1 /\ line <= Len(L)
                        /\ col >= 0 /\ col <= L[line].len
MustAccept(L, line, col) == Inside(L, line, col)
Gray(L, line, col) == /\ line >= 1 /\ line <= Len(L)
                      /\ L[line].brk = CR /\ col = L[line].len + 1
MustReject(L, line, col) == ~Inside(L, line, col) /\ ~Gray(L, line, col)

---------------------------------------------------------------------------
(* Design: validate_line_column over code_lines = split_lines(code, keepends=True) *)
EndLen(brk) == CASE brk = NONE -> 0 [] brk = LF -> 1 [] brk = CRLF -> 2 [] brk = CR -> 1
KeptLen(ln) == ln.len + EndLen(ln.brk)                          \* len(line_string)
DesignLineLen(ln) == KeptLen(ln) - (IF ln.brk = CRLF THEN 2 ELSE IF ln.brk = LF THEN 1 ELSE 0)
DesignResp(L, line, col) ==
  IF ~(0 < line /\ line <= Len(L)) THEN "ValueError"
  ELSE IF ~(0 <= col /\ col <= DesignLineLen(L[line])) THEN "ValueError"
  ELSE "ok"

\* positions in range and just out of range (negative columns are added by the harness)
RelevantCols(L, line) ==
  IF line >= 1 /\ line <= Len(L) THEN 0..(L[line].len + 2) ELSE {0, 1}

Total == LET L == Lines(text) IN
         \A line \in 0..(Len(L) + 1) : \A col \in RelevantCols(L, line) :
           /\ DesignResp(L, line, col) \in {"ok", "ValueError"}
           /\ (MustAccept(L, line, col) => DesignResp(L, line, col) = "ok")
           /\ (MustReject(L, line, col) => DesignResp(L, line, col) = "ValueError")

---------------------------------------------------------------------------
(* The editor session *)
Toks == 1..NTok
Min(x, y) == IF x < y THEN x ELSE y
Prefixes == UNION {{SubSeq(Programs[p], 1, n) : n \in 0..Min(MaxPrefix, Len(Programs[p]))} : p \in 1..Len(Programs)}
AllInUse(t) == \A i \in 1..Len(t) : t[i] \in Toks

Init == text \in {t \in Prefixes : AllInUse(t) /\ Len(t) <= MaxLen} /\ edits = 0
Type(k)      == Len(text) < MaxLen /\ text' = Append(text, k)
Backspace    == Len(text) > 0 /\ text' = SubSeq(text, 1, Len(text) - 1)
Replace(i, k) == i \in 1..Len(text) /\ text[i] # k /\ text' = [text EXCEPT ![i] = k]
Next == /\ edits < MaxEdits /\ edits' = edits + 1
        /\ \/ \E k \in Toks : Type(k)
           \/ Backspace
           \/ \E i \in 1..MaxLen, k \in Toks : Replace(i, k)

\* emission of cases for replay: the buffer, its line structure and the expected response class
\* for every relevant position
RECURSIVE SumSeq(_)
SumSeq(s) == IF s = <<>> THEN 0 ELSE (s[1] + 7 * SumSeq(Tail(s))) % 1000003
\* the seeded slice of all buffers, and always the unedited programs themselves
IsProgram(t) == \E p \in 1..Len(Programs) : t = Programs[p]
Emit == (SumSeq(text) % EmitMod = EmitRem \/ (MaxPrefix > 0 /\ IsProgram(text))) =>
          LET L == Lines(text) IN
          PrintT(<<"CASE", ToJson([text |-> text, lines |-> L,
                   pos |-> [l \in 0..(Len(L) + 1) |->
                              [c \in RelevantCols(L, l) |->
                                 IF MustAccept(L, l, c) THEN "ok"
                                 ELSE IF MustReject(L, l, c) THEN "ValueError" ELSE "either"]]])>>)
=============================================================================
