------------------------------- MODULE Infer -------------------------------
(* C02 -- inferred types agree with what the program does when executed.

   PyCore: straight-line programs over variables Vars built from statement forms
     Lit(v, t)            v = 1 | v = 1.5
     Var(v, w)            v = w
     Tup(v, w1, w2)       v = (w1, w2)
     Idx(v, w, i)         v = w[i]                  (constant index 0 / 1)
     Call(v, f, w)        v = f(w)     F1: return p     F2: return (p, p)     F3: return 1
     New(v, w)            v = K(w)     class K: a = 1.5;  def __init__(self, q): self.b = q
     NewS(v, w)           v = S(w)     class S(K): pass            (everything inherited)
     Make(v, c, w)        v = c.make(w)   c in {K, S};  in K:  @classmethod def make(cls, q): return cls(q)
                          (an inherited classmethod called on the subclass binds cls to the SUBCLASS)
     Attr(v, w, n)        v = w.a | v = w.b
     If(v, w1, w2, taken) if <opaque>: v = w1  else: v = w2     (taken: which branch the run takes)
   Values are class tags with creation structure: [k, a] -- k the class, a the component tags
   (tuple elements; for an instance of K the tag of the constructor argument).

   Concrete  = what the interpreter does (environment semantics; a NameError / TypeError /
               AttributeError / IndexError ends the run).
   Abstract  = jedi's design: set valued, lazy; the last definition before the use wins; an `if`
               with an undecidable test unions both branches; tuple literals keep one SET per
               component; indexing a set of tuples unions the components; a call binds the
               parameter to the whole argument set; instance attributes come from the self-assignments
               in __init__ evaluated with the arguments of the creation, class attributes from the class
               body.
   Sound     = the tag the run produces is described by the abstract value, at every probe the run
               reaches.  Precise = where every possible run produces the same class, the abstract
               value names exactly that class.                                                  *)
EXTENDS Naturals, Sequences, FiniteSets, TLC, Json

CONSTANTS MaxLen, EmitMod, EmitRem
Vars == {"x", "y"}

T(k, a) == [k |-> k, a |-> a]
Int == T("int", <<>>)   Flt == T("float", <<>>)
Unbound == T("unbound", <<>>)

\* all statement records have the same fields (unused ones hold defaults)
S(op, v, w, w2, i, f, n, t, tk) == [op |-> op, v |-> v, w |-> w, w2 |-> w2, i |-> i, f |-> f, n |-> n, t |-> t, taken |-> tk]
Stmts ==
       {S("Lit", v, "x", "x", 1, 1, "a", t, 1) : v \in Vars, t \in {"int", "float"}}
  \cup {S("Var", v, w, "x", 1, 1, "a", "int", 1) : v \in Vars, w \in Vars}
  \cup {S("Tup", v, w, w2, 1, 1, "a", "int", 1) : v \in Vars, w \in Vars, w2 \in Vars}
  \cup {S("Idx", v, w, "x", i, 1, "a", "int", 1) : v \in Vars, w \in Vars, i \in 1..2}
  \cup {S("Call", v, w, "x", 1, f, "a", "int", 1) : v \in Vars, f \in 1..3, w \in Vars}
  \cup {S("New", v, w, "x", 1, 1, "a", "int", 1) : v \in Vars, w \in Vars}
  \cup {S("NewS", v, w, "x", 1, 1, "a", "int", 1) : v \in Vars, w \in Vars}
  \cup {S("Make", v, w, "x", 1, f, "a", "int", 1) : v \in Vars, w \in Vars, f \in 1..2}      \* f = 1: K.make, f = 2: S.make
  \cup {S("Attr", v, w, "x", 1, 1, n, "int", 1) : v \in Vars, w \in Vars, n \in {"a", "b"}}
  \cup {S("If", v, w, w2, 1, 1, "a", "int", tk) : v \in Vars, w \in Vars, w2 \in Vars, tk \in 1..2}

VARIABLE prog
\* every program starts with x = 1; y = 1.5 (so that most programs run to the end), then up to MaxLen statements
Prefix == <<S("Lit", "x", "x", "x", 1, 1, "a", "int", 1), S("Lit", "y", "x", "x", 1, 1, "a", "float", 1)>>
Init == prog = Prefix
Next == Len(prog) < MaxLen + 2 /\ \E s \in Stmts : prog' = Append(prog, s)

---------------------------------------------------------------------------
(* Concrete semantics.  env: [Vars -> tag]; the run dies on an error (state "dead"). *)
Dead == [dead |-> TRUE, env |-> [v \in Vars |-> Unbound]]
Live(e) == [dead |-> FALSE, env |-> e]

CRhs(s, env, taken) ==   \* tag produced by the right-hand side, or Unbound for "raises"
  LET g(w) == env[w] IN
  CASE s.op = "Lit" -> IF s.t = "int" THEN Int ELSE Flt
    [] s.op = "Var" -> g(s.w)
    [] s.op = "Tup" -> IF g(s.w) = Unbound \/ g(s.w2) = Unbound THEN Unbound ELSE T("tuple", <<g(s.w), g(s.w2)>>)
    [] s.op = "Idx" -> IF g(s.w).k = "tuple" THEN g(s.w).a[s.i] ELSE Unbound     \* int / float / K are not subscriptable
    [] s.op = "Call" -> IF g(s.w) = Unbound THEN Unbound
                        ELSE IF s.f = 1 THEN g(s.w) ELSE IF s.f = 2 THEN T("tuple", <<g(s.w), g(s.w)>>) ELSE Int
    [] s.op = "New" -> IF g(s.w) = Unbound THEN Unbound ELSE T("K", <<g(s.w)>>)
    [] s.op = "NewS" -> IF g(s.w) = Unbound THEN Unbound ELSE T("S", <<g(s.w)>>)
    [] s.op = "Make" -> IF g(s.w) = Unbound THEN Unbound ELSE T(IF s.f = 1 THEN "K" ELSE "S", <<g(s.w)>>)
    [] s.op = "Attr" -> IF g(s.w).k \in {"K", "S"} THEN (IF s.n = "a" THEN Flt ELSE g(s.w).a[1]) ELSE Unbound
    [] s.op = "If" -> IF taken = 1 THEN g(s.w) ELSE g(s.w2)

RECURSIVE CRun(_, _, _)
CRun(p, st, takes) ==    \* takes: sequence of branch choices, one per statement (ignored unless If)
  IF p = <<>> \/ st.dead THEN st
  ELSE LET s == Head(p)
           r == CRhs(s, st.env, Head(takes))
       IN IF r = Unbound THEN Dead
          ELSE CRun(Tail(p), Live([st.env EXCEPT ![s.v] = r]), Tail(takes))
Takes(p) == [i \in 1..Len(p) |-> IF p[i].op = "If" THEN p[i].taken ELSE 1]
Concrete(p) == CRun(p, Live([v \in Vars |-> Unbound]), Takes(p))
AllTakes(p) == {t \in [1..Len(p) -> 1..2] : \A i \in 1..Len(p) : p[i].op # "If" => t[i] = 1}

---------------------------------------------------------------------------
(* Abstract semantics: a value is a SET of abstract tags [k, a] whose components a[i] are sets again. *)
AInt == {T("int", <<>>)}   AFlt == {T("float", <<>>)}
ARhs(s, env) ==
  LET g(w) == env[w] IN
  CASE s.op = "Lit" -> IF s.t = "int" THEN AInt ELSE AFlt
    [] s.op = "Var" -> g(s.w)
    [] s.op = "Tup" -> {T("tuple", <<g(s.w), g(s.w2)>>)}
    [] s.op = "Idx" -> UNION {t.a[s.i] : t \in {u \in g(s.w) : u.k = "tuple"}}
    [] s.op = "Call" -> IF s.f = 1 THEN g(s.w) ELSE IF s.f = 2 THEN {T("tuple", <<g(s.w), g(s.w)>>)} ELSE AInt
    [] s.op = "New" -> {T("K", <<g(s.w)>>)}
    [] s.op = "NewS" -> {T("S", <<g(s.w)>>)}
    [] s.op = "Make" -> {T(IF s.f = 1 THEN "K" ELSE "S", <<g(s.w)>>)}      \* cls is the class the method was looked up on
    [] s.op = "Attr" -> IF s.n = "a" THEN (IF \E t \in g(s.w) : t.k \in {"K", "S"} THEN AFlt ELSE {})
                        ELSE UNION {t.a[1] : t \in {u \in g(s.w) : u.k \in {"K", "S"}}}
    \* Deviation of the code, modelled as it is (IfElseKeepsEarlier): both branches of an undecidable
    \* if/else are UNSURE for the flow analysis, so the search goes on to the definition before the `if`
    \* although it cannot reach the use any more.
    [] s.op = "If" -> g(s.w) \cup g(s.w2) \cup env[s.v]
RECURSIVE ARun(_, _)
ARun(p, env) == IF p = <<>> THEN env ELSE ARun(Tail(p), [env EXCEPT ![Head(p).v] = ARhs(Head(p), env)])
Abstract(p) == ARun(p, [v \in Vars |-> {}])

\* concretisation: is the concrete tag described by the abstract value?
RECURSIVE In(_, _)
In(ct, A) == \E t \in A : t.k = ct.k /\ Len(t.a) = Len(ct.a) /\ \A i \in 1..Len(ct.a) : In(ct.a[i], t.a[i])
Kinds(A) == {t.k : t \in A}

---------------------------------------------------------------------------
(* Properties, evaluated for the program built so far (every prefix is a state) *)
Sound == LET c == Concrete(prog) a == Abstract(prog) IN
         ~c.dead => \A v \in Vars : c.env[v] # Unbound => In(c.env[v], a[v])
\* over all runs (all branch choices) that survive
ReachKinds(v) == {CRun(prog, Live([w \in Vars |-> Unbound]), t).env[v].k :
                    t \in {u \in AllTakes(prog) : ~CRun(prog, Live([w \in Vars |-> Unbound]), u).dead}} \ {"unbound"}
PreciseStrict == \A v \in Vars : Cardinality(ReachKinds(v)) = 1 => Kinds(Abstract(prog)[v]) = ReachKinds(v)
\* variables whose value passed through an if/else that re-binds an already bound name (directly or by copy)
RECURSIVE TaintRun(_, _, _)
TaintRun(p, bound, taint) ==
  IF p = <<>> THEN taint
  ELSE LET s == Head(p)
           reads == CASE s.op = "Lit" -> {} [] s.op \in {"Tup", "If"} -> {s.w, s.w2} [] OTHER -> {s.w}
           t == (s.op = "If" /\ s.v \in bound) \/ (reads \cap taint # {})
       IN TaintRun(Tail(p), bound \cup {s.v}, IF t THEN taint \cup {s.v} ELSE taint \ {s.v})
Tainted == TaintRun(prog, {}, {})
Precise == \A v \in Vars \ Tainted : Cardinality(ReachKinds(v)) = 1 => Kinds(Abstract(prog)[v]) = ReachKinds(v)

RECURSIVE SumSeq(_)
Code(s) == (IF s.v = "x" THEN 1 ELSE 2) + 3 * (CASE s.op = "Lit" -> 1 [] s.op = "Var" -> 2 [] s.op = "Tup" -> 3
             [] s.op = "Idx" -> 4 [] s.op = "Call" -> 5 [] s.op = "New" -> 6 [] s.op = "Attr" -> 7 [] s.op = "If" -> 8
             [] s.op = "NewS" -> 9 [] s.op = "Make" -> 10)
SumSeq(p) == IF p = <<>> THEN 0 ELSE (Code(Head(p)) + 31 * SumSeq(Tail(p))) % 1000003
Emit == (prog # <<>> /\ SumSeq(prog) % EmitMod = EmitRem) =>
          LET c == Concrete(prog) a == Abstract(prog) IN
          PrintT(<<"CASE", ToJson([prog |-> prog, dead |-> c.dead,
                                   conc |-> [v \in Vars |-> c.env[v].k],
                                   abs |-> [v \in Vars |-> Kinds(a[v])],
                                   tainted |-> Tainted,
                                   single |-> [v \in Vars |-> Cardinality(ReachKinds(v)) = 1]])>>)
=============================================================================
