INIT TInit
NEXT TNext
CONSTANTS
  Pool = "quick"
  MaxDirs = 0
  MaxDepth = 0
  MaxFiles = 0
  MaxGi = 0
  MaxLines = 0
  ParseLimit = 30
  OpenLimit = 2000
  EmitMod = 1
  EmitRem = 0
  Fixed = {}
CONSTRAINT TVerdict
CHECK_DEADLOCK FALSE
