INIT Init
NEXT Next
CONSTANTS
  NVer = 7
  MaxT = 2
  MaxEv = 4
  FreshLines = FALSE
  EmitMod = 1
  EmitRem = 0
INVARIANT OneVersion
INVARIANT SameEntry
CHECK_DEADLOCK FALSE
