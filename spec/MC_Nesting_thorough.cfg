\* Design |= Reference, exhaustive (thorough tier; harness/props/c18.py writes the run-specific copies)
INIT Init
NEXT Next
CONSTANTS
  MaxItems = 5
  MaxDepth = 4
  MaxScopes = 5
  MaxExtras = 2
  Units = {2, 4, 8}
  EmitMod = 1
  EmitRem = 0
  Fixed = {"AsyncColumn", "DedentCont", "LambdaInClass", "CompWhile"}
  MaxNest = 0
  NestKinds = {"list", "set", "dict", "gen", "lam"}
  Plain = FALSE
INVARIANT DesignMeetsReference
CHECK_DEADLOCK FALSE
