INIT Init
NEXT Next
CONSTANTS
  MaxPath = 3
  EmitMod = 1
  EmitRem = 0
  Fixed = {"D1", "D2", "D3", "D4", "D5", "D6", "D7"}
INVARIANT SafeNoExec
INVARIANT InferPlainExact
INVARIANT NamesSupersetDir
INVARIANT OnlyKnownDeviations
INVARIANT RepairedMeetsReference
INVARIANT StaticLookupSound
INVARIANT StaticLookupComplete
INVARIANT UnsafeReflectsLive
CHECK_DEADLOCK FALSE
