------------------------------ MODULE EnvSafe ------------------------------
(* C12, interpreter discovery -- which executables jedi is willing to run as its helper process.

   jedi.find_virtualenvs(paths, safe=True) lists the directories below `paths` (editors pass project
   directories), takes <dir>/bin/python of each and yields Environment(executable), whose constructor
   spawns the executable.  create_environment(path, safe=True) does the same for one directory or
   one executable.  Before anything is spawned, _assert_safe(executable, safe) applies _is_safe:
     real path = os.path.realpath(executable)            (a venv's python is a symlink)
     admin (root):   real path under /usr/bin, /usr/local/bin, ...       -> safe
     not admin:      real file owned by root                              -> safe
     else:           real path IS a system environment's executable, or its sha256 equals one -> safe
   The threat named in the code: "a user clones a repository ... jedi executes foobar/bin/python".

   Case space: what <dir>/bin/python is  x  the entry point  x  safe  x  who runs jedi.
   Reference: with safe = TRUE an executable that the analysed tree brought along (an unknown
   binary or script) is never run.  What-if SafeCheckOn = FALSE must fail.                          *)
EXTENDS Naturals, TLC, Json

CONSTANT SafeCheckOn

VARIABLES cand,     \* "symlink_system" | "copy_system" | "unknown" | "missing"
          entry,    \* "find_virtualenvs" | "create_environment_dir" | "create_environment_file"
          safe, admin,
          pc, outcome, ran
vars == <<cand, entry, safe, admin, pc, outcome, ran>>

Init == /\ cand \in {"symlink_system", "copy_system", "unknown", "missing"}
        /\ entry \in {"find_virtualenvs", "create_environment_dir", "create_environment_file"}
        /\ safe \in BOOLEAN /\ admin \in BOOLEAN
        /\ pc = "locate" /\ outcome = "none" /\ ran = FALSE

\* the real file behind <dir>/bin/python
UnderSafePath == cand = "symlink_system"            \* the link resolves into /usr/bin
OwnedByRoot   == cand = "symlink_system" \/ admin   \* root's own files are root-owned; a cloned file belongs to the user
KnownBinary   == cand \in {"symlink_system", "copy_system"}      \* path or sha256 of a system environment
IsSafe == IF admin THEN UnderSafePath \/ KnownBinary
          ELSE OwnedByRoot \/ KnownBinary

Locate == /\ pc = "locate"
          /\ IF cand = "missing"
             THEN pc' = "done" /\ outcome' = (IF entry = "find_virtualenvs" THEN "skipped" ELSE "InvalidPythonEnvironment")
             ELSE pc' = "check" /\ UNCHANGED outcome
          /\ UNCHANGED <<cand, entry, safe, admin, ran>>
Check == /\ pc = "check"
         /\ IF safe /\ SafeCheckOn /\ ~IsSafe
            THEN pc' = "done" /\ outcome' = (IF entry = "find_virtualenvs" THEN "skipped" ELSE "InvalidPythonEnvironment")
            ELSE pc' = "spawn" /\ UNCHANGED outcome
         /\ UNCHANGED <<cand, entry, safe, admin, ran>>
Spawn == /\ pc = "spawn" /\ ran' = TRUE /\ outcome' = "environment" /\ pc' = "done"
         /\ UNCHANGED <<cand, entry, safe, admin>>
Next == Locate \/ Check \/ Spawn
Spec == Init /\ [][Next]_vars

UnknownNeverRunWhenSafe == (safe /\ cand = "unknown") => ~ran
Emit == (pc = "done") =>
          PrintT(<<"CASE", ToJson([cand |-> cand, entry |-> entry, safe |-> safe, admin |-> admin,
                                   outcome |-> outcome, ran |-> ran])>>)
=============================================================================
