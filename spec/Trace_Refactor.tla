-------------------------- MODULE Trace_Refactor --------------------------
(* Code -> spec for C06: one event per refactoring request executed on an executable program.
     Inline / Extract {outcome, compiles, same, pure, isexpr, roundtrip}
       outcome   "ok" | "RefactoringError" | "ValueError" | "Internal"
       compiles  the new program compiles
       same      the new program prints what the old one printed (and raises the same)
       pure      the selection is a pure expression evaluated exactly once per execution of its statement
                 (always TRUE for the inline table rows), or a run of complete sibling statements of a function
                 body that only (re)binds plain local names to pure expressions, possibly under if/for/while
                 with pure tests (extract_function)
       isexpr    the selected range is exactly an expression of the program
       roundtrip extract_variable followed by inline of the new variable: "same" | "broken:.." |
                 "refused" | "internal:.." | "na"
   Clauses of the property: a request either refuses (RefactoringError; ValueError only for positions
   outside the text, which the sweeps do not generate) or returns a program that compiles; for pure
   selections it behaves identically; the round trip gives back an equivalent program.              *)
EXTENDS Naturals, Sequences, FiniteSets, TLC, Json, IOUtils

Traces == JsonDeserialize(IOEnv.TRACE_FILE)
VARIABLES tid, l
Ev == Traces[tid][l]

Prefix(s, p) == Len(s) >= Len(p) /\ SubSeq(s, 1, Len(p)) = p
Why(e) ==
     (IF e.outcome \notin {"ok", "RefactoringError"} THEN {"WrongFailure"} ELSE {})
  \cup (IF e.outcome = "ok" /\ ~e.compiles THEN {"InvalidCode"} ELSE {})
  \cup (IF e.outcome = "ok" /\ e.compiles /\ e.pure /\ ~e.same THEN {"BehaviourChanged"} ELSE {})
  \cup (IF e.outcome = "ok" /\ e.compiles /\ e.pure /\ e.roundtrip \notin {"same", "na", "refused"} THEN {"RoundTrip"} ELSE {})

TInit == tid \in 1..Len(Traces) /\ l = 1
TNext == l <= Len(Traces[tid]) /\ (Why(Ev) = {}) = TRUE /\ l' = l + 1 /\ UNCHANGED tid
Verdict ==
  IF l = Len(Traces[tid]) + 1 THEN PrintT(<<"ACCEPT", tid>>)
  ELSE (Why(Ev) = {}) \/ PrintT(<<"REJECT", tid, l, Why(Ev)>>)
=============================================================================
