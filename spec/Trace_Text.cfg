INIT TInit
NEXT TNext
CONSTANTS
  NTok = 14
  MaxLen = 0
  MaxEdits = 0
  MaxPrefix = 0
  EmitMod = 1
  EmitRem = 0
CONSTRAINT Verdict
CHECK_DEADLOCK FALSE
