------------------------------ MODULE Engine ------------------------------
(* C15 / C16 -- the inference engine as a guarded recursive machine over a
   definition graph, living inside one Script across several queries.

   Graph: nodes 1..K.  kind[n] in {"lit", "stmt", "func"}; dep[n] = the nodes the
   value of n is built from (a stmt takes the union of its deps' values; a dep that is
   a func is a call of that function; a func returns the union of its deps).  Cycles
   of every shape are allowed: cyclic assignment, (mutual) recursion, self reference.

   An edge is realised in the rendered programs either inside one module (name use, call) or as an
   import edge between modules (one module per node; `import m`, `from m import v`, `from m import *`):
   a cyclic graph is then an import cycle.  Module lookup and ModuleMixin.star_imports are memoised
   with a default stored before computing ([] for the star-import list) -- the `memo` mechanism below --
   so re-entering a module whose star imports are being collected sees the default instead of recursing.

   The machine is an explicit stack of frames with jedi's guards as state:
     memo        inference_state.memoize_cache with _memoize_default: the default is
                 stored BEFORE computing, so a re-entry sees the default
     pushed      recursion_detector.pushed_nodes (execution_allowed): a statement is
                 not entered twice
     level, execCount, perFunc, parents
                 ExecutionRecursionDetector (limits RecLimit / TotalLimit /
                 PerFuncLimit / PerFuncRec; in the code 15 / 200 / 6 / 2)
     inferCount  inferred_element_counts: per-context cap (InferLimit; 300 in the code)
   Per query (Script API entry): reset_recursion_limitations() renews pushed and the
   execution detector.  ResetCounts (constant) says whether inferred_element_counts
   is renewed too: FALSE = the code before the repair (budget of earlier queries is
   carried over), TRUE = the repaired code.
   memo lives as long as the Script.

   Faults: Raise -- an exception escapes in the middle of an inference (the finally
   blocks pop the guards, the memo defaults of the unwound frames are removed iff
   PopDefaultOnRaise); QueryFails -- a query rejected before any work.         *)
EXTENDS Naturals, Sequences, FiniteSets, TLC, Json

CONSTANTS K,                 \* number of nodes
          Lits,              \* nodes that are literals (their own value)
          Funcs,             \* nodes that are functions
          MaxDeps,           \* out-degree bound used when graphs are enumerated
          RecLimit, TotalLimit, PerFuncLimit, PerFuncRec, InferLimit,
          ResetCounts,       \* see above
          GuardsOn,          \* FALSE = what-if: the execution budgets are ignored
          TaintedReused,     \* TRUE = the code: the value of a module-level statement computed while a guard cut a
                             \* cycle (a partial value) stays in memoize_cache and answers later queries;
                             \* FALSE = the repaired design (partial values are not kept)
          PopDefaultOnRaise, \* TRUE = _memoize_default removes its default when the computation raises (the
                             \* repaired code); FALSE = the default stays behind (the code before the repair)
          MaxQueries,        \* queries on the Script under test
          MaxRaises          \* injected exceptions

Nodes == 1..K
\* optional values are tagged records (TLC cannot compare a set with a string)
Tag(t) == [t |-> t, v |-> {}]
Val(x) == [t |-> "val", v |-> x]
None == Tag("none")  Absent == Tag("absent")  Default == Tag("default")
Raised == Tag("raised")  ValueErr == Tag("ValueError")
Stmts == Nodes \ (Lits \cup Funcs)
Kind(n) == IF n \in Lits THEN "lit" ELSE IF n \in Funcs THEN "func" ELSE "stmt"

VARIABLES
  dep,          \* the graph: [Nodes -> Seq(Nodes)]
  target,       \* the query whose answer is compared with a fresh Script
  ref,          \* its answer on a fresh Script ("none" until known)
  phase,        \* "fresh" (reference run) | "hist" (Script under test)
  stack,        \* Seq of frames [n, i, acc, entered]
  retv,         \* value handed to the parent frame (None when nothing pending)
  rt,           \* is that value partial (computed while a guard cut a cycle)?
  memo,         \* [Nodes -> "absent" | "default" | value set]
  pushed,       \* Seq(Nodes)
  level, execCount, perFunc, parents,
  inferCount,   \* single module-level context: one counter
  steps,        \* work done by the current query
  nq, nraise,
  lastq,        \* node asked by the current / last query
  answer        \* answer of the query that just ended ("none" while running)
vars == <<dep, target, ref, phase, stack, retv, rt, memo, pushed, level, execCount, perFunc, parents,
          inferCount, steps, nq, nraise, lastq, answer>>

\* dependency lists without repetition, in increasing order (the order of a union does not matter)
DepSeqs == {q \in UNION {[1..m -> Nodes] : m \in 0..MaxDeps} : \A i \in 1..(Len(q) - 1) : q[i] < q[i + 1]}

FreshGuards ==
  /\ pushed' = <<>> /\ level' = 0 /\ execCount' = 0
  /\ perFunc' = [f \in Funcs |-> 0] /\ parents' = <<>>

Init ==
  /\ dep \in [Nodes -> DepSeqs]
  /\ \A n \in Lits : dep[n] = <<>>
  /\ target \in Stmts
  /\ ref = None /\ phase = "fresh"
  /\ stack = <<>> /\ retv = None /\ rt = FALSE
  /\ memo = [n \in Nodes |-> Absent]
  /\ pushed = <<>> /\ level = 0 /\ execCount = 0
  /\ perFunc = [f \in Funcs |-> 0] /\ parents = <<>>
  /\ inferCount = 0 /\ steps = 0 /\ nq = 0 /\ nraise = 0 /\ lastq = 0 /\ answer = None

Top == stack[Len(stack)]
Pop == SubSeq(stack, 1, Len(stack) - 1)
Count(s, x) == Cardinality({i \in 1..Len(s) : s[i] = x})

---------------------------------------------------------------------------
(* A query = Script API method: reset_recursion_limitations(), then infer the node. *)
StartQuery(n) ==
  /\ stack = <<>> /\ retv = None /\ n \in Stmts
  /\ IF phase = "fresh" THEN n = target /\ ref = None ELSE nq < MaxQueries
  /\ FreshGuards
  /\ inferCount' = IF ResetCounts THEN 0 ELSE inferCount
  /\ stack' = <<[n |-> n, i |-> 0, acc |-> {}, taint |-> FALSE]>>      \* i = 0: not yet entered
  /\ steps' = 0 /\ answer' = None /\ lastq' = n
  /\ nq' = IF phase = "hist" THEN nq + 1 ELSE nq
  /\ UNCHANGED <<dep, target, ref, phase, retv, rt, memo, nraise>>

\* entering a node: the guards decide whether it is computed
Enter ==
  /\ stack # <<>> /\ retv = None /\ Top.i = 0
  /\ steps' = steps + 1
  /\ LET n == Top.n IN
     CASE Kind(n) = "lit" ->
            /\ retv' = Val({n}) /\ rt' = FALSE /\ stack' = Pop
            /\ UNCHANGED <<memo, pushed, level, execCount, perFunc, parents, inferCount>>
       [] Kind(n) = "stmt" ->
            \* _limit_value_infers, then the memo (default stored first), then execution_allowed
            IF inferCount + 1 > InferLimit
            THEN /\ inferCount' = inferCount + 1 /\ retv' = Val({}) /\ rt' = TRUE /\ stack' = Pop
                 /\ UNCHANGED <<memo, pushed, level, execCount, perFunc, parents>>
            ELSE IF memo[n] # Absent
            THEN /\ inferCount' = inferCount + 1
                 /\ retv' = Val(memo[n].v) /\ rt' = (memo[n] = Default) /\ stack' = Pop
                 /\ UNCHANGED <<memo, pushed, level, execCount, perFunc, parents>>
            ELSE IF Count(pushed, n) > 0
            THEN /\ inferCount' = inferCount + 1 /\ retv' = Val({}) /\ rt' = TRUE /\ stack' = Pop
                 /\ UNCHANGED <<memo, pushed, level, execCount, perFunc, parents>>
            ELSE /\ inferCount' = inferCount + 1
                 /\ memo' = [memo EXCEPT ![n] = Default]
                 /\ pushed' = Append(pushed, n)
                 /\ stack' = [stack EXCEPT ![Len(stack)].i = 1]
                 /\ UNCHANGED <<retv, rt, level, execCount, perFunc, parents>>
       [] Kind(n) = "func" ->
            \* ExecutionRecursionDetector.push_execution
            LET lvl == level + 1
                par == Append(parents, n)
                limit == GuardsOn /\
                         \/ lvl > RecLimit
                         \/ execCount >= TotalLimit
                         \/ perFunc[n] >= PerFuncLimit
                         \/ Count(par, n) > PerFuncRec
            IN /\ level' = lvl /\ parents' = par
               /\ execCount' = IF lvl > RecLimit \/ execCount >= TotalLimit THEN execCount ELSE execCount + 1
               /\ perFunc' = IF lvl > RecLimit \/ execCount >= TotalLimit \/ perFunc[n] >= PerFuncLimit
                             THEN perFunc ELSE [perFunc EXCEPT ![n] = @ + 1]
               /\ IF limit
                  THEN stack' = [stack EXCEPT ![Len(stack)].i = Len(dep[n]) + 1,   \* default result, still popped below
                                              ![Len(stack)].taint = TRUE]
                  ELSE stack' = [stack EXCEPT ![Len(stack)].i = 1]
               /\ UNCHANGED <<retv, rt, memo, pushed, inferCount>>
  /\ UNCHANGED <<dep, target, ref, phase, nq, nraise, lastq, answer>>

\* descend into the next dependency
Descend ==
  /\ stack # <<>> /\ retv = None /\ Top.i >= 1 /\ Top.i <= Len(dep[Top.n])
  /\ stack' = Append(stack, [n |-> dep[Top.n][Top.i], i |-> 0, acc |-> {}, taint |-> FALSE])
  /\ steps' = steps + 1
  /\ UNCHANGED <<dep, target, ref, phase, retv, rt, memo, pushed, level, execCount, perFunc, parents,
                 inferCount, nq, nraise, lastq, answer>>

\* a child returned: accumulate
Collect ==
  /\ stack # <<>> /\ retv # None
  /\ stack' = [stack EXCEPT ![Len(stack)].acc = @ \cup retv.v, ![Len(stack)].i = @ + 1,
                              ![Len(stack)].taint = @ \/ rt]
  /\ retv' = None /\ rt' = FALSE
  /\ UNCHANGED <<dep, target, ref, phase, memo, pushed, level, execCount, perFunc, parents,
                 inferCount, steps, nq, nraise, lastq, answer>>

\* all dependencies done: leave the node, undo its guards (the finally blocks)
Leave ==
  /\ stack # <<>> /\ retv = None /\ Top.i > Len(dep[Top.n]) /\ Top.i >= 1
  /\ LET n == Top.n IN
     /\ retv' = Val(Top.acc) /\ rt' = Top.taint /\ stack' = Pop
     /\ IF Kind(n) = "stmt"
        THEN \* Deviation of the code, modelled as it is (TaintedReused): _memoize_default stores whatever the
             \* computation returned, also when a recursion guard cut a cycle underneath it.  Function bodies
             \* are re-entered in fresh execution contexts (other memo keys), module-level statements are not:
             \* their partial value answers later queries on the same Script (KNOWN FINDING C16 partial-memo).
             /\ memo' = [memo EXCEPT ![n] = IF Top.taint /\ ~TaintedReused THEN Absent ELSE Val(Top.acc)]
             /\ pushed' = SubSeq(pushed, 1, Len(pushed) - 1)
             /\ UNCHANGED <<level, parents>>
        ELSE /\ level' = level - 1 /\ parents' = SubSeq(parents, 1, Len(parents) - 1)
             /\ UNCHANGED <<memo, pushed>>
  /\ UNCHANGED <<dep, target, ref, phase, execCount, perFunc, inferCount, steps, nq, nraise, lastq, answer>>

EndQuery ==
  /\ stack = <<>> /\ retv # None
  /\ answer' = retv /\ retv' = None /\ rt' = FALSE
  /\ IF phase = "fresh"
     THEN \* the reference answer is known; now a new Script (empty memo, counters) is created
          /\ ref' = retv /\ phase' = "hist"
          /\ memo' = [n \in Nodes |-> Absent] /\ inferCount' = 0
     ELSE UNCHANGED <<ref, phase, memo, inferCount>>
  /\ UNCHANGED <<dep, target, stack, pushed, level, execCount, perFunc, parents, steps, nq, nraise, lastq>>

\* an exception escapes from the innermost frame: every frame is unwound, finally blocks run
\* (pushed / parents / level are restored), memo keeps whatever was stored
Raise ==
  /\ phase = "hist" /\ stack # <<>> /\ nraise < MaxRaises
  /\ nraise' = nraise + 1
  /\ stack' = <<>> /\ retv' = None /\ rt' = FALSE /\ answer' = Raised
  /\ pushed' = <<>> /\ level' = 0 /\ parents' = <<>>
  /\ memo' = IF PopDefaultOnRaise THEN [n \in Nodes |-> IF memo[n] = Default THEN Absent ELSE memo[n]] ELSE memo
  /\ UNCHANGED <<dep, target, ref, phase, execCount, perFunc, inferCount, steps, nq, lastq>>

\* a query that is rejected before any work (ValueError for a bad position)
QueryFails ==
  /\ phase = "hist" /\ stack = <<>> /\ retv = None /\ nq < MaxQueries
  /\ nq' = nq + 1 /\ answer' = ValueErr
  /\ FreshGuards
  /\ UNCHANGED <<dep, target, ref, phase, stack, retv, rt, memo, inferCount, steps, nraise, lastq>>

Step == Enter \/ Descend \/ Collect \/ Leave \/ EndQuery
Next == (\E n \in Nodes : StartQuery(n)) \/ Step \/ Raise \/ QueryFails
Spec == Init /\ [][Next]_vars /\ WF_vars(Step)

---------------------------------------------------------------------------
(* C15 *)
Running == stack # <<>> \/ retv # None
Terminates == Running ~> ~Running
\* work of one query is bounded by a polynomial in the graph size and the limits:
\* every Enter is a statement inference (<= InferLimit + 1 of them per context and query when the
\* counter is reset) or a function execution (<= TotalLimit started, each guarded one costs 1)
Bound == 3 * (K + 1) * (TotalLimit + InferLimit + 2) * (MaxDeps + 1)
BoundedWork == steps <= Bound
DepthBounded == Len(stack) <= 2 * (RecLimit + 1) * (K + 1)
\* every guard pushed is popped on every path, exceptional ones included
Balanced == ~Running => (pushed = <<>> /\ parents = <<>> /\ level = 0)
GuardsConsistent == /\ level = Len(parents)
                    /\ Len(pushed) <= Cardinality(Stmts)
                    /\ \A f \in Funcs : Count(parents, f) <= PerFuncRec + 1
                    /\ level <= RecLimit + 1

\* used by the what-if runs (limits removed): stop exploring a behaviour once the bounds are exceeded
WhatIfDepth == steps <= Bound + 2 /\ Len(stack) <= 2 * (RecLimit + 1) * (K + 1) + 2
\* emission of the enumerated graphs for rendering (initial states only, then pruned)
EmitGraph == PrintT(<<"GRAPH", ToJson([dep |-> dep])>>) /\ FALSE

\* the model's answer of the reference (fresh Script) run, for comparison with the real answer
EmitAnswer == (phase = "hist" /\ stack = <<>> /\ nq = 0 /\ answer = ref /\ retv = None)
                 => PrintT(<<"ANS", ToJson([dep |-> dep, target |-> target, ans |-> ref.v])>>)

(* C16 *)
\* asking the target again on the same Script -- after any other queries, failing ones included --
\* gives what a fresh Script gives
Repeatable == (phase = "hist" /\ answer.t = "val" /\ ~Running
               /\ lastq = target) => answer = ref
\* no memo entry still holds a default once the query that stored it has ended
NoPoison == ~Running => \A n \in Nodes : memo[n] # Default
=============================================================================
