INIT Init
NEXT Next
CONSTANTS
  MaxCands = 2
  MaxFrag = 3
  EmitMod = 97
  EmitRem = 0
INVARIANT DesignMeetsReference
INVARIANT NothingLost
INVARIANT FuzzyIsSubseq
CONSTRAINT Emit
CHECK_DEADLOCK FALSE
