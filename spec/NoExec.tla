------------------------------- MODULE NoExec -------------------------------
(* C12 -- analysing sources with Script never executes them.

   One import request of a name reachable from the analysed buffer.  The state space is
   the decision table: what the module is, where it lives, what it is called, how the
   Project was configured.  Actions mirror jedi/inference/imports.py import_module:

     Lookup       auto_import name?  -> LoadBuiltin (no finder involved)
                  else FindModule in the helper (importlib finders; reads directories only)
     FindModule   source file / package -> ParseSource      (read + parse, never executed)
                  namespace directory   -> Namespace        (no code at all)
                  no source (extension module, sourceless .pyc) -> LoadBuiltin
                  nothing found -> Done
     LoadBuiltin  _load_builtin_module: unless load_unsafe_extensions, sys_path is filtered to the
                  entries of the project's BASE sys path (the environment's path, or the explicit
                  sys_path the Project was given); then compiled.load_module ->
     ExecImport   access.load_module: sys.path swapped, __import__(name), sys.path restored in
                  `finally` -- the only place where code reachable from the project could run.

   Reference: with load_unsafe_extensions = FALSE no ExecImport ever resolves to a file of the
   analysed project; the host state (sys.path, sys.modules, cwd, environ) is unchanged by every
   action; sys.path is restored even when the import raises.

   What-if (constant SafeFilter = FALSE): without the safe-path filter project code is imported; the
   invariant must then fail, which shows that the filter is what makes the property hold.             *)
EXTENDS Naturals, Sequences, FiniteSets, TLC, Json

Kinds     == {"source", "package", "namespace", "extension", "sourceless", "missing"}
Locations == {"project", "added", "env"}            \* where the file lives
Names     == {"plain", "auto", "magic"}             \* ordinary / in settings.auto_import_modules / conftest, setup, sitecustomize ...
SysPaths  == {"default", "explicit_with_project", "explicit_without_project"}

VARIABLES kind, loc, nm, syspath, smart, unsafe,    \* the case
          envkind,                                  \* "subprocess": finders and imports run in the helper process;
                                                    \* "inprocess" (InterpreterEnvironment): they run in the host itself
          pc,                                       \* "lookup" | "find" | "found" | "load" | "exec" | "restore" | "done"
          executed,                                 \* has an ExecImport resolved to this module's file?
          parsed,
          hostpath, raised,                         \* sys.path swapped? did __import__ raise?
          procpath                                  \* sys.path of the process that runs the finders (functions.get_module_info
                                                    \* swaps it for the Script's sys_path and restores it in `finally`)
vars == <<kind, loc, nm, syspath, smart, unsafe, envkind, pc, executed, parsed, hostpath, raised, procpath>>

Init == /\ kind \in Kinds /\ loc \in Locations /\ nm \in Names /\ syspath \in SysPaths
        /\ smart \in BOOLEAN /\ unsafe \in BOOLEAN /\ envkind \in {"subprocess", "inprocess"}
        /\ pc = "lookup" /\ executed = FALSE /\ parsed = FALSE /\ hostpath = "original" /\ raised = FALSE
        /\ procpath = "original"

\* Is the module's directory on the effective sys.path of the Script at all?
OnSysPath ==
  CASE loc = "env" -> syspath = "default"
    [] loc = "added" -> TRUE
    [] loc = "project" -> smart \/ syspath = "explicit_with_project"
\* Is its directory part of the BASE sys path (what _load_builtin_module keeps when not unsafe)?
\* Project._get_base_sys_path is always the ENVIRONMENT's path -- an explicit Project(sys_path=...) is
\* not "safe" -- so only modules of the environment qualify.
CONSTANTS SafeFilter,
          FindRestoresAlways      \* TRUE (the code): get_module_info restores sys.path in a finally block, also when the
                                  \* finders raise ImportError (module not found); FALSE = what-if
InBase == IF SafeFilter THEN loc = "env" ELSE TRUE

Lookup == /\ pc = "lookup"
          /\ pc' = IF nm = "auto" THEN "load" ELSE "find"
          /\ UNCHANGED <<kind, loc, nm, syspath, smart, unsafe, envkind, executed, parsed, hostpath, raised, procpath>>

\* get_module_info: sys.path, temp = sys_path, sys.path; try: _find_module(...)
FindSwap ==
  /\ pc = "find" /\ pc' = "found" /\ procpath' = "swapped"
  /\ UNCHANGED <<kind, loc, nm, syspath, smart, unsafe, envkind, executed, parsed, hostpath, raised>>
\* ... except ImportError: return None, None   finally: sys.path = temp
FindModule ==
  /\ pc = "found"
  /\ procpath' = IF FindRestoresAlways \/ (OnSysPath /\ kind # "missing") THEN "original" ELSE "swapped"
  /\ IF ~OnSysPath \/ kind = "missing" THEN pc' = "done" /\ UNCHANGED parsed
     ELSE IF kind \in {"source", "package"} THEN pc' = "done" /\ parsed' = TRUE
     ELSE IF kind = "namespace" THEN pc' = "done" /\ UNCHANGED parsed
     ELSE pc' = "load" /\ UNCHANGED parsed
  /\ UNCHANGED <<kind, loc, nm, syspath, smart, unsafe, envkind, executed, hostpath, raised>>

\* _load_builtin_module + access.load_module: swap sys.path ...
LoadBuiltin ==
  /\ pc = "load" /\ pc' = "exec" /\ hostpath' = "swapped"
  /\ UNCHANGED <<kind, loc, nm, syspath, smart, unsafe, envkind, executed, parsed, raised, procpath>>

\* ... __import__ ...: the module's file is imported iff it can be found on the (filtered) path
Visible == kind # "missing" /\ kind # "namespace" /\ OnSysPath /\ (unsafe \/ InBase)
ExecImport ==
  /\ pc = "exec"
  /\ executed' = Visible
  /\ \E r \in BOOLEAN : raised' = r               \* the imported code may raise anything
  /\ pc' = "restore"
  /\ UNCHANGED <<kind, loc, nm, syspath, smart, unsafe, envkind, parsed, hostpath, procpath>>
\* ... finally: sys.path = temp
Restore ==
  /\ pc = "restore" /\ hostpath' = "original" /\ pc' = "done"
  /\ UNCHANGED <<kind, loc, nm, syspath, smart, unsafe, envkind, executed, parsed, raised, procpath>>

Next == Lookup \/ FindSwap \/ FindModule \/ LoadBuiltin \/ ExecImport \/ Restore
Spec == Init /\ [][Next]_vars /\ WF_vars(Next)

\* "never imports or executes any code from the analysed project" (load_unsafe_extensions = FALSE)
NoProjectExec == (~unsafe /\ loc \in {"project", "added"}) => ~executed
\* Python sources are only ever read and parsed
SourcesOnlyParsed == (kind \in {"source", "package"} /\ nm # "auto") => ~executed
\* the host's sys.path is the original one whenever no import is in flight, also after a raising import
\* (in-process the finder process IS the host: a path left swapped there is a changed host sys.path, and the next
\* `import gi` would see the project directory as part of the environment's own path)
PathRestored == pc = "done" => (hostpath = "original" /\ procpath = "original")
Terminates == <>(pc = "done")

\* emission of the decision table for the harness
Emit == (pc = "done") =>
          PrintT(<<"CASE", ToJson([kind |-> kind, loc |-> loc, nm |-> nm, syspath |-> syspath, smart |-> smart,
                                   unsafe |-> unsafe, envkind |-> envkind, executed |-> executed, parsed |-> parsed])>>)
=============================================================================
