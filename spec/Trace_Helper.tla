-------------------------- MODULE Trace_Helper --------------------------
(* Code -> spec for C14: traces recorded by the JEDI_VERIF hooks of
   jedi/inference/compiled/subprocess/__init__.py and jedi/api/environment.py
   (parent and helper side, merged by the strict request/reply alternation) and the
   fault events of the harness are replayed against Helper.tla: one disjunct per
   event kind, logged fields bound to the arguments / checked against the state the
   spec action produces.  Every safety invariant of Helper.tla is evaluated in
   every state reached.

   Event kinds (harness/props/c14.py normalises ids to small integers):
     GetSubReuse{sub}  GetSubSpawn{sub}  NewISS{addr,sub}  PlainCall
     Call{addr,raises}  DrainPop{addr}  DrainDone
     SendBegin{crashed}  Dumped  DumpFailed{killed,cleaned}
     HelperRun{exc,nstates}  Loaded{exc}  LoadFailed{killed,cleaned}
     Del{addr,used,crashed,enq}  Cleanup{sub}  Fault{phase,sub}  QueryEnd{outcome}   *)
EXTENDS Naturals, Sequences, FiniteSets, TLC, Json, IOUtils

CONSTANTS MaxScripts, MaxCalls, MaxCrashes, MaxRaises, Addrs, TruncIsEOF
VARIABLES sub, nsub, envsub, got, scr, nscr, pc, cur, wire, calls, crashes, raises, last, fails, detected
INSTANCE Helper

Traces == JsonDeserialize(IOEnv.TRACE_FILE)
VARIABLES tid, l
tvars == <<sub, nsub, envsub, got, scr, nscr, pc, cur, wire, calls, crashes, raises, last, fails, detected, tid, l>>

TInit == tid \in 1..Len(Traces) /\ l = 1 /\ Init
Ev == Traces[tid][l]
Is(e) == l <= Len(Traces[tid]) /\ Ev.ev = e /\ l' = l + 1 /\ UNCHANGED tid

ScriptAt(a) == CHOOSE k \in Scripts : scr[k].st = "live" /\ scr[k].addr = a
HasScript(a) == \E k \in Scripts : scr[k].st = "live" /\ scr[k].addr = a

T_GetSubReuse == Is("GetSubReuse") /\ GetSubprocess_Reuse /\ got' = Ev.sub
T_GetSubSpawn == Is("GetSubSpawn") /\ GetSubprocess_Spawn /\ envsub' = Ev.sub
T_NewISS      == Is("NewISS") /\ got = Ev.sub /\ NewISS(Ev.addr)
T_PlainCall   == Is("PlainCall") /\ PlainCall
T_Call        == Is("Call") /\ HasScript(Ev.addr) /\ BeginCall(ScriptAt(Ev.addr), Ev.raises)
T_DrainPop    == Is("DrainPop") /\ Run_DrainPop /\ cur'.addr = Ev.addr
T_DrainDone   == Is("DrainDone") /\ Run_DrainDone
T_SendBegin   == Is("SendBegin") /\ pc = "check" /\ sub[cur.sub].crashed = Ev.crashed /\ Send_CheckCrashed
T_Dumped      == Is("Dumped") /\ sub[cur.sub].alive /\ Send_Dump
T_DumpFailed  == Is("DumpFailed") /\ ~sub[cur.sub].alive /\ Ev.killed /\ Ev.cleaned /\ Send_Dump
T_HelperRun   == Is("HelperRun") /\ Listener_Run
                 /\ (wire'[cur.sub] = "exc") = Ev.exc
                 /\ Cardinality(sub'[cur.sub].hstates) = Ev.nstates
T_Loaded      == Is("Loaded") /\ pc = "wait"
                 /\ wire[cur.sub] = (IF Ev.exc THEN "exc" ELSE "reply") /\ Send_Load
T_LoadFailed  == Is("LoadFailed") /\ pc = "wait" /\ ~sub[cur.sub].alive
                 /\ wire[cur.sub] \in {"req", "none", "part"} /\ Ev.killed /\ Ev.cleaned /\ Send_Load
T_Del         == Is("Del") /\ HasScript(Ev.addr)
                 /\ LET k == ScriptAt(Ev.addr) IN
                    /\ scr[k].used = Ev.used
                    /\ sub[scr[k].sub].crashed = Ev.crashed
                    /\ Ev.enq = (scr[k].used /\ ~sub[scr[k].sub].crashed)
                    /\ DropScript(k)
\* a script whose InferenceStateSubprocess was created but never bound in the model does not occur
T_Cleanup     == Is("Cleanup") /\ GC_Sub(Ev.sub)
T_Fault       == Is("Fault") /\ IF Ev.phase = "trunc" THEN CrashWhileReplying /\ cur.sub = Ev.sub
                                ELSE Crash(Ev.sub)
T_QueryEnd    == Is("QueryEnd") /\ pc = "idle"
                 /\ (Ev.outcome # "ok" => last = Ev.outcome)
                 /\ UNCHANGED <<sub, nsub, envsub, got, scr, nscr, pc, cur, wire, calls, crashes, raises, last, fails, detected>>

TNext == T_GetSubReuse \/ T_GetSubSpawn \/ T_NewISS \/ T_PlainCall \/ T_Call \/ T_DrainPop \/ T_DrainDone
         \/ T_SendBegin \/ T_Dumped \/ T_DumpFailed \/ T_HelperRun \/ T_Loaded \/ T_LoadFailed
         \/ T_Del \/ T_Cleanup \/ T_Fault \/ T_QueryEnd

Failing ==
     (IF ~TypeOK THEN {"TypeOK"} ELSE {})
  \cup (IF ~OnlyInternalError_ExceptHandshake THEN {"OnlyInternalError"} ELSE {})
  \cup (IF ~AtMostOnePerCrash THEN {"AtMostOnePerCrash"} ELSE {})
  \cup (IF ~FailureMeansDetected THEN {"FailureMeansDetected"} ELSE {})
  \cup (IF ~Reaped THEN {"Reaped"} ELSE {})
  \cup (IF ~StatesReleased THEN {"StatesReleased"} ELSE {})
  \cup (IF ~DeleteNeverFails THEN {"DeleteNeverFails"} ELSE {})
  \cup (IF ~QueueNoDup THEN {"QueueNoDup"} ELSE {})

Verdict ==
  /\ PrintT(<<"AT", tid, l>>)
  /\ (Failing # {} => PrintT(<<"INVFAIL", tid, l, Failing>>))
  /\ (l = Len(Traces[tid]) + 1 => PrintT(<<"ACCEPT", tid>>))
=============================================================================
