-------------------------- MODULE Trace_Engine --------------------------
(* Code -> spec for C15 and C16.

   Guard events (recorded by wrapping ExecutionRecursionDetector.push_execution /
   pop_execution, recursion.execution_allowed and the Script query entry points):
     QStart{}                       a Script query begins (reset_recursion_limitations ran)
     Push{f, builtins, typing, reached}   push_execution(execution) and its verdict
     Pop{}                          pop_execution
     SEnter{allowed, n} / SExit{}   execution_allowed(node) enter (verdict) / exit
     QEnd{steps, frames}            the query returned: _infer_node calls, max Python stack depth
   The detector of Engine.tla is replayed on the logged function ids with the code's limits
   (15 / 200 / 6 / 2): the logged verdict must be the verdict of the rule; pushes and pops are
   balanced on every path; the statement guard refuses exactly the nodes already pushed.

   Observation events for C16 (one trace = one batch of runs):
     Obs{key, val}                  key = (text, position, method) id, val = digest of the ordered result
   Repeatable / Deterministic: val is a function of key.                                   *)
EXTENDS Naturals, Sequences, FiniteSets, TLC, Json, IOUtils

Traces == JsonDeserialize(IOEnv.TRACE_FILE)
RecLimit == 15  TotalLimit == 200  PerFuncLimit == 6  PerFuncRec == 2
StepCap == 2000000   \* no query may need more node inferences than this
FrameCap == 2900     \* Python frames: the interpreter limit raised by jedi is 3000

VARIABLES tid, l, parents, execCount, perFunc, pushed, seen, inq
vars == <<tid, l, parents, execCount, perFunc, pushed, seen, inq>>

TInit == /\ tid \in 1..Len(Traces) /\ l = 1
         /\ parents = <<>> /\ execCount = 0 /\ perFunc = <<>> /\ pushed = <<>> /\ seen = <<>> /\ inq = FALSE
Ev == Traces[tid][l]
Count(s, x) == Cardinality({i \in 1..Len(s) : s[i] = x})
Get(m, k) == IF \E i \in 1..Len(m) : m[i][1] = k
             THEN (CHOOSE i \in 1..Len(m) : m[i][1] = k) ELSE 0
PerFuncOf(f) == IF Get(perFunc, f) = 0 THEN 0 ELSE perFunc[Get(perFunc, f)][2]
Bump(m, k) == IF Get(m, k) = 0 THEN Append(m, <<k, 1>>)
              ELSE [m EXCEPT ![Get(m, k)] = <<k, m[Get(m, k)][2] + 1>>]

\* ExecutionRecursionDetector.push_execution transcribed (same order of tests as the code)
Reached(f, builtins, typing) ==
  IF builtins THEN FALSE
  ELSE IF Len(parents) + 1 > RecLimit THEN TRUE
  ELSE IF execCount >= TotalLimit THEN TRUE
  ELSE IF PerFuncOf(f) >= PerFuncLimit THEN ~typing
  ELSE Count(Append(parents, f), f) > PerFuncRec

Why(e) ==
  CASE e.ev = "QStart" -> IF inq THEN {"NestedQuery"} ELSE {}
    [] e.ev = "Push" -> IF Reached(e.f, e.builtins, e.typing) # e.reached THEN {"LimitVerdict"} ELSE {}
    [] e.ev = "Pop" -> IF parents = <<>> THEN {"PopWithoutPush"} ELSE {}
    [] e.ev = "SEnter" -> IF e.allowed = (Count(pushed, e.n) > 0) THEN {"StatementGuardVerdict"} ELSE {}
    [] e.ev = "SExit" -> {}
    [] e.ev = "QEnd" -> (IF parents # <<>> \/ pushed # <<>> THEN {"Unbalanced"} ELSE {})
                        \cup (IF e.steps > StepCap THEN {"WorkExploded"} ELSE {})
                        \cup (IF e.frames > FrameCap THEN {"PythonStackNearLimit"} ELSE {})
    [] e.ev = "Obs" -> IF Get(seen, e.key) # 0 /\ seen[Get(seen, e.key)][2] # e.val THEN {"NotAFunctionOfTheQuery"} ELSE {}
    [] OTHER -> {"UnknownEvent"}

TNext ==
  /\ l <= Len(Traces[tid]) /\ (Why(Ev) = {}) = TRUE /\ l' = l + 1 /\ UNCHANGED tid
  /\ CASE Ev.ev = "QStart" ->
            /\ parents' = <<>> /\ execCount' = 0 /\ perFunc' = <<>> /\ pushed' = <<>> /\ inq' = TRUE
            /\ UNCHANGED seen
       [] Ev.ev = "Push" ->
            /\ parents' = Append(parents, Ev.f)
            /\ execCount' = IF Ev.builtins \/ Len(parents) + 1 > RecLimit \/ execCount >= TotalLimit
                            THEN execCount ELSE execCount + 1
            /\ perFunc' = IF Ev.builtins \/ Len(parents) + 1 > RecLimit \/ execCount >= TotalLimit
                             \/ PerFuncOf(Ev.f) >= PerFuncLimit
                          THEN perFunc ELSE Bump(perFunc, Ev.f)
            /\ UNCHANGED <<pushed, seen, inq>>
       [] Ev.ev = "Pop" -> /\ parents' = SubSeq(parents, 1, Len(parents) - 1)
                           /\ UNCHANGED <<execCount, perFunc, pushed, seen, inq>>
       [] Ev.ev = "SEnter" -> /\ pushed' = IF Ev.allowed THEN Append(pushed, Ev.n) ELSE Append(pushed, 0)
                              /\ UNCHANGED <<parents, execCount, perFunc, seen, inq>>
       [] Ev.ev = "SExit" -> /\ pushed' = SubSeq(pushed, 1, Len(pushed) - 1)
                             /\ UNCHANGED <<parents, execCount, perFunc, seen, inq>>
       [] Ev.ev = "QEnd" -> /\ inq' = FALSE /\ UNCHANGED <<parents, execCount, perFunc, pushed, seen>>
       [] Ev.ev = "Obs" -> /\ seen' = IF Get(seen, Ev.key) = 0 THEN Append(seen, <<Ev.key, Ev.val>>) ELSE seen
                           /\ UNCHANGED <<parents, execCount, perFunc, pushed, inq>>
Verdict ==
  IF l = Len(Traces[tid]) + 1 THEN PrintT(<<"ACCEPT", tid>>)
  ELSE (Why(Ev) = {}) \/ PrintT(<<"REJECT", tid, l, Why(Ev)>>)
=============================================================================
