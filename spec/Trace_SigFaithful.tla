------------------------- MODULE Trace_SigFaithful -------------------------
(* C17, buffer histories for call signatures.  One process analyses successive texts of ONE buffer path
   and asks get_signatures at the call site after every edit (the definition of the callee moves, is
   re-indented, renamed away or replaced between the texts).  Every reported Signature is a Name; the
   event carries what it claims and the text the Script was built from:
     [name, line, col, linecode, text]      strings as code-point sequences, text = Seq(lines)
   Reference (the property, applied to the analysed text): the name's position lies inside the text,
   the text at that position spells the name, and get_line_code() is that line of the text.        *)
EXTENDS Naturals, Sequences, FiniteSets, TLC, Json, IOUtils

Traces == JsonDeserialize(IOEnv.TRACE_FILE)
VARIABLES tid, l
Ev == Traces[tid][l]

InText(e)   == e.line >= 1 /\ e.line <= Len(e.text) /\ e.col >= 0 /\ e.col + Len(e.name) <= Len(e.text[e.line])
Spells(e)   == InText(e) /\ SubSeq(e.text[e.line], e.col + 1, e.col + Len(e.name)) = e.name
LineCode(e) == InText(e) /\ e.linecode = e.text[e.line]
Why(e) == (IF ~InText(e) THEN {"PositionOutsideText"} ELSE {})
          \cup (IF InText(e) /\ ~Spells(e) THEN {"TextAtPositionIsNotTheName"} ELSE {})
          \cup (IF InText(e) /\ ~LineCode(e) THEN {"LineCodeFromAnotherText"} ELSE {})

TInit == tid \in 1..Len(Traces) /\ l = 1
TNext == l <= Len(Traces[tid]) /\ (Why(Ev) = {}) = TRUE /\ l' = l + 1 /\ UNCHANGED tid
Verdict ==
  IF l = Len(Traces[tid]) + 1 THEN PrintT(<<"ACCEPT", tid>>)
  ELSE (Why(Ev) = {}) \/ PrintT(<<"REJECT", tid, l, Why(Ev)>>)
=============================================================================
