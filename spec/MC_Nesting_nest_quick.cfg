\* Design |= Reference, exhaustive over the NEST space (quick tier; harness/props/c18.py writes the
\* run-specific copies: quick <=3 list/lambda nodes + <=2 nodes of the other kinds; thorough <=3 nodes
\* of every kind + <=4 list/dict/lambda nodes)
INIT Init
NEXT Next
CONSTANTS
  MaxItems = 3
  MaxDepth = 2
  MaxScopes = 2
  MaxExtras = 1
  Units = {4}
  EmitMod = 1
  EmitRem = 0
  Fixed = {"AsyncColumn", "DedentCont", "LambdaInClass", "CompWhile"}
  MaxNest = 3
  NestKinds = {"list", "lam"}
  Plain = TRUE
INVARIANT DesignMeetsReference
CHECK_DEADLOCK FALSE
