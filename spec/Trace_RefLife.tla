-------------------------- MODULE Trace_RefLife --------------------------
(* Code -> spec for C07.  One trace per refactoring request executed on a real
   project copy.  Events (ids are small integers; line ids stand for whole lines incl. ending,
   content ids for whole files; 0 = Absent):
     Request{outcome, posvalid}
     Inspect{files: Seq([path, orig, new, origpad, newpad, hunks, touched]),
             changed: Seq(path), renames: Seq(<<from, to>>), diffpaths: Seq(path), fssame}
     Apply{outcome, nopath, fs0, fs1, chg: Seq(<<path, content>>), ren: Seq(<<from, to>>)}
   fs0 / fs1 are sequences indexed by path id.                                          *)
EXTENDS Naturals, Sequences, FiniteSets, TLC, Json, IOUtils

CONSTANTS Paths, NoPath, Contents, Absent
VARIABLES fs, fs0, ref, pc, wq, rq
INSTANCE RefLife

Traces == JsonDeserialize(IOEnv.TRACE_FILE)
VARIABLES tid, l

Ev == Traces[tid][l]
SeqSet(s) == {s[i] : i \in 1..Len(s)}

\* a refactoring request fails only with RefactoringError, or ValueError for an out-of-range position
RequestWhy(e) ==
  IF e.outcome = "ok" THEN (IF e.posvalid THEN {} ELSE {"OutsidePositionAccepted"})
  ELSE IF e.outcome = "RefactoringError" THEN {}
  ELSE IF e.outcome = "ValueError" THEN (IF e.posvalid THEN {"ValueErrorForValidPosition"} ELSE {})
  ELSE {"WrongErrorType"}

\* Named deviation DiffPhantomLastLine, modelled as the code does it: for a text that ends with a
\* newline, split_lines yields a last empty element which get_diff hands to difflib as a line; it is
\* counted in the header of a hunk that reaches the end of the file but printed as nothing (the lone
\* space is stripped).  Such a last hunk has both counts one too high.
\* (the harness drops zero-length lines from hunk bodies; a side that reaches the end of the text
\*  and whose header counts exactly one line more than its body carries the phantom)
PhantomOld(h, orig, isLast) == isLast /\ Len(OldSide(h.ops)) + 1 = h.ol /\ OldStart(h) + h.ol - 2 = Len(orig)
PhantomNew(h, isLast) == isLast /\ Len(NewSide(h.ops)) + 1 = h.nl
Norm(hunks, orig) ==
  [i \in 1..Len(hunks) |->
     [hunks[i] EXCEPT !.ol = IF PhantomOld(hunks[i], orig, i = Len(hunks)) THEN @ - 1 ELSE @,
                      !.nl = IF PhantomNew(hunks[i], i = Len(hunks)) THEN @ - 1 ELSE @]]
HasPhantom(hunks, orig) == \E i \in 1..Len(hunks) :
                             PhantomOld(hunks[i], orig, i = Len(hunks)) \/ PhantomNew(hunks[i], i = Len(hunks))

FileWhy(f) ==
  LET hs == Norm(f.hunks, f.origpad) IN
     (IF ~Applicable(f.origpad, 1, hs) THEN {"DiffMalformedOrNotApplicable"}
      ELSE IF Patch(f.origpad, hs) # f.newpad THEN {"DiffDoesNotProduceNewCode"}
      ELSE IF Patch(f.orig, hs) # f.new THEN {"DiffPadsFinalNewline"}     \* named deviation
      ELSE {})
  \cup (IF HasPhantom(f.hunks, f.origpad) THEN {"DiffPhantomLastLine"} ELSE {})
  \cup (IF ~(MinusLines(hs) \subseteq SeqSet(f.touched)) THEN {"UntouchedTextChanged"} ELSE {})
  \cup (IF f.hunks = <<>> /\ f.orig # f.new THEN {"ChangeWithoutDiff"} ELSE {})

InspectWhy(e) ==
     UNION {FileWhy(e.files[i]) : i \in 1..Len(e.files)}
  \* the paths named by the diff: the changed files, where they end up (a changed file can itself be renamed or lie
  \* below a renamed directory: changedto, computed from the renames by path components), and the renames
  \cup (IF SeqSet(e.diffpaths) # SeqSet(e.changed) \cup SeqSet(e.changedto) \cup {e.renames[i][1] : i \in 1..Len(e.renames)}
                                               \cup {e.renames[i][2] : i \in 1..Len(e.renames)}
        THEN {"FilesDisagree"} ELSE {})
  \cup (IF ~e.fssame THEN {"WroteBeforeApply"} ELSE {})

\* fs as Seq over path ids; Announced of RefLife works on functions, sequences are functions
ApplyWhy(e) ==
  IF e.outcome = "ok"
  THEN (IF e.fs1 # Announced(e.fs0, [chg |-> e.chg, ren |-> e.ren]) THEN {"ApplyNotAsAnnounced"} ELSE {})
  ELSE IF e.outcome = "RefactoringError" /\ e.nopath THEN {}
  ELSE {"ApplyFailed"}

Why(e) == CASE e.ev = "Request" -> RequestWhy(e)
            [] e.ev = "Inspect" -> InspectWhy(e)
            [] e.ev = "Apply"   -> ApplyWhy(e)
            [] OTHER -> {"UnknownEvent"}
\* DiffPadsFinalNewline alone does not reject a trace (it is reported separately as the known deviation)
Hard(e) == Why(e) \ {"DiffPadsFinalNewline", "DiffPhantomLastLine"}

TInit == /\ tid \in 1..Len(Traces) /\ l = 1
         /\ fs = <<>> /\ fs0 = <<>> /\ ref = NoRef /\ pc = "none" /\ wq = <<>> /\ rq = <<>>
\* lifecycle: Request, then Inspect, then at most one Apply
Order(e) == \/ e.ev = "Request" /\ pc = "none"
            \/ e.ev = "Inspect" /\ pc = "ready"
            \/ e.ev = "Apply" /\ pc = "ready"
TNext == /\ l <= Len(Traces[tid])
         /\ Order(Ev) = TRUE
         /\ (Hard(Ev) = {}) = TRUE
         /\ pc' = (IF Ev.ev = "Request" THEN (IF Ev.outcome = "ok" THEN "ready" ELSE "error")
                   ELSE IF Ev.ev = "Apply" THEN "applied" ELSE pc)
         /\ l' = l + 1
         /\ UNCHANGED <<tid, fs, fs0, ref, wq, rq>>
Verdict ==
  /\ (l <= Len(Traces[tid]) /\ Why(Ev) \cap {"DiffPadsFinalNewline", "DiffPhantomLastLine"} # {})
        => PrintT(<<"NOTE", tid, l, Why(Ev) \cap {"DiffPadsFinalNewline", "DiffPhantomLastLine"}>>)
  /\ IF l = Len(Traces[tid]) + 1 THEN PrintT(<<"ACCEPT", tid>>)
     ELSE (Hard(Ev) = {} /\ Order(Ev)) \/ PrintT(<<"REJECT", tid, l, Hard(Ev) \cup (IF Order(Ev) THEN {} ELSE {"Order"})>>)
=============================================================================
