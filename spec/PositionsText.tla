--------------------------- MODULE PositionsText ---------------------------
(* C17, text level -- shared by Positions.tla (buffers built from statement templates),
   PositionsHist.tla (histories of versions of a project file) and Trace_Positions.tla.

   Text is Seq(Nat) (code points).
   Reference = the property text + Python's lexical rules, written over the TEXT only
     (physical lines, Pos, the clauses TextAtPos / RangeEncloses / LineCodeOK / NamesBijection /
     IsDefOK for one reported name or one get_names() call);
   Design    = parso.utils.split_lines, the tokenizer's positions and
     BaseName.get_line_code transcribed.                                                  *)
EXTENDS Naturals, Sequences, FiniteSets, TLC

(* Code points *)
LF == 10  CR == 13  FF == 12  VT == 11  TAB == 9  SP == 32  BSL == 92  HASH == 35
FS == 28  GS == 29  RS == 30  NEL == 133  LS == 8232  PS == 8233  US == 95  EQ == 61

Last(s)  == s[Len(s)]
Max(S)   == CHOOSE x \in S : \A y \in S : y <= x
Min(S)   == CHOOSE x \in S : \A y \in S : x <= y
\* TLC keeps [x \in S |-> e] lazy (e is re-evaluated at every application); SubSeq makes it an explicit tuple
Explicit(f) == SubSeq(f, 1, Len(f))
RECURSIVE Flat(_)
Flat(ss) == IF ss = <<>> THEN <<>> ELSE Head(ss) \o Flat(Tail(ss))
PosLeq(p, q) == p[1] < q[1] \/ (p[1] = q[1] /\ p[2] <= q[2])

---------------------------------------------------------------------------
(* REFERENCE, text level *)

\* character i (1-based) is the last character of a line terminator
EndsLine(t, i) == t[i] = LF \/ (t[i] = CR /\ (i = Len(t) \/ t[i + 1] # LF))
\* 0-based offsets at which a physical line starts
LineStarts(t)  == {0} \cup {i \in 1..Len(t) : EndsLine(t, i)}
RECURSIVE SortedSeq(_)
SortedSeq(S)   == IF S = {} THEN <<>> ELSE LET m == Min(S) IN <<m>> \o SortedSeq(S \ {m})
\* the same as an increasing sequence; every operator below takes it as argument st so that it is
\* computed once per text
Starts(t)      == SortedSeq(LineStarts(t))
LineEnd(t, st, n)  == IF n = Len(st) THEN Len(t) ELSE st[n + 1]
LineLen(t, st, n)  == LineEnd(t, st, n) - st[n]                    \* with its terminator
RefLine(t, st, n)  == SubSeq(t, st[n] + 1, LineEnd(t, st, n))      \* with its terminator
RefLines(t, st)    == Explicit([n \in 1..Len(st) |-> RefLine(t, st, n)])
\* (line, column) of the 0-based offset off
RefPos(st, off)    == LET n == Max({k \in 1..Len(st) : st[k] <= off}) IN <<n, off - st[n]>>
\* a position that exists in the text (the column may be the line's length: an end position)
ValidPos(t, st, p) == p[1] \in 1..Len(st) /\ p[2] <= LineLen(t, st, p[1])
TextAt(t, st, p, n) == IF p[2] + n <= LineLen(t, st, p[1])
                       THEN SubSeq(t, st[p[1]] + p[2] + 1, st[p[1]] + p[2] + n) ELSE <<0>>

\* The identifier a reported name stands for: keyword-parameter completions carry the
\* completion symbol "=" (documented under Completion.name_with_symbols).
Ident(name) == IF name # <<>> /\ Last(name) = EQ THEN SubSeq(name, 1, Len(name) - 1) ELSE name

(* The clauses of the property for one reported name r =
   [line, col, name, ds, de (<<>> or <<pos>>), lc (get_line_code())] against text t *)
ClTextAtPos(t, st, r) == /\ ValidPos(t, st, <<r.line, r.col>>)
                         /\ TextAt(t, st, <<r.line, r.col>>, Len(Ident(r.name))) = Ident(r.name)
ClRange(t, st, r)     == /\ r.ds # <<>> /\ r.de # <<>>
                         /\ ValidPos(t, st, r.ds[1]) /\ ValidPos(t, st, r.de[1])
                         /\ PosLeq(r.ds[1], <<r.line, r.col>>)
                         /\ PosLeq(<<r.line, r.col + Len(Ident(r.name))>>, r.de[1])
ClLineCode(t, st, r)  == /\ r.line \in 1..Len(st)
                         /\ r.lc = RefLine(t, st, r.line)
NameWhy(t, st, r) == (IF ClTextAtPos(t, st, r) THEN {} ELSE {"TextAtPos"})
                \cup (IF ClRange(t, st, r) THEN {} ELSE {"RangeEncloses"})
                \cup (IF ClLineCode(t, st, r) THEN {} ELSE {"LineCodeOK"})

(* get_names(all_scopes, definitions, references) = got, a sequence of [line, col, isdef];
   toks = the identifier tokens [line, col, binds] (distinct positions).  "Each token exactly
   once": as many reports as tokens and the same set of positions; the order of the list is not
   part of the property.                                                                 *)
PosSet(rs)             == {<<rs[i].line, rs[i].col>> : i \in 1..Len(rs)}
ClBijection(toks, got) == Len(got) = Len(toks) /\ PosSet(got) = PosSet(toks)
ClIsDef(toks, got)     == LET ts == {<<toks[i].line, toks[i].col, toks[i].binds>> : i \in 1..Len(toks)}
                              tp == PosSet(toks)
                          IN \A i \in 1..Len(got) :
                               <<got[i].line, got[i].col>> \in tp => <<got[i].line, got[i].col, got[i].isdef>> \in ts

---------------------------------------------------------------------------
(* DESIGN, text level: parso.utils.split_lines(code, keepends=True) *)
PyBreak(c)      == c \in {LF, CR, VT, FF, FS, GS, RS, NEL, LS, PS}      \* str.splitlines
NonLineBreak(c) == c \in {VT, FF, FS, GS, RS, NEL, LS, PS}              \* _NON_LINE_BREAKS
\* lst = string.splitlines(True): a line ends after every break character, \r\n counted once
PyEnds(t) == {i \in 1..Len(t) : PyBreak(t[i]) /\ ~(t[i] = CR /\ i < Len(t) /\ t[i + 1] = LF)}
PySplitLines(t) ==
  LET e == SortedSeq(PyEnds(t))  n == Len(e)
      full == Explicit([k \in 1..n |-> SubSeq(t, (IF k = 1 THEN 0 ELSE e[k - 1]) + 1, e[k])])
  IN IF n = 0 THEN (IF t = <<>> THEN <<>> ELSE <<t>>)
     ELSE IF e[n] < Len(t) THEN Append(full, SubSeq(t, e[n] + 1, Len(t))) ELSE full
\* "for index in reversed(merge): lst[index] += lst[index + 1]; del lst[index + 1]" (IndexError passes)
RECURSIVE Merge(_)
Merge(lst) == IF Len(lst) <= 1 THEN lst
              ELSE LET rest == Merge(Tail(lst))  h == Head(lst)
                   IN IF NonLineBreak(Last(h)) THEN <<h \o Head(rest)>> \o Tail(rest) ELSE <<h>> \o rest
DSplitLines(t) == LET l == Merge(PySplitLines(t))
                  IN IF t = <<>> \/ Last(t) = LF \/ Last(t) = CR THEN Append(l, <<>>) ELSE l
\* tokenizer: start_pos = (index of the line, index in the line)
RECURSIVE DLocate(_, _, _)
DLocate(lines, n, off) == IF n = Len(lines) \/ off < Len(lines[n]) THEN <<n, off>>
                          ELSE DLocate(lines, n + 1, off - Len(lines[n]))
DPos(lines, off) == DLocate(lines, 1, off)
\* Leaf.end_pos for a leaf without line break / for a newline leaf with value v
DEndPos(p, len)  == <<p[1], p[2] + len>>
DNlEndPos(p, v)  == IF v = <<>> THEN p ELSE <<p[1] + 1, 0>>
\* BaseName.get_line_code(before, after)
DLineCode(lines, line, before, after) ==
  LET index == line - 1
      st    == IF index >= before THEN index - before ELSE 0
      en    == IF index + after + 1 <= Len(lines) THEN index + after + 1 ELSE Len(lines)
  IN Flat(SubSeq(lines, st + 1, en))

=============================================================================
