----------------------------- MODULE Helper -----------------------------
(* C14 -- a crash of the helper process is contained and recovered from.

   One action per step of the code in jedi/inference/compiled/subprocess/__init__.py
   (CompiledSubprocess.run/_send/_kill, InferenceStateSubprocess.__del__,
   delete_inference_state, Listener.listen/_run, _cleanup_process) and
   jedi/api/environment.py (Environment._get_subprocess).

   Parent side is sequential: one RPC in flight (pc, cur).  The helper is a
   second process: it takes a step only when a request is in its pipe.  The
   fault Crash(s) is enabled in every pc while budget remains, with the three
   phases of the property distinguished by what is on the wire:
     before send            wire = "none"  (parent will get BrokenPipe)
     after send / no reply  wire = "req"   (parent will read EOF)
     half-way through reply CrashMidReply: helper ran, wire = "part"
   A helper function that raises (HelperRaises) is a fault of a different kind:
   the helper stays alive and the exception is re-raised in the parent.

   Deviations of the code from the ideal are modelled as they are and named:
     HandshakeWraps   a failure during the _get_info handshake surfaces as
                      InvalidPythonEnvironment, not InternalError
     TruncIsEOF       (constant) TRUE = a truncated reply is handled like EOF
                      (the repaired code); FALSE = pickle.UnpicklingError escapes,
                      is_crashed stays False (the code before the fix).          *)
EXTENDS Naturals, Sequences, FiniteSets, TLC

CONSTANTS MaxScripts,    \* scripts (InferenceStateSubprocess objects) ever created
          MaxCalls,      \* helper requests started through scripts
          MaxCrashes,    \* helper deaths
          MaxRaises,     \* injected helper-side exceptions
          Addrs,         \* possible id(self) values of InferenceStateSubprocess (small => reuse)
          TruncIsEOF     \* see above

MaxSubs == MaxCrashes + 1
Subs    == 1..MaxSubs
Scripts == 1..MaxScripts
NoSub   == 0

VARIABLES
  sub,      \* [Subs -> [exists, alive, crashed, cleaned, queue, hstates]]  CompiledSubprocess + its process
  nsub,     \* subs created so far
  envsub,   \* Environment._subprocess (NoSub = None)
  got,      \* value just returned by Environment._get_subprocess(), about to be used (NoSub = none pending)
  scr,      \* [Scripts -> [st, sub, used, addr]]   st in {"none","live","dead"}
  nscr,
  pc,       \* "idle" | "drain" | "check" | "dump" | "wait"
  cur,      \* the request in flight: [kind, sub, addr, script, raises]
  wire,     \* [Subs -> "none" | "req" | "reply" | "exc" | "part"]   what is in the pipes of that helper
  calls, crashes, raises,      \* budgets used
  last,     \* outcome of the most recently finished query
  fails,    \* queries failed because of crashes (see CountsAsFailure)
  detected  \* crashes that have surfaced as a failed query
vars == <<sub, nsub, envsub, got, scr, nscr, pc, cur, wire, calls, crashes, raises, last, fails, detected>>

NoCur == [kind |-> "none", sub |-> NoSub, addr |-> 0, script |-> 0, raises |-> FALSE]
FreshSub == [exists |-> FALSE, alive |-> FALSE, crashed |-> FALSE, cleaned |-> FALSE,
             queue |-> <<>>, hstates |-> {}]
FreshScr == [st |-> "none", sub |-> NoSub, used |-> FALSE, addr |-> 0]

Init ==
  /\ sub = [s \in Subs |-> FreshSub] /\ nsub = 0 /\ envsub = NoSub /\ got = NoSub
  /\ scr = [k \in Scripts |-> FreshScr] /\ nscr = 0
  /\ pc = "idle" /\ cur = NoCur
  /\ wire = [s \in Subs |-> "none"]
  /\ calls = 0 /\ crashes = 0 /\ raises = 0
  /\ last = "none" /\ fails = 0 /\ detected = 0

LiveAddrs == {scr[k].addr : k \in {j \in Scripts : scr[j].st = "live"}}

---------------------------------------------------------------------------
(* End of a query: record the outcome.  A failure counts against the crash
   budget of the property unless it is an injected helper-side exception.      *)
Finish(outcome, counts) ==
  /\ last' = outcome
  /\ fails' = IF counts THEN fails + 1 ELSE fails
  /\ pc' = "idle" /\ cur' = NoCur

---------------------------------------------------------------------------
(* Environment._get_subprocess(): reuse the helper unless it is known to be crashed,
   else spawn one and shake hands (_send(None, _get_info)).  Its callers are
   get_inference_state_subprocess (-> NewISS) and get_sys_path (-> PlainCall).   *)
\* if self._subprocess is not None and not self._subprocess.is_crashed: return it
EnvUsable == IF envsub = NoSub THEN FALSE ELSE ~sub[envsub].crashed
GetSubprocess_Reuse ==
  /\ pc = "idle" /\ got = NoSub /\ EnvUsable
  /\ got' = envsub
  /\ UNCHANGED <<sub, nsub, envsub, scr, nscr, pc, cur, wire, calls, crashes, raises, last, fails, detected>>

GetSubprocess_Spawn ==
  /\ pc = "idle" /\ got = NoSub /\ ~EnvUsable
  /\ nsub < MaxSubs
  /\ nsub' = nsub + 1
  /\ sub' = [sub EXCEPT ![nsub + 1] = [FreshSub EXCEPT !.exists = TRUE, !.alive = TRUE]]
  /\ envsub' = nsub + 1
  /\ pc' = "check"
  /\ cur' = [kind |-> "hs", sub |-> nsub + 1, addr |-> 0, script |-> 0, raises |-> FALSE]
  /\ UNCHANGED <<got, scr, nscr, wire, calls, crashes, raises, last, fails, detected>>

\* InferenceStateSubprocess(inference_state, sub): id(self) = an address no live object has
NewISS(a) ==
  /\ pc = "idle" /\ got # NoSub /\ nscr < MaxScripts /\ a \in Addrs \ LiveAddrs
  /\ nscr' = nscr + 1
  /\ scr' = [scr EXCEPT ![nscr + 1] = [st |-> "live", sub |-> got, used |-> FALSE, addr |-> a]]
  /\ got' = NoSub
  /\ UNCHANGED <<sub, nsub, envsub, pc, cur, wire, calls, crashes, raises, last, fails, detected>>

\* CompiledSubprocess.get_sys_path(): self._send(None, functions.get_sys_path)
PlainCall ==
  /\ pc = "idle" /\ got # NoSub /\ calls < MaxCalls
  /\ calls' = calls + 1
  /\ pc' = "check"
  /\ cur' = [kind |-> "plain", sub |-> got, addr |-> 0, script |-> 0, raises |-> FALSE]
  /\ got' = NoSub
  /\ UNCHANGED <<sub, nsub, envsub, scr, nscr, wire, crashes, raises, last, fails, detected>>

\* InferenceStateSubprocess.__getattr__.wrapper: self._used = True; CompiledSubprocess.run(...)
BeginCall(k, r) ==
  /\ pc = "idle" /\ got = NoSub /\ scr[k].st = "live" /\ calls < MaxCalls
  /\ r \in BOOLEAN /\ (r => raises < MaxRaises)
  /\ calls' = calls + 1
  /\ raises' = IF r THEN raises + 1 ELSE raises
  /\ scr' = [scr EXCEPT ![k].used = TRUE]
  /\ pc' = "drain"
  /\ cur' = [kind |-> "fn", sub |-> scr[k].sub, addr |-> scr[k].addr, script |-> k, raises |-> r]
  /\ UNCHANGED <<sub, nsub, envsub, got, nscr, wire, crashes, last, fails, detected>>

\* run(): while queue: delete_id = queue.pop(); self._send(delete_id, None)
Run_DrainPop ==
  /\ pc = "drain" /\ sub[cur.sub].queue # <<>>
  /\ LET q == sub[cur.sub].queue IN
     /\ sub' = [sub EXCEPT ![cur.sub].queue = SubSeq(q, 1, Len(q) - 1)]
     /\ cur' = [cur EXCEPT !.kind = "del", !.addr = q[Len(q)]]
  /\ pc' = "check"
  /\ UNCHANGED <<nsub, envsub, got, scr, nscr, wire, calls, crashes, raises, last, fails, detected>>

Run_DrainDone ==
  /\ pc = "drain" /\ sub[cur.sub].queue = <<>>
  /\ pc' = "check"
  /\ cur' = [cur EXCEPT !.kind = "fn", !.addr = scr[cur.script].addr]
  /\ UNCHANGED <<sub, nsub, envsub, got, scr, nscr, wire, calls, crashes, raises, last, fails, detected>>

\* a query whose Script is bound to a helper already known to be crashed fails by
\* design with InternalError; the property speaks about later Scripts, so it is not counted
FailKind == IF cur.kind = "hs" THEN "InvalidPythonEnvironment" ELSE "InternalError"  \* HandshakeWraps

\* _send: if self.is_crashed: raise InternalError
Send_CheckCrashed ==
  /\ pc = "check"
  /\ IF sub[cur.sub].crashed
     THEN Finish("InternalError", FALSE) /\ UNCHANGED <<sub, detected>>
     ELSE pc' = "dump" /\ UNCHANGED <<sub, cur, last, fails, detected>>
  /\ UNCHANGED <<nsub, envsub, got, scr, nscr, wire, calls, crashes, raises>>

\* _kill(): is_crashed = True; _cleanup_callable() -> kill, wait, join, close streams
Killed(s) == [sub[s] EXCEPT !.crashed = TRUE, !.cleaned = TRUE, !.alive = FALSE]

\* pickle_dump(data, stdin) incl. flush: request reaches the pipe, or BrokenPipeError
Send_Dump ==
  /\ pc = "dump"
  /\ IF sub[cur.sub].alive
     THEN /\ wire' = [wire EXCEPT ![cur.sub] = "req"]
          /\ pc' = "wait"
          /\ UNCHANGED <<sub, cur, last, fails, detected>>
     ELSE \* BrokenPipeError -> _kill -> InternalError
          /\ sub' = [sub EXCEPT ![cur.sub] = Killed(cur.sub)]
          /\ Finish(FailKind, TRUE)
          /\ detected' = detected + 1
          /\ UNCHANGED wire
  /\ UNCHANGED <<nsub, envsub, got, scr, nscr, calls, crashes, raises>>

\* Listener.listen: payload = pickle_load(stdin); result = self._run(*payload); pickle_dump(result)
\* _run: id None -> plain call; function None -> del states[id] (KeyError if absent!);
\*       else get-or-create the state, call the function
Listener_Run ==
  /\ pc = "wait" /\ wire[cur.sub] = "req" /\ sub[cur.sub].alive
  /\ LET s == cur.sub
         hs == sub[s].hstates IN
     CASE cur.kind \in {"hs", "plain"} ->
            /\ wire' = [wire EXCEPT ![s] = "reply"] /\ UNCHANGED sub
       [] cur.kind = "del" ->
            IF cur.addr \in hs
            THEN /\ sub' = [sub EXCEPT ![s].hstates = hs \ {cur.addr}]
                 /\ wire' = [wire EXCEPT ![s] = "reply"]
            ELSE /\ wire' = [wire EXCEPT ![s] = "exc"] /\ UNCHANGED sub      \* KeyError reply
       [] cur.kind = "fn" ->
            /\ sub' = [sub EXCEPT ![s].hstates = hs \cup {cur.addr}]
            /\ wire' = [wire EXCEPT ![s] = IF cur.raises THEN "exc" ELSE "reply"]
  /\ UNCHANGED <<nsub, envsub, got, scr, nscr, pc, cur, calls, crashes, raises, last, fails, detected>>

\* pickle_load(stdout) in _send
Send_Load ==
  /\ pc = "wait"
  /\ LET s == cur.sub IN
     \/ /\ wire[s] = "reply"                      \* complete reply
        /\ wire' = [wire EXCEPT ![s] = "none"]
        /\ UNCHANGED <<sub, detected>>
        /\ CASE cur.kind = "hs" ->                 \* _get_subprocess returns the new helper
                  /\ got' = s
                  /\ pc' = "idle" /\ cur' = NoCur /\ UNCHANGED <<last, fails>>
             [] cur.kind = "del" ->
                  /\ pc' = "drain" /\ UNCHANGED <<cur, last, fails, got>>
             [] cur.kind \in {"fn", "plain"} ->
                  /\ Finish("ok", FALSE) /\ UNCHANGED got
     \/ /\ wire[s] = "exc"                        \* (True, traceback, exception): re-raised
        /\ wire' = [wire EXCEPT ![s] = "none"]
        /\ UNCHANGED <<sub, detected, got>>
        /\ Finish(IF cur.kind = "hs" THEN "InvalidPythonEnvironment"
                  ELSE IF cur.kind = "del" THEN "KeyError" ELSE "RemoteExc", cur.kind # "fn")
     \/ /\ wire[s] = "part" /\ ~sub[s].alive      \* truncated reply
        /\ wire' = [wire EXCEPT ![s] = "none"]
        /\ UNCHANGED got
        /\ IF TruncIsEOF
           THEN /\ sub' = [sub EXCEPT ![s] = Killed(s)]
                /\ Finish(FailKind, TRUE) /\ detected' = detected + 1
           ELSE \* pickle.UnpicklingError escapes; is_crashed stays False, nothing is reaped
                /\ UNCHANGED sub
                /\ Finish(IF cur.kind = "hs" THEN "InvalidPythonEnvironment" ELSE "UnpicklingError", TRUE)
                /\ detected' = detected + 1
     \/ /\ wire[s] \in {"req", "none"} /\ ~sub[s].alive    \* EOFError -> _kill -> InternalError
        /\ wire' = [wire EXCEPT ![s] = "none"]
        /\ sub' = [sub EXCEPT ![s] = Killed(s)]
        /\ UNCHANGED got
        /\ Finish(FailKind, TRUE) /\ detected' = detected + 1
  /\ UNCHANGED <<nsub, envsub, scr, nscr, calls, crashes, raises>>

\* InferenceStateSubprocess.__del__: if self._used and not sub.is_crashed: queue.append(id)
\* (a destructor runs whenever the object is collected, possibly in the middle of another
\*  script's request; it only appends to the deque, which is safe at every pc)
DropScript(k) ==
  /\ scr[k].st = "live" /\ k # cur.script
  /\ scr' = [scr EXCEPT ![k].st = "dead"]
  /\ sub' = IF scr[k].used /\ ~sub[scr[k].sub].crashed
            THEN [sub EXCEPT ![scr[k].sub].queue = Append(@, scr[k].addr)]
            ELSE sub
  /\ UNCHANGED <<nsub, envsub, got, nscr, pc, cur, wire, calls, crashes, raises, last, fails, detected>>

\* weakref.finalize(self, _cleanup_process, ...) when the CompiledSubprocess is collected
Referenced(s) == s = envsub \/ s = got \/ (\E k \in Scripts : scr[k].st = "live" /\ scr[k].sub = s) \/ cur.sub = s
GC_Sub(s) ==
  /\ pc = "idle" /\ sub[s].exists /\ ~Referenced(s) /\ ~sub[s].cleaned
  /\ sub' = [sub EXCEPT ![s].cleaned = TRUE, ![s].alive = FALSE]
  /\ UNCHANGED <<nsub, envsub, got, scr, nscr, pc, cur, wire, calls, crashes, raises, last, fails, detected>>

---------------------------------------------------------------------------
(* Faults *)
Crash(s) ==
  /\ crashes < MaxCrashes /\ sub[s].exists /\ sub[s].alive /\ ~sub[s].cleaned
  /\ crashes' = crashes + 1
  /\ sub' = [sub EXCEPT ![s].alive = FALSE]
  /\ UNCHANGED <<nsub, envsub, got, scr, nscr, pc, cur, wire, calls, raises, last, fails, detected>>

\* the helper has handled the request and dies half-way through writing the reply
CrashWhileReplying ==
  /\ crashes < MaxCrashes
  /\ pc = "wait" /\ wire[cur.sub] \in {"reply", "exc"} /\ sub[cur.sub].alive
  /\ crashes' = crashes + 1
  /\ sub' = [sub EXCEPT ![cur.sub].alive = FALSE]
  /\ wire' = [wire EXCEPT ![cur.sub] = "part"]
  /\ UNCHANGED <<nsub, envsub, got, scr, nscr, pc, cur, calls, raises, last, fails, detected>>

ProtocolStep == Run_DrainPop \/ Run_DrainDone \/ Send_CheckCrashed \/ Send_Dump \/ Listener_Run \/ Send_Load
Next ==
  \/ GetSubprocess_Reuse \/ GetSubprocess_Spawn \/ PlainCall
  \/ \E a \in Addrs : NewISS(a)
  \/ \E k \in Scripts, r \in BOOLEAN : BeginCall(k, r)
  \/ ProtocolStep
  \/ \E k \in Scripts : DropScript(k)
  \/ \E s \in Subs : GC_Sub(s) \/ Crash(s)
  \/ CrashWhileReplying

Spec == Init /\ [][Next]_vars /\ WF_vars(ProtocolStep)

---------------------------------------------------------------------------
(* Properties *)
TypeOK ==
  /\ pc \in {"idle", "drain", "check", "dump", "wait"}
  /\ envsub \in 0..MaxSubs /\ got \in 0..MaxSubs /\ nsub \in 0..MaxSubs /\ nscr \in 0..MaxScripts
  /\ \A s \in Subs : wire[s] \in {"none", "req", "reply", "exc", "part"}

\* "the failure is jedi's InternalError and nothing else" (RemoteExc only when injected)
OnlyInternalError == last \in {"none", "ok", "InternalError", "RemoteExc"}
\* the same, leaving out the named deviation HandshakeWraps
OnlyInternalError_ExceptHandshake == last \in {"none", "ok", "InternalError", "RemoteExc", "InvalidPythonEnvironment"}
\* "that death makes at most one query fail"
AtMostOnePerCrash == fails <= crashes
\* a failure is always the detection of a crash
FailureMeansDetected == fails = detected
\* "no query hangs": whenever an RPC is in flight some protocol step can be taken
NoHang == pc # "idle" => ENABLED ProtocolStep
Terminates == (pc # "idle") ~> (pc = "idle")
\* "every later Script transparently gets a new helper": a script is never created on a
\* helper that is known to be crashed
BoundToUncrashedAtCreation ==
  [][\A k \in Scripts : (scr[k].st = "none" /\ scr'[k].st = "live") => ~sub'[scr'[k].sub].crashed]_vars
\* "dead helpers are reaped (no zombies, no leaked pipes)"
Reaped == \A s \in Subs : sub[s].crashed => sub[s].cleaned /\ ~sub[s].alive
\* once idle, a dead helper that is not reaped is one whose death has not been noticed yet
NoUnnoticedAfterFailure ==
  (pc = "idle" /\ last \in {"InternalError", "InvalidPythonEnvironment"} /\ envsub # NoSub)
     => (sub[envsub].crashed \/ sub[envsub].alive \/ crashes > detected)
\* "helper-side state of discarded Scripts is released": a helper holds states only for live used
\* scripts bound to it, ids waiting in the deletion queue, and the request in flight
QueueSet(s) == {sub[s].queue[i] : i \in 1..Len(sub[s].queue)}
StatesReleased ==
  \A s \in Subs : sub[s].alive =>
    sub[s].hstates \subseteq
      ({scr[k].addr : k \in {j \in Scripts : scr[j].st = "live" /\ scr[j].used /\ scr[j].sub = s}}
       \cup QueueSet(s) \cup (IF cur.sub = s THEN {cur.addr} ELSE {}))
\* a deletion request always finds its state (otherwise an unrelated query fails with KeyError)
DeleteNeverFails == last # "KeyError"
\* the deletion queue never holds an id twice and never the id of a live used script's state
\* that is still needed -- except through address reuse, which the drain-before-send order makes safe
QueueNoDup == \A s \in Subs : Cardinality(QueueSet(s)) = Len(sub[s].queue)

\* Action constraint used when behaviours are generated for replay on the real objects: only the
\* points at which the harness can act (the value returned by _get_subprocess is used at once, a
\* destructor runs at idle, each script gets a fresh address so that ids map one to one).
SimControllable ==
  /\ (got # NoSub => got' = NoSub)
  /\ ((\E k \in Scripts : scr[k].st = "live" /\ scr'[k].st = "dead") => (pc = "idle" /\ got = NoSub))
  /\ (nscr' = nscr + 1 => scr'[nscr'].addr = nscr')
=============================================================================
