INIT TInit
NEXT TNext
CONSTANTS
  MaxCands = 0
  MaxFrag = 0
  EmitMod = 1
  EmitRem = 0
CONSTRAINT Verdict
CHECK_DEADLOCK FALSE
