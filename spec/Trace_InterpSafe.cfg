INIT TInit
NEXT TNext
CONSTANTS
  MaxPath = 0
  EmitMod = 1
  EmitRem = 0
  Fixed = {}
CONSTRAINT Verdict
CHECK_DEADLOCK FALSE
