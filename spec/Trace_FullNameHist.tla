------------------------ MODULE Trace_FullNameHist ------------------------
(* C18, full_name along a history of package-structure changes.  One process analyses the same file
   (default project: jedi.Script(code, path=p)) after every change of the directories above it
   (__init__.py added / removed).  Reference, independent of jedi: the module part of full_name is the
   dotted path from the first ancestor directory WITHOUT an __init__.py (Python's package rule for the
   files as they are now); the rest is the definition's __qualname__ (from the ast).
     [step, got, want]     got / want as code-point sequences; got = <<>> for None           *)
EXTENDS Naturals, Sequences, FiniteSets, TLC, Json, IOUtils

Traces == JsonDeserialize(IOEnv.TRACE_FILE)
VARIABLES tid, l
Ev == Traces[tid][l]
Why(e) == IF e.got = e.want THEN {} ELSE {"FullNameNotFromCurrentPackages"}
TInit == tid \in 1..Len(Traces) /\ l = 1
TNext == l <= Len(Traces[tid]) /\ (Why(Ev) = {}) = TRUE /\ l' = l + 1 /\ UNCHANGED tid
Verdict ==
  IF l = Len(Traces[tid]) + 1 THEN PrintT(<<"ACCEPT", tid>>)
  ELSE (Why(Ev) = {}) \/ PrintT(<<"REJECT", tid, l, Why(Ev)>>)
=============================================================================
