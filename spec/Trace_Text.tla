--------------------------- MODULE Trace_Text ---------------------------
(* Code -> spec for C01: every recorded query (any method, any position, on corpus
   prefixes, edits and token soups) must satisfy Total of Text.tla: the response class is
   "ok" or "ValueError", "ok" when the position is inside the text and "ValueError" when it
   is outside.  An event carries the line structure at the queried line:
   [nlines, len, brk, line, col1 (= column + 1, so that -1 is representable), out].        *)
EXTENDS Naturals, Sequences, FiniteSets, TLC, Json, IOUtils

CONSTANTS NTok, MaxLen, MaxEdits, MaxPrefix, EmitMod, EmitRem
VARIABLES text, edits
INSTANCE Text

Traces == JsonDeserialize(IOEnv.TRACE_FILE)
VARIABLES tid, l

\* the one-line view of the buffer that an event carries
In(e)  == e.posless \/ (e.line >= 1 /\ e.line <= e.nlines /\ e.col1 >= 1 /\ e.col1 - 1 <= e.len)
Gr(e)  == ~e.posless /\ e.line >= 1 /\ e.line <= e.nlines /\ e.brk = CR /\ e.col1 - 1 = e.len + 1
Why(e) == (IF e.out \notin {"ok", "ValueError"} THEN {"InternalException"} ELSE {})
     \cup (IF In(e) /\ e.out = "ValueError" THEN {"InsideRejected"} ELSE {})
     \cup (IF ~In(e) /\ ~Gr(e) /\ e.out = "ok" THEN {"OutsideAccepted"} ELSE {})

TInit == tid \in 1..Len(Traces) /\ l = 1 /\ text = <<>> /\ edits = 0
Ev == Traces[tid][l]
TNext == /\ l <= Len(Traces[tid])
         /\ (Why(Ev) = {}) = TRUE
         /\ l' = l + 1
         /\ UNCHANGED <<tid, text, edits>>
Verdict ==
  IF l = Len(Traces[tid]) + 1 THEN PrintT(<<"ACCEPT", tid>>)
  ELSE (Why(Ev) = {}) \/ PrintT(<<"REJECT", tid, l, Why(Ev)>>)
=============================================================================
