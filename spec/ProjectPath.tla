--------------------------- MODULE ProjectPath ---------------------------
(* C20 -- Project settings round-trip and shape sys.path as documented.

   A path STRING is modelled by its spelling  [abs, comps, ts]:
       abs   -- starts with "/"            comps -- the components (strings; "r" is the
       ts    -- has a trailing "/"                  directory that is the cwd of the client)
   so "/r/e1/" = Sp(TRUE, <<"r","e1">>, TRUE), "e1" = Sp(FALSE, <<"e1">>, FALSE), "" = Sp(FALSE,<<>>,FALSE).
   A constructor ARGUMENT is [sp, isPath]: the same spelling handed over as str or as pathlib.Path.
   A pathlib.Path OBJECT is a spelling with ts = FALSE (Path() drops a trailing slash).

   Python    = str(), Path(), Path.absolute(), Path.parents, `in`, == on these values
               (checked against CPython by the harness on every rendered case).
   Reference = the sentences of the property: Load(Save(p)) ~ p; no duplicates; project first when
               smart; base entries kept in order; added after base; ancestors after added and only
               inside the project; import precedence follows that order.
   Design    = transcription of jedi/api/project.py  Project.__init__, save, load, _get_base_sys_path,
               _get_sys_path, _remove_duplicates_from_path, get_default_project  and of the use
               Script / InferenceState.get_sys_path / Importer._sys_path_with_modifications make of it.
   Two deviations of the code from the Reference were found with this spec, confirmed on the real code
   and repaired in /repo (environment_path given as Path; relative Path project).  Their input shapes
   are named KF_*.  The constants FixEnvPath / FixRelProject = TRUE model the code as it is now; FALSE
   switches the Design back to the code before the repair (what-if runs of the check, which must fail). *)
EXTENDS Naturals, Sequences, FiniteSets, TLC, Json

CONSTANTS MaxSys, MaxAdded, MaxDepth,   \* bounds of the input space
          MaxChain,                     \* directories in a discovery chain
          SysIdx, AddedIdx,             \* which pool entries may appear in sys_path / added_sys_path
          EmitMod, EmitRem,             \* slice of the cases printed for replay
          FixEnvPath,                   \* TRUE: code as it is; FALSE: before the repair (environment_path stored as given)
          FixRelProject                 \* TRUE: code as it is; FALSE: before the repair (only a str path made absolute)

---------------------------------------------------------------------------
(* Python: the semantics of the values involved *)
CWD == <<"r">>
Sp(abs, comps, ts) == [abs |-> abs, comps |-> comps, ts |-> ts]
Arg(sp, isPath)    == [sp |-> sp, isPath |-> isPath]
EmptyStr == Sp(FALSE, <<>>, FALSE)

PyPath(sp)     == [sp EXCEPT !.ts = FALSE]                                  \* Path(s)
PyStr(arg)     == IF arg.isPath THEN PyPath(arg.sp) ELSE arg.sp             \* str(x)
PyAbsolute(sp) == Sp(TRUE, IF sp.abs THEN sp.comps ELSE CWD \o sp.comps, FALSE)   \* Path(s).absolute()
IsProperPrefix(a, b) == Len(a) < Len(b) /\ SubSeq(b, 1, Len(a)) = a
PyPathEq(x, y)    == x.abs = y.abs /\ x.comps = y.comps                     \* Path == Path
PyInParents(x, y) == x.abs = y.abs /\ IsProperPrefix(x.comps, y.comps)      \* x in y.parents
\* y.parents: nearest first, down to the root "/" (or "." for a relative path)
PyParents(y) == [i \in 1..Len(y.comps) |-> Sp(y.abs, SubSeq(y.comps, 1, Len(y.comps) - i), FALSE)]
MapStr(args) == [i \in 1..Len(args) |-> PyStr(args[i])]                     \* list(map(str, xs))

SetOf(seq) == {seq[i] : i \in 1..Len(seq)}
Reverse(seq) == [i \in 1..Len(seq) |-> seq[Len(seq) + 1 - i]]

---------------------------------------------------------------------------
(* Reference *)

\* the directory a string names for a process whose cwd is CWD
Denotes(s) == PyAbsolute(s).comps

RECURSIVE Restrict(_, _)
Restrict(seq, S) == IF seq = <<>> THEN <<>>
                    ELSE (IF Head(seq) \in S THEN <<Head(seq)>> ELSE <<>>) \o Restrict(Tail(seq), S)
\* first occurrences, by index (independent of the Design's `used` set loop)
IsFirst(seq, i)  == \A j \in 1..(i - 1) : seq[j] # seq[i]
RECURSIVE FirstOccFrom(_, _)
FirstOccFrom(seq, i) == IF i > Len(seq) THEN <<>>
                        ELSE (IF IsFirst(seq, i) THEN <<seq[i]>> ELSE <<>>) \o FirstOccFrom(seq, i + 1)
FirstOccRef(seq) == FirstOccFrom(seq, 1)
NoDup(seq) == Cardinality(SetOf(seq)) = Len(seq)

(* in = [proj   : comps of the project directory,
         smart  : BOOLEAN, explicit : BOOLEAN,
         given  : Seq(string)  the explicit sys_path as strings, or the environment's sys.path,
         added  : Seq(string),
         script : <<>> | <<comps of the script file>>,
         inits  : set of comps (directories that contain __init__.py)]                          *)
Pset(R, in)  == IF in.smart /\ R # <<>> THEN {R[1]} ELSE {}
Bopt(in)     == SetOf(in.given)
\* '' in an environment's sys.path means "cwd of that interpreter"; it may be dropped
Bmust(in)    == IF in.explicit THEN SetOf(in.given) ELSE SetOf(in.given) \ {EmptyStr}
AncSeq(in)   == IF in.script = <<>> THEN <<>>
                ELSE LET f == in.script[1] IN
                     IF IsProperPrefix(in.proj, f)
                     THEN [i \in 1..(Len(f) - 1 - Len(in.proj)) |-> SubSeq(f, 1, Len(in.proj) + i)]
                     ELSE <<>>
AncAll(in)   == SetOf(AncSeq(in))                \* ancestor directories strictly inside the project
AncOn(in, addParent) == in.smart /\ in.script # <<>> /\ addParent
AncReq(in, addParent, addInit) ==
  IF AncOn(in, addParent) THEN (IF addInit THEN AncAll(in) ELSE AncAll(in) \ in.inits) ELSE {}
Rank(x, R, in) == IF x \in Pset(R, in) THEN 0 ELSE IF x \in Bopt(in) THEN 1
                  ELSE IF x \in SetOf(in.added) THEN 2 ELSE 3
\* an entry that may be dropped from the base ('' of an environment) and is also an added entry may stand
\* in either place: its rank is an interval
RankLo(x, R, in) == Rank(x, R, in)
RankHi(x, R, in) == IF x \in (Bopt(in) \ Bmust(in)) \ Pset(R, in) /\ x \in SetOf(in.added) THEN 2
                    ELSE Rank(x, R, in)

C_NoDup(R)             == NoDup(R)
C_ProjectFirst(R, in)  == in.smart => (R # <<>> /\ Denotes(R[1]) = in.proj)
C_BaseKept(R, in)      == /\ Bmust(in) \subseteq SetOf(R)
                          /\ LET S == Bmust(in) \ Pset(R, in)
                             IN Restrict(R, S) = Restrict(FirstOccRef(in.given), S)
C_AddedKept(R, in)     == /\ SetOf(in.added) \subseteq SetOf(R)
                          /\ LET S == SetOf(in.added) \ (Bopt(in) \cup Pset(R, in))
                             IN Restrict(R, S) = Restrict(FirstOccRef(in.added), S)
\* project, then base, then added, then ancestors
C_Sorted(R, in)        == \A i \in 1..Len(R) : \A j \in (i + 1)..Len(R) : RankLo(R[i], R, in) <= RankHi(R[j], R, in)
C_Ancestors(R, in, addParent, addInit) ==
                          \A d \in AncReq(in, addParent, addInit) : \E i \in 1..Len(R) : Denotes(R[i]) = d
C_OnlyInside(R, in, addParent) ==
                          \A i \in 1..Len(R) : Rank(R[i], R, in) = 3 =>
                             (AncOn(in, addParent) /\ Denotes(R[i]) \in AncAll(in))

RefSysPathOK(R, in, addParent, addInit) ==
  /\ C_NoDup(R) /\ C_ProjectFirst(R, in) /\ C_BaseKept(R, in) /\ C_AddedKept(R, in)
  /\ C_Sorted(R, in) /\ C_Ancestors(R, in, addParent, addInit) /\ C_OnlyInside(R, in, addParent)

WhySysPath(R, in, addParent, addInit) ==
       (IF ~C_NoDup(R) THEN {"NoDup"} ELSE {})
  \cup (IF ~C_ProjectFirst(R, in) THEN {"ProjectFirst"} ELSE {})
  \cup (IF ~C_BaseKept(R, in) THEN {"BaseKept"} ELSE {})
  \cup (IF ~C_AddedKept(R, in) THEN {"AddedKept"} ELSE {})
  \cup (IF ~C_Sorted(R, in) THEN {"Order"} ELSE {})
  \cup (IF ~C_Ancestors(R, in, addParent, addInit) THEN {"Ancestors"} ELSE {})
  \cup (IF ~C_OnlyInside(R, in, addParent) THEN {"OnlyInside"} ELSE {})

(* ImportUsesIt.  H = the directories that hold a module m.  A string on the path holds m when it is
   absolute and names a directory of H (relative entries are resolved by the helper interpreter
   against its own cwd, which the harness keeps empty).  w = <<>> | <<directory m was found in>>.  *)
Holding(x, H) == x.abs /\ x.comps \in H
FirstHolding(seq, H) ==
  IF \E i \in 1..Len(seq) : Holding(seq[i], H)
  THEN <<seq[CHOOSE i \in 1..Len(seq) : Holding(seq[i], H) /\ \A j \in 1..(i - 1) : ~Holding(seq[j], H)].comps>>
  ELSE <<>>
\* precedence demanded by the property: project (if smart), base in order, added in order, then ancestors
RefHead(in) == (IF in.smart THEN <<Sp(TRUE, in.proj, FALSE)>> ELSE <<>>) \o in.given \o in.added
C_ImportHead(w, in, H) == FirstHolding(RefHead(in), H) # <<>> => w = FirstHolding(RefHead(in), H)
C_ImportAnc(w, in, H)  == FirstHolding(RefHead(in), H) = <<>> =>
                            IF AncOn(in, TRUE) /\ AncAll(in) \cap H # {}
                            THEN w # <<>> /\ w[1] \in AncAll(in) \cap H
                            ELSE w = <<>>
RefWinnerOK(w, in, H) == C_ImportHead(w, in, H) /\ C_ImportAnc(w, in, H)
\* "... and this path is what import resolution uses": R = the composed path observed on the same Script
C_ImportUsesPath(w, R, H) == w = FirstHolding(R, H)

(* Round trip.  p, q = the attributes of the original and of the loaded project:
   [path : Path object, envp : <<>> | <<Arg>>, sysp : <<>> | <<Seq(string)>>, added : Seq(string),
    smart, unsafe : BOOLEAN].  "Same" is equality of values; for path-like values equality of the
    path they name (so a repair may normalise Path -> str or relative -> absolute).             *)
SameDir(x, y)  == Denotes(x) = Denotes(y)
SameEnvp(a, b) == IF a = <<>> \/ b = <<>> THEN a = b ELSE PyStr(a[1]) = PyStr(b[1])
C_SaveOK(err)       == err = "ok"
C_LoadOK(err)       == err = "ok"
C_SamePath(p, q)    == SameDir(p.path, q.path)
C_SameSettings(p, q) == /\ p.sysp = q.sysp /\ p.added = q.added /\ p.smart = q.smart
                        /\ p.unsafe = q.unsafe /\ SameEnvp(p.envp, q.envp)
\* rt = [save : "ok"|exception name, load : "ok"|exception name|"-", q : attributes | <<>>]
RefRoundTripOK(p, rt) == /\ C_SaveOK(rt.save) /\ C_LoadOK(rt.load)
                         /\ C_SamePath(p, rt.q) /\ C_SameSettings(p, rt.q)
WhyRoundTrip(p, rt) ==
  IF ~C_SaveOK(rt.save) THEN {"SaveRaises"}
  ELSE IF ~C_LoadOK(rt.load) THEN {"LoadRaises"}
  ELSE (IF ~C_SamePath(p, rt.q) THEN {"Path"} ELSE {})
       \cup (IF ~C_SameSettings(p, rt.q) THEN {"Settings"} ELSE {})

\* discovery (get_default_project docstring: "traverses folders until it finds" a saved configuration
\* or a project marker): the nearest saved configuration at or above the script's directory is the
\* one loaded, unless a Django project (manage.py) lies nearer
RefDiscoverOK(chain, res) ==
  \A i \in 1..Len(chain) :
     (chain[i].json /\ \A j \in 1..(i - 1) : ~chain[j].json /\ ~chain[j].django)
        => (res.how = "load" /\ res.idx = i)

---------------------------------------------------------------------------
(* Design: jedi/api/project.py *)

\* Project.__init__.  a = [path : Arg, envp : <<>>|<<Arg>>, sysp : <<>>|<<Seq(Arg)>>, added : Seq(Arg),
\*                         smart, unsafe]
DesignInit(a) ==
  [path   |-> \* `self._path = Path(path).absolute()`.  Before the repair (KF_RelProject, FixRelProject = FALSE):
              \* `if isinstance(path, str): ...` -- a pathlib.Path was stored as given, a relative one stayed relative
              IF ~a.path.isPath \/ FixRelProject THEN PyAbsolute(a.path.sp) ELSE PyPath(a.path.sp),
   envp   |-> \* `None if environment_path is None else str(environment_path)`.  Before the repair (KF_EnvPath,
              \* FixEnvPath = FALSE): stored as given, so a Path made json.dump raise in save()
              IF a.envp = <<>> THEN <<>>
              ELSE IF FixEnvPath THEN <<Arg(PyStr(a.envp[1]), FALSE)>> ELSE a.envp,
   sysp   |-> IF a.sysp = <<>> THEN <<>> ELSE <<MapStr(a.sysp[1])>>,   \* list(map(str, sys_path))
   added  |-> MapStr(a.added),                                          \* list(map(str, added_sys_path))
   smart  |-> a.smart, unsafe |-> a.unsafe, django |-> FALSE]

\* Project.save: dict(self.__dict__) minus _environment/_django, keys lstrip('_'), path -> str, json.dump
Attr(us, base) == [us |-> us, base |-> base]
ProjAttrs(envSet) == {Attr(1, "path"), Attr(1, "environment_path"), Attr(1, "sys_path"),
                      Attr(1, "smart_sys_path"), Attr(1, "load_unsafe_extensions"), Attr(1, "django"),
                      Attr(0, "added_sys_path")}
                     \cup (IF envSet THEN {Attr(1, "environment")} ELSE {})   \* set by get_environment()
Lstrip(n) == n.base
SavedKeys(envSet) == {Lstrip(n) : n \in ProjAttrs(envSet) \ {Attr(1, "environment"), Attr(1, "django")}}
InitParams == {"path", "environment_path", "load_unsafe_extensions", "sys_path", "added_sys_path",
               "smart_sys_path"}
\* after __init__ and `data['path'] = str(..)` every value is str / list of str / bool / None,
\* except environment_path, which is whatever the caller passed
JsonSerialisable(p) == p.envp = <<>> \/ ~p.envp[1].isPath
StrArgs(strs) == [i \in 1..Len(strs) |-> Arg(strs[i], FALSE)]
DesignSave(p, envSet) ==
  IF JsonSerialisable(p)
  THEN [err |-> "ok", keys |-> SavedKeys(envSet),
        data |-> [path |-> Arg(p.path, FALSE), envp |-> p.envp,
                  sysp |-> IF p.sysp = <<>> THEN <<>> ELSE <<StrArgs(p.sysp[1])>>,
                  added |-> StrArgs(p.added), smart |-> p.smart, unsafe |-> p.unsafe]]
  ELSE [err |-> "TypeError", keys |-> {}, data |-> <<>>]   \* json.dump raises half-way through the file
\* Project.load: cls(**data)
DesignLoad(s) == IF s.keys \subseteq InitParams /\ "path" \in s.keys
                 THEN [err |-> "ok", q |-> DesignInit(s.data)]
                 ELSE [err |-> "TypeError", q |-> <<>>]
DesignRoundTrip(p, envSet) ==
  LET s == DesignSave(p, envSet) IN
  IF s.err # "ok" THEN [save |-> s.err, load |-> "-", q |-> <<>>]
  ELSE LET l == DesignLoad(s) IN [save |-> "ok", load |-> l.err, q |-> l.q]

\* _remove_duplicates_from_path
RECURSIVE RemoveDup(_, _)
RemoveDup(path, used) ==
  IF path = <<>> THEN <<>>
  ELSE IF Head(path) \in used THEN RemoveDup(Tail(path), used)
       ELSE <<Head(path)>> \o RemoveDup(Tail(path), used \cup {Head(path)})

\* _get_base_sys_path: list.remove('') removes the first '' only
RECURSIVE RemoveFirst(_, _)
RemoveFirst(seq, x) == IF seq = <<>> THEN <<>>
                       ELSE IF Head(seq) = x THEN Tail(seq) ELSE <<Head(seq)>> \o RemoveFirst(Tail(seq), x)
DesignBaseSysPath(envSysPath) == RemoveFirst(envSysPath, EmptyStr)

\* the upward loop of _get_sys_path over script_path.parents
RECURSIVE Traverse(_, _, _, _)
Traverse(parents, projPath, inits, addInit) ==
  IF parents = <<>> THEN <<>>
  ELSE LET d == Head(parents) IN
       IF PyPathEq(d, projPath) \/ ~PyInParents(projPath, d) THEN <<>>                     \* break
       ELSE IF ~addInit /\ d.comps \in inits THEN Traverse(Tail(parents), projPath, inits, addInit)  \* continue
       ELSE <<d>> \o Traverse(Tail(parents), projPath, inits, addInit)

Buildout == <<>>     \* discover_buildout_paths: no buildout.cfg above the script (assumption of the check)

\* _get_sys_path(inference_state, add_parent_paths, add_init_paths); script = <<>> | <<Path object>>
DesignSysPath(p, envSysPath, script, inits, addParent, addInit) ==
  LET sysPath == IF p.sysp = <<>> THEN DesignBaseSysPath(envSysPath) ELSE p.sysp[1]
      prefixed == (IF p.smart THEN <<p.path>> ELSE <<>>) \o (IF p.django THEN <<p.path>> ELSE <<>>)
      suffixed == p.added
                  \o (IF p.smart /\ script # <<>>
                      THEN Buildout \o (IF addParent
                                        THEN Reverse(Traverse(PyParents(script[1]), p.path, inits, addInit))
                                        ELSE <<>>)
                      ELSE <<>>)
  IN RemoveDup(prefixed \o sysPath \o suffixed, {})

\* Importer._sys_path_with_modifications(is_completion=False) = get_sys_path(add_init_paths=True);
\* the helper's find_spec walks it in order
DesignWinner(p, envSysPath, script, inits, H) ==
  FirstHolding(DesignSysPath(p, envSysPath, script, inits, TRUE, TRUE), H)

\* get_default_project: chain = the directories from the script's directory upwards,
\* each [json, init, django, marker : BOOLEAN]
RECURSIVE Disc(_, _, _, _)
Disc(chain, i, probable, firstNoInit) ==
  IF i > Len(chain)
  THEN IF probable # 0 THEN [idx |-> probable, how |-> "marker"]
       ELSE IF firstNoInit # 0 THEN [idx |-> firstNoInit, how |-> "noinit"]
       ELSE [idx |-> 1, how |-> "cur"]
  ELSE LET d == chain[i] IN
       IF d.json THEN [idx |-> i, how |-> "load"]
       ELSE IF firstNoInit = 0 /\ d.init THEN Disc(chain, i + 1, probable, firstNoInit)    \* continue
       ELSE LET f == IF firstNoInit = 0 THEN i ELSE firstNoInit IN
            IF d.django THEN [idx |-> i, how |-> "django"]
            ELSE Disc(chain, i + 1, IF probable = 0 /\ d.marker THEN i ELSE probable, f)
DesignDiscover(chain) == Disc(chain, 1, 0, 0)


---------------------------------------------------------------------------
(* Bounded model: the state space is the input space, built by actions. *)

R_  == "r"
P_  == <<"r", "p">>
DNames == <<"d1", "d2", "d3", "d4">>
Dn(k) == SubSeq(DNames, 1, k)

\* the pool the two lists draw from: plain entries, the same directory in several spellings
\* (Path / trailing slash / relative), the project, ancestors of the script, nested entries
PoolSeq == <<
  Arg(Sp(TRUE,  <<"r", "e1">>, FALSE), FALSE),            \*  1  "/r/e1"
  Arg(Sp(TRUE,  <<"r", "e2">>, FALSE), FALSE),            \*  2  "/r/e2"
  Arg(Sp(TRUE,  P_, FALSE), FALSE),                       \*  3  the project directory
  Arg(Sp(TRUE,  P_ \o Dn(1), FALSE), FALSE),              \*  4  first ancestor of the script
  Arg(Sp(TRUE,  <<"r", "e1">>, FALSE), TRUE),             \*  5  Path("/r/e1")
  Arg(Sp(TRUE,  <<"r", "e1">>, TRUE), FALSE),             \*  6  "/r/e1/"
  Arg(EmptyStr, FALSE),                                   \*  7  ""
  Arg(Sp(TRUE,  <<"r", "e1", "sub">>, FALSE), FALSE),     \*  8  nested in entry 1
  Arg(Sp(TRUE,  <<"r", "a1">>, FALSE), FALSE),            \*  9  "/r/a1"
  Arg(Sp(TRUE,  P_ \o Dn(2), TRUE), TRUE),                \* 10  Path("/r/p/d1/d2/")
  Arg(Sp(FALSE, <<"e1">>, FALSE), FALSE),                 \* 11  "e1" (relative)
  Arg(Sp(TRUE,  P_, TRUE), FALSE),                        \* 12  "/r/p/"
  Arg(Sp(TRUE,  <<"r", "p2">>, FALSE), FALSE),            \* 13  sibling whose name extends the project's
  Arg(Sp(FALSE, <<"p">>, FALSE), TRUE) >>                 \* 14  Path("p")

ProjForms == <<
  Arg(Sp(TRUE,  P_, FALSE), FALSE),       \* 1 str, absolute
  Arg(Sp(TRUE,  P_, FALSE), TRUE),        \* 2 Path, absolute
  Arg(Sp(FALSE, <<"p">>, FALSE), FALSE),  \* 3 str, relative
  Arg(Sp(FALSE, <<"p">>, FALSE), TRUE),   \* 4 Path, relative
  Arg(Sp(TRUE,  P_, TRUE), FALSE) >>      \* 5 str, trailing slash
EnvpForms == <<
  <<>>,                                                            \* 1 None
  <<Arg(Sp(TRUE, <<"r", "venv", "bin", "python">>, FALSE), FALSE)>>,   \* 2 str
  <<Arg(Sp(TRUE, <<"r", "venv", "bin", "python">>, FALSE), TRUE)>> >>  \* 3 Path
Kinds == {"none", "in", "sib", "up"}

VARIABLES phase, form, smart, explicit, base, added, envp, unsafe, kind, inits
vars == <<phase, form, smart, explicit, base, added, envp, unsafe, kind, inits>>

Init == /\ phase = "proj" /\ form = 1 /\ smart = TRUE /\ explicit = FALSE /\ base = <<>> /\ added = <<>>
        /\ envp = 1 /\ unsafe = FALSE /\ kind = "none" /\ inits = <<>>

ChooseProject(f, s, e) ==
  /\ phase = "proj" /\ phase' = "lists" /\ form' = f /\ smart' = s /\ explicit' = e
  /\ UNCHANGED <<base, added, envp, unsafe, kind, inits>>
AddBase(i) ==
  /\ phase = "lists" /\ added = <<>> /\ Len(base) < MaxSys
  /\ (explicit \/ ~PoolSeq[i].isPath) = TRUE       \* an environment's sys.path holds strings only
  /\ base' = Append(base, i)
  /\ UNCHANGED <<phase, form, smart, explicit, added, envp, unsafe, kind, inits>>
AddAdded(i) ==
  /\ phase = "lists" /\ Len(added) < MaxAdded
  /\ added' = Append(added, i)
  /\ UNCHANGED <<phase, form, smart, explicit, base, envp, unsafe, kind, inits>>
\* the settings only the round trip reads (the composition of sys.path does not mention them)
ChooseSettings(ep, u) ==
  /\ phase = "lists" /\ phase' = "settings" /\ envp' = ep /\ unsafe' = u
  /\ UNCHANGED <<form, smart, explicit, base, added, kind, inits>>
\* where the script lives; descending one directory at a time, with or without __init__.py
ChooseKind(k) ==
  /\ phase = "lists" /\ k # "none" /\ phase' = "loc" /\ kind' = k
  /\ UNCHANGED <<form, smart, explicit, base, added, envp, unsafe, inits>>
Descend(b) ==
  /\ phase = "loc" /\ kind \in {"in", "sib"} /\ Len(inits) < MaxDepth
  /\ inits' = Append(inits, b)
  /\ UNCHANGED <<phase, form, smart, explicit, base, added, envp, unsafe, kind>>

Next == \/ \E f \in 1..Len(ProjForms) : \E s \in BOOLEAN : \E e \in BOOLEAN : ChooseProject(f, s, e)
        \/ \E i \in SysIdx : AddBase(i)
        \/ \E i \in AddedIdx : AddAdded(i)
        \/ \E ep \in 1..Len(EnvpForms) : \E u \in BOOLEAN : ChooseSettings(ep, u)
        \/ \E k \in Kinds : ChooseKind(k)
        \/ \E b \in BOOLEAN : Descend(b)

---------------------------------------------------------------------------
(* The case denoted by a state *)
BaseArgs  == [i \in 1..Len(base) |-> PoolSeq[base[i]]]
AddedArgs == [i \in 1..Len(added) |-> PoolSeq[added[i]]]
Args == [path |-> ProjForms[form], envp |-> EnvpForms[envp],
         sysp |-> IF explicit THEN <<BaseArgs>> ELSE <<>>,
         added |-> AddedArgs, smart |-> smart, unsafe |-> unsafe]
EnvSysPath == IF explicit THEN <<>> ELSE MapStr(BaseArgs)
ScriptDir == IF kind = "in" THEN P_ \o Dn(Len(inits))
             ELSE IF kind = "sib" THEN <<"r", "p2">> \o Dn(Len(inits))
             ELSE <<"r">>
Script == IF kind = "none" THEN <<>> ELSE <<Sp(TRUE, ScriptDir \o <<"s.py">>, FALSE)>>
InitDirs == {SubSeq(ScriptDir, 1, 2 + i) : i \in {j \in 1..Len(inits) : inits[j]}}

InitIdx == SelectSeq([j \in 1..Len(inits) |-> j], LAMBDA j : inits[j])
Proj == DesignInit(Args)
In == [proj |-> Denotes(Args.path.sp), smart |-> smart, explicit |-> explicit,
       given |-> MapStr(BaseArgs), added |-> MapStr(AddedArgs),
       script |-> IF Script = <<>> THEN <<>> ELSE <<Script[1].comps>>, inits |-> InitDirs]
SysPath(addParent, addInit) == DesignSysPath(Proj, EnvSysPath, Script, InitDirs, addParent, addInit)
RoundTrip(envSet) == DesignRoundTrip(Proj, envSet)

\* the directories a module m may be planted in: everything absolute on the import path, the
\* ancestors, the project, the script's own directory
AbsComps(R) == LET a == SelectSeq(R, LAMBDA x : x.abs) IN [i \in 1..Len(a) |-> a[i].comps]
CandOf(r1) == FirstOccRef(AbsComps(r1) \o AncSeq(In) \o <<In.proj>>
                          \o (IF kind = "none" THEN <<>> ELSE <<ScriptDir>>))
CandSeq == CandOf(SysPath(TRUE, TRUE))
Winner(H) == DesignWinner(Proj, EnvSysPath, Script, InitDirs, H)

\* the input shapes of the two confirmed (and since repaired) deviations
KF_EnvPath    == Args.envp # <<>> /\ Args.envp[1].isPath
KF_RelProject == Args.path.isPath /\ ~Args.path.sp.abs

RoundTripStrict == \A envSet \in BOOLEAN : RefRoundTripOK(Proj, RoundTrip(envSet))
SysPathStrict   == \A ap \in BOOLEAN : \A ai \in BOOLEAN : RefSysPathOK(SysPath(ap, ai), In, ap, ai)
ImportStrict    == LET r1 == SysPath(TRUE, TRUE)      \* what DesignWinner walks (evaluated once per state)
                       cs == CandOf(r1)
                       inn == In
                   IN \A i \in 1..Len(cs) : \A j \in i..Len(cs) :
                        LET H == {cs[i], cs[j]} IN RefWinnerOK(FirstHolding(r1, H), inn, H)

\* Design |= Reference outside the known shapes (used while the deviations were unrepaired; with the Fix*
\* constants TRUE the check uses the *Strict invariants directly)
InvRoundTrip == ~KF_EnvPath => RoundTripStrict
InvSysPath   == ~KF_RelProject => SysPathStrict
InvImport    == ~KF_RelProject => ImportStrict
\* the known shapes are not vacuous: the Design really fails there while they are unrepaired
InvKnownEnvPath    == (KF_EnvPath /\ ~FixEnvPath) => ~RoundTripStrict
InvKnownRelProject == (KF_RelProject /\ ~FixRelProject /\ smart /\ kind = "in" /\ Len(inits) > 0
                       /\ base = <<>> /\ added = <<>>) => ~SysPathStrict
\* the variants differ only in the ancestors
InvVariants == /\ SysPath(FALSE, FALSE) = SysPath(FALSE, TRUE)
               /\ SetOf(SysPath(FALSE, FALSE)) \subseteq SetOf(SysPath(TRUE, FALSE))
               /\ SetOf(SysPath(TRUE, FALSE)) \subseteq SetOf(SysPath(TRUE, TRUE))

---------------------------------------------------------------------------
(* Discovery: a second, small state space in the same module (INIT DiscInit, NEXT DiscNext).
   `base` holds the chain from the start directory upwards, one number per directory:
   bit 0 .jedi/project.json, bit 1 __init__.py, bit 2 manage.py with DJANGO_SETTINGS_MODULE, bit 3 setup.py.
   Above the chain lies one plain directory (the root the harness builds the chain in).          *)
Bit(n, k) == (n \div k) % 2 = 1
ChainOf(ns) == [i \in 1..Len(ns) |-> [json |-> Bit(ns[i], 1), init |-> Bit(ns[i], 2),
                                       django |-> Bit(ns[i], 4), marker |-> Bit(ns[i], 8)]]
DiscChain == ChainOf(base \o <<0>>)
DiscInit == /\ phase = "disc" /\ form = 1 /\ smart = TRUE /\ explicit = FALSE /\ base = <<>> /\ added = <<>>
            /\ envp = 1 /\ unsafe = FALSE /\ kind = "none" /\ inits = <<>>
DiscNext == \E n \in 0..15 : /\ phase = "disc" /\ Len(base) < MaxChain /\ base' = Append(base, n)
                              /\ UNCHANGED <<phase, form, smart, explicit, added, envp, unsafe, kind, inits>>
InvDiscover == (phase = "disc" /\ base # <<>>) => RefDiscoverOK(DiscChain, DesignDiscover(DiscChain))

---------------------------------------------------------------------------
(* Emission of cases for replay *)
B2N(b) == IF b THEN 1 ELSE 0
RECURSIVE Hash(_)
Hash(s) == IF s = <<>> THEN 0 ELSE (s[1] + 17 * Hash(Tail(s))) % 100003
EmitDisc == (phase = "disc" /\ base # <<>> /\ Hash(base) % EmitMod = EmitRem) =>
              PrintT(<<"DISC", ToJson([chain |-> DiscChain, res |-> DesignDiscover(DiscChain)])>>)
CaseNo == form + 5 * B2N(smart) + 11 * B2N(explicit) + 13 * Hash(base) + 7 * Hash(added)
          + 3 * envp + B2N(unsafe) + 19 * Len(inits) + 23 * Hash([i \in 1..Len(inits) |-> B2N(inits[i])])
          + (IF kind = "in" THEN 29 ELSE IF kind = "sib" THEN 31 ELSE IF kind = "up" THEN 37 ELSE 0)
Case == [form |-> form, kindOf |-> kind, initsAt |-> inits, baseIdx |-> base, addedIdx |-> added,
         explicit |-> explicit, args |-> Args, env |-> EnvSysPath,
         script |-> IF Script = <<>> THEN <<>> ELSE <<Script[1].comps>>,
         initDirs |-> [i \in 1..Len(InitIdx) |-> SubSeq(ScriptDir, 1, 2 + InitIdx[i])],
         p |-> [path |-> Proj.path, envp |-> Proj.envp, sysp |-> Proj.sysp, added |-> Proj.added,
                smart |-> Proj.smart, unsafe |-> Proj.unsafe],
         rt |-> RoundTrip(FALSE),
         R0 |-> SysPath(TRUE, FALSE), R1 |-> SysPath(TRUE, TRUE), R2 |-> SysPath(FALSE, FALSE),
         cand |-> CandSeq,
         wins |-> LET r1 == SysPath(TRUE, TRUE)  cs == CandOf(r1)
                  IN [i \in 1..Len(cs) |-> [j \in 1..Len(cs) |-> FirstHolding(r1, {cs[i], cs[j]})]],
         inGiven |-> In.given, inAdded |-> In.added, inProj |-> In.proj, anc |-> AncSeq(In),
         kfEnvPath |-> KF_EnvPath, kfRelProject |-> KF_RelProject]
Emit == (CaseNo % EmitMod = EmitRem) => PrintT(<<"CASE", ToJson(Case)>>)

\* strict invariants that print the failing case (run with one worker; TLC stops at the first)
CexRoundTrip == RoundTripStrict \/ ~PrintT(<<"CEX", ToJson(Case)>>)
CexSysPath   == SysPathStrict \/ ~PrintT(<<"CEX", ToJson(Case)>>)
CexImport    == ImportStrict \/ ~PrintT(<<"CEX", ToJson(Case)>>)
=============================================================================
