"""Helpers shared by the property checks for driving the real jedi from /repo."""
import glob
import multiprocessing
import os
import sys
import traceback

from harness.core import REPO, crash_key

_ENV = None
_PROJ = {}


def env():
    global _ENV
    if _ENV is None:
        from jedi.api.environment import SameEnvironment
        _ENV = SameEnvironment()
    return _ENV


def project(path='/nonexistent_verif_project', **kw):
    import jedi
    key = (path, tuple(sorted(kw.items())))
    if key not in _PROJ:
        _PROJ[key] = jedi.Project(path, **kw)
    return _PROJ[key]


def script(code=None, path=None, proj=None):
    import jedi
    return jedi.Script(code, path=path, project=proj or project(), environment=env())


def enc(s):
    """str -> code-point list (TLC side text)."""
    return [ord(c) for c in s]


def dec(seq):
    return ''.join(chr(c) for c in seq)


def small_ints(s):
    """TLC ints are 32 bit and JsonDeserialize mangles >= 2^31; code points are < 2^21."""
    return all(ord(c) < 0x110000 for c in s)


def corpus_files(limit=None, rng=None):
    files = sorted(glob.glob(os.path.join(REPO, 'jedi', '**', '*.py'), recursive=True))
    files = [f for f in files if '/third_party/' not in f]
    if rng is not None:
        rng.shuffle(files)
    return files[:limit] if limit else files


def safe(fn, *a, **kw):
    """Run a jedi call; returns ('ok', value) | ('exc', exception, crash-key)."""
    try:
        return ('ok', fn(*a, **kw))
    except Exception as e:  # noqa
        return ('exc', e, crash_key(e))


# ---------------------------------------------------------------- parallel map
def _init_worker():
    global _ENV
    _ENV = None
    _PROJ.clear()
    # (the interpreter recursion limit is left alone: raising it to 3000 is jedi's own job at import -- C15)
    from harness.core import private_cache
    private_cache()


def _call(args):
    fn, item = args
    try:
        return fn(item)
    except Exception as e:  # machinery problem inside a worker: report, never hide
        return {'_worker_error': '%s: %s\n%s' % (type(e).__name__, e, traceback.format_exc()[-1500:])}


def pmap(fn, items, procs=None, chunksize=None):
    """Ordered parallel map with forked workers (fn must be a module-level function)."""
    items = list(items)
    if not items:
        return []
    procs = procs or min(14, max(1, len(items)))
    # always fork, even for a single item: running jedi in the parent would leave a helper process, its
    # stderr thread and a held lock behind, and the next pool's workers could deadlock on them
    ctx = multiprocessing.get_context('fork')
    with ctx.Pool(procs, initializer=_init_worker) as pool:
        cs = chunksize or max(1, len(items) // (procs * 8))
        return pool.map(_call, [(fn, it) for it in items], chunksize=cs)


def check_worker_errors(results):
    from harness.core import MachineryError
    for r in results:
        if isinstance(r, dict) and '_worker_error' in r:
            raise MachineryError('worker failed: ' + r['_worker_error'])
