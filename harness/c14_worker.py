"""Worker for C14: runs jobs against the real helper machinery in a fresh process with the
JEDI_VERIF hooks on.  Reads a JSON list of jobs from argv[1], writes results to argv[2].

Job kinds:
  campaign  {scenario, plan: {req index: fault}, nq}     queries on fresh Scripts under faults
  churn     {n, probe_every}                              create/drop n Scripts, observe helper states
  sim       {steps: [...]}                                macro steps derived from a TLC behaviour
"""
import gc
import json
import os
import signal
import sys
import tempfile

HERE = os.path.dirname(os.path.dirname(os.path.abspath(__file__)))
sys.path.insert(0, HERE)
REPO = os.environ.get('VERIF_REPO', '/repo')
sys.path.insert(0, REPO)
os.environ['JEDI_VERIF'] = '1'
os.environ['PYTHONPATH'] = REPO + os.pathsep + HERE

import jedi  # noqa: E402
from harness.core import private_cache  # noqa: E402
private_cache()
from jedi import _verif  # noqa: E402
from jedi.api.environment import SameEnvironment  # noqa: E402
from harness import helperfaults as hf  # noqa: E402

assert os.path.abspath(jedi.__file__).startswith(os.path.abspath(REPO) + os.sep), jedi.__file__
hf.install()

SCENARIOS = {
    'str_complete': ("x = 'a'\nx.", 'complete'),
    'int_infer': ("x = 1\nx", 'infer'),
    'import_json': ("import json\njson.lo", 'complete'),
    'builtin_complete': ("pri", 'complete'),
    'int_complete': ("y = 12\ny.re", 'complete'),
}
PROJECT = jedi.Project('/nonexistent_verif_c14')


class Hang(Exception):
    pass


def _alarm(signum, frame):
    raise Hang()


signal.signal(signal.SIGALRM, _alarm)


def with_watchdog(fn, seconds=30):
    signal.alarm(seconds)
    try:
        return fn()
    finally:
        signal.alarm(0)


def query(env, name):
    src, m = SCENARIOS[name]
    lines = src.split('\n')
    s = jedi.Script(src, environment=env, project=PROJECT)
    r = getattr(s, m)(len(lines), len(lines[-1]))
    return sorted((x.name, x.type) for x in r)


def outcome_of(fn):
    try:
        return 'ok', with_watchdog(fn)
    except Hang:
        return 'HANG', None
    except BaseException as e:  # noqa
        return type(e).__name__, None


def new_trace():
    fd, path = tempfile.mkstemp(prefix='c14trace_', suffix='.ndjson', dir=os.environ.get('C14_TMP'))
    os.close(fd)
    os.environ['JEDI_VERIF_TRACE'] = path
    return path


def read_trace(path):
    """Parent events + helper events (per helper pid), raw."""
    def load(p):
        out = []
        with open(p) as f:
            for line in f:
                line = line.strip()
                if line:
                    out.append(json.loads(line))
        return out
    parent = load(path)
    helpers = {}
    d = os.path.dirname(path)
    base = os.path.basename(path) + '.helper.'
    for fn in os.listdir(d):
        if fn.startswith(base):
            helpers[int(fn[len(base):])] = load(os.path.join(d, fn))
            os.unlink(os.path.join(d, fn))
    os.unlink(path)
    return parent, helpers


class _Dummy:
    """Stands in for an InferenceState (InferenceStateSubprocess only keeps a weakref)."""


def campaign(job):
    env = SameEnvironment()
    hf.reset({int(k): tuple(v) for k, v in job['plan'].items()})
    path = new_trace()
    fds0 = hf.open_fds()
    outs = []
    for i in range(job['nq']):
        o, ans = outcome_of(lambda: query(env, job['scenario']))
        gc.collect()
        _verif.trace('QueryEnd', outcome=o)
        outs.append({'outcome': o, 'answer': ans, 'req': hf.STATE['req']})
        if o == 'HANG':
            break
    gc.collect()
    res = {'outs': outs, 'faults': [list(x) for x in hf.STATE['log']], 'zombies': hf.zombies(),
           'live_children': len(hf.live_children()), 'fds0': fds0, 'fds_end': hf.open_fds(),
           'requests': hf.STATE['req']}
    res['trace'] = read_trace(path)
    sp = env._subprocess
    env._subprocess = None
    del env, sp
    gc.collect()
    res['fds_after_release'] = hf.open_fds()
    res['zombies_after_release'] = hf.zombies()
    res['children_after_release'] = len(hf.live_children())
    return res


def churn(job):
    """Create and drop n Scripts (each doing a helper-backed query); observe helper-side states."""
    env = SameEnvironment()
    hf.reset({})
    path = new_trace()
    counts = []
    keep = []
    probe = None
    names = list(SCENARIOS)
    for i in range(job['n']):
        o, _ = outcome_of(lambda: query(env, names[i % len(names)] if names[i % len(names)] != 'str_complete' else 'int_infer'))
        if i % 7 == 3:
            s = jedi.Script("z = 3\nz", environment=env, project=PROJECT)
            s.infer(2, 1)
            keep.append(s)           # a few scripts stay alive: their states must stay too
        if len(keep) > 3:
            keep.pop(0)
        if i % job['probe_every'] == 0:
            gc.collect()
            # a probe InferenceStateSubprocess asks the helper which states it holds; run() drains the
            # deletion queue first.  (The wrapper only accepts names from functions.py, so the harness
            # does what the wrapper does: mark used, trace Call, run.)
            if probe is None or probe._compiled_subprocess.is_crashed:
                probe_d = _Dummy()
                probe = env.get_inference_state_subprocess(probe_d)
            probe._used = True
            _verif.trace('Call', isid=probe._inference_state_id, fn='helper_state_count_is',
                         sub=id(probe._compiled_subprocess))
            states = probe._compiled_subprocess.run(probe._inference_state_id, hf.helper_state_count_is)
            states = [x for x in states if x != probe._inference_state_id]
            # (every kept Script has asked the helper something; how the code remembers that is its own business)
            live_used = sorted(k._inference_state.compiled_subprocess._inference_state_id for k in keep)
            counts.append({'i': i, 'states': states, 'live_used': live_used})
        _verif.trace('QueryEnd', outcome=o)
    res = {'counts': counts, 'trace': read_trace(path)}
    return res


def _op_new(env, isss, dummies, k):
    d = _Dummy()
    out, iss = outcome_of(lambda: env.get_inference_state_subprocess(d))
    if out == 'ok':
        isss[k] = iss
        dummies[k] = d
    return out


def _op_call(isss, k, raises):
    # no local reference to the InferenceStateSubprocess may survive this function
    if raises:
        out, _ = outcome_of(lambda: isss[k]._test_raise_error(ValueError))
    else:
        out, _ = outcome_of(lambda: isss[k]._test_print())
    return out


def sim(job):
    """Macro steps derived from a TLC behaviour of Helper.tla; after each the projection of the
    real objects is reported so the harness can compare it with the model state."""
    env = SameEnvironment()
    hf.reset({})
    path = new_trace()
    subs = {}      # model sub index -> CompiledSubprocess
    isss = {}      # model script index -> InferenceStateSubprocess
    dummies = {}
    obs = []

    def note_sub():
        cs = env._subprocess
        if cs is not None and cs not in subs.values():
            subs[len(subs) + 1] = cs

    def arm(faults):
        base = hf.STATE['req']
        plan = {}
        for f in faults:
            plan[base + f['n']] = tuple(f['fault'])
        hf.PLAN.clear()
        hf.PLAN.update(plan)

    for st in job['steps']:
        op = st['op']
        out = 'ok'
        arm(st.get('faults', []))
        fired0 = len(hf.STATE['log'])
        if op == 'new':
            out = _op_new(env, isss, dummies, st['k'])
            note_sub()
        elif op == 'plain':
            out, _ = outcome_of(lambda: env._get_subprocess().get_sys_path())
            note_sub()
        elif op == 'call':
            out = _op_call(isss, st['k'], st['raises'])
        elif op == 'drop':
            del isss[st['k']]
            dummies.pop(st['k'], None)
            gc.collect()
        elif op == 'kill':      # crash while idle
            cs = subs[st['s']]
            pid = cs._get_process().pid
            os.kill(pid, signal.SIGKILL)
            hf.wait_dead(pid)
            _verif.trace('Fault', phase='idle', hpid=pid)
        hf.PLAN.clear()
        nlate = sum(1 for f in st.get('faults', []) if f.get('late'))
        if nlate and len(hf.STATE['log']) - fired0 < len(st.get('faults', [])) and env._subprocess is not None \
                and not env._subprocess.is_crashed:
            # the model's helper died after its last complete reply of this step: kill it now
            pid = env._subprocess._get_process().pid
            os.kill(pid, signal.SIGKILL)
            hf.wait_dead(pid)
            _verif.trace('Fault', phase='idle', hpid=pid)
        gc.collect()
        _verif.trace('QueryEnd', outcome='RemoteExc' if out == 'ValueError' else out)
        proj = {'out': out, 'envsub': None, 'subs': {}}
        for i, cs in subs.items():
            if env._subprocess is cs:
                proj['envsub'] = i
            q = []
            for a in cs._inference_state_deletion_queue:
                q.append(a)
            p = cs._get_process()
            proj['subs'][i] = {'crashed': cs.is_crashed, 'queue': q, 'reaped': p.returncode is not None,
                               'closed': bool(p.stdin.closed and p.stdout.closed and p.stderr.closed)}
        proj['ids'] = {k: v._inference_state_id for k, v in isss.items()}
        proj['zombies'] = hf.zombies()
        obs.append(proj)
    res = {'obs': obs, 'trace': read_trace(path)}
    return res


def main():
    with open(sys.argv[1]) as f:
        jobs = json.load(f)
    os.environ['C14_TMP'] = os.path.dirname(os.path.abspath(sys.argv[2]))
    out = []
    for job in jobs:
        try:
            r = {'campaign': campaign, 'churn': churn, 'sim': sim}[job['kind']](job)
        except BaseException as e:  # noqa: worker machinery failure, reported as such
            import traceback
            r = {'_worker_error': '%s: %s\n%s' % (type(e).__name__, e, traceback.format_exc()[-2000:])}
        r['job'] = job
        out.append(r)
    with open(sys.argv[2], 'w') as f:
        json.dump(out, f)


if __name__ == '__main__':
    main()
