"""Run TLC / SANY and parse what they print."""
import json
import os
import re
import shutil
import subprocess
import tempfile
import time

from harness.core import SPEC, MachineryError

JAR = '/opt/veriftools/tla/tla2tools.jar'
CP = JAR + ':/opt/veriftools/tla/CommunityModules-deps.jar'


# ---------------------------------------------------------------- TLA+ value parser
class _P:
    def __init__(self, s):
        self.s = s
        self.i = 0

    def ws(self):
        while self.i < len(self.s) and self.s[self.i] in ' \t\r\n':
            self.i += 1

    def peek(self, t):
        self.ws()
        return self.s.startswith(t, self.i)

    def eat(self, t):
        self.ws()
        if not self.s.startswith(t, self.i):
            raise ValueError('expected %r at %d in %r' % (t, self.i, self.s[max(0, self.i - 30):self.i + 30]))
        self.i += len(t)

    def value(self):
        self.ws()
        s = self.s
        c = s[self.i]
        if s.startswith('<<', self.i):
            self.i += 2
            out = []
            while not self.peek('>>'):
                out.append(self.value())
                if self.peek(','):
                    self.eat(',')
            self.eat('>>')
            return out
        if c == '{':
            self.i += 1
            out = []
            while not self.peek('}'):
                out.append(self.value())
                if self.peek(','):
                    self.eat(',')
            self.eat('}')
            return ('set', out)
        if c == '[':
            self.i += 1
            d = {}
            while not self.peek(']'):
                self.ws()
                m = re.compile(r'[A-Za-z_][A-Za-z0-9_]*').match(s, self.i)
                self.i = m.end()
                self.eat('|->')
                d[m.group(0)] = self.value()
                if self.peek(','):
                    self.eat(',')
            self.eat(']')
            return d
        if c == '(':
            # function (k :> v @@ k :> v)
            self.i += 1
            d = {}
            while not self.peek(')'):
                k = self.value()
                self.eat(':>')
                v = self.value()
                d[k if not isinstance(k, list) else tuple(k)] = v
                if self.peek('@@'):
                    self.eat('@@')
            self.eat(')')
            return d
        if c == '"':
            j = self.i + 1
            buf = []
            while s[j] != '"':
                if s[j] == '\\':
                    j += 1
                    buf.append({'n': '\n', 't': '\t', 'r': '\r', 'f': '\f'}.get(s[j], s[j]))
                else:
                    buf.append(s[j])
                j += 1
            self.i = j + 1
            return ''.join(buf)
        m = re.compile(r'-?\d+').match(s, self.i)
        if m:
            self.i = m.end()
            return int(m.group(0))
        m = re.compile(r'[A-Za-z_][A-Za-z0-9_]*').match(s, self.i)
        if m:
            self.i = m.end()
            w = m.group(0)
            return True if w == 'TRUE' else False if w == 'FALSE' else ('mv', w)
        raise ValueError('cannot parse TLA value at %d: %r' % (self.i, s[self.i:self.i + 40]))


def parse_tla(s):
    return _P(s).value()


# ---------------------------------------------------------------- running TLC
class TLCResult:
    def __init__(self):
        self.ok = False
        self.generated = 0
        self.distinct = 0
        self.depth = 0
        self.stdout = ''
        self.prints = []
        self.violated = None
        self.trace = []
        self.coverage = {}
        self.wall = 0.0
        self.module = ''
        self.cfg_name = ''
        self.mode = 'bfs'
        self.rc = None

    def coverage_summary(self):
        return {k: v for k, v in sorted(self.coverage.items())}

    def tagged(self, tag):
        return [p[1:] for p in self.prints if p and p[0] == tag]


_STATS = re.compile(r'(\d+) states generated, (\d+) distinct states found')
_DEPTH = re.compile(r'depth of the complete state graph search is (\d+)')
_COV = re.compile(r'^<(\w+) line (\d+), col (\d+) to line (\d+), col (\d+) of module (\w+)>: (\d+):(\d+)')


def run_tlc(module, cfg, workers='auto', env=None, timeout=900, simulate=None, depth=None,
            coverage=False, deque=False, seed=None, spec_dir=SPEC, dump=None, expect_violation=False,
            extra=()):
    """Run TLC on spec_dir/module.tla with spec_dir/cfg. Returns TLCResult.

    Raises MachineryError for parse/semantic/evaluation errors and timeouts. An
    invariant/property violation sets res.violated (+ res.trace) and is not an error
    here; callers decide what it means.
    """
    meta = tempfile.mkdtemp(prefix='tlcmeta_')
    cmd = ['java', '-XX:+UseParallelGC', '-Xmx6g', '-Xss256m', '-Djava.io.tmpdir=%s' % meta]     # TLC's tlc-* scratch dirs go with meta
    if deque:
        cmd.append('-Dtlc2.tool.queue.IStateQueue=StateDeque')
    cmd += ['-cp', CP, 'tlc2.TLC', '-workers', str(workers), '-metadir', meta, '-noGenerateSpecTE',
            '-config', cfg]
    if coverage:
        cmd += ['-coverage', '1']
    if simulate:
        cmd += ['-simulate', simulate]
    if depth:
        cmd += ['-depth', str(depth)]
    if seed is not None:
        cmd += ['-seed', str(seed)]
    if dump:
        cmd += ['-dump', 'dot,actionlabels', dump]
    cmd += list(extra)
    cmd.append(module + '.tla')
    e = dict(os.environ)
    e.pop('JAVA_TOOL_OPTIONS', None)
    if env:
        e.update({k: str(v) for k, v in env.items()})
    t0 = time.time()
    try:
        p = subprocess.run(cmd, cwd=spec_dir, env=e, stdout=subprocess.PIPE, stderr=subprocess.STDOUT,
                           timeout=timeout)
        out = p.stdout.decode('utf-8', 'replace')
        rc = p.returncode
    except subprocess.TimeoutExpired as ex:
        shutil.rmtree(meta, True)
        if simulate:
            out = (ex.stdout or b'').decode('utf-8', 'replace')
            rc = 0
        else:
            raise MachineryError('TLC timeout after %ss on %s/%s' % (timeout, module, cfg))
    finally:
        shutil.rmtree(meta, True)
    res = TLCResult()
    res.wall = time.time() - t0
    res.stdout = out
    res.module = module
    res.cfg_name = cfg
    res.rc = rc
    res.mode = 'simulate' if simulate else 'bfs'
    for m in _STATS.finditer(out):
        res.generated, res.distinct = int(m.group(1)), int(m.group(2))
    if simulate and not res.generated:
        m = re.search(r'(\d+) states checked', out)
        if m:
            res.generated = res.distinct = int(m.group(1))
    m = _DEPTH.search(out)
    if m:
        res.depth = int(m.group(1))
    pending = None
    for line in out.splitlines():
        # TLC wraps long values over several lines: accumulate until the value parses
        if pending is not None:
            pending += '\n' + line
            try:
                res.prints.append(parse_tla(pending))
                pending = None
            except (ValueError, IndexError):
                if pending.count('\n') > 400:
                    pending = None
            continue
        if line.startswith('<<"'):
            try:
                res.prints.append(parse_tla(line))
            except (ValueError, IndexError):
                pending = line
            continue
        m = _COV.match(line)
        if m and m.group(6) == module:
            res.coverage[m.group(1)] = res.coverage.get(m.group(1), 0) + int(m.group(8))
    m = re.search(r'Invariant (\w+) is violated', out) or \
        re.search(r'Action property (\w+) is violated', out) or \
        re.search(r'Temporal properties were violated', out) or \
        re.search(r'(Deadlock) reached', out)
    if m:
        res.violated = m.group(1) if m.groups() else 'temporal'
        res.trace = _parse_trace(out)
    fatal = None
    if 'Semantic errors' in out or 'Parsing or semantic analysis failed' in out or '***Parse Error***' in out:
        fatal = 'SANY error'
    elif re.search(r'Error: (TLC threw|Evaluating|The|In evaluation|Attempted|TLC encountered|Config)', out) \
            and not res.violated:
        fatal = 'TLC evaluation error'
    elif rc not in (0, 12, 13, 11, 10) and not res.violated:
        fatal = 'TLC exit code %s' % rc
    if fatal:
        raise MachineryError('%s in %s/%s:\n%s' % (fatal, module, cfg, out[-3000:]))
    res.ok = res.violated is None
    if res.violated and not expect_violation:
        pass
    return res


def _parse_trace(out):
    states = []
    cur = None
    for line in out.splitlines():
        m = re.match(r'State (\d+): <(.*)>$', line)
        if m:
            cur = {'_action': m.group(2).split(' line')[0], '_text': []}
            states.append(cur)
            continue
        if cur is not None:
            if line.startswith('/\\ ') or (cur['_text'] and line.startswith(' ')):
                cur['_text'].append(line)
            elif line.strip() == '' and cur['_text']:
                cur = None
    outl = []
    for s in states:
        txt = '\n'.join(s['_text'])
        vars_ = {}
        for part in re.split(r'(?m)^/\\ ', txt):
            if '=' in part:
                k, v = part.split('=', 1)
                try:
                    vars_[k.strip()] = parse_tla(v.strip())
                except (ValueError, IndexError):
                    vars_[k.strip()] = v.strip()
        outl.append({'action': s['_action'], 'vars': vars_})
    return outl


def sany(module, spec_dir=SPEC):
    p = subprocess.run(['java', '-cp', CP, 'tla2sany.SANY', module + '.tla'], cwd=spec_dir,
                       stdout=subprocess.PIPE, stderr=subprocess.STDOUT)
    out = p.stdout.decode()
    if p.returncode != 0 or 'error' in out.lower().replace('semantic errors:\n\n', ''):
        if 'Semantic processing of module ' + module in out and 'rror' not in out:
            return out
        raise MachineryError('SANY failed for %s:\n%s' % (module, out[-2000:]))
    return out


def cases(res, tag='CASE'):
    """JSON payloads printed as <<"CASE", ToJson(..)>>; de-duplicated, order kept."""
    seen = set()
    out = []
    for p in res.tagged(tag):
        s = p[0]
        if s in seen:
            continue
        seen.add(s)
        out.append(json.loads(s))
    return out


# ---------------------------------------------------------------- batch trace validation
def validate_traces(module, cfg, traces, ctx, label, env=None, timeout=1800, deque=False, chunk=4000):
    """Validate recorded traces with a Trace_* spec.

    The spec reads IOEnv.TRACE_FILE (a JSON list of traces; each trace a non-empty list
    of event records), has one initial state per trace id, and prints
      <<"ACCEPT", tid>>            when the whole trace is consumed
      <<"AT", tid, l>>             (optional) position reached
      <<"REJECT", tid, l, why>>    (optional) first unmatched event + failing clause(s)
    Returns a list of verdict dicts {accepted, at, why}, one per trace. Verdicts are total.
    """
    verdicts = []
    for base in range(0, len(traces), chunk):
        part = traces[base:base + chunk]
        d = tempfile.mkdtemp(prefix='traces_', dir=ctx.tmp)
        tf = os.path.join(d, 'traces.json')
        with open(tf, 'w') as f:
            json.dump(part, f)
        e = {'TRACE_FILE': tf}
        if env:
            e.update(env)
        res = run_tlc(module, cfg, workers=1, env=e, timeout=timeout, deque=deque)
        if res.violated:
            raise MachineryError('trace spec %s reported %s instead of verdicts:\n%s'
                                 % (module, res.violated, res.stdout[-2000:]))
        acc = set(p[0] for p in res.tagged('ACCEPT'))
        at = {}
        for p in res.tagged('AT'):
            at[p[0]] = max(at.get(p[0], 0), p[1])
        why = {}
        for p in res.tagged('REJECT'):
            if p[0] not in why or p[1] < why[p[0]][0]:
                why[p[0]] = (p[1], p[2] if len(p) > 2 else None)
        notes = {}
        for p_ in res.tagged('NOTE'):
            notes.setdefault(p_[0], []).append(p_[1:])
        for i in range(len(part)):
            tid = i + 1
            v = {'accepted': tid in acc, 'at': at.get(tid), 'why': None, 'notes': notes.get(tid, [])}
            if not v['accepted']:
                if tid in why:
                    v['at'], v['why'] = why[tid]
                    if isinstance(v['why'], tuple) and v['why'][0] == 'set':
                        v['why'] = sorted(map(str, v['why'][1]))
            verdicts.append(v)
        ctx.add_tlc(res, label)
        shutil.rmtree(d, True)
    ctx.coverage['traces_validated_against_impl'] += len(traces)
    return verdicts


def parse_sim_file(path):
    """Behaviour file written by `-simulate file=...`: list of (action name, vars dict)."""
    with open(path) as f:
        txt = f.read()
    out = []
    for m in re.finditer(r'\\\* <(\w+)[^\n]*>\nSTATE_\d+ == \n(.*?)(?=\n\n\\\* <|\n\n=+|\Z)', txt, re.S):
        vars_ = {}
        for part in re.split(r'(?m)^/\\ ', m.group(2)):
            if '=' in part:
                k, v = part.split('=', 1)
                vars_[k.strip()] = parse_tla(v.strip())
        out.append((m.group(1), vars_))
    return out
