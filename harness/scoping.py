"""C03 helper: renderer (abstract item list -> Python source), CPython oracles (symtable,
instrumented execution), projection of Script.goto results, random program generator.

The abstract program is the one of spec/Scoping.tla: prog = list of {t, n, h}, sc = list of
the Open index (1-based, 0 = module) of the scope containing each item.
"""
import ast
import symtable
import sys
import types

POOL = ['va', 'vb', 'vc', 'vd']
ASSIGN_VARIANTS = ['assign', 'walrusstmt', 'import', 'for', 'with', 'def', 'class', 'annassign']


def vname(n):
    return POOL[n - 1]


class Rendered:
    def __init__(self):
        self.lines = []
        self.use_pos = {}      # item -> (line, col)
        self.def_pos = {}      # (line, col) -> item   (bind / target / global / nonlocal names)
        self.variants = {}     # item -> concrete syntax chosen

    @property
    def source(self):
        return '\n'.join(self.lines) + '\n'


class Renderer:
    def __init__(self, prog, sc, seed=0):
        self.p = [None] + list(prog)      # 1-based
        self.sc = [None] + list(sc)
        self.n = len(prog)
        self.seed = seed
        self.out = Rendered()
        self.close = {}
        for i in range(1, self.n + 1):
            if self.p[i]['t'] == 'close':
                self.close[self.sc[i]] = i
        self.endloop = {}
        st = []
        for i in range(1, self.n + 1):
            if self.p[i]['t'] == 'loop':
                st.append(i)
            elif self.p[i]['t'] == 'endloop':
                self.endloop[st.pop()] = i

    # ---- helpers
    def variant(self, i):
        # deterministic, spreads all concrete binding syntaxes over items and seeds
        v = ASSIGN_VARIANTS[(self.seed * 7 + i * 3 + self.seed // 8) % len(ASSIGN_VARIANTS)]
        return v

    def find(self, s, t):
        for i in range(1, self.n + 1):
            if self.sc[i] == s and self.p[i]['t'] == t:
                return i
        return 0

    def emit(self, ind, text, marks=()):
        self.out.lines.append('    ' * ind + text)
        ln = len(self.out.lines)
        for (i, col, kind) in marks:
            pos = (ln, ind * 4 + col)
            if kind == 'use':
                self.out.use_pos[i] = pos
            else:
                self.out.def_pos[pos] = i

    # ---- expressions: return (text, marks) with marks relative to text start
    @staticmethod
    def join(parts, sep=', '):
        text, marks = '', []
        for k, (t, m) in enumerate(parts):
            if k:
                text += sep
            marks += [(i, c + len(text), kd) for (i, c, kd) in m]
            text += t
        return text, marks

    def tuple_of(self, parts, trailing_one=False):
        parts = list(parts)
        if trailing_one:
            parts.append(('1', []))
        if not parts:
            return '()', []
        t, m = self.join(parts)
        if len(parts) == 1:
            t += ','
        return '(' + t + ')', [(i, c + 1, kd) for (i, c, kd) in m]

    def expr_items(self, lo, hi):
        parts = []
        i = lo
        while i <= hi:
            it = self.p[i]
            if it['t'] == 'use':
                parts.append((vname(it['n']), [(i, 0, 'use')]))
            elif it['t'] == 'bind' and it['h'] == 'walrus':
                parts.append(('(%s := %d)' % (vname(it['n']), i), [(i, 1, 'def')]))
            elif it['t'] == 'open':
                c = self.close[i]
                parts.append(self.lambda_expr(i, c) if it['h'] == 'lambda' else self.comp_expr(i, c))
                i = c
            else:
                raise ValueError('item %r not allowed in an expression scope' % (it,))
            i += 1
        return parts

    def params(self, o, c):
        ps = []
        i = o + 1
        while i < c and self.p[i]['t'] == 'bind' and self.p[i]['h'] == 'param' and self.sc[i] == o:
            ps.append(i)
            i += 1
        return ps, i

    def lambda_expr(self, o, c):
        ps, nxt = self.params(o, c)
        head = '(lambda'
        marks = []
        for k, pi in enumerate(ps):
            head += (' ' if k == 0 else ', ')
            marks.append((pi, len(head), 'def'))
            head += vname(self.p[pi]['n'])
        if nxt < c and self.p[nxt]['t'] == 'huse' and self.sc[nxt] == o:
            # a default value in the lambda header: evaluated in the ENCLOSING scope when the lambda is created --
            # the lambda's own parameters, also those in front of it, are not visible there
            head += (', ' if ps else ' ') + 'p_='
            marks.append((nxt, len(head), 'use'))
            head += vname(self.p[nxt]['n'])
            nxt += 1
        head += ': '
        bt, bm = self.tuple_of(self.expr_items(nxt, c - 1))
        marks += [(i, col + len(head), kd) for (i, col, kd) in bm]
        text = head + bt + ')(' + ', '.join(str(pi) for pi in ps) + ')'
        return text, marks

    def comp_expr(self, o, c):
        t = self.find(o, 'target')
        f = self.find(o, 'cif')
        et, em = self.tuple_of(self.expr_items(o + 1, t - 1))
        text = '[' + et
        marks = [(i, col + 1, kd) for (i, col, kd) in em]
        text += ' for '
        tn = self.p[t]['n']
        if tn:
            marks.append((t, len(text), 'def'))
            text += vname(tn)
        else:
            text += 't_'
        text += ' in '
        iter_hi = (f if f else c) - 1
        if iter_hi >= t + 1:
            u = t + 1
            assert self.p[u]['t'] == 'use' and iter_hi == u
            marks.append((u, len(text) + 1, 'use'))
            text += '(%s, %d)[1:]' % (vname(self.p[u]['n']), t)
        else:
            text += '(%d,)' % t
        if f:
            text += ' if '
            ct, cm = self.tuple_of(self.expr_items(f + 1, c - 1), trailing_one=True)
            marks += [(i, col + len(text), kd) for (i, col, kd) in cm]
            text += ct
        return text + ']', marks

    # ---- statements
    def bind_stmt(self, i, ind):
        it = self.p[i]
        v = vname(it['n'])
        h = it['h']
        if h == 'del':
            self.emit(ind, 'del ' + v, [(i, 4, 'def')])
        elif h == 'except':
            self.emit(ind, 'try:')
            self.emit(ind + 1, 'raise E_(%d)' % i)
            self.emit(ind, 'except E_ as %s:' % v, [(i, 13, 'def')])
            self.emit(ind + 1, 'pass')
        elif h == 'assign':
            k = self.variant(i)
            if k == 'annassign' and any(self.sc[j] == self.sc[i] and self.p[j]['t'] in ('global', 'nonlocal')
                                        and self.p[j]['n'] == it['n'] for j in range(1, self.n + 1)):
                k = 'assign'       # "annotated name can't be global/nonlocal"
            self.out.variants[i] = k
            if k == 'assign':
                self.emit(ind, '%s = %d' % (v, i), [(i, 0, 'def')])
            elif k == 'annassign':
                self.emit(ind, '%s: 0 = %d' % (v, i), [(i, 0, 'def')])
            elif k == 'walrusstmt':
                self.emit(ind, '(%s := %d)' % (v, i), [(i, 1, 'def')])
            elif k == 'import':
                self.emit(ind, 'import m%d as %s' % (i, v), [(i, len('import m%d as ' % i), 'def')])
            elif k == 'for':
                self.emit(ind, 'for %s in (%d,):' % (v, i), [(i, 4, 'def')])
                self.emit(ind + 1, 'pass')
            elif k == 'with':
                self.emit(ind, 'with CM_(%d) as %s:' % (i, v), [(i, len('with CM_(%d) as ' % i), 'def')])
                self.emit(ind + 1, 'pass')
            elif k == 'def':
                self.emit(ind, 'def %s():' % v, [(i, 4, 'def')])
                self.emit(ind + 1, 'return %d' % i)
            elif k == 'class':
                self.emit(ind, 'class %s:' % v, [(i, 6, 'def')])
                self.emit(ind + 1, 'T_ = %d' % i)
        else:
            raise ValueError('bind kind %r at statement level' % h)

    def block(self, lo, hi, ind):
        n0 = len(self.out.lines)
        pending = []        # calls of deferred functions: at the end of this block
        i = lo
        while i <= hi:
            it = self.p[i]
            t = it['t']
            if t == 'bind':
                self.bind_stmt(i, ind)
            elif t == 'use':
                self.emit(ind, vname(it['n']), [(i, 0, 'use')])
            elif t in ('global', 'nonlocal'):
                self.emit(ind, '%s %s' % (t, vname(it['n'])), [(i, len(t) + 1, 'def')])
            elif t == 'loop':
                e = self.endloop[i]
                self.emit(ind, 'for i_ in (0, 1):')
                self.block(i + 1, e - 1, ind + 1)
                i = e
            elif t == 'open':
                c = self.close[i]
                k = it['h']
                if k in ('lambda', 'comp'):
                    text, marks = self.lambda_expr(i, c) if k == 'lambda' else self.comp_expr(i, c)
                    if (self.seed + i) % 2 == 0:
                        # the expression scope as the right-hand side of an assignment statement (jedi looks names of an
                        # expr_stmt up at the START of the statement: parameters of a lambda inside it lie behind that point)
                        pre = 'z_%d = ' % i
                        text, marks = pre + text, [(j, col + len(pre), kd) for (j, col, kd) in marks]
                    self.emit(ind, text, marks)
                elif k == 'fn':
                    ps, nxt = self.params(i, c)
                    head = 'def f_%d(' % i
                    marks = []
                    for kk, pi in enumerate(ps):
                        if kk:
                            head += ', '
                        marks.append((pi, len(head), 'def'))
                        head += vname(self.p[pi]['n'])
                    if nxt < c and self.p[nxt]['t'] == 'huse':
                        head += ', ' if ps else ''
                        if (self.seed + i) % 2:
                            head += 'p_=0, q_: '     # annotation variant
                        else:
                            head += 'p_='
                        marks.append((nxt, len(head), 'use'))
                        head += vname(self.p[nxt]['n'])
                        if (self.seed + i) % 2:
                            head += ' = 0'
                        nxt += 1
                    self.emit(ind, head + '):', marks)
                    self.block(nxt, c - 1, ind + 1)
                    call = 'f_%d(%s)' % (i, ', '.join(str(pi) for pi in ps))
                    if it.get('d'):
                        pending.append(call)
                    else:
                        self.emit(ind, call)
                elif k == 'class':
                    nxt = i + 1
                    if nxt < c and self.p[nxt]['t'] == 'huse':
                        head = 'class C_%d(metaclass=MC_(' % i
                        self.emit(ind, head + vname(self.p[nxt]['n']) + ')):', [(nxt, len(head), 'use')])
                        nxt += 1
                    else:
                        self.emit(ind, 'class C_%d:' % i)
                    self.block(nxt, c - 1, ind + 1)
                i = c
            else:
                raise ValueError('item %r not allowed in a statement scope' % (it,))
            i += 1
        for call in pending:
            self.emit(ind, call)
        if len(self.out.lines) == n0:
            self.emit(ind, 'pass')

    def render(self):
        self.block(1, self.n, 0)
        return self.out


def render(prog, sc, seed=0):
    return Renderer(prog, sc, seed).render()


# ---------------------------------------------------------------- execution oracle
class E_(Exception):
    pass


class CM_:
    def __init__(self, v):
        self.v = v

    def __enter__(self):
        return self.v

    def __exit__(self, *a):
        return False


def _decode(v):
    if isinstance(v, bool):
        raise TypeError('unexpected bool')
    if isinstance(v, int):
        return v
    if isinstance(v, E_):
        return v.args[0]
    if isinstance(v, types.ModuleType):
        return int(v.__name__[1:])
    if isinstance(v, types.FunctionType):
        return v()
    if isinstance(v, type):
        return v.T_
    raise TypeError('cannot identify the binding of value %r' % (v,))


class _Instr(ast.NodeTransformer):
    def __init__(self, use_at):
        self.use_at = use_at
        self.seen = set()

    def visit_Name(self, node):
        k = self.use_at.get((node.lineno, node.col_offset))
        if k is not None and isinstance(node.ctx, ast.Load):
            self.seen.add(k)
            return ast.copy_location(
                ast.Call(func=ast.Name(id='OBS_', ctx=ast.Load()), args=[ast.Constant(k), node], keywords=[]), node)
        return node


def _try(stmts):
    return ast.Try(body=stmts,
                   handlers=[ast.ExceptHandler(type=ast.Name(id='NameError', ctx=ast.Load()), name=None,
                                               body=[ast.Pass()])],
                   orelse=[], finalbody=[])


def _wrap(body):
    out = []
    k = 0
    while k < len(body):
        st = body[k]
        if isinstance(st, (ast.Global, ast.Nonlocal, ast.Pass)):
            out.append(st)
        elif isinstance(st, ast.FunctionDef) and st.name.startswith('f_'):
            st.body = _wrap(st.body)
            nxt = body[k + 1] if k + 1 < len(body) else None
            if isinstance(nxt, ast.Expr) and isinstance(nxt.value, ast.Call) and \
                    isinstance(nxt.value.func, ast.Name) and nxt.value.func.id == st.name:
                out.append(_try([st, nxt]))   # def + its immediate call fail or succeed together
                k += 1
            else:
                out.append(_try([st]))        # deferred call: the header has no loads, def cannot fail
        elif isinstance(st, ast.ClassDef) and st.name.startswith('C_'):
            st.body = _wrap(st.body)
            out.append(_try([st]))
        elif isinstance(st, ast.For) and isinstance(st.target, ast.Name) and st.target.id == 'i_':
            st.body = _wrap(st.body)
            out.append(st)
        else:
            out.append(_try([st]))
        k += 1
    return out


def execute(r):
    """Run the rendered program; returns {use item: sorted list of binding items observed}."""
    src = r.source
    tree = ast.parse(src)
    use_at = {pos: i for i, pos in r.use_pos.items()}
    ins = _Instr(use_at)
    tree = ins.visit(tree)
    if ins.seen != set(r.use_pos):
        raise AssertionError('instrumentation missed uses %s in\n%s' % (set(r.use_pos) - ins.seen, src))
    tree.body = _wrap(tree.body)
    ast.fix_missing_locations(tree)
    code = compile(tree, '<c03case>', 'exec')
    seen = {}

    def OBS_(k, v):
        seen.setdefault(k, set()).add(_decode(v))
        return v
    mods = ['m%d' % i for i in range(1, len(r.lines) * 4 + 64)]
    for m in mods:
        sys.modules[m] = types.ModuleType(m)
    try:
        g = {'OBS_': OBS_, 'CM_': CM_, 'E_': E_, 'MC_': (lambda v: type), '__name__': 'c03case'}
        exec(code, g)
    finally:
        for m in mods:
            sys.modules.pop(m, None)
    return {k: sorted(v) for k, v in seen.items()}


# ---------------------------------------------------------------- symtable oracle
def _sym_children(prog, sc, s):
    """Non-comprehension scopes nested in s (through comprehensions, which CPython 3.12 merges
    into the enclosing block), in the order the symbol table visits them."""
    p = [None] + list(prog)
    scs = [None] + list(sc)
    n = len(prog)

    def direct(o):     # items directly in scope o, textual order
        return [i for i in range(1, n + 1) if scs[i] == o]

    def visit(o):
        res = []
        items = direct(o)
        if o and p[o]['h'] == 'comp':
            t = next(i for i in items if p[i]['t'] == 'target')
            f = next((i for i in items if p[i]['t'] == 'cif'), 0)
            cond = [i for i in items if f and i > f]
            elt = [i for i in items if i < t]
            items = cond + elt
        for i in items:
            if p[i]['t'] == 'open':
                if p[i]['h'] == 'comp':
                    res += visit(i)
                else:
                    res.append(i)
        return res
    return visit(s)


def symtable_classes(prog, sc, src):
    """{(scope, name index): 'L'|'GE'|'GI'|'F'} for non-comprehension scopes, as CPython classifies."""
    top = symtable.symtable(src, '<c03case>', 'exec')
    out = {}

    def walk(tab, s):
        kids = [c for c in tab.get_children() if c.get_name() not in POOL]
        mine = _sym_children(prog, sc, s)
        if len(kids) != len(mine):
            raise AssertionError('symtable children %s do not match scopes %s\n%s'
                                 % ([c.get_name() for c in kids], mine, src))
        for c, o in zip(kids, mine):
            kind = prog[o - 1]['h']
            nm = c.get_name()
            if (kind == 'fn' and nm != 'f_%d' % o) or (kind == 'class' and nm != 'C_%d' % o) or \
                    (kind == 'lambda' and nm != 'lambda'):
                raise AssertionError('symtable scope %s does not match scope %d (%s)\n%s' % (nm, o, kind, src))
            for k, name in enumerate(POOL):
                try:
                    sym = c.lookup(name)
                except KeyError:
                    continue
                if sym.is_declared_global():
                    cl = 'GE'
                elif sym.is_free() or sym.is_nonlocal():
                    cl = 'F'
                elif sym.is_local():
                    cl = 'L'
                else:
                    cl = 'GI'
                out[(o, k + 1)] = cl
            walk(c, o)
    walk(top, 0)
    return out


def comp_polluted(prog, sc):
    """(scope, name) pairs whose symbol-table entry is merged with a nested comprehension's (PEP 709)."""
    p = [None] + list(prog)
    scs = [None] + list(sc)
    bad = set()
    for i in range(1, len(prog) + 1):
        s = scs[i]
        nm = p[i]['n']
        if not nm or not s or p[s]['h'] != 'comp':
            continue
        while s and p[s]['h'] == 'comp':
            s = scs[s]
        bad.add((s, nm))
    return bad


# ---------------------------------------------------------------- code side
def goto_items(r, script=None):
    """{use item: sorted list of landing items} via Script.goto; landings that are not a binding
    name of the rendered program are reported as 0."""
    from harness import jutil
    s = script or jutil.script(r.source)
    out = {}
    for u, (line, col) in sorted(r.use_pos.items()):
        res = s.goto(line, col)
        items = set()
        for d in res:
            items.add(r.def_pos.get((d.line, d.column), 0) if d.module_name == '__main__' else 0)
        out[u] = sorted(items)
    return out
