"""Shared by C15 and C16: Engine.tla runs, graph rendering, scaling families."""
import os

from harness.tlc import run_tlc

CFG = '''INIT Init
NEXT Next
CONSTANTS
  K = %(K)d
  Lits = {1}
  Funcs = {%(funcs)s}
  MaxDeps = %(deps)d
  RecLimit = %(rec)d
  TotalLimit = %(total)d
  PerFuncLimit = %(perfunc)d
  PerFuncRec = %(perrec)d
  InferLimit = %(infer)d
  ResetCounts = %(reset)s
  GuardsOn = %(guards)s
  PopDefaultOnRaise = %(popdef)s
  TaintedReused = %(tainted)s
  MaxQueries = %(queries)d
  MaxRaises = %(raises)d
%(props)s
CHECK_DEADLOCK FALSE
'''
DEFAULT = dict(K=4, funcs='4', deps=2, rec=3, total=4, perfunc=3, perrec=1, infer=6, reset='TRUE', guards='TRUE', popdef='TRUE', tainted='TRUE', queries=2, raises=0)
INVS = ['BoundedWork', 'DepthBounded', 'Balanced', 'GuardsConsistent', 'NoPoison']


def engine_cfg(ctx, name, invs=INVS, spec=False, props=(), extra='', **kw):
    d = dict(DEFAULT)
    d.update(kw)
    d['props'] = '\n'.join(['INVARIANT %s' % i for i in invs] + ['PROPERTY %s' % p for p in props]) + '\n' + extra
    txt = CFG % d
    if spec:
        txt = txt.replace('INIT Init\nNEXT Next\n', 'SPECIFICATION Spec\n')
    p = os.path.join(ctx.tmp, name)
    with open(p, 'w') as f:
        f.write(txt)
    return p


def render_graph(dep, lits=(1,), funcs=(4,)):
    """dep: {node: [deps]} -> (source, {stmt node: line of its use})."""
    nodes = sorted(dep)
    stmts = [n for n in nodes if n not in lits and n not in funcs]
    out = ['import random', '']
    for n in stmts:     # late-bound accessors so that cycles between module-level statements exist
        out += ['def g%d():' % n, '    return s%d' % n, '']

    def alt(d, inside):
        if d in lits:
            return '1'
        if d in funcs:
            return 'f%d()' % d
        return ('s%d' % d) if inside else ('g%d()' % d)
    for n in funcs:
        out.append('def f%d():' % n)
        for d in dep[n]:
            out += ['    if random.random():', '        return ' + alt(d, True)]
        out += ['    return unknown_zz', '']
    for n in stmts:
        ds = dep[n]
        if not ds:
            out.append('s%d = unknown_zz' % n)
        for i, d in enumerate(ds):
            kw = 'if' if i == 0 else 'elif'
            if len(ds) == 1:
                out.append('s%d = %s' % (n, alt(d, False)))
            else:
                out += ['%s random.random() > 0.%d:' % (kw, i + 1) if i < len(ds) - 1 else 'else:',
                        '    s%d = %s' % (n, alt(d, False))]
        out.append('')
    uses = {}
    for n in stmts:
        out.append('s%d' % n)
        uses[n] = len(out)
    return '\n'.join(out) + '\n', uses


# ---------------------------------------------------------------- self-referential idioms and scaling families
IDIOMS = {
    'cyclic_assign': "a = b\nb = a\na\n",
    'self_assign': "x = x\nx\n",
    'unbounded_rec': "def f(n):\n    return f(n + 1)\nf(1)\n",
    'mutual_rec': "def f(n):\n    return g(n)\ndef g(n):\n    return f(n) or 1\nf(1)\n",
    'self_inherit': "class A(A):\n    pass\nA().x\n",
    'cyclic_inherit': "class A(B):\n    pass\nclass B(A):\n    pass\nB().x\n",
    'self_container': "x = []\nx.append(x)\nx[0]\n",
    'rec_decorator': "def deco(f):\n    return deco(f)\n@deco\ndef h():\n    pass\nh()\n",
    'rec_property': "class C:\n    @property\n    def p(self):\n        return self.p\nC().p\n",
    'rec_generator': "def gen():\n    yield from gen()\nfor v in gen():\n    v\n",
    'rec_getattr': "class D:\n    def __getattr__(self, name):\n        return getattr(self, name)\nD().q\n",
    'rec_lambda': "f = lambda: f()\nf()\n",
    'rec_call_chain': "def a():\n    return b()\ndef b():\n    return c()\ndef c():\n    return a()\na()\n",
    'dict_self': "d = {}\nd['k'] = d\nd['k']\n",
    'rec_default': "def f(x=f):\n    return x\nf()\n",
    'rec_class_attr': "class E:\n    e = E()\nE.e.e\n",
}


def render_import_graph(dep, mode, lits=(1,), funcs=(4,)):
    """The same definition graph with every node in a module of its own and every edge an import edge
    (mode: 'star' = `from mod_d import *`, 'from' = `from mod_d import v_d`, 'plain' = `import mod_d`):
    cyclic graphs give import cycles, star-import cycles and mutually importing functions.
    -> ({file name: text}, {stmt node: (file name, line of its use)})."""
    nodes = sorted(dep)
    files, uses = {}, {}

    def name(d):
        return ('f%d' if d in funcs else 'v%d') % d

    def ref(d):
        base = name(d) + ('()' if d in funcs else '')
        return ('mod_%d.' % d + base) if mode == 'plain' else base
    for n in nodes:
        out = ['import random']
        for d in dep[n]:
            if d == n:
                continue
            out.append({'star': 'from mod_%d import *', 'from': 'from mod_%d import ' + name(d), 'plain': 'import mod_%d'}[mode]
                       % d)
        if mode == 'star' and n in dep[n]:
            out.append('from mod_%d import *' % n)          # a module star-importing itself
        out.append('')
        if n in lits:
            out.append('v%d = 1' % n)
        elif n in funcs:
            out.append('def f%d():' % n)
            for d in dep[n]:
                out += ['    if random.random():', '        return ' + (ref(d) if d != n else 'f%d()' % n)]
            out += ['    return unknown_zz', '']
        else:
            ds = dep[n]
            if not ds:
                out.append('v%d = unknown_zz' % n)
            for i, d in enumerate(ds):
                r = ref(d) if d != n else 'v%d' % n
                if len(ds) == 1:
                    out.append('v%d = %s' % (n, r))
                else:
                    out += ['if random.random() > 0.%d:' % (i + 1) if i == 0 else ('elif random.random() > 0.%d:' % (i + 1)
                                                                                    if i < len(ds) - 1 else 'else:'),
                            '    v%d = %s' % (n, r)]
            out += ['', 'v%d' % n]
            uses[n] = ('mod_%d.py' % n, len(out))
            out.append('missing_zz')                          # defined nowhere: the lookup walks all star imports
            uses[-n] = ('mod_%d.py' % n, len(out))
        files['mod_%d.py' % n] = '\n'.join(out) + '\n'
    return files, uses


IMPORT_IDIOMS = {
    'star_cycle_2': ({'a.py': 'from b import *\nxa = 1\nyb\nmissing_zz\n', 'b.py': 'from a import *\nyb = xa\n'}, 'a.py'),
    'star_cycle_3': ({'a.py': 'from b import *\nxa = 1\nzc\nmissing_zz\n', 'b.py': 'from c import *\nyb = 2\n',
                      'c.py': 'from a import *\nzc = xa\n'}, 'a.py'),
    'star_self': ({'a.py': 'from a import *\nxa = 1\nxa\nmissing_zz\n'}, 'a.py'),
    'from_cycle': ({'a.py': 'from b import yb\nxa = yb\nxa\n', 'b.py': 'from a import xa\nyb = xa\n'}, 'a.py'),
    'plain_cycle': ({'a.py': 'import b\nxa = b.yb\nxa\n', 'b.py': 'import a\nyb = a.xa\n'}, 'a.py'),
    'pkg_init_cycle': ({'pkg/__init__.py': 'from pkg.sub import thing\nroot = thing\n', 'pkg/sub.py': 'import pkg\nthing = pkg.root\n',
                        'main.py': 'import pkg\npkg.root\n'}, 'main.py'),
    'relative_star_cycle': ({'pkg/__init__.py': '', 'pkg/a.py': 'from .b import *\nxa = yb\nxa\nmissing_zz\n',
                             'pkg/b.py': 'from .a import *\nyb = xa\n'}, 'pkg/a.py'),
    'star_reexport_chain_cycle': ({'a.py': 'from b import *\nfrom c import *\nxa\nmissing_zz\n', 'b.py': 'from c import *\nfrom a import *\n',
                                   'c.py': 'from a import *\nfrom b import *\nxa = 1\n'}, 'a.py'),
}


def family(kind, n):
    if kind == 'chain':            # v0 = 1; v1 = v0; ... ; vn
        return 'v0 = 1\n' + ''.join('v%d = v%d\n' % (i, i - 1) for i in range(1, n + 1)) + 'v%d\n' % n
    if kind == 'call_chain':       # fi returns f(i-1)()
        return 'def f0():\n    return 1\n' + ''.join('def f%d():\n    return f%d()\n' % (i, i - 1) for i in range(1, n + 1)) \
            + 'f%d()\n' % n
    if kind == 'diamond':          # each level unions two names of the previous level
        s = 'import random\na0 = 1\nb0 = ""\n'
        for i in range(1, n + 1):
            s += 'if random.random():\n    a%d = a%d\n    b%d = b%d\nelse:\n    a%d = b%d\n    b%d = a%d\n' % (
                i, i - 1, i, i - 1, i, i - 1, i, i - 1)
        return s + 'a%d\n' % n
    if kind == 'call_tree':        # binary call tree: fi calls f(i-1) twice
        s = 'def f0():\n    return 1\n'
        for i in range(1, n + 1):
            s += 'def f%d():\n    return f%d() or f%d()\n' % (i, i - 1, i - 1)
        return s + 'f%d()\n' % n
    if kind == 'pair':             # tuple assignments swapping two names per level
        return 'a0, b0 = 1, ""\n' + ''.join('a%d, b%d = b%d, a%d\n' % (i, i, i - 1, i - 1) for i in range(1, n + 1)) + 'a%d\n' % n
    if kind == 'attr_chain':       # class attributes defined through the previous class
        s = 'class K0:\n    v = 1\n'
        for i in range(1, n + 1):
            s += 'class K%d:\n    v = K%d.v\n' % (i, i - 1)
        return s + 'K%d.v\n' % n
    if kind == 'ring':             # mutual recursion ring of n functions
        s = ''.join('def r%d():\n    return r%d()\n' % (i, (i + 1) % n) for i in range(n))
        return s + 'r0()\n'
    raise ValueError(kind)


FAMILIES = ['chain', 'call_chain', 'diamond', 'call_tree', 'ring', 'pair', 'attr_chain']
