"""Per-property manifest metadata; tools/gen_manifest.py turns this into MANIFEST.json."""
META = {
    'C04': dict(
        spec='Complete.tla, Trace_Complete.tla',
        text='TLC checks exhaustively (all candidate lists of <=2/3 names from a 28-candidate pool x all '
             'fragments of <=3 chars x fuzzy) that the transcription of jedi\'s match/filter/sort/suffix code '
             'satisfies the property\'s clauses; a TLC-emitted slice of cases is replayed into Script.complete '
             'in two renderings and must equal the model; every recorded complete() call (rendered cases and '
             'corpus positions) is judged by TLC against the Reference clauses (Trace_Complete); attribute '
             'completeness is judged against dir() of the executed program.',
        note='Trusts TLC, the harness fragment regex, and CPython dir() as oracle; corpus calls that raise are '
             'counted as blocked (C01 decides totality); class receivers blocked by absent typeshed.',
        technique='TLA+ spec (Design|=Reference) model-checked with TLC; spec->code replay of emitted cases; '
                  'code->spec trace validation of recorded complete() calls',
        design_ref='5/C04'),
}

# properties not claimed, with reason (kept current by hand)
NOT_APPLICABLE = {}
# hook commits in /repo (MANIFEST.hooks.source_commits)
HOOK_COMMITS = []
