"""Manifest data that is not per-check: tools/gen_manifest.py reads META from each harness/props/cXX.py."""

# properties not claimed, with reason (kept current by hand)
NOT_APPLICABLE = {}
# hook commits in /repo (MANIFEST.hooks.source_commits)
HOOK_COMMITS = ['ccf9035', 'f508266', 'dd63c1f']

# checks that are finished and registered in MANIFEST.json (others stay under not_applicable until ready)
READY = ['C01', 'C02', 'C03', 'C04', 'C05', 'C06', 'C07', 'C08', 'C09', 'C10', 'C11', 'C12', 'C13', 'C14', 'C15', 'C16', 'C17', 'C18', 'C19', 'C20']
