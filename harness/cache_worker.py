"""Fresh-process answers and long-lived-process histories for C08 / C09.

Run as a module-level helper from forked children (see `fresh_answers`) or as a script:
    cache_worker.py history <jobs.json> <out.json>     long-lived process executing histories
"""
import gc
import json
import os
import sys
import zlib

HERE = os.path.dirname(os.path.dirname(os.path.abspath(__file__)))
if HERE not in sys.path:
    sys.path.insert(0, HERE)
REPO = os.environ.get('VERIF_REPO', '/repo')
if REPO not in sys.path:
    sys.path.insert(0, REPO)

QUERY_METHODS = ['complete', 'infer', 'goto', 'get_signatures', 'get_references', 'get_names', 'help']


def rep(x):
    try:
        mp = os.path.basename(str(x.module_path)) if x.module_path else ''
    except Exception:  # noqa
        mp = '?'
    return [x.name, x.type, x.line, x.column, mp, x.description]


def digest(obj):
    return zlib.crc32(json.dumps(obj, sort_keys=True, default=str).encode()) & 0x7fffffff


def answers(script, queries):
    """queries: [[method, line, col]] -> [[digest, outcome, small preview]]"""
    out = []
    for m, line, col in queries:
        try:
            if m == 'get_names':
                r = [rep(x) for x in script.get_names(all_scopes=True, definitions=True, references=True)]
            elif m == 'get_signatures':
                r = [[x.name, x.index, [p.to_string() for p in x.params]] for x in script.get_signatures(line, col)]
            elif m == 'complete':
                r = [[x.name, x.type] for x in script.complete(line, col)]
            elif m == 'goto':
                r = sorted(rep(x) for x in script.goto(line, col, follow_imports=True))
            elif m == 'help':       # documented as goto plus keywords: order unspecified like goto's
                r = sorted(rep(x) for x in script.help(line, col))
            else:
                r = [rep(x) for x in getattr(script, m)(line, col)]
            out.append([digest(r), 'ok', r[:4]])
        except Exception as e:  # noqa
            out.append([digest(type(e).__name__), 'exc:' + type(e).__name__, ['exc:' + type(e).__name__]])
    return out


def positions(src, n, rng):
    import re
    pos = []
    for i, ln in enumerate(src.split('\n')):
        for m in re.finditer(r'[^\W\d]\w*', ln):
            pos.append((i + 1, m.end()))
            if m.end() - m.start() > 1:
                pos.append((i + 1, m.start() + 1))
        for m in re.finditer(r'[.(]', ln):
            pos.append((i + 1, m.end()))
    rng.shuffle(pos)
    return pos[:n]


# ---------------------------------------------------------------- fresh answers (fork per case)
def _fresh_child(case, wfd):
    import signal
    signal.alarm(300)        # a query that never returns ends the child (the parent then reports "no output")
    if case.get('perturb'):
        # forked children share the parent's memory layout: shift object addresses
        import random
        rnd = random.Random(case['perturb'])
        _junk = [object() for _ in range(rnd.randrange(1000, 200000))]   # noqa: kept alive on purpose
        _junk2 = [[] for _ in range(rnd.randrange(10, 5000))]
        del _junk2
    import jedi
    import parso.cache
    assert not any(parso.cache.parser_cache.values()), 'base process is not cache-free'
    from jedi.api.environment import SameEnvironment
    if case.get('cache_dir'):
        jedi.settings.cache_directory = case['cache_dir']
    else:
        from harness.core import private_cache
        private_cache()
    proj = jedi.Project(case['project']) if case.get('project') else jedi.Project('/nonexistent_verif_cache')
    s = jedi.Script(case['src'], path=case.get('path'), project=proj, environment=SameEnvironment())
    res = answers(s, case['queries'])
    try:
        import parso
        dump_eq = None
        if case.get('want_dump'):
            dump_eq = s._module_node.dump()
        res = {'answers': res, 'dump': digest(dump_eq) if dump_eq is not None else None}
    except Exception:  # noqa
        res = {'answers': res, 'dump': None}
    os.write(wfd, json.dumps(res).encode())
    os._exit(0)


def fresh_answers(cases, nproc=14):
    """Each case is answered by a child forked from a process that has imported jedi but parsed nothing."""
    import jedi  # noqa: imported before forking; nothing is parsed at import time
    out = [None] * len(cases)
    running = {}
    i = 0
    while i < len(cases) or running:
        while i < len(cases) and len(running) < nproc:
            r, w = os.pipe()
            pid = os.fork()
            if pid == 0:
                os.close(r)
                try:
                    _fresh_child(cases[i], w)
                except BaseException as e:  # noqa
                    os.write(w, json.dumps({'error': '%s: %s' % (type(e).__name__, e)}).encode())
                    os._exit(1)
            os.close(w)
            running[pid] = (i, r)
            i += 1
        pid, _ = os.wait()
        if pid in running:
            idx, r = running.pop(pid)
            chunks = []
            while True:
                b = os.read(r, 1 << 20)
                if not b:
                    break
                chunks.append(b)
            os.close(r)
            out[idx] = json.loads(b''.join(chunks).decode() or '{"error": "no output"}')
    return out


# ---------------------------------------------------------------- long-lived histories
def run_buffer_history(job):
    """C08: steps = [{slot, text, queries}]; one Script per step in this one process."""
    import jedi
    import parso
    import parso.cache
    from jedi.api.environment import SameEnvironment
    from jedi.inference import filters
    from harness.core import private_cache
    private_cache()
    env = SameEnvironment()
    proj = jedi.Project(job.get('project') or '/nonexistent_verif_cache')
    items = {}
    out = []
    for st in job['steps']:
        path = st['slot']
        s = jedi.Script(st['text'], path=path, project=proj, environment=env)
        res = answers(s, st['queries'])
        grammar = s._inference_state.grammar
        key = None if path is None else s.path
        item = parso.cache.parser_cache.get(grammar._hashed, {}).get(key)
        gid = 0
        if item is not None:
            # identity of the parso cache entry: a marker attribute (ids may be reused after collection)
            if not hasattr(item, '_verif_gen'):
                items['n'] = items.get('n', 0) + 1
                item._verif_gen = items['n']
            gid = item._verif_gen
        inc_dump = digest(s._module_node.dump())
        del item
        del s
        gc.collect()
        cur = set(id(v.get(k)) for v in parso.cache.parser_cache.values() for k in v)
        stale = sum(1 for k in list(filters._definition_name_cache.keys()) if id(k) not in cur) \
            if hasattr(filters, '_definition_name_cache') else -1
        out.append({'answers': res, 'item': gid, 'dump': inc_dump, 'stale_derived': stale})
    return out


# ---------------------------------------------------------------- BufCache.tla behaviours replayed (C08 spec -> code)
class _FakeTime:
    """Virtual clock for jedi.cache's time caches: the model's Tick advances it."""
    def __init__(self):
        self.now = 1000.0

    def time(self):
        return self.now


def run_model_behaviours(job):
    """job = {families: {name: {texts: {id: text}, names_q: [m, l, c], sig_q: [m, l, c]}}, behaviours: [{family, steps}],
    project, tick}.  steps: ["edit", slot, text] | ["tick"] | ["script", slot] | ["names"] | ["sig"].  One process for all
    behaviours; caches are emptied between behaviours (the model's Init)."""
    import jedi
    import jedi.cache
    import parso.cache
    from jedi.api.environment import SameEnvironment
    from harness.core import private_cache
    private_cache()
    clock = _FakeTime()
    jedi.cache.time = clock                      # signature_time_cache / clear_time_caches read time.time()
    env = SameEnvironment()
    proj = jedi.Project(job['project'])
    out = []
    for bi, beh in enumerate(job['behaviours']):
        fam = job['families'][beh['family']]
        parso.cache.parser_cache.clear()
        jedi.cache.clear_time_caches(True)
        buf, script, cur = {}, None, None
        res = []
        for st in beh['steps']:
            if st[0] == 'edit':
                buf[st[1]] = st[2]
            elif st[0] == 'tick':
                clock.now += job['tick']
            elif st[0] == 'script':
                slot = st[1]
                path = None if slot == 'nopath' else os.path.join(job['project'], slot + '.py')
                script = jedi.Script(fam['texts'][str(buf[slot])], path=path, project=proj, environment=env)
                cur = (slot, buf[slot])
            else:
                q = fam['names_q'] if st[0] == 'names' else fam['sig_q']
                res.append({'q': st[0], 'slot': cur[0], 'text': cur[1], 'answer': answers(script, [q])[0]})
        out.append(res)
    return out


def serve():
    """C09: a long-lived process answering queries about a project on disk, one new Script per request.
    Protocol: one JSON object per line on stdin -> one JSON object per line on stdout."""
    import jedi
    import parso.cache
    from jedi.api.environment import SameEnvironment
    decisions = []
    orig = parso.cache.load_module

    def load_module(hashed_grammar, file_io, cache_path=None):
        try:
            pt = file_io.get_last_modified()
            item = parso.cache.parser_cache.get(hashed_grammar, {}).get(file_io.path)
        except Exception:  # noqa
            pt, item = None, None
        r = orig(hashed_grammar, file_io, cache_path=cache_path)
        if pt is not None:
            in_mem_after = parso.cache.parser_cache.get(hashed_grammar, {}).get(file_io.path)
            decisions.append({'path': os.path.basename(str(file_io.path)), 'had': item is not None,
                              'fresh_enough': bool(item is not None and pt <= item.change_time),
                              'hit': bool(r is not None and item is not None and in_mem_after is item)})
        return r
    parso.cache.load_module = load_module
    import parso.grammar
    if getattr(parso.grammar, 'load_module', None) is orig:
        parso.grammar.load_module = load_module
    env = SameEnvironment()
    projects = {}
    for line in sys.stdin:
        req = json.loads(line)
        if req.get('cache_dir'):
            jedi.settings.cache_directory = req['cache_dir']
        del decisions[:]
        # like an editor plugin / language server: ONE Project object per project root, a new Script per request
        proj = projects.get(req['project'])
        if proj is None:
            proj = projects[req['project']] = jedi.Project(req['project'])
        s = jedi.Script(req['src'], path=req.get('path'), project=proj, environment=env)
        res = answers(s, req['queries'])
        sys.stdout.write(json.dumps({'answers': res, 'decisions': list(decisions)}) + '\n')
        sys.stdout.flush()


def main():
    if sys.argv[1] == 'serve':
        return serve()
    mode, jp, op = sys.argv[1:4]
    jobs = json.load(open(jp))
    if mode == 'history':
        res = [run_buffer_history(j) for j in jobs]
    elif mode == 'model':
        res = [run_model_behaviours(j) for j in jobs]
    else:
        raise SystemExit('unknown mode')
    json.dump(res, open(op, 'w'))


if __name__ == '__main__':
    main()
