"""C10 helpers: render a layout, query jedi, ask CPython (oracle subprocess), project results.

Abstract vocabulary (shared with spec/Imports.tla):
  directory = list of names from the project directory L ([] = L, ['rta'] / ['rtb'] = roots)
  file      = {'d': directory, 'n': node name, 'init': bool}  (n/__init__.py or n.py in d)
  result    = {'t': none|file|attr|ns|phantom, 'd', 'n', 'init', 'dirs'}
"""
import atexit
import json
import os
import subprocess
import sys

PY = '/venv/bin/python'
ALIAS = 'zzalias'
ATTR_NAMES = ('pka', 'pkb', 'pkc', 'pkd')   # a "pkga" __init__ defines those of them the case uses


# ---------------------------------------------------------------- rendering
def real_name(n, pmode):
    return 'rtab' if (n == 'rtb' and pmode) else n


def dir_path(L, d, pmode):
    return os.path.join(L, *[real_name(x, pmode) for x in d])


def file_path(L, f, pmode):
    base = dir_path(L, f['d'], pmode)
    if f['init']:
        return os.path.join(base, f['n'], '__init__.py')
    return os.path.join(base, f['n'] + '.py')


def file_content(kind_is_pkga, attr_names, with_tag=True):
    lines = []
    if with_tag:
        lines.append('def tag(): pass')
    lines.append('def att(): pass')
    lines.append('def own_zz(): pass')
    if kind_is_pkga:
        lines += ['def %s(): pass' % a for a in attr_names]
    return '\n'.join(lines) + '\n'


def has_dir(k):
    return k in ('pkg', 'pkga', 'ns', 'both', 'modns')


def has_init(k):
    return k in ('pkg', 'pkga', 'both')


def has_mod(k):
    return k in ('mod', 'both', 'modns')


def render(case, L):
    """Create the tree of `case` below directory L (must not exist). Returns importer info."""
    pmode = case['pmode']
    attr_names = case.get('attr_names') or list(ATTR_NAMES[:2])
    imp = case['imp']
    os.makedirs(L)
    for r in case.get('roots', ['rta', 'rtb']):
        os.makedirs(dir_path(L, [r], pmode), exist_ok=True)
    imp_content = None
    for node in sorted(case['nodes'], key=lambda x: len(x['p'])):
        p, k = node['p'], node['k']
        d, n = p[:-1], p[-1]
        base = dir_path(L, d, pmode)
        if has_dir(k):
            os.makedirs(os.path.join(base, n), exist_ok=True)
        for init in (False, True):
            if (has_init(k) if init else has_mod(k)):
                f = {'d': d, 'n': n, 'init': init}
                is_imp = (f['d'] == imp['d'] and f['n'] == imp['n'] and f['init'] == imp['init'])
                content = file_content(init and k == 'pkga', attr_names, with_tag=not is_imp)
                if is_imp:
                    imp_content = content
                with open(file_path(L, f, pmode), 'w') as fh:
                    fh.write(content)
    if imp_content is None:       # the script in L (or any importer that is not a node)
        imp_content = file_content(False, attr_names, with_tag=False)
        ip = file_path(L, imp, pmode)
        os.makedirs(os.path.dirname(ip), exist_ok=True)
        with open(ip, 'w') as fh:
            fh.write(imp_content)
    return {'path': file_path(L, imp, pmode), 'content': imp_content,
            'sys_path': [dir_path(L, e, pmode) for e in case['sp']]}


def statement(form):
    dots = '.' * form['lvl']
    dotted = '.'.join(form['path'])
    k = form['k']
    if k == 'imp':
        return 'import %s' % dotted
    if k == 'impas':
        return 'import %s as %s' % (dotted, ALIAS)
    if k == 'from':
        return 'from %s%s import %s' % (dots, dotted, form['name'])
    return 'from %s%s import *' % (dots, dotted)


def cursor(form, stmt, nlines_before):
    """(line, column) of the name to query, in content + stmt (+ tag line)."""
    line = nlines_before + 1
    k = form['k']
    if k == 'imp':
        return line, len(stmt) - 1
    if k == 'impas':
        return line, len(stmt) - 1
    if k == 'from':
        return line, len(stmt) - 1
    return line + 1, 1


# ---------------------------------------------------------------- projection
def unpath(L, path, pmode):
    rel = os.path.relpath(str(path), L)
    parts = rel.split(os.sep)
    if parts[0] == '..':
        return None
    parts = ['rtb' if (x == 'rtab' and pmode and i == 0) else x for i, x in enumerate(parts)]
    return parts


def res(t, d=(), n='', init=False, dirs=()):
    return {'t': t, 'd': list(d), 'n': n, 'init': bool(init), 'dirs': [list(x) for x in dirs]}


NOTHING = res('none')


def file_res(L, path, pmode, t='file'):
    parts = unpath(L, path, pmode)
    if parts is None:
        return res('outside', n=str(path))
    if parts[-1] == '__init__.py':
        return res(t, parts[:-2], parts[-2], True)
    if not parts[-1].endswith('.py'):
        return res('outside', n=str(path))
    return res(t, parts[:-1], parts[-1][:-3], False)


def dirs_res(L, dirs, pmode):
    out = []
    for d in dirs:
        parts = unpath(L, d, pmode)
        out.append(parts if parts is not None else ['^'])
    return res('ns', dirs=out)


def proj_name(d, L, pmode, want_name=None):
    """jedi.api.classes.Name -> abstract result."""
    mp = d.module_path
    t = d.type
    if mp is not None and t == 'module':
        return file_res(L, mp, pmode)
    if mp is not None and t != 'namespace':
        r = file_res(L, mp, pmode, 'attr')
        if want_name is not None and d.name != want_name:
            r['t'] = 'attr?' + d.name
        return r
    # namespace values and unresolved SubModuleNames have no file: look at the values
    try:
        vals = list(d._name.infer())
    except Exception as e:           # projection must not hide anything: report as its own kind
        return res('unprojectable', n='%s: %s' % (type(e).__name__, e))
    for v in vals:
        if getattr(v, 'api_type', None) == 'namespace':
            return dirs_res(L, list(v.py__path__()), pmode)
    for v in vals:
        f = v.py__file__() if hasattr(v, 'py__file__') else None
        if f is not None:
            return file_res(L, f, pmode)
    if not vals:
        return res('phantom')
    return res('unprojectable', n='%s %s' % (t, d.full_name))


def canon(r):
    """hashable form of a result; namespace portions as a set."""
    if r['t'] == 'ns':
        return ('ns', tuple(sorted(tuple(x) for x in r['dirs'])))
    return (r['t'], tuple(r['d']), r['n'], r['init'])


# ---------------------------------------------------------------- jedi side
def jedi_query(code, path, proj, line, col, L, pmode, want_name):
    import jedi
    from harness import jutil
    out = {}
    for meth in ('infer', 'goto'):
        s = jedi.Script(code, path=path, project=proj, environment=jutil.env())
        try:
            if meth == 'infer':
                ds = s.infer(line, col)
            else:
                ds = s.goto(line, col, follow_imports=True)
            out[meth] = [proj_name(d, L, pmode, want_name) for d in ds]
        except Exception as e:  # noqa
            from harness.core import crash_key
            out[meth] = [res('crash', n=crash_key(e))]
    return out


def jedi_dotted(content, path, proj):
    """The dotted name jedi derives for the buffer, through the public API (full_name of a def)."""
    import jedi
    from harness import jutil
    s = jedi.Script(content, path=path, project=proj, environment=jutil.env())
    lines = content.split('\n')
    for i, l in enumerate(lines):
        if l.startswith('def own_zz'):
            ds = s.infer(i + 1, 5)
            if len(ds) == 1 and ds[0].full_name and ds[0].full_name.endswith('.own_zz'):
                return ds[0].full_name[:-len('.own_zz')].split('.')
            return ['?%s' % [d.full_name for d in ds]]
    return ['?no own_zz']


# ---------------------------------------------------------------- CPython oracle
ORACLE_SRC = r'''
import sys, json, importlib, os
BASE_PATH = [p for p in sys.path if p]
BASE_MODS = set(sys.modules)

def clean(sp):
    for k in list(sys.modules):
        if k not in BASE_MODS:
            del sys.modules[k]
    sys.path[:] = list(sp) + BASE_PATH
    sys.path_importer_cache.clear()
    importlib.invalidate_caches()

def describe(obj):
    import types
    if isinstance(obj, types.ModuleType):
        f = getattr(obj, '__file__', None)
        if f is not None:
            return {'t': 'file', 'path': f}
        return {'t': 'ns', 'dirs': list(obj.__path__)}
    if isinstance(obj, types.FunctionType):
        return {'t': 'attr', 'path': obj.__code__.co_filename, 'name': obj.__name__}
    return {'t': 'other', 'repr': repr(obj)[:80]}

def failure(e):
    return {'t': 'exc', 'exc': type(e).__name__, 'msg': str(e)[:200]}

def identity(sp, importer, cand):
    """globals for a probe statement, or None when `cand` does not load the importer"""
    clean(sp)
    if cand is None:
        return {'__name__': '__main__', '__package__': None, '__spec__': None}
    try:
        mod = importlib.import_module(cand)
    except BaseException:
        return None
    if getattr(mod, '__file__', None) != importer:
        return None
    return {'__name__': mod.__name__, '__package__': mod.__package__, '__spec__': mod.__spec__}

def probe(sp, importer, cand, q):
    g = identity(sp, importer, cand)
    if g is None:
        return None
    try:
        exec(q['stmt'], g)
    except ImportError as e:
        return failure(e)
    except BaseException as e:
        return failure(e)
    if q['k'] == 'imp':
        if q['lvl'] == 0:
            return describe(sys.modules['.'.join(q['path'])])
        return {'t': 'other', 'repr': 'relative plain import'}
    if q['k'] == 'star':
        if 'tag' in g:
            return describe(g['tag'])
        return {'t': 'unbound'}
    return describe(g[q['bind']])

def job(j):
    sp, importer = j['sys_path'], j['importer']
    ids = []
    for c in j['cands']:
        if identity(sp, importer, c) is not None:
            ids.append(c)
    if not ids:
        ids = [None]
    out = {'ids': ids, 'qs': [], 'abs': []}
    for q in j['qs']:
        out['qs'].append([probe(sp, importer, c, q) for c in ids])
    for names in j.get('abs', []):
        clean(sp)
        try:
            out['abs'].append(describe(importlib.import_module('.'.join(names))))
        except BaseException as e:
            out['abs'].append(failure(e))
    clean([])
    return out

for line in sys.stdin:
    line = line.strip()
    if not line:
        continue
    try:
        r = job(json.loads(line))
    except BaseException as e:
        import traceback
        r = {'error': traceback.format_exc()[-1500:]}
    sys.stdout.write(json.dumps(r) + '\n')
    sys.stdout.flush()
'''

_ORACLE = None


def _oracle():
    global _ORACLE
    if _ORACLE is None or _ORACLE[0] != os.getpid() or _ORACLE[1].poll() is not None:
        env = dict(os.environ)
        env.pop('PYTHONPATH', None)
        env['PYTHONDONTWRITEBYTECODE'] = '1'
        p = subprocess.Popen([PY, '-I', '-B', '-c', ORACLE_SRC], stdin=subprocess.PIPE,
                             stdout=subprocess.PIPE, cwd='/', env=env, text=True, bufsize=1)
        _ORACLE = (os.getpid(), p)
        atexit.register(_kill, p)
    return _ORACLE[1]


def _kill(p):
    try:
        p.kill()
    except Exception:
        pass


def oracle(jobdict):
    p = _oracle()
    p.stdin.write(json.dumps(jobdict) + '\n')
    p.stdin.flush()
    line = p.stdout.readline()
    if not line:
        raise RuntimeError('oracle died')
    r = json.loads(line)
    if 'error' in r:
        raise RuntimeError('oracle error: ' + r['error'])
    return r


def oracle_to_answer(o, L, pmode, form):
    """One oracle observation -> {'any': bool, 'ok': [results], 'why': str} (the shape of the
    Reference's answers in Imports.tla)."""
    if o is None:
        return None
    t = o['t']
    if t == 'file':
        return {'any': False, 'ok': [file_res(L, o['path'], pmode)], 'why': 'file'}
    if t == 'ns':
        return {'any': False, 'ok': [dirs_res(L, o['dirs'], pmode)], 'why': 'ns'}
    if t == 'attr':
        return {'any': False, 'ok': [file_res(L, o['path'], pmode, 'attr')], 'why': 'attr'}
    if t == 'unbound':
        return {'any': False, 'ok': [NOTHING], 'why': 'star-nothing'}
    if t == 'exc':
        if o['exc'] == 'ModuleNotFoundError':
            return {'any': False, 'ok': [NOTHING], 'why': 'MNFE'}
        if o['exc'] == 'ImportError' and o['msg'].startswith('cannot import name'):
            return {'any': False, 'ok': [NOTHING], 'why': 'IE_NAME'}
        if o['exc'] == 'ImportError' and 'beyond top-level' in o['msg']:
            return {'any': True, 'ok': [], 'why': 'IE_BEYOND'}
        if o['exc'] == 'ImportError' and 'no known parent package' in o['msg']:
            return {'any': True, 'ok': [], 'why': 'IE_NOPARENT'}
        return {'any': True, 'ok': [], 'why': 'exc:%s:%s' % (o['exc'], o['msg'][:60])}
    return {'any': True, 'ok': [], 'why': 'other:' + json.dumps(o)[:80]}


def holds(jres, answers):
    """The property relation: jres = list of jedi results (set), answers = per identity."""
    js = set(canon(r) for r in jres) or {canon(NOTHING)}
    if len(js) != 1:
        return False
    j = next(iter(js))
    for a in answers:
        if a['any'] or any(canon(r) == j for r in a['ok']):
            return True
    return False


# ---------------------------------------------------------------- one case
def py_cands(case):
    """dotted names under which Python might load the importer (relative to sys.path entries)."""
    imp = case['imp']
    fp = imp['d'] + [imp['n']]
    out = []
    for e in case['sp']:
        if len(e) < len(fp) and fp[:len(e)] == e:
            c = '.'.join(fp[len(e):])
            if c not in out:
                out.append(c)
    return out


def run_case(case, L):
    """Render, query jedi for every form (infer + goto), ask CPython. Returns observations."""
    import jedi
    info = render(case, L)
    pmode = case['pmode']
    proj = jedi.Project(L, sys_path=info['sys_path'], smart_sys_path=False)
    content = info['content']
    nlines = content.count('\n')
    forms = [q['form'] if 'form' in q else q for q in case['qs']]
    obs = []
    oq = []
    for form in forms:
        stmt = statement(form)
        code = content + stmt + '\n' + ('tag\n' if form['k'] == 'star' else '')
        line, col = cursor(form, stmt, nlines)
        want = form['name'] if form['k'] in ('from', 'star') else None
        o = jedi_query(code, info['path'], proj, line, col, L, pmode, want)
        o['stmt'] = stmt
        obs.append(o)
        oq.append({'stmt': stmt, 'k': 'imp' if form['k'] == 'imp' else form['k'],
                   'lvl': form['lvl'], 'path': form['path'],
                   'bind': ALIAS if form['k'] == 'impas' else form['name']})
    dotted = jedi_dotted(content, info['path'], proj)
    absq = [dotted] if dotted and not dotted[0].startswith('?') and dotted != ['__main__'] else []
    orc = oracle({'sys_path': info['sys_path'], 'importer': info['path'], 'cands': py_cands(case),
                  'qs': oq, 'abs': absq})
    for o, per_id, form in zip(obs, orc['qs'], forms):
        o['py_raw'] = per_id
        o['py'] = [oracle_to_answer(x, L, pmode, form) for x in per_id]
    back = None
    if absq:
        a = orc['abs'][0]
        back = oracle_to_answer(a, L, pmode, None)
    return {'obs': obs, 'ids': orc['ids'], 'dotted': dotted, 'dotted_back': back,
            'importer': info['path'], 'sys_path': info['sys_path']}
