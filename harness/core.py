"""Common machinery of the /verif checks: context, verdicts, evidence, known findings.

Exit codes (DESIGN.md 2.6): 0 held, 1 VIOLATION, 2 machinery failure.
"""
import atexit
import hashlib
import json
import os
import random
import shutil
import sys
import tempfile
import time
import traceback

VERIF = os.path.dirname(os.path.dirname(os.path.abspath(__file__)))
REPO = os.environ.get('VERIF_REPO', '/repo')
SPEC = os.path.join(VERIF, 'spec')
PY = '/venv/bin/python'


class MachineryError(Exception):
    """The check itself is broken (TLC error, vacuity guard, harness bug)."""


def setup_repo_import():
    """Make `import jedi` resolve to /repo's working tree, and verify it."""
    if REPO not in sys.path:
        sys.path.insert(0, REPO)
    os.environ['PYTHONPATH'] = REPO + os.pathsep + VERIF
    import jedi
    private_cache()
    if not os.path.abspath(jedi.__file__).startswith(os.path.abspath(REPO) + os.sep):
        raise MachineryError('jedi imported from %s, not %s' % (jedi.__file__, REPO))
    return jedi


def private_cache():
    """Every process gets its own parser-cache directory: parso's pickle cache is not safe against concurrent
    writers/readers (a half-written pickle raises UnpicklingError/EOFError in another process)."""
    import jedi
    base = os.environ.get('VERIF_CACHE_BASE') or tempfile.gettempdir()
    d = os.path.join(base, 'jcache_%d' % os.getpid())
    os.makedirs(d, exist_ok=True)
    jedi.settings.cache_directory = d
    atexit.register(shutil.rmtree, d, True)
    return d


def load_known_findings():
    out = []
    import glob
    for p in [os.path.join(VERIF, 'known_findings.json')] + sorted(glob.glob(os.path.join(VERIF, 'known_findings.d', '*.json'))):
        if os.path.exists(p):
            with open(p) as f:
                out += json.load(f)['findings']
    return out


class Ctx:
    def __init__(self, prop, tier, seed):
        self.prop = prop
        self.tier = tier
        self.seed = seed
        self.rng = random.Random(seed)
        self.t0 = time.time()
        self.tmp = tempfile.mkdtemp(prefix='verif_%s_' % prop)
        atexit.register(shutil.rmtree, self.tmp, True)
        os.environ['VERIF_CACHE_BASE'] = self.tmp
        self.violations = []       # (key, description, replay path)
        self.known_hits = {}       # key -> (description, count)
        self.coverage = {'states': 0, 'transitions': 0,
                         'traces_validated_against_impl': 0, 'samples': [],
                         'tlc_runs': [], 'drift': 0, 'drift_samples': []}
        self.assumptions = []
        self.notes = []
        self.known = [k for k in load_known_findings() if k['property'] == prop]
        self.quick = tier == 'quick'

    # -- bookkeeping ------------------------------------------------------
    def sub(self, name):
        d = os.path.join(self.tmp, name)
        os.makedirs(d, exist_ok=True)
        return d

    def log(self, *a):
        print('[%s %6.1fs]' % (self.prop, time.time() - self.t0), *a, flush=True)

    def add_tlc(self, res, label):
        self.coverage['states'] += res.distinct
        self.coverage['transitions'] += res.generated
        self.coverage['tlc_runs'].append({
            'label': label, 'spec': res.module, 'cfg': res.cfg_name, 'distinct_states': res.distinct,
            'states_generated': res.generated, 'depth': res.depth, 'wall_s': round(res.wall, 2),
            'mode': res.mode, 'coverage': res.coverage_summary()})

    def sample(self, obj, limit=6):
        if len(self.coverage['samples']) < limit:
            self.coverage['samples'].append(obj)

    def count(self, key, n=1):
        self.coverage[key] = self.coverage.get(key, 0) + n

    def drift(self, desc):
        """Code != Design while the property relation still holds (2.7)."""
        self.coverage['drift'] += 1
        if len(self.coverage['drift_samples']) < 10:
            self.coverage['drift_samples'].append(desc)

    # -- verdicts ---------------------------------------------------------
    def violation(self, key, description, replay):
        """Report a failure of the property relation on the real code.

        key: shape of the failing input; matched against known_findings.json
        (status 'known' suppresses to KNOWN-FINDING; 'fixed' suppresses nothing).
        """
        for k in self.known:
            if k.get('status') == 'known' and _match(k, key):
                d, n = self.known_hits.get(k['key'], (k['description'], 0))
                self.known_hits[k['key']] = (d, n + 1)
                return False
        if len(self.violations) >= 25:
            self.violations.append((key, description, None))
            return True
        rd = os.path.join(VERIF, 'out', 'replays', self.prop)
        os.makedirs(rd, exist_ok=True)
        h = hashlib.sha1(json.dumps([key, description], sort_keys=True, default=str).encode()).hexdigest()[:12]
        path = os.path.join(rd, '%s.json' % h)
        with open(path, 'w') as f:
            json.dump({'property': self.prop, 'key': key, 'description': description,
                       'replay': replay, 'seed': self.seed, 'tier': self.tier}, f, indent=1, default=str)
        self.violations.append((key, description, path))
        return True

    def finish(self, level='model_checking'):
        cov = self.coverage
        if not cov['samples']:
            raise MachineryError('no samples recorded')
        if cov['states'] < 1 or cov['transitions'] < 1:
            raise MachineryError('no TLC states recorded')
        cov['known_findings_hit'] = {k: {'description': d, 'cases': n}
                                     for k, (d, n) in self.known_hits.items()}
        cov['notes'] = self.notes
        ev = {'property_id': self.prop, 'tier': self.tier, 'seed': self.seed, 'level': level,
              'coverage': cov, 'assumptions': self.assumptions,
              'wall_s': round(time.time() - self.t0, 2), 'violations': len(self.violations)}
        # runs against a scratch tree (VERIF_REPO set) must not overwrite the real evidence
        evdir = os.path.join(VERIF, 'evidence') if os.path.abspath(REPO) == '/repo' \
            else os.path.join(VERIF, 'out', 'evidence_scratch')
        os.makedirs(evdir, exist_ok=True)
        with open(os.path.join(evdir, '%s.json' % self.prop), 'w') as f:
            json.dump(ev, f, indent=1, default=str)
        for k, (d, n) in sorted(self.known_hits.items()):
            print('KNOWN-FINDING: property=%s %s [%s] (%d cases)' % (self.prop, d, k, n))
        seen = set()
        for key, desc, path in self.violations:
            if path is None or path in seen:
                continue
            seen.add(path)
            print('VIOLATION property=%s replay=%s' % (self.prop, path))
            print('   ', key, '::', str(desc)[:400])
        self.log('done: states=%d transitions=%d traces=%d drift=%d violations=%d wall=%.1fs' % (
            cov['states'], cov['transitions'], cov['traces_validated_against_impl'], cov['drift'],
            len(self.violations), time.time() - self.t0))
        return 1 if self.violations else 0


def _match(k, key):
    kk = k['key']
    if kk.endswith('*'):
        return key.startswith(kk[:-1])
    return kk == key


def crash_key(exc, tb=None):
    """Shape key of an internal exception: type + innermost two frames inside jedi."""
    tb = tb if tb is not None else exc.__traceback__
    frames = [f for f in traceback.extract_tb(tb) if os.sep + 'jedi' + os.sep in f.filename]
    tail = ['%s:%s' % (os.path.basename(f.filename), f.name) for f in frames[-2:]]
    return '%s@%s' % (type(exc).__name__, '<'.join(reversed(tail)))


def replay(run, ctx):
    """./check <ID> --replay <file>: show the recorded case and re-run the check with the recorded seed and tier;
    exit 1 iff a violation of the same shape key is found again (checks with a `replay` function of their own
    re-run exactly the recorded case)."""
    data = ctx.replay
    print('REPLAY property=%s key=%s' % (data.get('property'), data.get('key')))
    print(json.dumps(data.get('replay'), indent=1, default=str)[:6000])
    import importlib
    mod = importlib.import_module('harness.props.%s' % ctx.prop.lower())
    if hasattr(mod, 'replay'):
        return mod.replay(ctx, data)
    ctx.seed = int(data.get('seed', ctx.seed))
    ctx.rng = random.Random(ctx.seed)
    ctx.tier = data.get('tier', ctx.tier)
    ctx.quick = ctx.tier == 'quick'
    rc = run(ctx)
    if rc is not None:
        return rc            # the check handled the replay itself
    ctx.finish()
    again = [v for v in ctx.violations if v[0] == data.get('key')]
    print('REPLAY-RESULT key=%s reproduced=%s' % (data.get('key'), bool(again)))
    return 1 if again else 0


def main(run, prop):
    import argparse
    ap = argparse.ArgumentParser()
    ap.add_argument('--tier', default=os.environ.get('VERIF_TIER', 'quick'), choices=['quick', 'thorough'])
    ap.add_argument('--replay')
    args = ap.parse_args()
    seed = int(os.environ.get('VERIF_SEED', '0') or 0)
    try:
        setup_repo_import()
        ctx = Ctx(prop, args.tier, seed)
        if args.replay:
            with open(args.replay) as f:
                ctx.replay = json.load(f)
        else:
            ctx.replay = None
        if ctx.replay is not None:
            rc = replay(run, ctx)
        else:
            rc = run(ctx)
            if rc is None:
                rc = ctx.finish()
        sys.stdout.flush()
        os._exit(rc) if False else sys.exit(rc)
    except MachineryError as e:
        print('MACHINERY-FAILURE property=%s %s' % (prop, e))
        traceback.print_exc()
        sys.exit(2)
    except SystemExit:
        raise
    except BaseException as e:
        print('MACHINERY-FAILURE property=%s unexpected %s: %s' % (prop, type(e).__name__, e))
        traceback.print_exc()
        sys.exit(2)
