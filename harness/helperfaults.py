"""Fault injection for jedi's helper process without touching /repo.

`install()` wraps `jedi.inference.compiled.subprocess._GeneralizedPopen` so that every helper's
stdin/stdout go through proxies.  A global `PLAN` maps a global request index (0-based count of
requests flushed to any helper since `reset()`) to a fault:

  ('before',)       SIGKILL the helper and wait until it is dead, then let the parent write
  ('after',)        SIGSTOP the helper, forward the request, SIGKILL: the request was sent, no reply
  ('trunc', frac)   let the helper answer, capture the exact reply bytes, SIGKILL it, then serve only
                    the first max(1, int(frac*len)) bytes followed by EOF
"""
import os
import pickle
import signal
import time

PLAN = {}
STATE = {'req': 0, 'log': [], 'procs': []}


def _trace_fault(phase, pid):
    try:
        from jedi import _verif
        _verif.trace('Fault', phase=phase, hpid=pid)
    except Exception:  # noqa
        pass


def reset(plan=None):
    PLAN.clear()
    if plan:
        PLAN.update(plan)
    STATE['req'] = 0
    STATE['log'] = []


def _proc_state(pid):
    try:
        with open('/proc/%d/stat' % pid) as f:
            return f.read().rsplit(')', 1)[1].split()[0]
    except OSError:
        return None


def wait_dead(pid, timeout=5.0):
    t0 = time.time()
    while time.time() - t0 < timeout:
        st = _proc_state(pid)
        if st in (None, 'Z', 'X'):
            return True
        time.sleep(0.002)
    return False


class _Rec:
    """Reader that records exactly the bytes the unpickler consumes."""
    def __init__(self, f):
        self.f = f
        self.buf = bytearray()

    def read(self, n=-1):
        d = self.f.read(n)
        self.buf += d
        return d

    def readline(self):
        d = self.f.readline()
        self.buf += d
        return d


class StdinProxy:
    def __init__(self, proc, real):
        self._proc = proc
        self._real = real
        self._pending = False

    def write(self, data):
        idx = STATE['req']
        fault = PLAN.get(idx)
        if not self._pending:
            self._pending = True
            if fault and fault[0] == 'before':
                os.kill(self._proc.pid, signal.SIGKILL)
                wait_dead(self._proc.pid)
                STATE['log'].append((idx, 'before', self._proc.pid))
                _trace_fault('before', self._proc.pid)
            elif fault and fault[0] == 'after':
                os.kill(self._proc.pid, signal.SIGSTOP)
        return self._real.write(data)

    def flush(self):
        idx = STATE['req']
        fault = PLAN.get(idx)
        try:
            return self._real.flush()
        finally:
            if self._pending:
                self._pending = False
                STATE['req'] = idx + 1
                if fault and fault[0] == 'after':
                    os.kill(self._proc.pid, signal.SIGKILL)
                    wait_dead(self._proc.pid)
                    STATE['log'].append((idx, 'after', self._proc.pid))
                    _trace_fault('after', self._proc.pid)
                elif fault and fault[0] == 'trunc':
                    self._proc.stdout._arm(fault[1], idx)

    def close(self):
        return self._real.close()

    def fileno(self):
        return self._real.fileno()

    @property
    def closed(self):
        return self._real.closed


class StdoutProxy:
    def __init__(self, proc, real):
        self._proc = proc
        self._real = real
        self._served = None   # bytes to serve instead of the real stream
        self._armed = None

    def _arm(self, frac, idx):
        self._armed = (frac, idx)

    def _maybe_capture(self):
        if self._armed is None:
            return
        frac, idx = self._armed
        self._armed = None
        rec = _Rec(self._real)
        try:
            pickle.Unpickler(rec).load()
        except Exception:  # noqa: the harness only needs the byte boundary
            pass
        data = bytes(rec.buf)
        os.kill(self._proc.pid, signal.SIGKILL)
        wait_dead(self._proc.pid)
        cut = min(len(data) - 1, max(1, int(frac * len(data))))
        self._served = bytearray(data[:cut])
        STATE['log'].append((idx, 'trunc', self._proc.pid, cut, len(data)))
        _trace_fault('trunc', self._proc.pid)

    def read(self, n=-1):
        self._maybe_capture()
        if self._served is not None:
            if n is None or n < 0:
                n = len(self._served)
            d = bytes(self._served[:n])
            del self._served[:n]
            return d
        return self._real.read(n)

    def readline(self):
        self._maybe_capture()
        if self._served is not None:
            i = self._served.find(b'\n')
            n = len(self._served) if i < 0 else i + 1
            d = bytes(self._served[:n])
            del self._served[:n]
            return d
        return self._real.readline()

    def close(self):
        return self._real.close()

    def fileno(self):
        return self._real.fileno()

    @property
    def closed(self):
        return self._real.closed


_installed = False


def install():
    global _installed
    if _installed:
        return
    import jedi.inference.compiled.subprocess as sp
    real_popen = sp._GeneralizedPopen

    def popen(*a, **kw):
        p = real_popen(*a, **kw)
        p.stdin = StdinProxy(p, p.stdin)
        p.stdout = StdoutProxy(p, p.stdout)
        STATE['procs'].append(p.pid)
        return p
    sp._GeneralizedPopen = popen
    _installed = True


def zombies():
    """Child processes of this process that are zombies."""
    me = os.getpid()
    out = []
    for d in os.listdir('/proc'):
        if d.isdigit():
            try:
                with open('/proc/%s/stat' % d) as f:
                    rest = f.read().rsplit(')', 1)[1].split()
                if rest[0] == 'Z' and int(rest[1]) == me:
                    out.append(int(d))
            except OSError:
                pass
    return out


def live_children():
    me = os.getpid()
    out = []
    for d in os.listdir('/proc'):
        if d.isdigit():
            try:
                with open('/proc/%s/stat' % d) as f:
                    rest = f.read().rsplit(')', 1)[1].split()
                if int(rest[1]) == me and rest[0] != 'Z':
                    out.append(int(d))
            except OSError:
                pass
    return out


def open_fds():
    return len(os.listdir('/proc/self/fd'))


# ---- helper-side introspection (runs inside the helper; found by pickle via PYTHONPATH=/verif)
def helper_state_count():
    """Number of inference states the Listener holds (frame walk, no hook needed)."""
    import sys
    f = sys._getframe()
    while f is not None:
        s = f.f_locals.get('self')
        if s is not None and type(s).__name__ == 'Listener':
            return sorted(s._inference_states)
        f = f.f_back
    return None


def helper_state_count_is(inference_state):
    """Same, callable through CompiledSubprocess.run(id, fn) (the helper passes its state first)."""
    return helper_state_count()
