"""C01 -- the query API is total on any source text and cursor position.

spec/Text.tla: editor sessions over a token alphabet (token soups, prefixes of valid programs,
small edits), Reference = which positions are inside the text (parso line rule), Design =
validate_line_column.  spec->code: every emitted buffer x every relevant position x every query
method is executed and every documented attribute of the results is touched.  code->spec: corpus
prefixes / edits with random positions recorded and judged by Trace_Text.tla.
"""
import os
import random
import re

from harness import jutil
from harness.core import MachineryError
from harness.tlc import run_tlc, cases, validate_traces

META = dict(
    spec='Text.tla, Trace_Text.tla',
    text='TLC explores editor sessions (all token soups of <=3/4 tokens, every prefix of 6 valid programs (two of them with values that mix objects of the buffer and builtins; the unedited programs are always replayed), '
         '1-2 token edits of them) and checks that the transcription of validate_line_column accepts exactly '
         'the positions inside the text (parso line rule incl. CRLF/CR/form feed). Every emitted buffer is '
         'executed: 7 position-taking query methods at every in-range and just-out-of-range position, the 4 '
         'position-less ones, and every documented attribute/method of the returned Name/Completion/Signature/'
         'ParamName/SyntaxError objects; outcome must be ok / ValueError as the spec says and never another '
         'exception. Corpus prefixes and edits with random positions are recorded and judged by TLC (Trace_Text).',
    note='Internal exceptions caused by the absent typeshed in this tree are known findings keyed by crash '
         'signature; the column just after a lone CR is left undecided by the Reference; hangs are a watchdog.',
    technique='TLA+ editor-session spec model-checked with TLC; emitted buffers replayed into all query methods '
              '(spec->code); recorded corpus queries validated by TLC (code->spec)',
    design_ref='5/C01')

CFG = '''INIT Init
NEXT Next
CONSTANTS
  NTok = %d
  MaxLen = %d
  MaxEdits = %d
  MaxPrefix = %d
  EmitMod = %d
  EmitRem = %d
INVARIANT Total
%s
CHECK_DEADLOCK FALSE
'''
POS_METHODS = ['complete', 'infer', 'goto', 'help', 'get_references', 'get_signatures', 'get_context']


def write_cfg(ctx, name, ntok, maxlen, edits, prefix, mod, rem, emit):
    p = os.path.join(ctx.tmp, name)
    with open(p, 'w') as f:
        f.write(CFG % (ntok, maxlen, edits, prefix, mod, rem, 'CONSTRAINT Emit' if emit else ''))
    return p


def tok_strings(res):
    import json
    toks = json.loads(res.tagged('TOKENS')[0][0])
    out = []
    for t in toks:
        s = t['s']
        if s == 'e_acute':
            s = 'é'
        out.append((s, t['word']))
    return out


def render(text, toks):
    out = []
    prev_word = False
    for i in text:
        s, w = toks[i - 1]
        if prev_word and w:
            out.append(' ')
        out.append(s)
        prev_word = w
    return ''.join(out)


def line_table(src):
    """[len, brk] per line by the documented rule (split on \\r\\n | \\n | \\r)."""
    out = []
    pos = 0
    for m in re.finditer(r'\r\n|\n|\r', src):
        out.append((m.start() - pos, {'\n': 1, '\r\n': 2, '\r': 3}[m.group(0)]))
        pos = m.end()
    out.append((len(src) - pos, 0))
    return out


# ---------------------------------------------------------------- touching results
def touch(obj, depth=0):
    """Access every documented attribute / call every documented no-arg method."""
    from jedi.api import classes, errors
    if isinstance(obj, errors.SyntaxError):
        for a in ('line', 'column', 'until_line', 'until_column'):
            getattr(obj, a)
        obj.get_message()
        repr(obj)
        return
    if isinstance(obj, classes.BaseSignature):
        obj.params
        obj.to_string()
        if isinstance(obj, classes.Signature):
            obj.index
            obj.bracket_start
        for p in obj.params:
            touch(p, depth + 1)
    for a in ('name', 'type', 'module_name', 'module_path', 'line', 'column', 'description', 'full_name'):
        getattr(obj, a)
    repr(obj)
    obj.in_builtin_module()
    obj.is_stub()
    obj.is_side_effect()
    if hasattr(type(obj), 'is_definition'):
        obj.is_definition()
    obj.get_line_code()
    obj.get_line_code(before=1, after=1)
    obj.get_definition_start_position()
    obj.get_definition_end_position()
    obj.get_type_hint()
    obj.docstring()
    obj.docstring(raw=True)
    if isinstance(obj, classes.Completion):
        obj.complete
        obj.name_with_symbols
        obj.get_completion_prefix_length()
    if isinstance(obj, classes.ParamName):
        obj.kind
        obj.to_string()
        obj.infer_default()
        obj.infer_annotation()
    if depth == 0:
        for sub in (obj.parent(), ):
            if sub is not None:
                touch(sub, depth + 1)
        for m in ('infer', 'goto', 'get_signatures', 'defined_names', 'execute'):
            if not hasattr(type(obj), m):
                continue
            for sub in getattr(obj, m)()[:2]:
                touch(sub, depth + 1)


def run_query(s, method, line, col, touch_n):
    """-> (outcome, crash key or None)"""
    import jedi  # noqa
    try:
        if method == 'get_names':
            r = s.get_names(all_scopes=True, definitions=True, references=True)
        elif method == 'search':
            r = list(s.search('a'))
        elif method == 'complete_search':
            r = list(s.complete_search('a'))
        elif method == 'get_syntax_errors':
            r = s.get_syntax_errors()
        elif method == 'get_context':
            r = [s.get_context(line, col)]
        else:
            r = getattr(s, method)(line, col)
    except ValueError as e:
        from harness.core import crash_key
        # a ValueError raised by the position check is the documented rejection; one from deep
        # inside jedi is an internal exception
        k = crash_key(e)
        if k.split('@')[1].split('<')[0] == 'helpers.py:wrapper':
            return 'ValueError', None
        return 'exc', key_of(e)
    except Exception as e:  # noqa
        return 'exc', key_of(e)
    try:
        sel = r if len(r) <= touch_n else r[:touch_n - 1] + r[-1:]
        for x in sel:
            touch(x)
    except Exception as e:  # noqa
        return 'exc', key_of(e)
    return 'ok', None


def _rec_tail(e):
    """RecursionError: the most frequent jedi frame of the last 60 (the innermost one is arbitrary)."""
    import collections
    import traceback
    fr = [f for f in traceback.extract_tb(e.__traceback__) if '/jedi/' in f.filename]
    c = collections.Counter('%s:%s' % (os.path.basename(f.filename), f.name) for f in fr[-60:])
    return sorted(c.items(), key=lambda kv: (-kv[1], kv[0]))[0][0] if c else ''


def deep(e):
    """An exception raised at the bottom of a runaway recursion can have any type (the interpreter limit is hit
    inside arbitrary code); what matters is the recursion.  A traceback nearly as deep as the interpreter limit =
    runaway recursion (an exception merely raised deep inside a long but finite inference keeps its own key)."""
    import sys
    n, tb = 0, e.__traceback__
    while tb is not None:
        n += 1
        tb = tb.tb_next
    return n > 0.8 * sys.getrecursionlimit()


def key_of(e):
    from harness.core import crash_key
    if isinstance(e, RecursionError) or deep(e):
        if os.environ.get('C01_DEBUG_REC'):
            import sys, traceback
            n = 0
            tb = e.__traceback__
            while tb is not None:
                n += 1
                tb = tb.tb_next
            sys.stderr.write('REC limit=%d frames=%d type=%s tail=%s\n' % (sys.getrecursionlimit(), n, type(e).__name__, _rec_tail(e)))
        return 'RecursionError@' + _rec_tail(e)
    return coarse(crash_key(e))


def coarse(key):
    """ExcType@innermost-jedi-frame: coarse on purpose, so that the known typeshed-absent failures of this
    tree are matched whatever path led to them."""
    return key.split('<')[0]


def replay_case(arg):
    case, toks, touch_n = arg
    src = render(case['text'], toks)
    res = {'src': src, 'events': [], 'lines_ok': True}
    lt = line_table(src)
    import parso
    real = parso.split_lines(src, keepends=True)
    spec_lines = [(ln['len'], ln['brk']) for ln in case['lines']]
    mine = [(len(x.rstrip('\r\n')) if x.endswith(('\n', '\r')) else len(x),
             2 if x.endswith('\r\n') else 1 if x.endswith('\n') else 3 if x.endswith('\r') else 0) for x in real]
    if spec_lines != mine or lt != mine:
        res['lines_ok'] = False
        res['lines'] = [spec_lines, mine, lt]
        return res
    s = jutil.script(src)
    for m in ('get_names', 'search', 'complete_search', 'get_syntax_errors'):
        out, key = run_query(s, m, None, None, touch_n)
        res['events'].append({'m': m, 'line': 0, 'col': 0, 'out': out, 'key': key, 'exp': 'ok', 'posless': True})
    for ls, cols in case['pos'].items():
        line = int(ls)
        cl = sorted(int(c) for c in cols)
        for c in [-1] + cl:
            exp = 'ValueError' if c == -1 else cols[str(c)]
            for m in POS_METHODS:
                out, key = run_query(jutil.script(src), m, line, c, touch_n)
                res['events'].append({'m': m, 'line': line, 'col': c, 'out': out, 'key': key, 'exp': exp, 'posless': False})
    res['table'] = mine
    return res


def event_record(e, table):
    line = e['line']
    if 1 <= line <= len(table):
        ln, brk = table[line - 1]
    else:
        ln, brk = 0, 0
    return {'posless': e['posless'], 'nlines': len(table), 'len': ln, 'brk': brk, 'line': max(line, 0),
            'col1': e['col'] + 1, 'out': e['out'] if e['out'] in ('ok', 'ValueError') else 'exc:' + str(e['key'])}


# ---------------------------------------------------------------- corpus driver
def corpus_job(arg):
    path, seed, nvariants, npos, touch_n = arg
    rng = random.Random(seed)
    with open(path, encoding='utf-8') as f:
        full = f.read()
    out = []
    lines = full.split('\n')
    for v in range(nvariants):
        kind = rng.choice(['line_prefix', 'char_prefix', 'delete_line', 'dup_token', 'crlf', 'cr'])
        if kind == 'line_prefix':
            src = '\n'.join(lines[:rng.randrange(1, len(lines) + 1)])
        elif kind == 'char_prefix':
            src = full[:rng.randrange(0, len(full) + 1)]
        elif kind == 'delete_line':
            i = rng.randrange(len(lines))
            src = '\n'.join(lines[:i] + lines[i + 1:])
        elif kind == 'dup_token':
            i = rng.randrange(0, max(1, len(full)))
            src = full[:i] + rng.choice(['(', ')', ':', '.', ',', '"', "'", ' def ', '\n    ', '[', '=', '@', '\\']) + full[i:]
        elif kind == 'crlf':
            src = '\n'.join(lines[:rng.randrange(1, min(len(lines), 60) + 1)]).replace('\n', '\r\n')
        else:
            src = '\n'.join(lines[:rng.randrange(1, min(len(lines), 60) + 1)]).replace('\n', '\r')
        if len(src) > 6000:
            src = src[:6000]
        table = line_table(src)
        evs = []
        for _ in range(npos):
            r = rng.random()
            if r < 0.75:
                line = rng.randrange(1, len(table) + 1)
                col = rng.randrange(0, table[line - 1][0] + 1)
            elif r < 0.9:
                line = rng.randrange(1, len(table) + 1)
                col = table[line - 1][0] + rng.choice([1, 2, 5])
            else:
                line = rng.choice([0, len(table) + 1, len(table) + 3])
                col = rng.randrange(0, 3)
            m = rng.choice(POS_METHODS + ['get_names', 'get_syntax_errors'])
            posless = m in ('get_names', 'get_syntax_errors')
            s = jutil.script(src, path=path)
            o, key = run_query(s, m, line, col, touch_n)
            e = {'m': m, 'line': line, 'col': col, 'out': o, 'key': key, 'posless': posless}
            evs.append((e, event_record(e, table)))
        out.append({'kind': kind, 'path': path, 'src_len': len(src), 'events': evs,
                    'src': src if any(e[0]['out'] == 'exc' for e in evs) else None})
    return out


def judge_event(ctx, e, src, origin):
    exp = e.get('exp')
    if e['out'] == 'exc':
        ctx.violation('crash:%s' % e['key'], '%s(%s, %s) raised an internal exception' % (e['m'], e['line'], e['col']),
                      {'source': src, 'method': e['m'], 'line': e['line'], 'column': e['col'], 'origin': origin})
    elif exp == 'ok' and e['out'] == 'ValueError':
        ctx.violation('inside-rejected', 'position inside the text rejected', {'source': src, 'event': e})
    elif exp == 'ValueError' and e['out'] == 'ok':
        ctx.violation('outside-accepted', 'position outside the text accepted', {'source': src, 'event': e})


def run(ctx):
    quick = ctx.quick
    ntok = 14 if quick else 34
    # ---- 1. exhaustive Design |= Reference over editor sessions
    runs = [('token soups', write_cfg(ctx, 'soup.cfg', ntok if quick else 26, 3, 3, 0, 1, 0, False)),
            ('program prefixes + edits', write_cfg(ctx, 'prog.cfg', ntok, 22, 1, 21, 1, 0, False))]
    toks = None
    for label, cfg in runs:
        res = run_tlc('Text', cfg, workers=16, timeout=3000)
        ctx.add_tlc(res, label)
        if res.violated:
            ctx.violation('design:Total', 'validate_line_column model violates the Reference', {'trace': res.trace[-2:]})
            return ctx.finish()
        toks = tok_strings(res)
    if ctx.coverage['states'] < 3000:
        raise MachineryError('vacuity: %d states' % ctx.coverage['states'])
    ctx.coverage['exhaustive'] = True
    # ---- 2. emitted buffers -> real Script (spec -> code)
    emitted = []
    mod1, mod2 = (29, 23) if quick else (13, 11)
    for label, cfg in [('emit soups', write_cfg(ctx, 'esoup.cfg', ntok if quick else 26, 3, 3, 0, mod1, ctx.seed % mod1, True)),
                       ('emit programs', write_cfg(ctx, 'eprog.cfg', ntok, 22, 1, 21, mod2, ctx.seed % mod2, True))]:
        res = run_tlc('Text', cfg, workers=1, timeout=3000)
        ctx.add_tlc(res, label)
        emitted += cases(res)
    if len(emitted) < 100:
        raise MachineryError('too few buffers emitted: %d' % len(emitted))
    ctx.log('replaying %d buffers' % len(emitted))
    touch_n = 3 if quick else 6
    results = jutil.pmap(replay_case, [(c, toks, touch_n) for c in emitted], chunksize=2)
    jutil.check_worker_errors(results)
    traces, srcs = [], []
    nq = 0
    for r in results:
        if not r['lines_ok']:
            raise MachineryError('Reference line rule disagrees with parso.split_lines on %r: %s' % (r['src'], r['lines']))
        for e in r['events']:
            nq += 1
            judge_event(ctx, e, r['src'], 'tlc-case')
        traces.append([event_record(e, r['table']) for e in r['events']])
        srcs.append(r['src'])
        ctx.sample({'buffer': r['src'], 'queries': len(r['events']),
                    'outcomes': sorted(set(e['out'] for e in r['events']))})
    ctx.coverage['replayed_queries'] = nq
    # ---- 3. corpus prefixes / edits (code -> spec)
    files = jutil.corpus_files(limit=14 if quick else 70, rng=ctx.rng)
    jobs = [(f, ctx.seed * 1000 + i, 4 if quick else 10, 6 if quick else 12, touch_n) for i, f in enumerate(files)]
    ctx.log('corpus: %d files' % len(files))
    cres = jutil.pmap(corpus_job, jobs, chunksize=1)
    jutil.check_worker_errors(cres)
    for fr in cres:
        for v in fr:
            for e, rec in v['events']:
                ctx.count('corpus_queries')
                e = dict(e, exp=None)
                if e['out'] == 'exc':
                    judge_event(ctx, e, v['src'], {'path': v['path'], 'variant': v['kind']})
            traces.append([rec for _, rec in v['events']])
            srcs.append({'path': v['path'], 'variant': v['kind']})
    ctx.log('validating %d traces' % len(traces))
    vs = validate_traces('Trace_Text', 'Trace_Text.cfg', traces, ctx, 'Trace_Text')
    for v, t, s in zip(vs, traces, srcs):
        if not v['accepted']:
            ev = t[v['at'] - 1] if v['at'] else None
            why = v['why'] or ['?']
            if why == ['InternalException']:
                continue        # already reported above with its crash key
            ctx.violation('reference:%s' % ','.join(why), 'recorded query violates Total: %s' % why,
                          {'source': s, 'event': ev})
    # binding self-test
    bad = [[dict(traces[0][0], out='ValueError', posless=True)], [dict(traces[0][0], out='exc:X')]]
    n0 = ctx.coverage['traces_validated_against_impl']
    bv = validate_traces('Trace_Text', 'Trace_Text.cfg', bad, ctx, 'binding self-test')
    ctx.coverage['traces_validated_against_impl'] = n0
    if any(v['accepted'] for v in bv):
        raise MachineryError('binding self-test: corrupted records accepted')
    ctx.coverage['binding_selftest'] = 'corrupted records rejected: %s' % [v['why'] for v in bv]
    ctx.assumptions += ['the column just after a lone CR line ending is not judged',
                        'attributes are touched on the first and last results of each query (%d per query)' % touch_n]
    return None
