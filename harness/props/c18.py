"""C18 -- get_context, parent() and full_name describe the lexical nesting.

spec/Nesting.tla: programs built by actions (def / async def / class / one-line def /
lambda / comprehension / continuation / comment lines, decorated or not), a token-level
transcription of Script.get_context + create_context + BaseName.parent +
get_qualified_names (Design) and a geometric Reference over the scope table.
Legs: TLC exhaustive Design|=Reference; TLC-emitted cases rendered, checked against CPython
(tokenize, ast, import + __qualname__, co_qualname) and replayed into the real jedi;
recorded observations (rendered cases and corpus files with an ast-derived table) judged by
TLC with Trace_Nesting.tla; binding self-test.
"""
import ast
import io
import os
import sys
import tokenize

from harness import jutil
from harness.core import MachineryError
from harness.tlc import run_tlc, cases, validate_traces

META = dict(
    spec='Nesting.tla, Trace_Nesting.tla',
    text='TLC checks exhaustively (all programs of <=N lines over def/async def/class/one-line def/'
         'lambda/comprehension/continuation/comment templates, decorated or not, nesting depth<=D, indent '
         'unit in Units, every token boundary and prefix column) that the token-level transcription of '
         'Script.get_context (leaf choice, header special case, create_context header rule, indentation '
         'walk-up), BaseName.parent and get_qualified_names satisfies the geometric Reference (innermost '
         'def/class whose body extent contains the position; enclosing bodies of a definition; module path + '
         '__qualname__); the three repaired get_context defects are switches of the model (constant Fixed; the '
         'what-if model of the old code must still violate CtxStrict). Emitted cases are rendered; tokenize/ast/import '
         'validate layout, scope table and __qualname__ (Reference vs CPython); the real get_context / '
         'parent() / full_name are compared with the Design (drift) and judged by TLC (Trace_Nesting) '
         'together with corpus files (identifier positions, all definitions) against an ast-derived table.',
    note='Header positions (decorator line .. colon) tolerate both the enclosing scope and the definition '
         'itself (upstream test_context pins the latter). Positions not on code are predicted but not judged. '
         'full_name is judged only when every enclosing scope is a class. Trusts TLC, CPython ast/tokenize '
         'and the table builder of this module (cross-checked against the TLA+ layout on every case).',
    technique='TLA+ spec (Design|=Reference) model-checked with TLC; spec->code replay of emitted cases; '
              'code->spec trace validation of recorded get_context/parent/full_name observations',
    design_ref='5/C18')

UNKNOWN = 9999

CFG = '''INIT Init
NEXT Next
CONSTANTS
  MaxItems = %d
  MaxDepth = %d
  MaxScopes = %d
  MaxExtras = %d
  Units = {%s}
  EmitMod = %d
  EmitRem = %d
  Fixed = {%s}
%s
CHECK_DEADLOCK FALSE
'''

ALL_FIXES = ('AsyncColumn', 'DedentCont', 'LambdaInClass')


def default_fixed():
    """Which get_context repairs the modelled code contains: all (the repaired /repo) unless
    C18_FIXED says otherwise ('none' or a comma list) -- for runs against an unrepaired tree."""
    v = os.environ.get('C18_FIXED')
    if v is None:
        return ALL_FIXES
    got = tuple(x for x in v.split(',') if x and x != 'none')
    if set(got) - set(ALL_FIXES):
        raise MachineryError('C18_FIXED: unknown repair in %r' % v)
    return got

INVS = ['CtxOK', 'ParentOK', 'FullNameOK', 'LayoutOK']


def write_cfg(ctx, name, items, depth, scopes, extras, units, mod=1, rem=0, invs=INVS, emit=False, fixed=None):
    fixed = default_fixed() if fixed is None else fixed
    body = '\n'.join('INVARIANT %s' % i for i in invs)
    if emit:
        body += '\nCONSTRAINT Emit'
    p = os.path.join(ctx.tmp, name)
    with open(p, 'w') as f:
        f.write(CFG % (items, depth, scopes, extras, ', '.join(map(str, units)), mod, rem,
                       ', '.join('"%s"' % x for x in fixed), body))
    return p


# ---------------------------------------------------------------- rendering (templates of Nesting.tla)
def render(prog, unit):
    out = []
    for i, it in enumerate(prog, 1):
        b = ' ' * (unit * it['d'])
        k = it['k']
        if it['dec']:
            out.append(b + '@dc(da)')
        pre = b + ('async ' if it['as'] else '')
        if k == 'def':
            out.append(pre + 'def f%d(p%d: an = df) -> rt:' % (i, i))
        elif k == 'class':
            out.append(pre + 'class C%d(Bs):' % i)
        elif k == 'idef':
            out.append(pre + 'def f%d(p%d): return p%d' % (i, i, i))
        elif k == 'stmt':
            out.append(b + 'v%d = wv' % i)
        elif k == 'lam':
            out.append(b + 'v%d = lambda q%d=df: q%d' % (i, i, i))
        elif k == 'comp':
            out.append(b + 'v%d = [i%d for i%d in sq]' % (i, i, i))
        elif k == 'cont':
            out.append(b + 'v%d = (wv,' % i)
            out.append(' ' * (unit * it['x']) + 'uv)')
        elif k == 'cmt':
            out.append(' ' * (unit * it['x']) + '# c')
        else:
            raise MachineryError('unknown item kind %r' % k)
    return '\n'.join(out) + '\n'


# ---------------------------------------------------------------- CPython oracles
_SKIP = (tokenize.NEWLINE, tokenize.NL, tokenize.INDENT, tokenize.DEDENT, tokenize.COMMENT,
         tokenize.ENDMARKER)


def py_tokens(src):
    return [t for t in tokenize.generate_tokens(io.StringIO(src).readline) if t.type not in _SKIP]


def _ccol(lines, lineno, bytecol):
    """ast col_offset (utf-8 bytes) -> character column."""
    line = lines[lineno - 1]
    if line.isascii():
        return bytecol
    return len(line.encode('utf-8')[:bytecol].decode('utf-8', 'replace'))


class Unsupported(Exception):
    pass


def scope_table(src, tree=None):
    """Scope table of a source text from CPython's ast: rows in order of header start.

    Row: hl,hc header start ('@' of the first decorator / async / keyword); kc keyword column;
    bl,bc start of the first body statement (its first decorator if decorated); el,ec end of
    the definition; cls; asy; nm; plus npos (position of the name token) for projections."""
    tree = tree or ast.parse(src)
    lines = src.split('\n')
    kwpos = {}
    toks = py_tokens(src)
    for i, t in enumerate(toks):
        if t.type == tokenize.NAME and t.string in ('def', 'class') and i + 1 < len(toks) \
                and toks[i + 1].type == tokenize.NAME:
            start = t.start
            if t.string == 'def' and i > 0 and toks[i - 1].type == tokenize.NAME and toks[i - 1].string == 'async':
                start = toks[i - 1].start
            kwpos[start] = (t.start, toks[i + 1].start)

    def stmt_start(s):
        decs = getattr(s, 'decorator_list', None)
        if decs:
            ln = decs[0].lineno
            col = lines[ln - 1].rfind('@', 0, _ccol(lines, ln, decs[0].col_offset) + 1)
            if col < 0 or lines[ln - 1][:col].strip():
                raise Unsupported('decorator layout')
            return ln, col
        return s.lineno, _ccol(lines, s.lineno, s.col_offset)

    rows = []
    for node in ast.walk(tree):
        if not isinstance(node, (ast.FunctionDef, ast.AsyncFunctionDef, ast.ClassDef)):
            continue
        first = (node.lineno, _ccol(lines, node.lineno, node.col_offset))
        if first not in kwpos:
            raise Unsupported('keyword not found at %s' % (first,))
        kw, npos = kwpos[first]
        if kw[0] != node.lineno:
            raise Unsupported('async and def on different lines')
        hl, hc = stmt_start(node)
        bl, bc = stmt_start(node.body[0])
        rows.append({'hl': hl, 'hc': hc, 'kc': kw[1], 'bl': bl, 'bc': bc,
                     'el': node.end_lineno, 'ec': _ccol(lines, node.end_lineno, node.end_col_offset),
                     'cls': isinstance(node, ast.ClassDef), 'asy': isinstance(node, ast.AsyncFunctionDef),
                     'nm': jutil.enc(node.name), 'npos': list(npos),
                     'args': [(a.lineno, _ccol(lines, a.lineno, a.col_offset)) for a in _args(node)]})
    rows.sort(key=lambda r: (r['hl'], r['hc']))
    return rows


def _args(node):
    if isinstance(node, ast.ClassDef):
        return []
    a = node.args
    return a.posonlyargs + a.args + ([a.vararg] if a.vararg else []) + a.kwonlyargs + ([a.kwarg] if a.kwarg else [])


TAB_FIELDS = ('hl', 'hc', 'kc', 'bl', 'bc', 'el', 'ec', 'cls', 'asy', 'nm')


def lambda_extents(src, tree=None):
    tree = tree or ast.parse(src)
    lines = src.split('\n')
    return sorted([n.lineno, _ccol(lines, n.lineno, n.col_offset), n.end_lineno,
                   _ccol(lines, n.end_lineno, n.end_col_offset)]
                  for n in ast.walk(tree) if isinstance(n, ast.Lambda))


def tab_event(rows, mods, lams):
    return {'k': 'tab', 'scopes': [{f: r[f] for f in TAB_FIELDS} for r in rows],
            'mods': [[jutil.enc(m) for m in mod] for mod in mods], 'lams': lams}


def import_paths(script, path, mod):
    """Every dotted path under which `path` is importable given the sys.path the Script works with
    (jedi picks the shortest; here e.g. the helper's own directory is on the environment's sys.path)."""
    out = [list(mod)]
    r = jutil.safe(lambda: script._inference_state.get_sys_path(add_parent_paths=False))
    if r[0] == 'ok':
        for e in r[1]:
            e = str(e)
            if e and path.startswith(e.rstrip(os.sep) + os.sep) and path.endswith('.py'):
                parts = path[len(e.rstrip(os.sep)) + 1:-3].split(os.sep)
                if parts[-1] == '__init__':
                    parts = parts[:-1]
                if parts and all(x.isidentifier() for x in parts) and parts not in out:
                    out.append(parts)
    return out


def co_qualnames(src):
    """name -> co_qualname of every def/class code object (no execution)."""
    out = {}

    def walk(co):
        for c in co.co_consts:
            if hasattr(c, 'co_qualname'):
                if not c.co_name.startswith('<'):
                    out.setdefault(c.co_name, set()).add(c.co_qualname)
                walk(c)
    walk(compile(src, '<c18>', 'exec'))
    return out


_ROOT = None
_BUILTIN_NAMES = {'da': 0, 'an': 0, 'df': 0, 'rt': 0, 'wv': 0, 'uv': 0, 'sq': (), 'Bs': object}


def work_root():
    """Per-process package root  <tmp>/pk/{__init__,mod}.py  (forked workers get their own)."""
    global _ROOT
    if _ROOT is None or _ROOT[0] != os.getpid():
        import tempfile
        d = tempfile.mkdtemp(prefix='c18_root_%d_' % os.getpid(), dir=os.environ.get('C18_TMP') or None)
        os.makedirs(os.path.join(d, 'pk'))
        open(os.path.join(d, 'pk', '__init__.py'), 'w').close()
        _ROOT = (os.getpid(), d)
    return _ROOT[1]


def imported_qualnames(src, rows):
    """Import the text as pk.mod and read module.__name__ + '.' + obj.__qualname__ of every
    definition reachable through classes (the property's run-time oracle)."""
    import builtins
    import importlib
    root = work_root()
    path = os.path.join(root, 'pk', 'mod.py')
    with open(path, 'w') as f:
        f.write(src)
    sys.dont_write_bytecode = True
    saved = {}
    for k, v in list(_BUILTIN_NAMES.items()) + [('dc', lambda a: (lambda f: f))]:
        saved[k] = getattr(builtins, k, None)
        setattr(builtins, k, v)
    sys.path.insert(0, root)
    try:
        for m in ('pk', 'pk.mod'):
            sys.modules.pop(m, None)
        importlib.invalidate_caches()
        mod = importlib.import_module('pk.mod')
        out = {}

        def walk(ns, prefix):
            for name, obj in list(vars(ns).items()):
                if isinstance(obj, type) and obj.__module__ == 'pk.mod' and name[0] == 'C':
                    out[name] = obj.__module__ + '.' + obj.__qualname__
                    walk(obj, prefix + [name])
                elif callable(obj) and getattr(obj, '__module__', None) == 'pk.mod' and name[0] == 'f':
                    out[name] = obj.__module__ + '.' + obj.__qualname__
        walk(mod, [])
        return out
    finally:
        sys.path.remove(root)
        for m in ('pk', 'pk.mod'):
            sys.modules.pop(m, None)
        for k, v in saved.items():
            if v is None:
                delattr(builtins, k)
            else:
                setattr(builtins, k, v)


# ---------------------------------------------------------------- projections of jedi observations
def row_of_name(d, by_npos):
    """jedi Name of a scope -> table row (0 = module, UNKNOWN = not a def/class of the file)."""
    if d is None:
        return UNKNOWN
    if d.type == 'module':
        return 0
    return by_npos.get((d.line, d.column), UNKNOWN)


def chain_of(d, by_npos, limit=60):
    out = []
    p = d.parent()
    while p is not None and p.type != 'module' and len(out) < limit:
        out.append(row_of_name(p, by_npos))
        p = p.parent()
    if p is None:
        out.append(UNKNOWN)          # the chain must end in the module
    return out


def full_event(d, row):
    fn = d.full_name
    return {'k': 'full', 'row': row, 'got': [] if fn is None else [jutil.enc(fn)]}


# ---------------------------------------------------------------- spec -> code
def replay_case(case):
    prog, unit = case['prog'], case['unit']
    src = render(prog, unit)
    res = {'src': src, 'machinery': [], 'drift': [], 'events': [], 'where': [], 'classes': {}}
    lines = src.split('\n')
    # layout binding 1: token extents of the spec == CPython tokenize of the rendered text
    mine = [(t['l'], t['s'], t['e']) for t in case['toks'] if t['c'] not in ('nl', 'hnl', 'dnl', 'inl')]
    theirs = [(t.start[0], t.start[1], t.end[1]) for t in py_tokens(src)]
    if mine != theirs:
        res['machinery'].append('token layout differs from tokenize: %s vs %s' % (mine[:12], theirs[:12]))
        return res
    # layout binding 2 + Reference vs CPython: scope table == ast table
    rows = scope_table(src)
    spec_tab = [{f: r[f] for f in TAB_FIELDS} for r in case['tab']]
    if spec_tab != [{f: r[f] for f in TAB_FIELDS} for r in rows]:
        res['machinery'].append('scope table differs from ast: %s vs %s' % (spec_tab, rows))
        return res
    # Reference vs CPython: __qualname__ (code objects for all, imported objects for class-level ones)
    coq = co_qualnames(src)
    imp = imported_qualnames(src, rows)
    for d in case['defs']:
        nm = jutil.dec(case['tab'][d['row'] - 1]['nm'])
        if coq.get(nm) != {jutil.dec(d['qual'])}:
            res['machinery'].append('Qual(%s)=%s but co_qualname=%s' % (nm, jutil.dec(d['qual']), coq.get(nm)))
        if d['judged']:
            if imp.get(nm) != jutil.dec(d['rfull']):
                res['machinery'].append('RefFull(%s)=%s but imported=%s' % (nm, jutil.dec(d['rfull']), imp.get(nm)))
        elif nm in imp:
            res['machinery'].append('%s importable by attribute path but not FullJudged' % nm)
    # Reference vs CPython: innermost ast body containing the position
    for p in case['pos']:
        if p['on'] and p['ref'] != ast_ctx(rows, p['l'], p['c']):
            res['machinery'].append('RefCtx(%d,%d)=%d but ast says %d' % (p['l'], p['c'], p['ref'], ast_ctx(rows, p['l'], p['c'])))
    if res['machinery']:
        return res

    root = work_root()
    s = jutil.script(src, path=os.path.join(root, 'pk', 'mod.py'), proj=jutil.project(root))
    by_npos = {tuple(r['npos']): i for i, r in enumerate(rows, 1)}
    lams = lambda_extents(src)
    if lams != case['lams']:
        res['machinery'].append('lambda extents differ from ast: %s vs %s' % (case['lams'], lams))
        return res
    events = [tab_event(rows, [['pk', 'mod']], lams)]
    where = [None]

    def guard(fn, what, l, c):
        rr = jutil.safe(fn)
        if rr[0] == 'exc':
            res.setdefault('crash', []).append((what, l, c, rr[2]))
            return None
        return rr[1]
    for p in case['pos']:
        if p['c'] > len(lines[p['l'] - 1]):
            res['machinery'].append('position beyond line end: %s' % p)
            continue
        r = jutil.safe(lambda: s.get_context(p['l'], p['c']))
        if r[0] == 'exc':
            res.setdefault('crash', []).append(('get_context', p['l'], p['c'], r[2]))
            continue
        got = row_of_name(r[1], by_npos)
        if got != p['des']:
            res['drift'].append({'what': 'get_context', 'pos': [p['l'], p['c']], 'cls': p['cls'],
                                 'design': p['des'], 'code': got})
        key = p['cls']
        res['classes'][key] = res['classes'].get(key, 0) + 1
        if p['on']:
            events.append({'k': 'ctx', 'l': p['l'], 'c': p['c'], 'got': got})
            where.append('get_context(%d, %d) on %s' % (p['l'], p['c'], p['cls']))
            # the answer's own parent chain and full_name (value route)
            if got not in (0, UNKNOWN) and p['cls'] == 'name':
                d = r[1]
                ch = guard(lambda: (chain_of(d, by_npos), d.full_name), 'context.parent/full_name', p['l'], p['c'])
                if ch is None:
                    continue
                ch = ch[0]
                events.append({'k': 'dchain', 'row': got, 'got': ch})
                where.append('get_context(%d, %d).parent() chain' % (p['l'], p['c']))
                events.append(full_event(d, got))
                where.append('get_context(%d, %d).full_name' % (p['l'], p['c']))
                dd = [x for x in case['defs'] if x['row'] == got][0]
                dfv = jutil.dec(dd['dfullv'][0]) if dd['dfullv'] else None
                if d.full_name != dfv:
                    res['drift'].append({'what': 'context full_name', 'row': got, 'design': dfv, 'code': d.full_name})
    r = jutil.safe(lambda: s.get_names(all_scopes=True, definitions=True, references=False))
    if r[0] == 'exc':
        res.setdefault('crash', []).append(('get_names', 0, 0, r[2]))
        names = []
    else:
        names = r[1]
    seen_defs = set()
    dnames = {(n['l'], n['c']): n for n in case['names']}
    seen_names = set()
    for d in names:
        pos = (d.line, d.column)
        if pos in by_npos and d.type in ('function', 'class'):
            row = by_npos[pos]
            seen_defs.add(row)
            dd = [x for x in case['defs'] if x['row'] == row][0]
            ch = guard(lambda: (chain_of(d, by_npos), d.full_name), 'parent/full_name', pos[0], pos[1])
            if ch is None:
                continue
            ch = ch[0]
            if ch != dd['dchain']:
                res['drift'].append({'what': 'parent chain', 'row': row, 'design': dd['dchain'], 'code': ch})
            events.append({'k': 'dchain', 'row': row, 'got': ch})
            where.append('parent() chain of %s' % d.name)
            df = jutil.dec(dd['dfull'][0]) if dd['dfull'] else None
            if d.full_name != df:
                res['drift'].append({'what': 'full_name', 'row': row, 'design': df, 'code': d.full_name})
            events.append(full_event(d, row))
            where.append('full_name of %s' % d.name)
        elif pos in dnames:
            n = dnames[pos]
            seen_names.add(pos)
            ch = guard(lambda: chain_of(d, by_npos), 'parent', pos[0], pos[1])
            if ch is None:
                continue
            if ch != n['dchain']:
                res['drift'].append({'what': 'name parent chain', 'pos': pos, 'cls': n['cls'],
                                     'design': n['dchain'], 'code': ch})
            own = 0
            if n['cls'] in ('param', 'aparam'):
                own = [i for i, rw in enumerate(rows, 1) if pos in [tuple(a) for a in rw['args']]][0]
            events.append({'k': 'nchain', 'l': pos[0], 'c': pos[1], 'own': own, 'got': ch})
            where.append('parent() chain of %s %s at %s' % (n['cls'], d.name, pos))
    if names and (seen_defs != set(range(1, len(rows) + 1)) or seen_names != set(dnames)):
        res['drift'].append({'what': 'get_names misses definitions', 'defs': sorted(seen_defs),
                             'names': sorted(seen_names), 'expected_names': sorted(dnames)})
    res['events'] = events
    res['where'] = where
    return res


def ast_ctx(rows, l, c):
    """Innermost def/class whose ast body (first statement .. end of node) contains (l, c)."""
    best = 0
    for i, r in enumerate(rows, 1):
        if (r['bl'], r['bc']) <= (l, c) < (r['el'], r['ec']):
            if best == 0 or (rows[best - 1]['bl'], rows[best - 1]['bc']) < (r['bl'], r['bc']):
                best = i
    return best


# ---------------------------------------------------------------- code -> spec: corpus
def dotted_of(path):
    from harness.core import REPO
    rel = os.path.relpath(path, REPO)
    parts = rel[:-3].split(os.sep)
    if parts[-1] == '__init__':
        parts = parts[:-1]
    return parts


def record_file(arg):
    path, npos, nnames, seed = arg
    from harness.core import REPO
    with open(path, encoding='utf-8') as f:
        src = f.read()
    return record_source(src, path, REPO, dotted_of(path), npos, nnames, seed)


def record_counterexample(src):
    """Observe a TLC counterexample program on the real code (all identifier positions)."""
    root = work_root()
    return record_source(src, os.path.join(root, 'pk', 'mod.py'), root, ['pk', 'mod'], 0, 0, 0)


def record_source(src, path, proj_root, mod, npos, nnames, seed):
    import random
    rng = random.Random(seed)
    out = {'path': path, 'events': [], 'where': [], 'skipped': None, 'crash': []}
    try:
        tree = ast.parse(src)
        rows = scope_table(src, tree)
    except SyntaxError:
        out['skipped'] = 'syntax'
        return out
    except Unsupported as e:
        out['skipped'] = 'layout:%s' % e
        return out
    lines = src.split('\n')
    if any(max(r['hl'], r['el']) >= 2 ** 20 for r in rows):
        out['skipped'] = 'too long'
        return out
    import keyword
    idents = []
    for t in py_tokens(src):
        if t.type == tokenize.NAME and not keyword.iskeyword(t.string):
            (l, c0), (l1, c1) = t.start, t.end
            # tokenize columns are characters
            idents.append((l, c0))
            if c1 - c0 > 1:
                idents.append((l, rng.randrange(c0 + 1, c1)))
    rng.shuffle(idents)
    idents = sorted(idents[:npos]) if npos else sorted(idents)
    s = jutil.script(src, path=path, proj=jutil.project(proj_root))
    by_npos = {tuple(r['npos']): i for i, r in enumerate(rows, 1)}
    events = [tab_event(rows, import_paths(s, path, mod), lambda_extents(src, tree))]
    where = [None]
    for (l, c) in idents:
        r = jutil.safe(lambda: s.get_context(l, c))
        if r[0] == 'exc':
            out['crash'].append(('get_context', l, c, r[2]))
            continue
        events.append({'k': 'ctx', 'l': l, 'c': c, 'got': row_of_name(r[1], by_npos)})
        where.append('get_context(%d, %d)' % (l, c))
    r = jutil.safe(lambda: s.get_names(all_scopes=True, definitions=True, references=False))
    if r[0] == 'exc':
        out['crash'].append(('get_names', 0, 0, r[2]))
        names = []
    else:
        names = r[1]
    argpos = {}
    for i, rw in enumerate(rows, 1):
        for a in rw['args']:
            argpos[tuple(a)] = i
    others = []
    for d in names:
        pos = (d.line, d.column)
        rt = jutil.safe(lambda: d.type)
        if rt[0] == 'exc':           # e.g. imported names need inference (typeshed is absent)
            out['crash'].append(('type', pos[0], pos[1], rt[2]))
            continue
        if pos in by_npos and d.type in ('function', 'class'):
            row = by_npos[pos]
            rr = jutil.safe(lambda: (chain_of(d, by_npos), full_event(d, row)))
            if rr[0] == 'exc':
                out['crash'].append(('parent/full_name', pos[0], pos[1], rr[2]))
                continue
            events.append({'k': 'dchain', 'row': row, 'got': rr[1][0]})
            where.append('parent() chain of %s at %s' % (d.name, pos))
            if mod[-1] != '__main__':     # a __main__.py has no unambiguous import path (jedi says __main__)
                events.append(rr[1][1])
                where.append('full_name of %s at %s' % (d.name, pos))
        elif d.type in ('param', 'statement'):
            others.append(d)
    rng.shuffle(others)
    for d in (others[:nnames] if nnames else others):
        pos = (d.line, d.column)
        if d.type == 'param' and pos not in argpos and not _is_lambda_param(d):
            continue
        rr = jutil.safe(lambda: chain_of(d, by_npos))
        if rr[0] == 'exc':
            out['crash'].append(('parent', pos[0], pos[1], rr[2]))
            continue
        events.append({'k': 'nchain', 'l': pos[0], 'c': pos[1], 'own': argpos.get(pos, 0) if d.type == 'param' else 0,
                       'got': rr[1]})
        where.append('parent() chain of %s %s at %s' % (d.type, d.name, pos))
    out['events'] = events
    out['where'] = where
    out['nscopes'] = len(rows)
    return out


def _is_lambda_param(d):
    tn = d._name.tree_name
    return tn is not None and tn.search_ancestor('funcdef', 'lambdef').type == 'lambdef'


# ---------------------------------------------------------------- trace validation with all failing events
class _Capture:
    """validate_traces() talks to this instead of ctx so that every REJECT line is kept."""

    def __init__(self, ctx):
        self.ctx = ctx
        self.tmp = ctx.tmp
        self.coverage = ctx.coverage
        self.results = []

    def add_tlc(self, res, label):
        self.results.append(res)
        self.ctx.add_tlc(res, label)


def judge(ctx, traces, label, chunk=400):
    """-> (verdicts, rejects) ; rejects = list of (trace index, event index (0-based), why list)."""
    cap = _Capture(ctx)
    verdicts = validate_traces('Trace_Nesting', 'Trace_Nesting.cfg', traces, cap, label, chunk=chunk)
    rejects = []
    for ci, res in enumerate(cap.results):
        for p in res.tagged('REJECT'):
            rejects.append((ci * chunk + p[0] - 1, p[1] - 1, p[2]))
    # totality: a trace is accepted iff it has no rejected event
    bad = set(r[0] for r in rejects)
    for i, v in enumerate(verdicts):
        if v['accepted'] == (i in bad):
            raise MachineryError('Trace_Nesting verdicts not total for trace %d: %s' % (i, v))
    return verdicts, sorted(rejects)


def reject_key(why):
    if why[0] == 'ctx':
        return 'ctx:%s' % why[2] if why[2] != 'other' else 'ctx-%s:other' % why[1]
    return '%s:%s' % (why[0], why[1])


def report_rejects(ctx, rejects, traces, wheres, srcs, origin):
    for ti, ei, why in rejects:
        ev = traces[ti][ei]
        what = wheres[ti][ei]
        key = reject_key(why)
        if why[0] == 'ctx':
            desc = '%s answers row %s but the innermost enclosing body is row %s (%s position, shape %s)' % (
                what, ev['got'], why[3], why[1], why[2])
        elif why[0] == 'parent-chain':
            desc = '%s is %s, but there are %s lexically enclosing scopes (innermost first: see table)' % (
                what, ev['got'], why[2])
        elif why[0] == 'full-name':
            desc = '%s is %r, which is not module path + __qualname__ (%d characters) of row %d' % (
                what, jutil.dec(ev['got'][0]) if ev['got'] else None, why[2], ev['row'])
        else:
            raise MachineryError('unknown reject %s' % (why,))
        ctx.count('rejected_events')
        ctx.violation(key, desc, {'origin': origin, 'source': srcs[ti], 'event': ev, 'what': what,
                                  'table': traces[ti][0]['scopes'] if len(traces[ti][0]['scopes']) < 40 else '...'})


# ---------------------------------------------------------------- main
def run(ctx):
    quick = ctx.quick
    os.environ['C18_TMP'] = ctx.tmp
    scale = float(os.environ.get('C18_SCALE', '1'))
    units = [2, 4, 8]
    # ---- 1. Design |= Reference, exhaustive
    if quick:
        bounds = dict(items=4, depth=3, scopes=4, extras=1, units=units)
    elif scale < 1:
        bounds = dict(items=4, depth=3, scopes=4, extras=2, units=units)
    else:
        bounds = dict(items=5, depth=4, scopes=5, extras=2, units=units)      # 1 281 852 states
    if os.environ.get('C18_SKIP_EXHAUSTIVE'):      # development knob (mutation runs): the exhaustive
        bounds = dict(items=3, depth=2, scopes=3, extras=1, units=[4])
        ctx.notes.append('C18_SKIP_EXHAUSTIVE set: exhaustive run reduced to %s' % bounds)
    cfg = write_cfg(ctx, 'mc.cfg', invs=['DesignMeetsReference'], **bounds)
    res = run_tlc('Nesting', cfg, workers=16, timeout=6000)
    ctx.add_tlc(res, 'Design|=Reference exhaustive %s' % bounds)
    if res.violated:
        raise MachineryError('Nesting.tla: %s violated (the design must reproduce the code; known deviations are '
                             'named in the spec):\n%s' % (res.violated, res.trace[-1:]))
    if res.distinct < 5000 and not os.environ.get('C18_SKIP_EXHAUSTIVE'):
        raise MachineryError('vacuity: only %d states' % res.distinct)
    ctx.coverage['exhaustive'] = True
    ctx.log('exhaustive: %d distinct states, %.0fs' % (res.distinct, res.wall))

    if False:      # (kept for reference: the items<=4/extras<=2 space is contained in the run above)
        b2 = dict(items=4, depth=3, scopes=4, extras=2, units=units)
        r0 = run_tlc('Nesting', write_cfg(ctx, 'mc2.cfg', invs=['DesignMeetsReference'], **b2), workers=16,
                     timeout=6000)
        ctx.add_tlc(r0, 'Design|=Reference exhaustive %s' % b2)
        if r0.violated:
            raise MachineryError('Nesting.tla: %s violated:\n%s' % (r0.violated, r0.trace[-1:]))
        ctx.log('exhaustive (two extras): %d distinct states, %.0fs' % (r0.distinct, r0.wall))
    small = dict(items=3, depth=2, scopes=3, extras=1, units=[4])
    r1 = run_tlc('Nesting', write_cfg(ctx, 'hint.cfg', invs=['HintOK'] + INVS, **small), workers=4, timeout=1200)
    ctx.add_tlc(r1, 'separate invariants + scan-hint equivalence %s' % small)
    if r1.violated:
        raise MachineryError('Nesting.tla: %s violated on the small configuration' % r1.violated)

    # ---- 1b. sensitivity of the model: the what-if models of the OLD code (Fixed without a repair) must
    #          violate CtxStrict; each counterexample program is then observed on the real code and judged
    #          like any other trace (with the repairs in the code it must be accepted).  CtxLiteral must fail
    #          too (HeaderSelf, tolerated by the Reference) and is confirmed on the code.
    fixed = default_fixed()
    ctx.coverage['modelled_repairs'] = list(fixed)
    cex_traces, cex_wheres, cex_srcs = [], [], []
    whatifs = [('CtxStrict', (), 'old code: no repair'),
               ('CtxStrict', tuple(x for x in ALL_FIXES if x != 'DedentCont'), 'without the DedentCont repair'),
               ('CtxStrict', tuple(x for x in ALL_FIXES if x != 'LambdaInClass'), 'without the LambdaInClass repair'),
               ('CtxLiteral', fixed, 'HeaderSelf')]
    for n, (inv, fx, what) in enumerate(whatifs):
        r2 = run_tlc('Nesting', write_cfg(ctx, 'whatif_%d.cfg' % n, invs=[inv], fixed=fx, **small), workers=4,
                     timeout=1200)
        ctx.add_tlc(r2, 'expected counterexample %s, Fixed=%s (%s)' % (inv, list(fx), what))
        if not r2.violated or not r2.trace:
            raise MachineryError('%s holds with Fixed=%s: the model lost its sensitivity (%s)' % (inv, list(fx), what))
        st = r2.trace[-1]['vars']
        src = render(st['prog'], st['unit'])
        ctx.coverage.setdefault('whatif_counterexamples', []).append({'invariant': inv, 'Fixed': list(fx), 'source': src})
        # observed in forked workers: the parent must not own a jedi helper subprocess before pmap forks
        rec = jutil.pmap(record_counterexample, [src] * 4, procs=4)[0]
        jutil.check_worker_errors([rec])
        if rec['skipped'] or rec['crash']:
            raise MachineryError('cannot observe counterexample of %s: %s' % (inv, rec))
        if inv == 'CtxStrict':
            cex_traces.append(rec['events'])
            cex_wheres.append(rec['where'])
            cex_srcs.append(src)
        else:
            # HeaderSelf on the real code: some def/class name position answers the definition itself
            tab = rec['events'][0]['scopes']
            hs = [e for e in rec['events'][1:] if e['k'] == 'ctx' and e['got'] not in (0, UNKNOWN)
                  and (tab[e['got'] - 1]['hl'], tab[e['got'] - 1]['hc']) <= (e['l'], e['c'])
                  < (tab[e['got'] - 1]['bl'], tab[e['got'] - 1]['bc'])]
            if not hs:
                ctx.drift({'what': 'HeaderSelf counterexample of the Design is not reproduced by the code',
                           'source': src})
            else:
                ctx.coverage['header_self_confirmed_on_code'] = hs[0]
    _, rej = judge(ctx, cex_traces, 'Trace_Nesting: what-if counterexamples observed on the real code')
    report_rejects(ctx, rej, cex_traces, cex_wheres, cex_srcs, 'what-if counterexample (old get_context)')
    ctx.notes.append('AsyncColumn alone shows only on positions that are not on code (on_code covers the rest): '
                     'its absence is detected as drift of the prefix/comment positions in the replay leg')

    # ---- 2. emitted cases -> replay (spec -> code): a BFS slice of small programs + simulation walks
    mod = 5 if quick else (67 if scale < 1 else 41)
    eb = dict(items=3, depth=2, scopes=3, extras=1, units=units) if quick else \
        dict(items=4, depth=3, scopes=4, extras=2, units=units)
    cfg = write_cfg(ctx, 'emit.cfg', mod=mod, rem=ctx.seed % mod, invs=[], emit=True, **eb)
    res = run_tlc('Nesting', cfg, workers=1, timeout=6000)
    ctx.add_tlc(res, 'case emission slice %d mod %d %s' % (ctx.seed % mod, mod, eb))
    cs = cases(res)
    sb = dict(items=7, depth=4, scopes=6, extras=3, units=units)
    nsim = 60 if quick else (250 if scale < 1 else 600)
    cfg = write_cfg(ctx, 'sim.cfg', mod=1, rem=0, invs=['DesignMeetsReference'], emit=True, **sb)
    res = run_tlc('Nesting', cfg, workers=1, timeout=6000, simulate='num=%d' % nsim, depth=8, seed=ctx.seed)
    ctx.add_tlc(res, 'simulation walks with emission %s' % sb)
    if res.violated:
        raise MachineryError('Nesting.tla: %s violated in simulation:\n%s' % (res.violated, res.trace[-1:]))
    sim = cases(res)
    seen = set(render(c['prog'], c['unit']) for c in cs)
    for c in sim:
        k = render(c['prog'], c['unit'])
        if k not in seen:
            seen.add(k)
            cs.append(c)
    if len(cs) < 300:
        raise MachineryError('too few cases emitted: %d' % len(cs))
    ctx.log('replaying %d TLC cases (%d positions)' % (len(cs), sum(len(c['pos']) for c in cs)))
    results = jutil.pmap(replay_case, cs)
    jutil.check_worker_errors(results)
    traces, wheres, srcs = [], [], []
    classes = {}
    for c, r in zip(cs, results):
        if r['machinery']:
            raise MachineryError('layout/Reference does not match CPython on\n%s\n%s' % (r['src'], r['machinery'][:3]))
        for cr in r.get('crash', []):
            ctx.violation('crash:%s:%s' % (cr[0], cr[3]), '%s raised at %s on a rendered case' % (cr[0], cr[1:3]),
                          {'source': r['src'], 'crash': cr})
        for d in r['drift']:
            ctx.drift(dict(d, source=r['src']))
        for k, n in r['classes'].items():
            classes[k] = classes.get(k, 0) + n
        ctx.count('replayed_cases')
        ctx.count('replayed_positions', len(c['pos']))
        traces.append(r['events'])
        wheres.append(r['where'])
        srcs.append(r['src'])
        if len(c['prog']) >= 4:
            ctx.sample({'source': r['src'], 'positions': len(c['pos']),
                        'design_ctx': [(p['l'], p['c'], p['cls'], p['des']) for p in c['pos'] if p['on']][:40],
                        'defs': [{'row': d['row'], 'parents': d['dchain'],
                                  'full_name': jutil.dec(d['dfull'][0]) if d['dfull'] else None}
                                 for d in c['defs']]}, limit=4)
    ctx.coverage['position_classes_replayed'] = classes
    need = {'kw', 'name', 'aparam', 'dflt', 'ann', 'ret', 'colon', 'base', 'dname', 'async', 'var', 'val',
            'lbody', 'lparam', 'celt', 'cvar', 'cval', 'ibody', 'prefix', 'comment', 'after'}
    if need - set(classes):
        raise MachineryError('position classes never replayed: %s' % sorted(need - set(classes)))
    if ctx.coverage['drift']:
        ctx.log('MODEL-DRIFT on %d observations (property judged separately), e.g. %s'
                % (ctx.coverage['drift'], ctx.coverage['drift_samples'][:1]))
    ctx.log('judging %d rendered traces (%d events)' % (len(traces), sum(map(len, traces))))
    _, rejects = judge(ctx, traces, 'Trace_Nesting rendered cases')
    report_rejects(ctx, rejects, traces, wheres, srcs, 'rendered TLC case')

    # ---- 3. corpus (code -> spec)
    files = jutil.corpus_files(limit=30 if quick else (60 if scale < 1 else None), rng=ctx.rng)
    ctx.log('corpus: %d files' % len(files))
    recs = jutil.pmap(record_file, [(f, 150 if quick else (400 if scale < 1 else 800), 100 if quick else 400, ctx.seed + i)
                                    for i, f in enumerate(files)], chunksize=1)
    jutil.check_worker_errors(recs)
    ctraces, cwheres, csrcs = [], [], []
    skipped = {}
    for r in recs:
        if r['skipped']:
            skipped[r['skipped']] = skipped.get(r['skipped'], 0) + 1
            continue
        for cr in r['crash']:
            ctx.count('corpus_blocked_by_internal_errors')
            ck = ctx.coverage.setdefault('corpus_crash_keys', {})
            ck[cr[3]] = ck.get(cr[3], 0) + 1
        ctraces.append(r['events'])
        cwheres.append(r['where'])
        csrcs.append(r['path'])
        ctx.count('corpus_events', len(r['events']) - 1)
        ctx.count('corpus_scopes', r['nscopes'])
    ctx.coverage['corpus_files'] = len(ctraces)
    ctx.coverage['corpus_skipped'] = skipped
    if len(ctraces) < (20 if quick else 40):
        raise MachineryError('too few corpus files recorded: %d (%s)' % (len(ctraces), skipped))
    ctx.log('judging %d corpus traces (%d events)' % (len(ctraces), sum(map(len, ctraces))))
    _, rejects = judge(ctx, ctraces, 'Trace_Nesting corpus', chunk=40)
    report_rejects(ctx, rejects, ctraces, cwheres, csrcs, 'corpus file')
    ctx.notes.append('corpus calls that raise (absent typeshed) are counted as blocked; totality is property C01')

    # ---- 4. binding self-test: corrupted observations must be rejected
    import copy
    bad = []
    for t in traces:
        fulls = [e for e in t if e['k'] == 'full' and e['got']]
        ctxs = [e for e in t if e['k'] == 'ctx' and e['got'] not in (0, UNKNOWN)]
        if len(t[0]['scopes']) >= 2 and fulls and ctxs and any(e['k'] == 'dchain' for e in t):
            b1 = copy.deepcopy(t)
            [e for e in b1 if e['k'] == 'ctx' and e['got'] not in (0, UNKNOWN)][0]['got'] = UNKNOWN
            b2 = copy.deepcopy(t)
            [e for e in b2 if e['k'] == 'dchain'][0]['got'].append(1)
            b3 = copy.deepcopy(t)
            [e for e in b3 if e['k'] == 'full' and e['got']][0]['got'][0][-1] += 1
            bad = [b1, b2, b3]
            break
    if not bad:
        raise MachineryError('binding self-test: no suitable trace')
    n0 = ctx.coverage['traces_validated_against_impl']
    vs = validate_traces('Trace_Nesting', 'Trace_Nesting.cfg', bad, ctx, 'binding self-test')
    ctx.coverage['traces_validated_against_impl'] = n0
    if any(v['accepted'] for v in vs):
        raise MachineryError('binding self-test: corrupted trace accepted %s' % vs)
    ctx.coverage['binding_selftest'] = 'corrupted ctx / parent chain / full_name rejected: %s' % [v['why'] for v in vs]

    if not quick:
        ctx.coverage['thorough_reductions'] = [
            'exhaustive TLC bounded at items<=5 / depth<=4 / scopes<=5 / extras<=2 / indent unit in {2,4,8} '
            '(1 281 852 states) -- DESIGN 5/C18 asked for <=6 scopes; 6-7 item programs only by simulation walks',
            'replay: every %dth program of the items<=4/extras<=2 space + %d simulation walks (items<=7, depth<=4, '
            'scopes<=6), not every enumerated program' % (mod, nsim),
            'corpus: all files, but at most 800 identifier positions (start or inside of the identifier) and 400 '
            'variable/parameter names per file; all def/class definitions are always observed'] + (
            ['C18_SCALE<1: exhaustive at items<=4, 60 corpus files, 400 positions per file'] if scale < 1 else [])
    ctx.assumptions += [
        'header positions (first decorator .. colon) may answer the enclosing scope or the definition itself',
        'positions on whitespace / comments / blank lines are predicted by the Design (drift) but not judged',
        'full_name judged only for definitions all of whose enclosing scopes are classes',
        'corpus: full_name of definitions in __main__.py files is not judged (no unambiguous import path)',
        'corpus: the module path in full_name may be any dotted path under which the file is importable from '
        'the sys.path the Script works with (jedi picks the shortest)',
        'corpus: identifier tokens of tokenize; files whose def/async layout the table builder cannot '
        'read are skipped and counted']
    return None
