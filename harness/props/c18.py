"""C18 -- get_context, parent() and full_name describe the lexical nesting.

spec/Nesting.tla: programs built by actions (def / async def / class / one-line def /
lambda / comprehension / continuation / comment lines, decorated or not, and NEST items:
expressions that are trees of list / set / dict comprehensions, generator expressions and
lambdas nested in one another's element and iterable / default, grown node by node), a
token-level transcription of Script.get_context + create_context (one CompForContext per
enclosing comp_for unless the node is in its iterable; lambda contexts) + BaseName.parent
(the loop that leaves nameless contexts; LambdaName.parent_context) + get_qualified_names
(Design) and a geometric Reference over the scope table (comprehensions and lambdas are
transparent; an enclosing lambda may be visited; every Name on the way must be usable).
Legs: TLC exhaustive Design|=Reference (line-layout space and nest space) + what-if models
that must fail (sensitivity); TLC-emitted cases rendered, checked against CPython (tokenize,
ast extents and structural nesting of every name, symtable block nesting, import +
__qualname__, co_qualname) and replayed into the real jedi (get_context at every token
boundary; parent() chains of all definitions and references from get_names, of goto results
and of inferred lambdas); recorded observations (rendered cases, corpus files and random
nest programs with an ast-derived table) judged by TLC with Trace_Nesting.tla; binding
self-test.
"""
import ast
import io
import os
import sys
import tokenize

from harness import jutil
from harness.core import MachineryError
from harness.tlc import run_tlc, cases, validate_traces

META = dict(
    spec='Nesting.tla, Trace_Nesting.tla, Trace_FullNameHist.tla',
    text='TLC checks exhaustively (all programs of <=N lines over def/async def/class/one-line def/'
         'lambda/comprehension/continuation/comment templates, decorated or not, nesting depth<=D, indent '
         'unit in Units, every token boundary and prefix column; and all programs of <=3 lines holding an '
         'expression that is a tree of <=MaxNest list/set/dict comprehensions, generator expressions and '
         'lambdas nested in element and iterable/default slots, in module/def/class contexts) that the '
         'token-level transcription of Script.get_context (leaf choice, header special case, create_context '
         'header rule and comp_for/lambdef contexts, indentation walk-up), BaseName.parent (leaving every '
         'nameless context, LambdaName.parent_context) and get_qualified_names satisfies the geometric '
         'Reference (innermost def/class whose body extent contains the position; enclosing bodies of a '
         'definition or reference -- comprehensions and lambdas transparent, an enclosing lambda may be '
         'visited, every Name on the way usable; module path + __qualname__); repaired defects and the '
         'parent() loop are switches of the model (constant Fixed; the what-if models without them must '
         'violate CtxStrict / ParentOK). Emitted cases are rendered; tokenize/ast/symtable/import validate '
         'layout, scope table, name nesting and __qualname__ (Reference vs CPython); the real get_context / '
         'parent() / full_name (names from get_names(references=True), goto, infer) are compared with the '
         'Design (drift) and judged by TLC (Trace_Nesting) together with corpus files (identifier positions, '
         'all definitions, names in lambdas / nested comprehensions first) and random nest programs (several '
         'for/if clauses, generator arguments, walrus, expressions in headers) against an ast-derived table.',
    note='Header positions (decorator line .. colon) tolerate both the enclosing scope and the definition '
         'itself (upstream test_context pins the latter). Positions not on code are predicted but not judged. '
         'full_name is judged only when every enclosing scope is a class. A lambda that encloses a name may '
         'appear in its parent() chain (jedi reports it for names in the body, not for its parameters). Known '
         'findings: parent-chain:lambda-in-class, parent-chain:anonymous-scope-in-header. Trusts TLC, CPython ast/tokenize '
         'and the table builder of this module (cross-checked against the TLA+ layout on every case).',
    technique='TLA+ spec (Design|=Reference) model-checked with TLC; spec->code replay of emitted cases; '
              'code->spec trace validation of recorded get_context/parent/full_name observations',
    design_ref='5/C18')

UNKNOWN = 9999
UNUSABLE = 9998          # a parent() result whose .name / .type / .line raise
LAMBASE = 10000          # LAMBASE + k = the k-th lambda of the file
NEST_KINDS = ('list', 'set', 'dict', 'gen', 'lam')

CFG = '''INIT Init
NEXT Next
CONSTANTS
  MaxItems = %d
  MaxDepth = %d
  MaxScopes = %d
  MaxExtras = %d
  Units = {%s}
  EmitMod = %d
  EmitRem = %d
  Fixed = {%s}
  MaxNest = %d
  NestKinds = {%s}
  Plain = %s
%s
CHECK_DEADLOCK FALSE
'''

# switches of Nesting.tla that the code under test contains: the three get_context repairs and the
# `while` of BaseName.parent() that leaves every comprehension context ("CompWhile").  Not in the
# code (finding parent-chain:lambda-in-class): "LambdaParent".
ALL_FIXES = ('AsyncColumn', 'DedentCont', 'LambdaInClass', 'CompWhile', 'LambdaParent')
KNOWN_SWITCHES = ALL_FIXES


def default_fixed():
    """Which get_context repairs the modelled code contains: all (the repaired /repo) unless
    C18_FIXED says otherwise ('none' or a comma list) -- for runs against an unrepaired tree."""
    v = os.environ.get('C18_FIXED')
    if v is None:
        return ALL_FIXES
    got = tuple(x for x in v.split(',') if x and x != 'none')
    if set(got) - set(KNOWN_SWITCHES):
        raise MachineryError('C18_FIXED: unknown repair in %r' % v)
    return got

INVS = ['CtxOK', 'ParentOK', 'FullNameOK', 'LayoutOK']


def write_cfg(ctx, name, items, depth, scopes, extras, units, mod=1, rem=0, invs=INVS, emit=False, fixed=None,
              nest=0, kinds=NEST_KINDS, plain=False):
    fixed = default_fixed() if fixed is None else fixed
    body = '\n'.join('INVARIANT %s' % i for i in invs)
    if emit:
        body += '\nCONSTRAINT Emit'
    p = os.path.join(ctx.tmp, name)
    with open(p, 'w') as f:
        f.write(CFG % (items, depth, scopes, extras, ', '.join(map(str, units)), mod, rem,
                       ', '.join('"%s"' % x for x in fixed), nest, ', '.join('"%s"' % x for x in kinds),
                       'TRUE' if plain else 'FALSE', body))
    return p


# ---------------------------------------------------------------- rendering (templates of Nesting.tla)
def render(prog, unit):
    out = []
    for i, it in enumerate(prog, 1):
        b = ' ' * (unit * it['d'])
        k = it['k']
        if it['dec']:
            out.append(b + '@dc(da)')
        pre = b + ('async ' if it['as'] else '')
        if k == 'def':
            out.append(pre + 'def f%d(p%d: an = df) -> rt:' % (i, i))
        elif k == 'class':
            out.append(pre + 'class C%d(Bs):' % i)
        elif k == 'idef':
            out.append(pre + 'def f%d(p%d): return p%d' % (i, i, i))
        elif k == 'stmt':
            out.append(b + 'v%d = wv' % i)
        elif k == 'lam':
            out.append(b + 'v%d = lambda q%d=df: q%d' % (i, i, i))
        elif k == 'comp':
            out.append(b + 'v%d = [i%d for i%d in sq]' % (i, i, i))
        elif k == 'cont':
            out.append(b + 'v%d = (wv,' % i)
            out.append(' ' * (unit * it['x']) + 'uv)')
        elif k == 'cmt':
            out.append(' ' * (unit * it['x']) + '# c')
        elif k == 'nest':
            out.append(b + 'v%d = %s' % (i, render_node(it['sh'], 1, i)))
        else:
            raise MachineryError('unknown item kind %r' % k)
    return '\n'.join(out) + '\n'


def _child(sh, n, slot):
    for c, nd in enumerate(sh, 1):
        if nd['par'] == n and nd['slot'] == slot:
            return c
    return 0


def render_node(sh, n, i):
    """Text of node n of a nest of item i (templates of NodeToks in Nesting.tla)."""
    k = sh[n - 1]['k']
    var = chr(96 + n) + str(i)
    ce, ci = _child(sh, n, 'e'), _child(sh, n, 'i')
    elt = render_node(sh, ce, i) if ce else var
    itr = render_node(sh, ci, i) if ci else ('df' if k == 'lam' else 'sq')
    if k == 'lam':
        return '(lambda %s=%s: %s)' % (var, itr, elt)
    if k == 'dict':
        return '{%s: %s for %s in %s}' % (var, elt, var, itr)
    o, c = {'list': '[]', 'set': '{}', 'gen': '()'}[k]
    return '%s%s for %s in %s%s' % (o, elt, var, itr, c)


def nest_depth(sh):
    d = {0: 0}
    for n, nd in enumerate(sh, 1):
        d[n] = d[nd['par']] + 1
    return max(d.values())


# ---------------------------------------------------------------- CPython oracles
_SKIP = (tokenize.NEWLINE, tokenize.NL, tokenize.INDENT, tokenize.DEDENT, tokenize.COMMENT,
         tokenize.ENDMARKER)


def py_tokens(src):
    return [t for t in tokenize.generate_tokens(io.StringIO(src).readline) if t.type not in _SKIP]


def _ccol(lines, lineno, bytecol):
    """ast col_offset (utf-8 bytes) -> character column."""
    line = lines[lineno - 1]
    if line.isascii():
        return bytecol
    return len(line.encode('utf-8')[:bytecol].decode('utf-8', 'replace'))


class Unsupported(Exception):
    pass


def scope_table(src, tree=None):
    """Scope table of a source text from CPython's ast: rows in order of header start.

    Row: hl,hc header start ('@' of the first decorator / async / keyword); kc keyword column;
    bl,bc start of the first body statement (its first decorator if decorated); el,ec end of
    the definition; cls; asy; nm; plus npos (position of the name token) for projections."""
    tree = tree or ast.parse(src)
    lines = src.split('\n')
    kwpos = {}
    toks = py_tokens(src)
    for i, t in enumerate(toks):
        if t.type == tokenize.NAME and t.string in ('def', 'class') and i + 1 < len(toks) \
                and toks[i + 1].type == tokenize.NAME:
            start = t.start
            if t.string == 'def' and i > 0 and toks[i - 1].type == tokenize.NAME and toks[i - 1].string == 'async':
                start = toks[i - 1].start
            kwpos[start] = (t.start, toks[i + 1].start)

    def stmt_start(s):
        decs = getattr(s, 'decorator_list', None)
        if decs:
            ln = decs[0].lineno
            col = lines[ln - 1].rfind('@', 0, _ccol(lines, ln, decs[0].col_offset) + 1)
            if col < 0 or lines[ln - 1][:col].strip():
                raise Unsupported('decorator layout')
            return ln, col
        return s.lineno, _ccol(lines, s.lineno, s.col_offset)

    rows = []
    for node in ast.walk(tree):
        if not isinstance(node, (ast.FunctionDef, ast.AsyncFunctionDef, ast.ClassDef)):
            continue
        first = (node.lineno, _ccol(lines, node.lineno, node.col_offset))
        if first not in kwpos:
            raise Unsupported('keyword not found at %s' % (first,))
        kw, npos = kwpos[first]
        if kw[0] != node.lineno:
            raise Unsupported('async and def on different lines')
        hl, hc = stmt_start(node)
        bl, bc = stmt_start(node.body[0])
        rows.append({'hl': hl, 'hc': hc, 'kc': kw[1], 'bl': bl, 'bc': bc,
                     'el': node.end_lineno, 'ec': _ccol(lines, node.end_lineno, node.end_col_offset),
                     'cls': isinstance(node, ast.ClassDef), 'asy': isinstance(node, ast.AsyncFunctionDef),
                     'nm': jutil.enc(node.name), 'npos': list(npos), 'first': first,
                     'args': [(a.lineno, _ccol(lines, a.lineno, a.col_offset)) for a in _args(node)]})
    rows.sort(key=lambda r: (r['hl'], r['hc']))
    return rows


def _args(node):
    if isinstance(node, ast.ClassDef):
        return []
    a = node.args
    return a.posonlyargs + a.args + ([a.vararg] if a.vararg else []) + a.kwonlyargs + ([a.kwarg] if a.kwarg else [])


TAB_FIELDS = ('hl', 'hc', 'kc', 'bl', 'bc', 'el', 'ec', 'cls', 'asy', 'nm')


def lambda_extents(src, tree=None):
    tree = tree or ast.parse(src)
    lines = src.split('\n')
    return sorted([n.lineno, _ccol(lines, n.lineno, n.col_offset), n.end_lineno,
                   _ccol(lines, n.end_lineno, n.end_col_offset)]
                  for n in ast.walk(tree) if isinstance(n, ast.Lambda))


_COMPS = (ast.ListComp, ast.SetComp, ast.DictComp, ast.GeneratorExp)


def comp_extents(src, tree=None):
    tree = tree or ast.parse(src)
    lines = src.split('\n')
    return sorted([n.lineno, _ccol(lines, n.lineno, n.col_offset), n.end_lineno,
                   _ccol(lines, n.end_lineno, n.end_col_offset)]
                  for n in ast.walk(tree) if isinstance(n, _COMPS))


def tab_event(rows, mods, lams, comps=()):
    return {'k': 'tab', 'scopes': [{f: r[f] for f in TAB_FIELDS} for r in rows],
            'mods': [[jutil.enc(m) for m in mod] for mod in mods], 'lams': lams, 'comps': list(comps)}


def ast_name_chains(src, rows, tree=None):
    """(line, column) of every ast.Name / ast.arg -> (own, chain): the rows of the def/class nodes
    whose BODY the node is a descendant of, innermost first -- structurally, from the ast (decorators,
    defaults, annotations, bases belong to the enclosing scope; comprehensions and lambdas are no
    rows); own = row of the def a parameter belongs to (then chain starts with it)."""
    tree = tree or ast.parse(src)
    lines = src.split('\n')
    by_first = {tuple(r['first']): i for i, r in enumerate(rows, 1)}
    out = {}

    def pos(n):
        return (n.lineno, _ccol(lines, n.lineno, n.col_offset))

    def visit(node, chain):
        if isinstance(node, (ast.FunctionDef, ast.AsyncFunctionDef, ast.ClassDef)):
            row = by_first[pos(node)]
            inner = [row] + chain
            for f, v in ast.iter_fields(node):
                if f == 'body':
                    for x in v:
                        visit(x, inner)
                elif f == 'args':
                    for a in _args(node):
                        out[pos(a)] = (row, inner)
                        if a.annotation is not None:
                            visit(a.annotation, chain)
                    for x in v.defaults + [y for y in v.kw_defaults if y is not None]:
                        visit(x, chain)
                else:
                    for x in (v if isinstance(v, list) else [v]):
                        if isinstance(x, ast.AST):
                            visit(x, chain)
            return
        if isinstance(node, (ast.Name, ast.arg)):
            out[pos(node)] = (0, chain)
        for x in ast.iter_child_nodes(node):
            visit(x, chain)
    visit(tree, [])
    return out


def symtable_nesting(src):
    """name -> names of the enclosing def/class blocks (innermost first) as CPython's symtable nests
    them, and the number of lambda blocks."""
    import symtable
    out, nlam = {}, [0]

    def walk(t, chain):
        for ch in t.get_children():
            nm, ty = ch.get_name(), str(ch.get_type())
            if nm == 'lambda':
                nlam[0] += 1
            if ty in ('function', 'class') and nm not in ('lambda', 'listcomp', 'setcomp', 'dictcomp', 'genexpr'):
                out.setdefault(nm, []).append(chain)
                walk(ch, [nm] + chain)
            else:
                walk(ch, chain)
    walk(symtable.symtable(src, 'mod.py', 'exec'), [])
    return out, nlam[0]


def import_paths(script, path, mod):
    """Every dotted path under which `path` is importable given the sys.path the Script works with
    (jedi picks the shortest; here e.g. the helper's own directory is on the environment's sys.path)."""
    out = [list(mod)]
    r = jutil.safe(lambda: script._inference_state.get_sys_path(add_parent_paths=False))
    if r[0] == 'ok':
        for e in r[1]:
            e = str(e)
            if e and path.startswith(e.rstrip(os.sep) + os.sep) and path.endswith('.py'):
                parts = path[len(e.rstrip(os.sep)) + 1:-3].split(os.sep)
                if parts[-1] == '__init__':
                    parts = parts[:-1]
                if parts and all(x.isidentifier() for x in parts) and parts not in out:
                    out.append(parts)
    return out


def co_qualnames(src):
    """name -> co_qualname of every def/class code object (no execution)."""
    out = {}

    def walk(co):
        for c in co.co_consts:
            if hasattr(c, 'co_qualname'):
                if not c.co_name.startswith('<'):
                    out.setdefault(c.co_name, set()).add(c.co_qualname)
                walk(c)
    walk(compile(src, '<c18>', 'exec'))
    return out


_ROOT = None
_BUILTIN_NAMES = {'da': 0, 'an': 0, 'df': 0, 'rt': 0, 'wv': 0, 'uv': 0, 'sq': (), 'Bs': object}


def work_root():
    """Per-process package root  <tmp>/pk/{__init__,mod}.py  (forked workers get their own)."""
    global _ROOT
    if _ROOT is None or _ROOT[0] != os.getpid():
        import tempfile
        d = tempfile.mkdtemp(prefix='c18_root_%d_' % os.getpid(), dir=os.environ.get('C18_TMP') or None)
        os.makedirs(os.path.join(d, 'pk'))
        open(os.path.join(d, 'pk', '__init__.py'), 'w').close()
        _ROOT = (os.getpid(), d)
    return _ROOT[1]


def imported_qualnames(src, rows):
    """Import the text as pk.mod and read module.__name__ + '.' + obj.__qualname__ of every
    definition reachable through classes (the property's run-time oracle)."""
    import builtins
    import importlib
    root = work_root()
    path = os.path.join(root, 'pk', 'mod.py')
    with open(path, 'w') as f:
        f.write(src)
    sys.dont_write_bytecode = True
    saved = {}
    for k, v in list(_BUILTIN_NAMES.items()) + [('dc', lambda a: (lambda f: f))]:
        saved[k] = getattr(builtins, k, None)
        setattr(builtins, k, v)
    sys.path.insert(0, root)
    try:
        for m in ('pk', 'pk.mod'):
            sys.modules.pop(m, None)
        importlib.invalidate_caches()
        try:
            mod = importlib.import_module('pk.mod')
        except TypeError as e:
            # a nest iterating over a lambda at module / class level cannot be executed
            if 'not iterable' in str(e):
                return None
            raise
        out = {}

        def walk(ns, prefix):
            for name, obj in list(vars(ns).items()):
                if isinstance(obj, type) and obj.__module__ == 'pk.mod' and name[0] == 'C':
                    out[name] = obj.__module__ + '.' + obj.__qualname__
                    walk(obj, prefix + [name])
                elif callable(obj) and getattr(obj, '__module__', None) == 'pk.mod' and name[0] == 'f':
                    out[name] = obj.__module__ + '.' + obj.__qualname__
        walk(mod, [])
        return out
    finally:
        sys.path.remove(root)
        for m in ('pk', 'pk.mod'):
            sys.modules.pop(m, None)
        for k, v in saved.items():
            if v is None:
                delattr(builtins, k)
            else:
                setattr(builtins, k, v)


# ---------------------------------------------------------------- projections of jedi observations
def row_of_name(d, by_npos):
    """jedi Name of a scope -> table row (0 = module, UNKNOWN = not a def/class of the file;
    LAMBASE + k for the k-th lambda when by_npos carries the lambda starts under ('lam', l, c))."""
    if d is None:
        return UNKNOWN
    if d.type == 'module':
        return 0
    pos = (d.line, d.column)
    if d.type == 'function' and d.name == '<lambda>' and ('lam',) + pos in by_npos:
        return by_npos[('lam',) + pos]
    return by_npos.get(pos, UNKNOWN)


def pos_index(rows, lams=()):
    by = {tuple(r['npos']): i for i, r in enumerate(rows, 1)}
    for k, e in enumerate(lams, 1):
        by[('lam', e[0], e[1])] = LAMBASE + k
    return by


def _usable(p):
    """Every Name met on the way up must be a usable Name: .name, .type, .line, .column answer."""
    try:
        return isinstance(p.name, str) and isinstance(p.type, str) and (p.line is None or p.line >= 0) \
            and (p.column is None or p.column >= 0)
    except Exception:
        return False


def chain_of(d, by_npos, limit=60):
    """Rows of d.parent(), .parent().parent(), ... up to (excluding) the module; UNUSABLE (and stop)
    for a result that is not a usable Name; UNKNOWN at the end when the walk does not reach the module."""
    out = []
    p = d.parent()
    while p is not None and len(out) < limit:
        if not _usable(p):
            out.append(UNUSABLE)
            return out
        if p.type == 'module':
            return out
        out.append(row_of_name(p, by_npos))
        p = p.parent()
    out.append(UNKNOWN)              # the chain must end in the module
    return out


def full_event(d, row):
    fn = d.full_name
    return {'k': 'full', 'row': row, 'got': [] if fn is None else [jutil.enc(fn)]}


# ---------------------------------------------------------------- spec -> code
def replay_case(case):
    prog, unit = case['prog'], case['unit']
    src = render(prog, unit)
    res = {'src': src, 'machinery': [], 'drift': [], 'events': [], 'where': [], 'classes': {}}
    lines = src.split('\n')
    # layout binding 1: token extents of the spec == CPython tokenize of the rendered text
    mine = [(t['l'], t['s'], t['e']) for t in case['toks'] if t['c'] not in ('nl', 'hnl', 'dnl', 'inl')]
    theirs = [(t.start[0], t.start[1], t.end[1]) for t in py_tokens(src)]
    if mine != theirs:
        res['machinery'].append('token layout differs from tokenize: %s vs %s' % (mine[:12], theirs[:12]))
        return res
    # layout binding 2 + Reference vs CPython: scope table == ast table
    rows = scope_table(src)
    spec_tab = [{f: r[f] for f in TAB_FIELDS} for r in case['tab']]
    if spec_tab != [{f: r[f] for f in TAB_FIELDS} for r in rows]:
        res['machinery'].append('scope table differs from ast: %s vs %s' % (spec_tab, rows))
        return res
    # Reference vs CPython: __qualname__ (code objects for all, imported objects for class-level ones)
    coq = co_qualnames(src)
    imp = imported_qualnames(src, rows)
    for d in case['defs']:
        nm = jutil.dec(case['tab'][d['row'] - 1]['nm'])
        if coq.get(nm) != {jutil.dec(d['qual'])}:
            res['machinery'].append('Qual(%s)=%s but co_qualname=%s' % (nm, jutil.dec(d['qual']), coq.get(nm)))
        if imp is None:
            res['noimport'] = 1
        elif d['judged']:
            if imp.get(nm) != jutil.dec(d['rfull']):
                res['machinery'].append('RefFull(%s)=%s but imported=%s' % (nm, jutil.dec(d['rfull']), imp.get(nm)))
        elif nm in imp:
            res['machinery'].append('%s importable by attribute path but not FullJudged' % nm)
    # Reference vs CPython: the chain of every name (definition or reference) == the def/class nodes of
    # the ast whose body it descends from; def/class nesting == symtable's block nesting
    anc = ast_name_chains(src, rows)
    for n in case['names']:
        a = anc.get((n['l'], n['c']))
        if a is None or a[1] != n['rchain']:
            res['machinery'].append('RefNameChain(%d,%d)=%s but ast says %s' % (n['l'], n['c'], n['rchain'], a))
    sym, nlam = symtable_nesting(src)
    rname = {i: jutil.dec(r['nm']) for i, r in enumerate(rows, 1)}
    for d in case['defs']:
        want = [rname[x] for x in d['rchain']]
        if sym.get(rname[d['row']]) != [want]:
            res['machinery'].append('RefChain(%s)=%s but symtable nests %s' % (rname[d['row']], want, sym.get(rname[d['row']])))
    if nlam != len(case['lams']):
        res['machinery'].append('%d lambdas in the model, %d lambda blocks in symtable' % (len(case['lams']), nlam))
    # Reference vs CPython: innermost ast body containing the position
    for p in case['pos']:
        if p['on'] and p['ref'] != ast_ctx(rows, p['l'], p['c']):
            res['machinery'].append('RefCtx(%d,%d)=%d but ast says %d' % (p['l'], p['c'], p['ref'], ast_ctx(rows, p['l'], p['c'])))
    if res['machinery']:
        return res

    root = work_root()
    s = jutil.script(src, path=os.path.join(root, 'pk', 'mod.py'), proj=jutil.project(root))
    lams = lambda_extents(src)
    if lams != case['lams']:
        res['machinery'].append('lambda extents differ from ast: %s vs %s' % (case['lams'], lams))
        return res
    comps = comp_extents(src)
    if comps != case['comps']:
        res['machinery'].append('comprehension extents differ from ast: %s vs %s' % (case['comps'], comps))
        return res
    by_npos = pos_index(rows, lams)
    events = [tab_event(rows, [['pk', 'mod']], lams, comps)]
    where = [None]

    def guard(fn, what, l, c):
        rr = jutil.safe(fn)
        if rr[0] == 'exc':
            res.setdefault('crash', []).append((what, l, c, rr[2]))
            return None
        return rr[1]
    for p in case['pos']:
        if p['c'] > len(lines[p['l'] - 1]):
            res['machinery'].append('position beyond line end: %s' % p)
            continue
        r = jutil.safe(lambda: s.get_context(p['l'], p['c']))
        if r[0] == 'exc':
            res.setdefault('crash', []).append(('get_context', p['l'], p['c'], r[2]))
            continue
        got = row_of_name(r[1], by_npos)
        if got != p['des']:
            res['drift'].append({'what': 'get_context', 'pos': [p['l'], p['c']], 'cls': p['cls'],
                                 'design': p['des'], 'code': got})
        key = p['cls']
        res['classes'][key] = res['classes'].get(key, 0) + 1
        if p['on']:
            events.append({'k': 'ctx', 'l': p['l'], 'c': p['c'], 'got': got})
            where.append('get_context(%d, %d) on %s' % (p['l'], p['c'], p['cls']))
            # the answer's own parent chain and full_name (value route)
            if got not in (0, UNKNOWN) and p['cls'] == 'name':
                d = r[1]
                ch = guard(lambda: (chain_of(d, by_npos), d.full_name), 'context.parent/full_name', p['l'], p['c'])
                if ch is None:
                    continue
                ch = ch[0]
                events.append({'k': 'dchain', 'row': got, 'got': ch})
                where.append('get_context(%d, %d).parent() chain' % (p['l'], p['c']))
                events.append(full_event(d, got))
                where.append('get_context(%d, %d).full_name' % (p['l'], p['c']))
                dd = [x for x in case['defs'] if x['row'] == got][0]
                dfv = jutil.dec(dd['dfullv'][0]) if dd['dfullv'] else None
                if d.full_name != dfv:
                    res['drift'].append({'what': 'context full_name', 'row': got, 'design': dfv, 'code': d.full_name})
    r = jutil.safe(lambda: s.get_names(all_scopes=True, definitions=True, references=True))
    if r[0] == 'exc':
        res.setdefault('crash', []).append(('get_names', 0, 0, r[2]))
        names = []
    else:
        names = r[1]
    seen_defs = set()
    dnames = {(n['l'], n['c']): n for n in case['names']}
    seen_names = set()
    ncls = res['nclasses'] = {}

    def own_of(pos, n):
        if n['cls'] in ('param', 'aparam'):
            return [i for i, rw in enumerate(rows, 1) if pos in [tuple(a) for a in rw['args']]][0]
        return 0
    for d in names:
        pos = (d.line, d.column)
        if pos in by_npos and d.type in ('function', 'class'):
            row = by_npos[pos]
            seen_defs.add(row)
            dd = [x for x in case['defs'] if x['row'] == row][0]
            ch = guard(lambda: (chain_of(d, by_npos), d.full_name), 'parent/full_name', pos[0], pos[1])
            if ch is None:
                continue
            ch = ch[0]
            if ch != dd['dchain']:
                res['drift'].append({'what': 'parent chain', 'row': row, 'design': dd['dchain'], 'code': ch})
            events.append({'k': 'dchain', 'row': row, 'got': ch})
            where.append('parent() chain of %s' % d.name)
            df = jutil.dec(dd['dfull'][0]) if dd['dfull'] else None
            if d.full_name != df:
                res['drift'].append({'what': 'full_name', 'row': row, 'design': df, 'code': d.full_name})
            events.append(full_event(d, row))
            where.append('full_name of %s' % d.name)
        elif pos in dnames:
            n = dnames[pos]
            seen_names.add(pos)
            ch = guard(lambda: chain_of(d, by_npos), 'parent', pos[0], pos[1])
            if ch is None:
                continue
            if ch != n['dchain']:
                res['drift'].append({'what': 'name parent chain', 'pos': pos, 'cls': n['cls'],
                                     'design': n['dchain'], 'code': ch})
            if d.is_definition() != n['def']:
                res['drift'].append({'what': 'is_definition', 'pos': pos, 'cls': n['cls'], 'design': n['def']})
            ncls[n['cls']] = ncls.get(n['cls'], 0) + 1
            events.append({'k': 'nchain', 'l': pos[0], 'c': pos[1], 'own': own_of(pos, n), 'got': ch})
            where.append('parent() chain of %s %s %s at %s' % ('definition' if n['def'] else 'reference',
                                                               n['cls'], d.name, pos))
    # the same names reached by other routes: goto from a reference to a comprehension / lambda /
    # parameter variable, infer on the variable a lambda is assigned to -- the Name objects come from
    # filters / values, not from create_name, and their parent() chains must say the same
    for n in case['names']:
        if n['cls'] in ('nref', 'nkey', 'celt', 'lbody', 'ibody'):
            rr = jutil.safe(lambda: s.goto(n['l'], n['c']))
            if rr[0] == 'exc':
                res['blocked'] = res.get('blocked', 0) + 1
                continue
            for g in rr[1]:
                pos = (g.line, g.column)
                tgt = dnames.get(pos)
                if g.module_path is None or str(g.module_path) != str(s.path) or tgt is None or not tgt['def']:
                    continue
                ch = guard(lambda: chain_of(g, by_npos), 'goto.parent', n['l'], n['c'])
                if ch is None:
                    continue
                if ch != tgt['dchain']:
                    res['drift'].append({'what': 'goto result parent chain', 'from': [n['l'], n['c']], 'pos': pos,
                                         'design': tgt['dchain'], 'code': ch})
                ncls['goto:' + tgt['cls']] = ncls.get('goto:' + tgt['cls'], 0) + 1
                events.append({'k': 'nchain', 'l': pos[0], 'c': pos[1], 'own': own_of(pos, tgt), 'got': ch})
                where.append('parent() chain of the result %s %s of goto(%d, %d)' % (g.name, pos, n['l'], n['c']))
    lamstart = {(e[0], e[1]) for e in lams}
    for i, it in enumerate(prog, 1):
        if it['k'] == 'lam' or (it['k'] == 'nest' and it['sh'][0]['k'] == 'lam'):
            vt = [n for n in case['names'] if n['it'] == i and n['cls'] == 'var'][0]
            rr = jutil.safe(lambda: s.infer(vt['l'], vt['c']))
            if rr[0] == 'exc':
                res['blocked'] = res.get('blocked', 0) + 1
                continue
            for g in rr[1]:
                pos = (g.line, g.column)
                if g.name != '<lambda>' or pos not in lamstart:
                    continue
                ch = guard(lambda: chain_of(g, by_npos), 'infer.parent', vt['l'], vt['c'])
                if ch is None:
                    continue
                ncls['infer:lambda'] = ncls.get('infer:lambda', 0) + 1
                events.append({'k': 'nchain', 'l': pos[0], 'c': pos[1], 'own': 0, 'got': ch})
                where.append('parent() chain of the lambda %s inferred at (%d, %d)' % (pos, vt['l'], vt['c']))
    if names and (seen_defs != set(range(1, len(rows) + 1)) or seen_names != set(dnames)):
        res['drift'].append({'what': 'get_names misses definitions', 'defs': sorted(seen_defs),
                             'names': sorted(seen_names), 'expected_names': sorted(dnames)})
    res['events'] = events
    res['where'] = where
    return res


def ast_ctx(rows, l, c):
    """Innermost def/class whose ast body (first statement .. end of node) contains (l, c)."""
    best = 0
    for i, r in enumerate(rows, 1):
        if (r['bl'], r['bc']) <= (l, c) < (r['el'], r['ec']):
            if best == 0 or (rows[best - 1]['bl'], rows[best - 1]['bc']) < (r['bl'], r['bc']):
                best = i
    return best


# ---------------------------------------------------------------- code -> spec: corpus
def dotted_of(path):
    from harness.core import REPO
    rel = os.path.relpath(path, REPO)
    parts = rel[:-3].split(os.sep)
    if parts[-1] == '__init__':
        parts = parts[:-1]
    return parts


def record_file(arg):
    path, npos, nnames, seed = arg
    from harness.core import REPO
    with open(path, encoding='utf-8') as f:
        src = f.read()
    return record_source(src, path, REPO, dotted_of(path), npos, nnames, seed)


def record_counterexample(src):
    """Observe a TLC counterexample program on the real code (all identifier positions)."""
    root = work_root()
    return record_source(src, os.path.join(root, 'pk', 'mod.py'), root, ['pk', 'mod'], 0, 0, 0, refs=True)


def _depth(exts, pos):
    return sum(1 for e in exts if (e[0], e[1]) <= pos < (e[2], e[3]))


def record_source(src, path, proj_root, mod, npos, nnames, seed, refs=False):
    import random
    rng = random.Random(seed)
    out = {'path': path, 'events': [], 'where': [], 'skipped': None, 'crash': []}
    try:
        tree = ast.parse(src)
        rows = scope_table(src, tree)
    except SyntaxError:
        out['skipped'] = 'syntax'
        return out
    except Unsupported as e:
        out['skipped'] = 'layout:%s' % e
        return out
    lines = src.split('\n')
    if any(max(r['hl'], r['el']) >= 2 ** 20 for r in rows):
        out['skipped'] = 'too long'
        return out
    import keyword
    idents = []
    for t in py_tokens(src):
        if t.type == tokenize.NAME and not keyword.iskeyword(t.string):
            (l, c0), (l1, c1) = t.start, t.end
            # tokenize columns are characters
            idents.append((l, c0))
            if c1 - c0 > 1:
                idents.append((l, rng.randrange(c0 + 1, c1)))
    rng.shuffle(idents)
    idents = sorted(idents[:npos]) if npos else sorted(idents)
    s = jutil.script(src, path=path, proj=jutil.project(proj_root))
    lams, comps = lambda_extents(src, tree), comp_extents(src, tree)
    by_npos = pos_index(rows, lams)
    events = [tab_event(rows, import_paths(s, path, mod), lams, comps)]
    where = [None]
    for (l, c) in idents:
        r = jutil.safe(lambda: s.get_context(l, c))
        if r[0] == 'exc':
            out['crash'].append(('get_context', l, c, r[2]))
            continue
        events.append({'k': 'ctx', 'l': l, 'c': c, 'got': row_of_name(r[1], by_npos)})
        where.append('get_context(%d, %d)' % (l, c))
    r = jutil.safe(lambda: s.get_names(all_scopes=True, definitions=True, references=refs))
    if r[0] == 'exc':
        out['crash'].append(('get_names', 0, 0, r[2]))
        names = []
    else:
        names = r[1]
    argpos = {}
    for i, rw in enumerate(rows, 1):
        for a in rw['args']:
            argpos[tuple(a)] = i
    others = []
    for d in names:
        pos = (d.line, d.column)
        rt = jutil.safe(lambda: d.type)
        if rt[0] == 'exc':           # e.g. imported names need inference (typeshed is absent)
            out['crash'].append(('type', pos[0], pos[1], rt[2]))
            continue
        if pos in by_npos and d.type in ('function', 'class'):
            row = by_npos[pos]
            rr = jutil.safe(lambda: (chain_of(d, by_npos), full_event(d, row)))
            if rr[0] == 'exc':
                out['crash'].append(('parent/full_name', pos[0], pos[1], rr[2]))
                continue
            events.append({'k': 'dchain', 'row': row, 'got': rr[1][0]})
            where.append('parent() chain of %s at %s' % (d.name, pos))
            if mod[-1] != '__main__':     # a __main__.py has no unambiguous import path (jedi says __main__)
                events.append(rr[1][1])
                where.append('full_name of %s at %s' % (d.name, pos))
        elif d.type in ('param', 'statement'):
            others.append(d)
    rng.shuffle(others)
    if nnames:
        # names inside a lambda or inside nested comprehensions are always observed (up to 3 * nnames)
        deep = [d for d in others if _depth(lams, (d.line, d.column)) or _depth(comps, (d.line, d.column)) > 1]
        ids = set(id(d) for d in deep[:3 * nnames])
        others = deep[:3 * nnames] + [d for d in others if id(d) not in ids][:nnames]
    out['deep'] = 0
    for d in others:
        pos = (d.line, d.column)
        if d.type == 'param' and pos not in argpos and not _is_lambda_param(d):
            continue
        rr = jutil.safe(lambda: chain_of(d, by_npos))
        if rr[0] == 'exc':
            out['crash'].append(('parent', pos[0], pos[1], rr[2]))
            continue
        if _depth(comps, pos) > 1 or _depth(lams, pos):
            out['deep'] += 1
        events.append({'k': 'nchain', 'l': pos[0], 'c': pos[1], 'own': argpos.get(pos, 0) if d.type == 'param' else 0,
                       'got': rr[1]})
        where.append('parent() chain of %s %s at %s' % (d.type, d.name, pos))
    out['events'] = events
    out['where'] = where
    out['nscopes'] = len(rows)
    return out


def _is_lambda_param(d):
    tn = d._name.tree_name
    return tn is not None and tn.search_ancestor('funcdef', 'lambdef').type == 'lambdef'


# ---------------------------------------------------------------- code -> spec: random nest programs
def gen_program(rng, maxdepth):
    """A random program: nested def / async def / class blocks whose statements, decorators, defaults and
    bases are expressions of nested comprehensions (several for / if clauses, generator arguments),
    lambdas (several parameters, defaults), conditional expressions, calls, walrus targets -- deeper
    and wider than the bounded model; judged through the ast-derived table by Trace_Nesting."""
    cnt = [0]

    def fresh(pfx):
        cnt[0] += 1
        return '%s%d' % (pfx, cnt[0])

    def atom(vs):
        return rng.choice(vs) if vs and rng.random() < 0.8 else rng.choice(['sq', 'wv', 'df'])

    def expr(d, vs, infunc):
        if d <= 0 or rng.random() < 0.12:
            return atom(vs)
        k = rng.choice(['list', 'list', 'set', 'dict', 'gen', 'garg', 'lam', 'lam', 'tern', 'call', 'tup'])
        if k in ('list', 'set', 'dict', 'gen', 'garg'):
            x = fresh('x')
            # (no walrus inside an iterable expression: SyntaxError)
            it = expr(d - 1, vs, False) if rng.random() < 0.5 else atom(vs)
            inner = vs + [x]
            tail = ' for %s in %s' % (x, it)
            if rng.random() < 0.35:
                tail += ' if %s' % expr(d - 1 if rng.random() < 0.4 else 0, inner, infunc)
            if rng.random() < 0.3:
                y = fresh('y')
                tail += ' for %s in %s' % (y, expr(d - 1 if rng.random() < 0.4 else 0, inner, False))
                inner = inner + [y]
                if rng.random() < 0.3:
                    tail += ' if %s' % atom(inner)
            e = expr(d - 1, inner, infunc)
            if infunc and rng.random() < 0.15:
                e = '(%s := %s)' % (fresh('w'), e)
            if k == 'dict':
                return '{%s: %s%s}' % (atom(inner), e, tail)
            if k == 'garg':
                return 'fn(%s%s)' % (e, tail)
            o, c = {'list': '[]', 'set': '{}', 'gen': '()'}[k]
            return o + e + tail + c
        if k == 'lam':
            ps, inner = [], list(vs)
            for _ in range(rng.randrange(0, 3)):
                q = fresh('q')
                ps.append(q + ('=%s' % expr(d - 1 if rng.random() < 0.4 else 0, vs, infunc)
                               if rng.random() < 0.5 else ''))
                inner.append(q)
            # parameters without default first
            ps.sort(key=lambda x: '=' in x)
            return '(lambda %s: %s)' % (', '.join(ps), expr(d - 1, inner, infunc))
        if k == 'tern':
            return '(%s if %s else %s)' % (expr(d - 1, vs, infunc), atom(vs), expr(d - 1, vs, infunc))
        if k == 'call':
            return 'fn(%s, %s)' % (expr(d - 1, vs, infunc), expr(d - 1, vs, infunc))
        return '(%s, %s)' % (expr(d - 1, vs, infunc), expr(d - 1, vs, infunc))

    out = []

    def block(ind, lvl, vs, infunc, kind):
        n = rng.randrange(1, 4)
        for j in range(n):
            r = rng.random()
            b = ' ' * ind
            if lvl < 3 and r < 0.45:
                if rng.random() < 0.3:
                    out.append(b + '@dc(%s)' % expr(rng.randrange(0, maxdepth), vs, infunc))
                if rng.random() < 0.35:
                    out.append(b + 'class %s(%s):' % (fresh('C'), expr(rng.randrange(0, 3), vs, infunc)))
                    # names of the enclosing function stay visible, class variables do not matter here
                    block(ind + 4, lvl + 1, vs, False, 'class')
                else:
                    p = fresh('p')
                    dflt = '=%s' % expr(rng.randrange(0, maxdepth), vs, infunc) if rng.random() < 0.5 else ''
                    out.append(b + '%sdef %s(%s%s):' % ('async ' if rng.random() < 0.2 else '', fresh('f'), p, dflt))
                    block(ind + 4, lvl + 1, vs + [p], True, 'def')
            else:
                e = expr(rng.randrange(1, maxdepth + 1), vs, infunc)
                if kind == 'def' and rng.random() < 0.2:
                    out.append(b + 'return %s' % e)
                else:
                    v = fresh('v')
                    out.append(b + '%s = %s' % (v, e))
                    vs = vs + [v]
    block(0, 0, [], False, 'module')
    return '\n'.join(out) + '\n'


def record_generated(arg):
    seed, maxdepth = arg
    import random
    rng = random.Random(seed)
    src = gen_program(rng, maxdepth)
    root = work_root()
    rec = record_source(src, os.path.join(root, 'pk', 'mod.py'), root, ['pk', 'mod'], 80, 0, seed, refs=True)
    rec['src'] = src
    # the geometric Reference of the trace spec == the structural nesting of the ast, name by name
    if not rec['skipped']:
        rows = scope_table(src)
        anc = ast_name_chains(src, rows)
        rec['names'] = sum(1 for e in rec['events'] if e['k'] == 'nchain')
        for e in [e for e in rec['events'] if e['k'] == 'nchain']:
            own, chain = anc.get((e['l'], e['c']), (UNKNOWN, [UNKNOWN]))
            if own != e['own']:
                rec['skipped'] = 'parameter ownership differs from the ast at %s' % e
            rec['events'].append({'k': 'achain', 'l': e['l'], 'c': e['c'], 'own': own, 'got': chain})
            rec['where'].append('ast nesting of the name at (%d, %d)' % (e['l'], e['c']))
        rec['maxcomp'] = max([_depth(rec['events'][0]['comps'], (e['l'], e['c'])) for e in rec['events'][1:]
                              if e['k'] == 'nchain'] or [0])
    return rec


# ---------------------------------------------------------------- trace validation with all failing events
class _Quiet:
    """A ctx for one chunk validated in a thread: nothing is written to the real ctx until the join."""

    def __init__(self, ctx):
        self.tmp = ctx.tmp
        self.coverage = {'traces_validated_against_impl': 0}
        self.results = []

    def add_tlc(self, res, label):
        self.results.append((res, label))


# Many JVMs run side by side: the default 13 GC + 12 JIT threads of each make them thrash.  Short runs
# (trace validation, what-ifs, emission) also stop at the C1 compiler.
JVM_SHORT = {'JAVA_TOOL_OPTIONS': '-XX:ParallelGCThreads=2 -XX:TieredStopAtLevel=1'}
JVM_LONG = {'JAVA_TOOL_OPTIONS': '-XX:ParallelGCThreads=4'}


def par_tlc(jobs, threads=6):
    """Run independent TLC jobs [(module, cfg, kwargs)] concurrently (one JVM each); results in order."""
    from concurrent.futures import ThreadPoolExecutor
    with ThreadPoolExecutor(max_workers=threads) as ex:
        futs = [ex.submit(run_tlc, m, c, **kw) for m, c, kw in jobs]
        return [f.result() for f in futs]


def judge_groups(ctx, groups, threads=4, target=30000):
    """groups = [(label, traces)] -> [(verdicts, rejects)] per group; rejects = list of (trace index,
    event index (0-based), why list).  The traces of all groups are laid end to end and cut into chunks
    of about `target` events; the chunks are validated by concurrent single-worker TLC processes (a JVM
    start costs as much as some thousand events: few, large chunks)."""
    from concurrent.futures import ThreadPoolExecutor
    flat = [(g, i, t) for g, (label, traces) in enumerate(groups) for i, t in enumerate(traces)]
    parts, cur, n = [], [], 0
    for x in flat:
        cur.append(x)
        n += len(x[2])
        if n >= target:
            parts.append(cur)
            cur, n = [], 0
    if cur:
        parts.append(cur)

    def one(part):
        q = _Quiet(ctx)
        label = ' + '.join(sorted(set(groups[g][0] for g, _, _ in part)))
        return validate_traces('Trace_Nesting', 'Trace_Nesting.cfg', [t for _, _, t in part], q, label,
                               chunk=len(part), env=JVM_SHORT), q
    with ThreadPoolExecutor(max_workers=threads) as ex:
        done = list(ex.map(one, parts))
    out = [([None] * len(traces), []) for _, traces in groups]
    for part, (vs, q) in zip(parts, done):
        for (g, i, _), v in zip(part, vs):
            out[g][0][i] = v
        for res, lab in q.results:
            ctx.add_tlc(res, lab)
            for p in res.tagged('REJECT'):
                g, i, _ = part[p[0] - 1]
                out[g][1].append((i, p[1] - 1, p[2]))
    for g, (label, traces) in enumerate(groups):
        ctx.coverage['traces_validated_against_impl'] += len(traces)
        verdicts, rejects = out[g]
        # totality: a trace is accepted iff it has no rejected event
        bad = set(r[0] for r in rejects)
        for i, v in enumerate(verdicts):
            if v is None or v['accepted'] == (i in bad):
                raise MachineryError('Trace_Nesting verdicts not total for trace %d of %s: %s' % (i, label, v))
        rejects.sort()
    return out


def reject_key(why):
    if why[0] == 'ctx':
        return 'ctx:%s' % why[2] if why[2] != 'other' else 'ctx-%s:other' % why[1]
    if why[0] == 'parent-chain' and why[1] == 'name':
        # shape of the failing input: what is wrong / where the name is written
        code, ncomp, nlam = why[3], why[4], why[5]
        if code == 'LC':
            return 'parent-chain:lambda-in-class'
        if code == 'AH':
            return 'parent-chain:anonymous-scope-in-header'
        where = 'in-nested-comprehensions' if ncomp >= 2 else 'in-comprehension' if ncomp == 1 else \
            'in-lambda' if nlam else 'plain'
        return 'parent-chain:%s:%s' % ('unusable-parent' if code == 'UN' else 'name', where)
    return '%s:%s' % (why[0], why[1])


def report_rejects(ctx, rejects, traces, wheres, srcs, origin):
    for ti, ei, why in rejects:
        ev = traces[ti][ei]
        what = wheres[ti][ei]
        key = reject_key(why)
        if why[0] == 'ctx':
            desc = '%s answers row %s but the innermost enclosing body is row %s (%s position, shape %s)' % (
                what, ev['got'], why[3], why[1], why[2])
        elif why[0] == 'parent-chain' and why[1] == 'name':
            desc = ('%s is %s (%d = a parent() result that is not a usable Name, %d+k = the k-th lambda), but '
                    'there are %s lexically enclosing def/class scopes (innermost first: see table); the name is '
                    'written inside %d comprehension(s) and %d lambda(s)%s') % (
                what, ev['got'], UNUSABLE, LAMBASE, why[2], why[4], why[5],
                '; the class(es) around the lambda are left out' if why[3] == 'LC' else
                '; the name is written in the header of a def/class, which is reported as its parent'
                if why[3] == 'AH' else '')
        elif why[0] == 'parent-chain':
            desc = '%s is %s, but there are %s lexically enclosing scopes (innermost first: see table)' % (
                what, ev['got'], why[2])
        elif why[0] == 'full-name':
            desc = '%s is %r, which is not module path + __qualname__ (%d characters) of row %d' % (
                what, jutil.dec(ev['got'][0]) if ev['got'] else None, why[2], ev['row'])
        elif why[0] == 'ast-chain':
            raise MachineryError('Reference differs from the ast nesting on %s: %s\n%s' % (what, ev, srcs[ti]))
        else:
            raise MachineryError('unknown reject %s' % (why,))
        ctx.count('rejected_events')
        ctx.violation(key, desc, {'origin': origin, 'source': srcs[ti], 'event': ev, 'what': what,
                                  'table': traces[ti][0]['scopes'] if len(traces[ti][0]['scopes']) < 40 else '...'})


# ---------------------------------------------------------------- Trace_FullNameHist.tla: full_name along package changes
FNH_SRC = ("class Order:\n    class Line:\n        def total(self):\n            return 1\n    def submit(self):\n        return 2\n"
           "def cancel():\n    return 3\nVALUE = 4\n")


def fullname_history(order):
    """One process: <root>/shop/orders/models.py analysed with the DEFAULT project after every change of which of the
    two directories is a package.  order: sequence of states (shop_is_pkg, orders_is_pkg)."""
    import jedi
    import shutil
    import tempfile
    base = os.environ.get('VERIF_CACHE_BASE') or tempfile.gettempdir()
    root = tempfile.mkdtemp(prefix='c18fnh_', dir=base)
    d = os.path.join(root, 'shop', 'orders')
    os.makedirs(d)
    path = os.path.join(d, 'models.py')
    with open(path, 'w') as f:
        f.write(FNH_SRC)
    quals = {}
    tree = ast.parse(FNH_SRC)

    def walk(node, prefix):
        for ch in getattr(node, 'body', []):
            if isinstance(ch, (ast.ClassDef, ast.FunctionDef)):
                q = prefix + [ch.name]
                quals[(ch.lineno, ch.col_offset + (6 if isinstance(ch, ast.ClassDef) else 4))] = '.'.join(q)
                if isinstance(ch, ast.ClassDef):
                    walk(ch, q)
    walk(tree, [])
    events = []
    try:
        for step, (shop_pkg, orders_pkg) in enumerate(order):
            for dd, flag in ((os.path.join(root, 'shop'), shop_pkg), (d, orders_pkg)):
                init = os.path.join(dd, '__init__.py')
                if flag and not os.path.exists(init):
                    open(init, 'w').close()
                elif not flag and os.path.exists(init):
                    os.unlink(init)
            # Python's package rule on the files as they are now
            parts = ['models']
            if orders_pkg:
                parts.insert(0, 'orders')
                if shop_pkg:
                    parts.insert(0, 'shop')
            s = jedi.Script(FNH_SRC, path=path, environment=jutil.env())
            r = jutil.safe(lambda: s.get_names(all_scopes=True, definitions=True))
            if r[0] == 'exc':
                events.append({'blocked': r[2]})
                continue
            for n in r[1]:
                q = quals.get((n.line, n.column))
                if q is None:
                    continue
                fn = jutil.safe(lambda: n.full_name)
                got = fn[1] if fn[0] == 'ok' else None
                events.append({'step': step, 'state': [shop_pkg, orders_pkg], 'got': jutil.enc(got) if got else [],
                               'want': jutil.enc('.'.join(parts) + '.' + q)})
    finally:
        shutil.rmtree(root, True)
    return events


def fullname_histories(ctx):
    import itertools
    states = [(False, False), (False, True), (True, True), (True, False)]
    orders = [list(p) for p in itertools.permutations(states, 2)] + [[a, b, a] for a in states for b in states if a != b][::2]
    if not ctx.quick:
        orders += [list(p) for p in itertools.permutations(states, 3)]
    obs = jutil.pmap(fullname_history, orders, chunksize=2)
    jutil.check_worker_errors(obs)
    traces, owners = [], []
    for order, evs in zip(orders, obs):
        t = [e for e in evs if 'blocked' not in e]
        if t:
            traces.append([{k: e[k] for k in ('step', 'got', 'want')} for e in t])
            owners.append((order, t))
    ctx.coverage['fullname_histories'] = len(orders)
    ctx.coverage['fullname_history_names'] = sum(len(t) for t in traces)
    if sum(len(t) for t in traces) < 100:
        raise MachineryError('vacuity: only %d full names observed along package histories' % sum(len(t) for t in traces))
    vs = validate_traces('Trace_FullNameHist', 'Trace_FullNameHist.cfg', traces, ctx, 'Trace_FullNameHist')
    for v, (order, t) in zip(vs, owners):
        if not v['accepted']:
            e = t[(v['at'] or 1) - 1]
            first = e['step'] == 0
            ctx.violation('full-name-history:%s' % ('first-script' if first else 'after-package-change'),
                          'full_name does not follow the package structure of the files as they are now',
                          {'states (shop is package, orders is package)': order, 'step': e['step'],
                           'got': jutil.dec(e['got']), 'want': jutil.dec(e['want'])})
    bad = [dict(traces[0][0], got=jutil.enc('somewhere.else.X'))]
    n0 = ctx.coverage['traces_validated_against_impl']
    bv = validate_traces('Trace_FullNameHist', 'Trace_FullNameHist.cfg', [bad], ctx, 'binding self-test (full-name history)')
    ctx.coverage['traces_validated_against_impl'] = n0
    if bv[0]['accepted']:
        raise MachineryError('binding self-test: wrong full_name accepted')


# ---------------------------------------------------------------- main
def run(ctx):
    quick = ctx.quick
    os.environ['C18_TMP'] = ctx.tmp
    scale = float(os.environ.get('C18_SCALE', '1'))
    units = [2, 4, 8]
    fixed = default_fixed()
    ctx.coverage['modelled_repairs'] = list(fixed)
    jobs, labels = [], []

    def job(label, cfg, **kw):
        kw.setdefault('env', JVM_LONG if kw.get('workers', 1) >= 8 else JVM_SHORT)
        jobs.append(('Nesting', cfg, kw))
        labels.append(label)
        return len(jobs) - 1
    # ---- 1. Design |= Reference, exhaustive: (a) the line-layout space (no nests), (b) the nest space
    #         (every tree of <= MaxNest anonymous scopes in every small def/class context)
    #         list / set / generator nodes differ in their brackets only (one branch of the Design), a dict
    #         node in its key tokens: the quick tier enumerates all trees of <= 3 list / lambda nodes and all
    #         trees of <= 2 nodes of the other kinds; thorough all trees of <= 3 nodes of every kind and of
    #         <= 4 list / dict / lambda nodes
    #         (decorators / async do not matter inside an expression: Plain)
    nctx = dict(items=3, depth=2, scopes=2, extras=1, units=[4], plain=True)
    if quick:
        bounds = dict(items=4, depth=3, scopes=4, extras=1, units=units)
        nb = dict(nctx, nest=3, kinds=('list', 'lam'))
        nb2 = dict(nctx, nest=2, kinds=('set', 'dict', 'gen', 'lam'))
    elif scale < 1:
        bounds = dict(items=4, depth=3, scopes=4, extras=2, units=units)
        nb = dict(nctx, nest=3, kinds=('list', 'dict', 'lam'))
        nb2 = dict(nctx, nest=2)
    else:
        bounds = dict(items=5, depth=4, scopes=5, extras=2, units=units)      # 1 281 852 states
        nb = dict(nctx, nest=4, kinds=('list', 'dict', 'lam'))
        nb2 = dict(nctx, nest=3)
    if os.environ.get('C18_SKIP_EXHAUSTIVE'):      # development knob (mutation runs): the exhaustive
        bounds = dict(items=3, depth=2, scopes=3, extras=1, units=[4])
        nb = dict(items=2, depth=1, scopes=1, extras=1, units=[4], nest=2, kinds=('list', 'lam'))
        nb2 = dict(nb, nest=1)
        ctx.notes.append('C18_SKIP_EXHAUSTIVE set: exhaustive runs reduced to %s / %s' % (bounds, nb))
    j_main = job('Design|=Reference exhaustive %s' % bounds,
                 write_cfg(ctx, 'mc.cfg', invs=['DesignMeetsReference'], **bounds), workers=16, timeout=6000)
    j_nest = job('Design|=Reference exhaustive, nest space %s' % nb,
                 write_cfg(ctx, 'mc_nest.cfg', invs=['DesignMeetsReference'], **nb), workers=16, timeout=6000)
    j_nest2 = job('Design|=Reference exhaustive, nest space %s' % nb2,
                  write_cfg(ctx, 'mc_nest2.cfg', invs=['DesignMeetsReference'], **nb2), workers=8, timeout=6000)
    small = dict(items=3, depth=2, scopes=3, extras=1, units=[4], nest=2, kinds=('list', 'lam'))
    hb = dict(small, nest=0)
    j_hint = job('separate invariants + scan-hint equivalence %s' % hb,
                 write_cfg(ctx, 'hint.cfg', invs=['HintOK'] + INVS, **hb), workers=4, timeout=1200)

    # ---- 1b. sensitivity of the model: the what-if models of the OLD code (Fixed without a repair) must
    #          violate CtxStrict; the what-if model of a parent() that leaves one comprehension context only
    #          (Fixed without CompWhile) must violate ParentOK; each counterexample program is then observed
    #          on the real code and judged like any other trace (with the repairs / the loop in the code it
    #          must be accepted).  CtxLiteral must fail too (HeaderSelf, tolerated by the Reference) and is
    #          confirmed on the code; ParentStrict must fail while LambdaParent is not repaired, and its
    #          counterexample observed on the code must be REJECTED with that shape (the known finding).
    whatifs = [('CtxStrict', tuple(x for x in fixed if x not in ('AsyncColumn', 'DedentCont', 'LambdaInClass')),
                'old code: no repair'),
               ('CtxStrict', tuple(x for x in fixed if x != 'DedentCont'), 'without the DedentCont repair'),
               ('CtxStrict', tuple(x for x in fixed if x != 'LambdaInClass'), 'without the LambdaInClass repair'),
               ('ParentOK', tuple(x for x in fixed if x != 'CompWhile'),
                'parent() leaving one comprehension context only'),
               ('CtxLiteral', fixed, 'HeaderSelf')]
    if 'LambdaParent' not in fixed:
        whatifs.append(('ParentStrict', fixed, 'LambdaParent'))
    j_what = [job('expected counterexample %s, Fixed=%s (%s)' % (inv, list(fx), what),
                  write_cfg(ctx, 'whatif_%d.cfg' % n, invs=[inv], fixed=fx, **small), workers=2, timeout=1200)
              for n, (inv, fx, what) in enumerate(whatifs)]

    # ---- 2. case emission (spec -> code): a BFS slice of small programs (single-node nests of every kind
    #         included), a BFS slice of the nest space, simulation walks through the big space
    mod = 5 if quick else (67 if scale < 1 else 41)
    eb = dict(items=3, depth=2, scopes=3, extras=1, units=units) if quick else \
        dict(items=4, depth=3, scopes=4, extras=2, units=units)
    eb['nest'] = 1
    j_emit = job('case emission slice %d mod %d %s' % (ctx.seed % mod, mod, eb),
                 write_cfg(ctx, 'emit.cfg', mod=mod, rem=ctx.seed % mod, invs=[], emit=True, **eb),
                 workers=1, timeout=6000)
    nmod = 37 if quick else (31 if scale < 1 else 211)
    neb = dict(nctx, nest=3, kinds=('list', 'dict', 'gen', 'lam')) if quick else dict(nctx, nest=3) if scale < 1 \
        else dict(nctx, nest=4, kinds=('list', 'set', 'dict', 'lam'))
    j_nemit = job('case emission, nest space, slice %d mod %d %s' % (ctx.seed % nmod, nmod, neb),
                  write_cfg(ctx, 'emit_nest.cfg', mod=nmod, rem=ctx.seed % nmod, invs=[], emit=True, **neb),
                  workers=1, timeout=6000)
    sb = dict(items=7, depth=4, scopes=6, extras=3, units=units, nest=5)
    nsim = 60 if quick else (250 if scale < 1 else 600)
    j_sim = job('simulation walks with emission %s' % sb,
                write_cfg(ctx, 'sim.cfg', mod=1, rem=0, invs=['DesignMeetsReference'], emit=True, **sb),
                workers=1, timeout=6000, simulate='num=%d' % nsim, depth=10, seed=ctx.seed)
    ctx.log('running %d TLC jobs concurrently' % len(jobs))
    results = par_tlc(jobs)
    for res, label in zip(results, labels):
        ctx.add_tlc(res, label)

    res = results[j_main]
    if res.violated:
        raise MachineryError('Nesting.tla: %s violated (the design must reproduce the code; known deviations are '
                             'named in the spec):\n%s' % (res.violated, res.trace[-1:]))
    if res.distinct < 5000 and not os.environ.get('C18_SKIP_EXHAUSTIVE'):
        raise MachineryError('vacuity: only %d states' % res.distinct)
    ctx.log('exhaustive: %d distinct states, %.0fs' % (res.distinct, res.wall))
    for j in (j_nest, j_nest2):
        res = results[j]
        if res.violated:
            raise MachineryError('Nesting.tla: %s violated in the nest space:\n%s' % (res.violated, res.trace[-1:]))
        ctx.log('exhaustive, nest space: %d distinct states, %.0fs' % (res.distinct, res.wall))
    if results[j_nest].distinct < 1000 and not os.environ.get('C18_SKIP_EXHAUSTIVE'):
        raise MachineryError('vacuity: only %d states in the nest space' % results[j_nest].distinct)
    ctx.coverage['exhaustive'] = True
    ctx.coverage['exhaustive_nest_space'] = [dict(nb, states=results[j_nest].distinct),
                                             dict(nb2, states=results[j_nest2].distinct)]
    if results[j_hint].violated:
        raise MachineryError('Nesting.tla: %s violated on the small configuration' % results[j_hint].violated)

    cex_traces, cex_wheres, cex_srcs = [], [], []
    lp_trace = None
    wsrcs = []
    for (inv, fx, what), j in zip(whatifs, j_what):
        r2 = results[j]
        if not r2.violated or not r2.trace:
            raise MachineryError('%s holds with Fixed=%s: the model lost its sensitivity (%s)' % (inv, list(fx), what))
        st = r2.trace[-1]['vars']
        wsrcs.append(render(st['prog'], st['unit']))
    # observed in forked workers: the parent must not own a jedi helper subprocess before pmap forks
    wrecs = jutil.pmap(record_counterexample, wsrcs)
    jutil.check_worker_errors(wrecs)
    for (inv, fx, what), src, rec in zip(whatifs, wsrcs, wrecs):
        ctx.coverage.setdefault('whatif_counterexamples', []).append({'invariant': inv, 'Fixed': list(fx), 'source': src})
        if rec['skipped'] or rec['crash']:
            raise MachineryError('cannot observe counterexample of %s: %s' % (inv, rec))
        if inv in ('CtxStrict', 'ParentOK'):
            cex_traces.append(rec['events'])
            cex_wheres.append(rec['where'])
            cex_srcs.append(src)
        elif inv == 'ParentStrict':
            lp_trace = (rec, src)
        else:
            # HeaderSelf on the real code: some def/class name position answers the definition itself
            tab = rec['events'][0]['scopes']
            hs = [e for e in rec['events'][1:] if e['k'] == 'ctx' and e['got'] not in (0, UNKNOWN)
                  and (tab[e['got'] - 1]['hl'], tab[e['got'] - 1]['hc']) <= (e['l'], e['c'])
                  < (tab[e['got'] - 1]['bl'], tab[e['got'] - 1]['bc'])]
            if not hs:
                ctx.drift({'what': 'HeaderSelf counterexample of the Design is not reproduced by the code',
                           'source': src})
            else:
                ctx.coverage['header_self_confirmed_on_code'] = hs[0]
    ctx.notes.append('AsyncColumn alone shows only on positions that are not on code (on_code covers the rest): '
                     'its absence is detected as drift of the prefix/comment positions in the replay leg')

    cs = cases(results[j_emit])
    ncs = cases(results[j_nemit])
    if results[j_sim].violated:
        raise MachineryError('Nesting.tla: %s violated in simulation:\n%s' % (results[j_sim].violated,
                                                                             results[j_sim].trace[-1:]))
    sim = cases(results[j_sim])
    seen = set(render(c['prog'], c['unit']) for c in cs)
    for c in ncs + sim:
        k = render(c['prog'], c['unit'])
        if k not in seen:
            seen.add(k)
            cs.append(c)
    if len(cs) < 300:
        raise MachineryError('too few cases emitted: %d' % len(cs))
    depths = {}
    for c in cs:
        for it in c['prog']:
            if it['k'] == 'nest':
                dd = nest_depth(it['sh'])
                depths[dd] = depths.get(dd, 0) + 1
    ctx.coverage['nest_depths_replayed'] = depths
    if not any(d >= 3 for d in depths):
        raise MachineryError('no nest of depth >= 3 among the emitted cases: %s' % depths)
    ctx.log('replaying %d TLC cases (%d positions, %d names; nest depths %s)'
            % (len(cs), sum(len(c['pos']) for c in cs), sum(len(c['names']) for c in cs), depths))
    results = jutil.pmap(replay_case, cs)
    jutil.check_worker_errors(results)
    traces, wheres, srcs = [], [], []
    classes, nclasses = {}, {}
    for c, r in zip(cs, results):
        if r['machinery']:
            raise MachineryError('layout/Reference does not match CPython on\n%s\n%s' % (r['src'], r['machinery'][:3]))
        for cr in r.get('crash', []):
            ctx.violation('crash:%s:%s' % (cr[0], cr[3]), '%s raised at %s on a rendered case' % (cr[0], cr[1:3]),
                          {'source': r['src'], 'crash': cr})
        for d in r['drift']:
            ctx.drift(dict(d, source=r['src']))
        for k, n in r['classes'].items():
            classes[k] = classes.get(k, 0) + n
        for k, n in r['nclasses'].items():
            nclasses[k] = nclasses.get(k, 0) + n
        ctx.count('replayed_cases')
        ctx.count('replayed_positions', len(c['pos']))
        ctx.count('replayed_names', len(c['names']))
        ctx.count('import_oracle_skipped_not_executable', r.get('noimport', 0))
        ctx.count('goto_infer_calls_blocked', r.get('blocked', 0))
        traces.append(r['events'])
        wheres.append(r['where'])
        srcs.append(r['src'])
        if len(c['prog']) >= 4 or any(it['k'] == 'nest' and len(it['sh']) >= 3 for it in c['prog']):
            ctx.sample({'source': r['src'], 'positions': len(c['pos']),
                        'design_ctx': [(p['l'], p['c'], p['cls'], p['des']) for p in c['pos'] if p['on']][:40],
                        'defs': [{'row': d['row'], 'parents': d['dchain'],
                                  'full_name': jutil.dec(d['dfull'][0]) if d['dfull'] else None}
                                 for d in c['defs']],
                        'names': [(n['l'], n['c'], n['cls'], n['dchain']) for n in c['names']][:40]}, limit=6)
    ctx.coverage['position_classes_replayed'] = classes
    ctx.coverage['name_classes_replayed'] = nclasses
    need = {'kw', 'name', 'aparam', 'dflt', 'ann', 'ret', 'colon', 'base', 'dname', 'async', 'var', 'val',
            'lbody', 'lparam', 'celt', 'cvar', 'cval', 'ibody', 'prefix', 'comment', 'after',
            'nob', 'ncb', 'nop', 'ncp', 'nlk', 'nlp', 'nleq', 'nlc', 'nkey', 'ncol', 'nfor', 'nvar', 'nin',
            'nref', 'nit'}
    if need - set(classes):
        raise MachineryError('position classes never replayed: %s' % sorted(need - set(classes)))
    nneed = {'var', 'param', 'aparam', 'lparam', 'cvar', 'nvar', 'nlp', 'dname', 'darg', 'ann', 'dflt', 'ret',
             'base', 'ibody', 'val', 'cval', 'ldflt', 'lbody', 'celt', 'citer', 'nref', 'nkey', 'nit',
             'goto:nvar', 'goto:nlp', 'goto:cvar', 'goto:lparam', 'infer:lambda'}
    if nneed - set(nclasses):
        raise MachineryError('name classes never observed: %s' % sorted(nneed - set(nclasses)))
    if ctx.coverage['drift']:
        ctx.log('MODEL-DRIFT on %d observations (property judged separately), e.g. %s'
                % (ctx.coverage['drift'], ctx.coverage['drift_samples'][:1]))

    # ---- 3. corpus and random nest programs (code -> spec)
    files = jutil.corpus_files(limit=30 if quick else (60 if scale < 1 else None), rng=ctx.rng)
    ctx.log('corpus: %d files' % len(files))
    recs = jutil.pmap(record_file, [(f, 150 if quick else (400 if scale < 1 else 800), 100 if quick else 400, ctx.seed + i)
                                    for i, f in enumerate(files)], chunksize=1)
    jutil.check_worker_errors(recs)
    ctraces, cwheres, csrcs = [], [], []
    skipped = {}
    for r in recs:
        if r['skipped']:
            skipped[r['skipped']] = skipped.get(r['skipped'], 0) + 1
            continue
        for cr in r['crash']:
            ctx.count('corpus_blocked_by_internal_errors')
            ck = ctx.coverage.setdefault('corpus_crash_keys', {})
            ck[cr[3]] = ck.get(cr[3], 0) + 1
        ctraces.append(r['events'])
        cwheres.append(r['where'])
        csrcs.append(r['path'])
        ctx.count('corpus_events', len(r['events']) - 1)
        ctx.count('corpus_scopes', r['nscopes'])
        ctx.count('corpus_names_in_lambdas_or_nested_comprehensions', r['deep'])
    ctx.coverage['corpus_files'] = len(ctraces)
    ctx.coverage['corpus_skipped'] = skipped
    if len(ctraces) < (20 if quick else 40):
        raise MachineryError('too few corpus files recorded: %d (%s)' % (len(ctraces), skipped))

    ngen = 60 if quick else (400 if scale < 1 else 1500)
    gdepth = 4 if quick else 5
    grecs = jutil.pmap(record_generated, [(ctx.seed * 100003 + i, gdepth) for i in range(ngen)])
    jutil.check_worker_errors(grecs)
    gtraces, gwheres, gsrcs = [], [], []
    gdeep = {}
    for r in grecs:
        if r['skipped']:
            if r['skipped'] != 'syntax':
                raise MachineryError('generated program: %s\n%s' % (r['skipped'], r['src']))
            ctx.count('generated_skipped')
            continue
        for cr in r['crash']:
            ctx.violation('crash:%s:%s' % (cr[0], cr[3]), '%s raised at %s on a generated program' % (cr[0], cr[1:3]),
                          {'source': r['src'], 'crash': cr})
        gtraces.append(r['events'])
        gwheres.append(r['where'])
        gsrcs.append(r['src'])
        gdeep[r['maxcomp']] = gdeep.get(r['maxcomp'], 0) + 1
        ctx.count('generated_names', r['names'])
    ctx.coverage['generated_programs'] = len(gtraces)
    ctx.coverage['generated_max_comprehension_depth'] = gdeep
    if len(gtraces) < ngen * 0.9 or not any(d >= 3 for d in gdeep):
        raise MachineryError('generated programs: %d of %d usable, comprehension depths %s' % (len(gtraces), ngen, gdeep))

    # ---- 4. TLC judges every recorded trace (Trace_Nesting), concurrently
    ctx.log('judging %d what-if, %d rendered (%d events), %d corpus (%d events), %d generated (%d events) traces'
            % (len(cex_traces), len(traces), sum(map(len, traces)), len(ctraces), sum(map(len, ctraces)),
               len(gtraces), sum(map(len, gtraces))))
    groups = [('what-if counterexamples observed on the real code', cex_traces),
              ('ParentStrict counterexample observed on the real code', [lp_trace[0]['events']] if lp_trace else []),
              ('rendered cases', traces),
              ('corpus', ctraces),
              ('generated nest programs', gtraces)]
    (_, rej), (_, lrej), (_, rrej), (_, crej), (_, grej) = judge_groups(ctx, groups)
    report_rejects(ctx, rej, cex_traces, cex_wheres, cex_srcs, 'what-if counterexample (old get_context / parent())')
    if lp_trace is not None:
        rec, src = lp_trace
        if not any(reject_key(w) == 'parent-chain:lambda-in-class' for _, _, w in lrej):
            ctx.drift({'what': 'lambda-in-class parent chain of the Design is not reproduced by the code '
                               '(repaired? then run with C18_FIXED=...,LambdaParent)', 'source': src})
        else:
            ctx.coverage['lambda_parent_in_class_confirmed_on_code'] = src
        report_rejects(ctx, lrej, [rec['events']], [rec['where']], [src], 'ParentStrict counterexample')
    report_rejects(ctx, rrej, traces, wheres, srcs, 'rendered TLC case')
    report_rejects(ctx, crej, ctraces, cwheres, csrcs, 'corpus file')
    ctx.notes.append('corpus calls that raise (absent typeshed) are counted as blocked; totality is property C01')
    report_rejects(ctx, grej, gtraces, gwheres, gsrcs, 'generated nest program')

    # ---- 5. binding self-test: corrupted observations must be rejected
    import copy
    bad = []
    for t in traces:
        fulls = [e for e in t if e['k'] == 'full' and e['got']]
        ctxs = [e for e in t if e['k'] == 'ctx' and e['got'] not in (0, UNKNOWN)]
        deep = [e for e in t if e['k'] == 'nchain' and e['got'] and _depth(t[0]['comps'], (e['l'], e['c'])) >= 2]
        if len(t[0]['scopes']) >= 1 and fulls and ctxs and deep and any(e['k'] == 'dchain' for e in t):
            b1 = copy.deepcopy(t)
            [e for e in b1 if e['k'] == 'ctx' and e['got'] not in (0, UNKNOWN)][0]['got'] = UNKNOWN
            b2 = copy.deepcopy(t)
            [e for e in b2 if e['k'] == 'dchain'][0]['got'].append(1)
            b3 = copy.deepcopy(t)
            [e for e in b3 if e['k'] == 'full' and e['got']][0]['got'][0][-1] += 1
            # a name in nested comprehensions whose parent() is not a usable Name / leaves a scope out /
            # reports a lambda that does not enclose it
            pick = lambda b: [e for e in b if e['k'] == 'nchain' and e['got']
                              and _depth(b[0]['comps'], (e['l'], e['c'])) >= 2][0]
            b4 = copy.deepcopy(t)
            pick(b4)['got'] = [UNUSABLE]
            b5 = copy.deepcopy(t)
            pick(b5)['got'].pop()
            b6 = copy.deepcopy(t)
            pick(b6)['got'].insert(0, LAMBASE + 1 + len(t[0]['lams']))
            bad = [b1, b2, b3, b4, b5, b6]
            break
    if not bad:
        raise MachineryError('binding self-test: no suitable trace')
    n0 = ctx.coverage['traces_validated_against_impl']
    vs = validate_traces('Trace_Nesting', 'Trace_Nesting.cfg', bad, ctx, 'binding self-test', env=JVM_SHORT)
    ctx.coverage['traces_validated_against_impl'] = n0
    if any(v['accepted'] for v in vs):
        raise MachineryError('binding self-test: corrupted trace accepted %s' % vs)
    if vs[3]['why'][3] != 'UN':
        raise MachineryError('binding self-test: unusable parent not classified: %s' % vs[3])
    ctx.coverage['binding_selftest'] = ('corrupted ctx / parent chain / full_name / unusable parent / shortened name '
                                        'chain / foreign lambda rejected: %s' % [v['why'] for v in vs])

    if not quick:
        ctx.coverage['thorough_reductions'] = [
            'exhaustive TLC bounded at items<=5 / depth<=4 / scopes<=5 / extras<=2 / indent unit in {2,4,8} '
            '(1 281 852 states) -- DESIGN 5/C18 asked for <=6 scopes; 6-7 item programs only by simulation walks',
            'nest space exhaustive at <=%d anonymous scopes (kinds %s) / <=%d (all kinds) per expression in programs '
            'of <=3 items (indent unit 4, one nest per program); two nests / deeper contexts / 5 nodes only by '
            'simulation walks' % (nb['nest'], list(nb['kinds']), nb2['nest']),
            'replay: every %dth program of the items<=4/extras<=2 space, every %dth of the nest space + %d simulation '
            'walks (items<=7, depth<=4, scopes<=6, nest<=5), not every enumerated program' % (mod, nmod, nsim),
            'corpus: all files, but at most 800 identifier positions (start or inside of the identifier) and 400 '
            'variable/parameter names per file (names in lambdas / nested comprehensions first); all def/class '
            'definitions are always observed'] + (
            ['C18_SCALE<1: exhaustive at items<=4, 60 corpus files, 400 positions per file'] if scale < 1 else [])
    ctx.assumptions += [
        'header positions (first decorator .. colon) may answer the enclosing scope or the definition itself',
        'positions on whitespace / comments / blank lines are predicted by the Design (drift) but not judged',
        'full_name judged only for definitions all of whose enclosing scopes are classes',
        'comprehensions, generator expressions and lambdas are transparent for parent(): the chain of a name is '
        'the chain of the def/class bodies containing it; a lambda that encloses the name may be visited on the '
        'way (jedi reports it for names in the lambda body, not for the lambda parameters)',
        'references (get_names(references=True)) are judged like definitions, by the position they are written at',
        'corpus: full_name of definitions in __main__.py files is not judged (no unambiguous import path)',
        'corpus: the module path in full_name may be any dotted path under which the file is importable from '
        'the sys.path the Script works with (jedi picks the shortest)',
        'corpus: identifier tokens of tokenize; files whose def/async layout the table builder cannot '
        'read are skipped and counted']
    fullname_histories(ctx)
    return None
