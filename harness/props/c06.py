"""C06 -- extract and inline keep the program valid and equivalent.

spec/Refactor.tla: the inline case table (21 rhs kinds x 30 syntactic contexts; Reference = Python's
precedence ladder, Design = jedi's parenthesisation rule) and the inline precondition table, checked by
TLC.  spec->code: every table row is rendered into an executable program, the Reference row is validated
against CPython (does the unparenthesised substitution change the tree?), inline is executed, the result
compiled, run and compared with the original run.  Extract: token-aligned and arbitrary selections on
executable template functions x {extract_variable, extract_function} and round trips
inline(extract_variable); every request becomes an event judged by Trace_Refactor.tla
(compiles-or-refuses for every selection, same behaviour for pure once-evaluated selections).
"""
import ast
import signal
import io
import os
import random
import re
import tokenize
import contextlib

from harness import jutil
from harness.core import MachineryError
from harness.tlc import run_tlc, cases, validate_traces

META = dict(
    spec='Refactor.tla, Trace_Refactor.tla',
    text='TLC checks the inline table: for every rhs kind of Python\'s precedence ladder and every syntactic context of '
         'the inlined name, the code\'s parenthesisation rule writes parentheses wherever the grammar needs them '
         '(InlineSound), plus the precondition table (whenever inline does not refuse, substitution is meaningful); the '
         'what-if without the low-precedence rule must fail. All 630 rows are rendered, the Reference row is validated '
         'against CPython\'s parser, inline is run and the new program must compile and print what the old one prints. '
         'Extract: every token-aligned range and random arbitrary ranges / cursor positions on executable template '
         'functions are extracted as variable and as function; the result must compile (or the request be refused with '
         'RefactoringError), behave identically for pure once-evaluated selections, and inline(extract_variable) must '
         'give back an equivalent program; all requests are judged by TLC (Trace_Refactor).',
    note='Equivalence = same printed output and same exception type of the executed program; purity of a selection is '
         'decided by the harness from the AST (names, constants, operators, calls of the pure helper f only).',
    technique='TLA+ case tables model-checked with TLC; every row and selection sweeps replayed on the real code with '
              'CPython as execution oracle; requests validated by TLC',
    design_ref='5/C06')

PRELUDE = '''def f(*a, **k):
    return (a, tuple(sorted(k.items())))
def show(x):
    if callable(x) and getattr(x, '__name__', '') == '<lambda>':
        return 'lambda->' + show(x())
    if isinstance(x, (list, tuple)):
        return type(x).__name__ + '[' + ','.join(show(y) for y in x) + ']'
    if isinstance(x, dict):
        return 'dict[' + ','.join(show(k) + ':' + show(v) for k, v in x.items()) + ']'
    return repr(x)
a, b, c, k, r, lst = 2, 3, True, 0, [1, 2], [5, 6, 7]
'''


def run_program(src):
    """-> (outcome, output): compile + exec with captured stdout."""
    try:
        code = compile(src, '<c06>', 'exec')
    except SyntaxError as e:
        return 'SyntaxError', str(e)[:80]
    buf = io.StringIO()

    def on_alarm(signum, frame):
        raise TimeoutError('program did not finish in 5 s')
    old = signal.signal(signal.SIGALRM, on_alarm)
    signal.alarm(5)
    try:
        with contextlib.redirect_stdout(buf):
            exec(code, {'__name__': '__c06__'})
        return 'ok', buf.getvalue()
    except Exception as e:  # noqa
        return 'raise:' + type(e).__name__, buf.getvalue()[:2000]
    finally:
        signal.alarm(0)
        signal.signal(signal.SIGALRM, old)


def norm_ast(src):
    try:
        return ast.dump(ast.parse(src))
    except SyntaxError:
        return None


# ---------------------------------------------------------------- inline table
def inline_case(case):
    import jedi
    from jedi.api.exceptions import RefactoringError
    rhs, ctx = case['rhs'], case['ctx']
    expr = ctx['tmpl'].replace('V', 'v_zz')
    prog = PRELUDE + 'def g():\n    v_zz = %s\n    w_zz = %s\n    return w_zz\nprint(show(g()))\n' % (rhs['text'], expr)
    lines = prog.split('\n')
    ln = next(i for i, l in enumerate(lines) if l.startswith('    w_zz = ')) + 1
    col = lines[ln - 1].index('v_zz', 11)
    out = {'rhs': rhs['id'], 'ctx': ctx['id'], 'need': case['need'], 'parens': case['parens']}
    # Reference vs CPython: does substituting the text change the tree?
    plain = PRELUDE + 'def g():\n    w_zz = %s\n    return w_zz\nprint(show(g()))\n' % ctx['tmpl'].replace('V', rhs['text'])
    paren = PRELUDE + 'def g():\n    w_zz = %s\n    return w_zz\nprint(show(g()))\n' % ctx['tmpl'].replace('V', '(' + rhs['text'] + ')')
    out['cpython_need'] = norm_ast(plain) != norm_ast(paren)
    # parso parent type of the name (Design input)
    import parso
    leaf = parso.parse(prog).get_leaf_for_position((ln, col + 1))
    out['parent'] = leaf.parent.type
    par = leaf.parent
    out['sibling'] = bool(par.type == 'trailer' and par.get_next_sibling() is not None)
    before = run_program(prog)
    out['before'] = before
    try:
        ref = jedi.Script(prog).inline(ln, col)
        new = ref.get_changed_files()[None].get_new_code()
        out['outcome'] = 'ok'
    except RefactoringError as e:
        out['outcome'] = 'RefactoringError'
        return out
    except Exception as e:  # noqa
        out['outcome'] = 'internal:' + type(e).__name__
        return out
    after = run_program(new)
    out['after'] = after
    out['new_line'] = [l for l in new.split('\n') if l.startswith('    w_zz = ')][:1]
    out['wrote_parens'] = bool(out['new_line']) and out['new_line'][0] == '    w_zz = ' + ctx['tmpl'].replace('V', '(' + rhs['text'] + ')')
    out['prog'] = prog
    return out


# ---------------------------------------------------------------- extract sweeps
TEMPLATES = [
    '''def g(p, q):
    s = p + q * 2
    t = f(s, q) if s > q else f(q)
    u = [s for _ in r if s]
    return show((s, t, u, p - (q + 1)))
print(g(a, b))
''',
    '''class K:
    base = 10
    def m(self, p):
        s = self.base + p
        t = (s, p * 2)
        for i in r:
            s = s + i
        return show((s, t))
print(K().m(b))
''',
    '''def g(p):
    s = 0
    for i in lst:
        if i > p:
            s = s + i * 2
        else:
            s = s - 1
    t = s * 2
    return show(f(s, t, key=t + 1))
print(g(a))
''',
    '''import math
def g(p):
    s = math.floor(p / 2) + len(lst)
    t = not s or p and k
    w = lst[s - 3:] + [p]
    return show((s, t, w, "%s-%d" % ("x", s)))
print(g(7))
''',
    # statement ranges: locals bound before the range and rebound conditionally / in loops inside it
    '''def g(p, q):
    s = q
    if p > 2:
        s = p * 2
    t = s + 1
    u = 0
    for i in lst:
        u += i
        if i > p:
            t = t + u
    w = t
    return show((s, t, u, w))
print(g(a, b), g(b, a), g(0, 0))
''',
    '''def g(p):
    n = 0
    acc = [p]
    while n < p:
        n = n + 1
        if n == 2:
            acc = acc + [n]
        elif n > 3:
            acc = [n]
    m = len(acc) + n
    if m > 3:
        m = m - 1
    else:
        n = m
    return show((n, acc, m))
print(g(a), g(b), g(5), g(0))
''',
    # coroutines: undecorated and decorated async methods, module-level async def (parso wraps them differently)
    '''import asyncio
class K:
    base = 10
    async def m(self, p):
        s = self.base + p
        t = (s, p * 2)
        return show((s, t))
    @staticmethod
    async def sm(p):
        u = p + 1
        return show(u)
    class Inner:
        async def im(self, p):
            v = p - 1
            return show(v)
async def co(p):
    w = p * 3
    return show(w)
print(asyncio.run(K().m(b)), asyncio.run(K.sm(a)), asyncio.run(K.Inner().im(a)), asyncio.run(co(a)))
''',
]


def pure_statements(stmts):
    """A run of statements that only (re)binds plain local names to pure expressions, possibly under if / for /
    while with pure tests: moving it into a function and binding the results again cannot change what the program
    prints, provided every name it reads is passed in and every name it binds that is read later is returned."""
    def pure_expr(e):
        return e is None or pure_selection(ast.unparse(e))

    def ok(st):
        if isinstance(st, ast.Pass):
            return True
        if isinstance(st, ast.Assign):
            return all(isinstance(t, ast.Name) for t in st.targets) and pure_expr(st.value)
        if isinstance(st, ast.AugAssign):
            return isinstance(st.target, ast.Name) and pure_expr(st.value)
        if isinstance(st, ast.If):
            return pure_expr(st.test) and all(ok(x) for x in st.body + st.orelse)
        if isinstance(st, ast.While):
            return pure_expr(st.test) and all(ok(x) for x in st.body + st.orelse)
        if isinstance(st, ast.For):
            return isinstance(st.target, ast.Name) and pure_expr(st.iter) and all(ok(x) for x in st.body + st.orelse)
        return False
    return all(ok(st) for st in stmts)


def stmt_runs(src, maxlen=3):
    """Every run of 1..maxlen complete sibling statements inside a function body: (l1, c1, l2, c2, pure)."""
    out = []
    tree = ast.parse(src)
    funcs = [n for n in ast.walk(tree) if isinstance(n, (ast.FunctionDef, ast.AsyncFunctionDef))]
    for fn in funcs:
        for n in ast.walk(fn):
            for field in ('body', 'orelse'):
                body = getattr(n, field, None)
                if isinstance(body, list) and body and isinstance(body[0], ast.stmt):
                    if field == 'orelse' and isinstance(n, ast.If) and len(body) == 1 and isinstance(body[0], ast.If) \
                            and body[0].col_offset == n.col_offset:
                        continue                      # an `elif` is not a statement of its own
                    for i in range(len(body)):
                        for j in range(i, min(len(body), i + maxlen)):
                            run = body[i:j + 1]
                            out.append((run[0].lineno, run[0].col_offset, run[-1].end_lineno, run[-1].end_col_offset,
                                        pure_statements(run)))
    return out


def pure_selection(text):
    """Pure = built from names, constants, operators, subscripts, attribute reads and calls of f/len/show only."""
    try:
        node = ast.parse(text.strip(), mode='eval').body
    except SyntaxError:
        return False
    for n in ast.walk(node):
        if isinstance(n, ast.Call):
            if not (isinstance(n.func, ast.Name) and n.func.id in ('f', 'len', 'show')):
                return False
        elif isinstance(n, (ast.NamedExpr, ast.Lambda, ast.ListComp, ast.GeneratorExp, ast.SetComp, ast.DictComp,
                            ast.Yield, ast.YieldFrom, ast.Await, ast.Starred)):
            return False
    return True


def expr_spans(src):
    """Set of ((l1,c1),(l2,c2)) that are exactly the extent of an expression node evaluated once per statement
    execution (not a store target, not inside a comprehension/lambda)."""
    tree = ast.parse(src)
    spans = {}
    banned = set()
    for n in ast.walk(tree):
        if isinstance(n, (ast.ListComp, ast.GeneratorExp, ast.SetComp, ast.DictComp, ast.Lambda)):
            for m in ast.walk(n):
                if m is not n:
                    banned.add(id(m))
        if isinstance(n, (ast.While,)):
            for m in ast.walk(n.test):
                banned.add(id(m))
        if isinstance(n, ast.BoolOp) or isinstance(n, ast.IfExp):      # short-circuit operands may not be evaluated
            for sub in (n.values[1:] if isinstance(n, ast.BoolOp) else [n.body, n.orelse]):
                for m in ast.walk(sub):
                    banned.add(id(m))
    for n in ast.walk(tree):
        if isinstance(n, ast.expr) and id(n) not in banned and isinstance(getattr(n, 'ctx', ast.Load()), ast.Load):
            if isinstance(n, (ast.Constant,)) and isinstance(n.value, str):
                continue
            if isinstance(n, (ast.Slice, ast.Starred)):       # not expressions one can bind to a variable
                continue
            spans[((n.lineno, n.col_offset), (n.end_lineno, n.end_col_offset))] = n
    return spans


def whole_statements(src, l1, l2):
    """Do the lines l1..l2 consist of complete sibling statements?"""
    for n in ast.walk(ast.parse(src)):
        for field in ('body', 'orelse', 'finalbody'):
            body = getattr(n, field, None)
            if isinstance(body, list) and body and isinstance(body[0], ast.stmt):
                if field == 'orelse' and isinstance(n, ast.If) and len(body) == 1 and isinstance(body[0], ast.If) \
                        and body[0].col_offset == n.col_offset:
                    continue                          # an `elif` is part of its if statement
                for i, a in enumerate(body):
                    if a.lineno == l1:
                        for b in body[i:]:
                            if b.end_lineno == l2:
                                return True
    return False


def extract_case(arg):
    ti, kind, pos, until, seed = arg
    import jedi
    from jedi.api.exceptions import RefactoringError
    src = PRELUDE + TEMPLATES[ti]
    off = PRELUDE.count('\n')
    line, col = pos[0] + off, pos[1]
    kw = {}
    if until is not None:
        kw = {'until_line': until[0] + off, 'until_column': until[1]}
    lines = src.split('\n')
    out = {'template': ti, 'kind': kind, 'pos': [line, col], 'until': [until[0] + off, until[1]] if until else None}
    sel_text = None
    is_expr = False
    if until is not None:
        if until[0] == pos[0]:
            sel_text = lines[line - 1][col:until[1]]
        spans = expr_spans(src)
        key = ((line, col), (until[0] + off, until[1]))
        is_expr = key in spans
    out['selection'] = sel_text
    if until is not None:
        tl = TEMPLATES[ti].split('\n')
        out['whole_lines'] = tl[pos[0] - 1][:pos[1]].strip() == '' and tl[until[0] - 1][until[1]:].strip() == '' \
            and whole_statements(TEMPLATES[ti], pos[0], until[0])
    out['is_expr'] = is_expr
    out['pure'] = bool(is_expr and sel_text is not None and pure_selection(sel_text))
    out['pure_stmts'] = False
    if until is not None and kind == 'extract_function':
        out['pure_stmts'] = any(r[:4] == (pos[0], pos[1], until[0], until[1]) and r[4] for r in stmt_runs(TEMPLATES[ti]))
        if out['pure_stmts']:
            out['whole_lines'] = True
    before = run_program(src)
    try:
        ref = getattr(jedi.Script(src), kind)(line, col, new_name='ext_zz', **kw)
        new = ref.get_changed_files()[None].get_new_code()
        out['outcome'] = 'ok'
    except RefactoringError:
        out['outcome'] = 'RefactoringError'
        return out
    except ValueError:
        out['outcome'] = 'ValueError'
        return out
    except Exception as e:  # noqa
        from harness.core import crash_key
        out['outcome'] = 'internal:' + crash_key(e).split('<')[0]
        return out
    after = run_program(new)
    out['compiles'] = after[0] != 'SyntaxError'
    out['same'] = after == before
    out['after'] = after[0]
    out['new'] = new[len(PRELUDE):] if not out['compiles'] or ((out['pure'] or out['pure_stmts']) and not out['same']) else None
    # round trip for extract_variable: inline the new variable again
    if kind == 'extract_variable' and out['compiles']:
        m = re.search(r'^(\s*)ext_zz = ', new, re.M)
        if m:
            l2 = new[:m.start()].count('\n') + 1
            try:
                back = jedi.Script(new).inline(l2, len(m.group(1)) + 1).get_changed_files()[None].get_new_code()
                rb = run_program(back)
                out['roundtrip'] = 'same' if rb == before else ('broken:' + rb[0])
                if out['roundtrip'] != 'same':
                    out['roundtrip_code'] = back[len(PRELUDE):]
            except RefactoringError:
                out['roundtrip'] = 'refused'
            except Exception as e:  # noqa
                out['roundtrip'] = 'internal:' + type(e).__name__
    return out


def token_positions(src):
    toks = [t for t in tokenize.generate_tokens(io.StringIO(src).readline)
            if t.type not in (tokenize.NEWLINE, tokenize.NL, tokenize.INDENT, tokenize.DEDENT, tokenize.ENDMARKER, tokenize.COMMENT)]
    return toks


CFG = '''SPECIFICATION Spec
CONSTANTS
  LowPrec = %s
%s
CHECK_DEADLOCK FALSE
'''


def run(ctx):
    quick = ctx.quick
    rng = ctx.rng

    def cfg(name, low, body):
        p = os.path.join(ctx.tmp, name)
        with open(p, 'w') as f:
            f.write(CFG % (low, body))
        return p
    # the Design constant follows the code: is the low-precedence rule present?
    low = 'TRUE' if os.environ.get('C06_LOWPREC', 'auto') in ('auto', 'TRUE') else 'FALSE'
    res = run_tlc('Refactor', cfg('mc.cfg', low, 'INVARIANT InlineSound\nINVARIANT PreSoundInv'), workers=4, timeout=600)
    ctx.add_tlc(res, 'inline table InlineSound (LowPrec=%s) + precondition table' % low)
    design_violates = res.violated
    res2 = run_tlc('Refactor', cfg('whatif.cfg', 'FALSE', 'INVARIANT InlineSound'), workers=4, timeout=600, extra=('-continue',))
    ctx.add_tlc(res2, 'what-if: no low-precedence rule (must fail)')
    if not res2.violated:
        raise MachineryError('what-if LowPrec=FALSE did not violate InlineSound')
    res = run_tlc('Refactor', cfg('emit.cfg', low, 'CONSTRAINT Emit'), workers=1, timeout=600)
    ctx.add_tlc(res, 'inline table emission')
    rows = cases(res)
    if len(rows) != 630:
        raise MachineryError('expected 630 rows, got %d' % len(rows))
    ctx.coverage['exhaustive'] = True
    if design_violates:
        ctx.notes.append('InlineSound fails on the Design as coded: rows are judged on the real code below')
    ctx.log('replaying %d inline rows' % len(rows))
    results = jutil.pmap(inline_case, rows)
    jutil.check_worker_errors(results)
    traces = []
    owners = []
    dis = [(r['rhs'], r['ctx'], r['need'], r['cpython_need']) for r in results if r['cpython_need'] != r['need']]
    if dis:
        raise MachineryError('Reference precedence table disagrees with CPython (rhs, ctx, need, cpython): %s' % dis[:40])
    dis = [(r['rhs'], r['ctx'], r['parent'], r['sibling']) for r, row in zip(results, rows)
           if r['parent'] != row['ctx']['parent'] or r['sibling'] != row['ctx']['sibling']]
    if dis:
        raise MachineryError('parso parent types differ from the table (rhs, ctx, parent, sibling): %s' % sorted(set(d[1:] for d in dis)))
    for r in results:
        if r['before'][0] == 'SyntaxError':
            raise MachineryError('rendered inline program does not run: %s %s %s' % (r['rhs'], r['ctx'], r['before']))
        ok = r['outcome'] == 'ok'
        traces.append([{'ev': 'Inline', 'outcome': r['outcome'] if not r['outcome'].startswith('internal') else 'Internal',
                        'compiles': bool(ok and r['after'][0] != 'SyntaxError'), 'same': bool(ok and r['after'] == r['before']),
                        'pure': True, 'isexpr': True, 'roundtrip': 'na'}])
        owners.append(('inline', r))
        if ok and r.get('wrote_parens') != r['parens']:
            ctx.drift({'rhs': r['rhs'], 'ctx': r['ctx'], 'model_parens': r['parens'], 'code_parens': r.get('wrote_parens'),
                       'line': r.get('new_line')})
    # ---- extract sweeps
    jobs = []
    for ti, t in enumerate(TEMPLATES):
        toks = token_positions(t)
        spans = []
        for i, a in enumerate(toks):
            for b in toks[i:i + (7 if quick else 12)]:
                if b.end[0] - a.start[0] <= 2:
                    spans.append((a.start, b.end))
        rng.shuffle(spans)
        for (s, e) in spans[:70 if quick else 100000]:
            for kind in ('extract_variable', 'extract_function'):
                jobs.append((ti, kind, list(s), list(e), 0))
        # every expression of the template (the selections the equivalence clause speaks about)
        off = PRELUDE.count('\n')
        for ((l1, c1), (l2, c2)) in sorted(expr_spans(PRELUDE + t)):
            if l1 > off:
                for kind in ('extract_variable', 'extract_function'):
                    jobs.append((ti, kind, [l1 - off, c1], [l2 - off, c2], 0))
        # every run of complete sibling statements of a function body (extract_function only)
        for (l1, c1, l2, c2, _pure) in stmt_runs(t):
            jobs.append((ti, 'extract_function', [l1, c1], [l2, c2], 0))
        lines = t.split('\n')
        for _ in range(25 if quick else 300):       # arbitrary (not token-aligned) ranges and cursor-only requests
            l1 = rng.randrange(1, len(lines))
            c1 = rng.randrange(0, len(lines[l1 - 1]) + 1)
            if rng.random() < 0.4:
                jobs.append((ti, rng.choice(['extract_variable', 'extract_function']), [l1, c1], None, 0))
            else:
                l2 = min(len(lines) - 1, l1 + rng.choice([0, 0, 0, 1, 2]))
                c2 = rng.randrange(c1 if l2 == l1 else 0, len(lines[l2 - 1]) + 1)
                jobs.append((ti, rng.choice(['extract_variable', 'extract_function']), [l1, c1], [l2, c2], 0))
    ctx.log('executing %d extract requests' % len(jobs))
    ex = jutil.pmap(extract_case, jobs, chunksize=8)
    jutil.check_worker_errors(ex)
    stats = {}
    for r in ex:
        ok = r['outcome'] == 'ok'
        k = '%s:%s' % (r['kind'], r['outcome'].split(':')[0] + ('' if not ok else (':compiles' if r['compiles'] else ':INVALID')))
        stats[k] = stats.get(k, 0) + 1
        traces.append([{'ev': 'Extract', 'outcome': r['outcome'] if not r['outcome'].startswith('internal') else 'Internal',
                        'compiles': bool(ok and r['compiles']), 'same': bool(ok and r['same']),
                        'pure': bool(r['pure'] or r['pure_stmts']),
                        'isexpr': bool(r['is_expr']), 'roundtrip': r.get('roundtrip', 'na')}])
        owners.append(('extract', r))
    ctx.coverage['extract_outcomes'] = stats
    ctx.coverage['pure_expression_selections'] = sum(1 for r in ex if r['pure'])
    ctx.coverage['pure_statement_selections'] = sum(1 for r in ex if r['pure_stmts'])
    ctx.coverage['pure_statement_selections_extracted'] = sum(1 for r in ex if r['pure_stmts'] and r['outcome'] == 'ok')
    if ctx.coverage['pure_statement_selections_extracted'] < 20:
        raise MachineryError('vacuity: too few pure statement selections extracted')
    if ctx.coverage['pure_expression_selections'] < 50:
        raise MachineryError('vacuity: too few pure expression selections')
    vs = validate_traces('Trace_Refactor', 'Trace_Refactor.cfg', traces, ctx, 'Trace_Refactor')
    for v, (what, r) in zip(vs, owners):
        if v['accepted']:
            continue
        why = ','.join(v['why'] or ['?'])
        if what == 'inline':
            ctx.violation('inline:%s:%s:%s' % (why, r['rhs'], r['ctx']), 'inline result violates %s' % why,
                          {k: r.get(k) for k in ('rhs', 'ctx', 'outcome', 'before', 'after', 'new_line', 'prog')})
        else:
            sel = 'expr' if r['is_expr'] else ('cursor' if r['until'] is None else
                                               ('whole-statements' if r.get('whole_lines') else 'partial-range'))
            ctx.violation('%s:%s:%s:%s' % (r['kind'], why, sel, (r['outcome'] if r['outcome'].startswith('internal') else '')),
                          'extract result violates %s' % why,
                          {k: r.get(k) for k in ('template', 'kind', 'pos', 'until', 'selection', 'outcome', 'after', 'new',
                                                 'roundtrip', 'roundtrip_code')})
    for what, r in owners[:2] + owners[-2:]:
        ctx.sample({k: r.get(k) for k in ('rhs', 'ctx', 'kind', 'pos', 'until', 'selection', 'outcome', 'new_line')})
    bad = [[dict(traces[0][0], outcome='ok', compiles=False)]]
    n0 = ctx.coverage['traces_validated_against_impl']
    bv = validate_traces('Trace_Refactor', 'Trace_Refactor.cfg', bad, ctx, 'binding self-test')
    ctx.coverage['traces_validated_against_impl'] = n0
    if bv[0]['accepted']:
        raise MachineryError('binding self-test: non-compiling result accepted')
    ctx.coverage['binding_selftest'] = 'non-compiling result rejected: %s' % bv[0]['why']
    return None
