"""C09 -- changes to project files on disk are always seen.

spec/FileCache.tla: files with content version and mtime, a clock with granularity, per-process parso
memory entries, the shared pickle cache, the helper's importlib finder cache.  TLC: Seen holds under
the named environment assumption MtimeMonotone and fails without it (stale cases of parso/importlib).
spec->code: the three assumption-free counterexample shapes are replayed with os.utime and, when
reproduced, reported as known findings of the dependencies; random mutation histories respecting the
assumption are executed on real projects with queries after every step in a long-lived process, in new
processes with a warm pickle cache, and in fresh processes with an empty cache.  code->spec: every
history (mutations, answers vs. fresh, parso's load decisions) is validated by Trace_FileCache.tla.
"""
import json
import os
import random
import shutil
import subprocess
import time

from harness import jutil
from harness.core import MachineryError, PY, VERIF, REPO
from harness.tlc import run_tlc, validate_traces

META = dict(
    spec='FileCache.tla, Trace_FileCache.tla',
    text='TLC checks FileCache.tla (2 modules, 2 processes, 3 versions, 3 clock ticks, write / delete / rename / new '
         'process / resolve): with the environment assumption MtimeMonotone every resolution sees the files on disk; '
         'without it TLC produces the stale behaviours (rewrite in one tick, older file renamed over newer, file created '
         'in the tick the finder listed the directory), which are replayed with os.utime on the real code and reported '
         'as known findings of parso/importlib. Random mutation histories (write, overwrite same/different size, delete, '
         'rename, module<->package, add/remove __init__.py, stub next to module) on a real project are queried through '
         'import / from-import / star-import / relative import after every step in one long-lived process, in new '
         'processes sharing the pickle cache directory, and in fresh processes with an empty cache; all answers must be '
         'equal. Histories, answers and parso\'s load decisions are validated by TLC.',
    note='MtimeMonotone is imposed on the random histories by waiting 25 ms after each mutation/query round and touching '
         'renamed files; the stale cases without it live outside /repo.',
    technique='TLA+ cache/clock model with a named environment assumption model-checked with TLC (with and without it); '
              'mutation histories replayed on real projects against fresh processes; histories validated by TLC',
    design_ref='5/C09')

BUF = '''import pkgx.mod_a
from pkgx import mod_b
from pkgx.mod_a import *
from . import mod_b as rel_b
from .mod_a import marker_a
pkgx.mod_a.
mod_b.
rel_b.
marker_a
name_
import mod_a as top_a
top_a.
import mod_
'''
# the import-name completion comes first: it is the query that does NOT put the buffer's package directories on the
# search path (imports.py: add_init_paths=not is_completion), so a fresh process answers it from the files alone
QUERIES = [['complete', 13, 11], ['complete', 6, 11], ['complete', 7, 6], ['complete', 8, 6], ['infer', 9, 8], ['goto', 9, 8], ['complete', 10, 5],
           ['infer', 1, 14], ['goto', 2, 20], ['help', 4, 20],
           ['complete', 12, 6], ['infer', 11, 19]]


def content(ver, size_pad=0):
    body = 'marker_a = %d\nname_v%d = %d\n\n\ndef fn_v%d(arg):\n    return arg\n' % (ver, ver, ver, ver)
    return body + '#' * size_pad + ('\n' if size_pad else '')


class Project:
    def __init__(self, root):
        self.root = root
        self.pkg = os.path.join(root, 'pkgx')
        os.makedirs(self.pkg)
        self.ver = 0
        self.write('pkgx/__init__.py', '')
        self.mutate('write', 'mod_a')
        self.mutate('write', 'mod_b')

    def write(self, rel, txt):
        p = os.path.join(self.root, rel)
        os.makedirs(os.path.dirname(p), exist_ok=True)
        with open(p, 'w') as f:
            f.write(txt)

    def exists(self, rel):
        return os.path.exists(os.path.join(self.root, rel))

    def mutate(self, kind, mod, rng=None):
        """Returns a description or None if not applicable in the current state."""
        f, d = 'pkgx/%s.py' % mod, 'pkgx/%s' % mod
        if kind == 'write':
            self.ver += 1
            if self.exists(d):
                self.write(d + '/__init__.py', content(self.ver))
            else:
                self.write(f, content(self.ver))
        elif kind == 'overwrite_same_size':
            if not self.exists(f):
                return None
            old = open(os.path.join(self.root, f)).read()
            self.ver += 1
            new = content(self.ver)
            pad = len(old) - len(new)
            new = content(self.ver, pad - 1) if pad > 1 else new
            self.write(f, new)
        elif kind == 'delete':
            if self.exists(f):
                os.unlink(os.path.join(self.root, f))
            elif self.exists(d):
                shutil.rmtree(os.path.join(self.root, d))
            else:
                return None
        elif kind == 'rename':
            other = 'mod_b' if mod == 'mod_a' else 'mod_a'
            src = 'pkgx/%s.py' % other
            if not self.exists(src) or self.exists(d):
                return None
            os.replace(os.path.join(self.root, src), os.path.join(self.root, f))
            os.utime(os.path.join(self.root, f))        # MtimeMonotone: the moved file counts as just modified
        elif kind == 'to_package':
            if not self.exists(f):
                return None
            os.makedirs(os.path.join(self.root, d))
            os.replace(os.path.join(self.root, f), os.path.join(self.root, d, '__init__.py'))
            os.utime(os.path.join(self.root, d, '__init__.py'))
        elif kind == 'to_module':
            if not self.exists(d + '/__init__.py'):
                return None
            os.replace(os.path.join(self.root, d, '__init__.py'), os.path.join(self.root, f))
            os.utime(os.path.join(self.root, f))
            shutil.rmtree(os.path.join(self.root, d))
        elif kind == 'remove_init':
            if not self.exists(d + '/__init__.py'):
                return None
            self.ver += 1
            self.write(d + '/inner.py', content(self.ver))
            os.unlink(os.path.join(self.root, d, '__init__.py'))
        elif kind == 'add_init':
            if not self.exists(d) or self.exists(d + '/__init__.py'):
                return None
            self.ver += 1
            self.write(d + '/__init__.py', content(self.ver))
        elif kind == 'toggle_pkg_init':      # the buffer's own directory: regular package <-> plain directory
            init = os.path.join(self.pkg, '__init__.py')
            if os.path.exists(init):
                os.unlink(init)
            else:
                self.write('pkgx/__init__.py', '')
        elif kind == 'add_stub':
            if not self.exists(f):
                return None
            self.ver += 1
            self.write('pkgx/%s.pyi' % mod, 'stub_only_v%d: int\nmarker_a: int\n' % self.ver)
        elif kind == 'remove_stub':
            if not self.exists('pkgx/%s.pyi' % mod):
                return None
            os.unlink(os.path.join(self.root, 'pkgx/%s.pyi' % mod))
        else:
            raise ValueError(kind)
        return {'kind': kind, 'mod': mod, 'ver': self.ver}


KINDS = ['write', 'write', 'overwrite_same_size', 'delete', 'rename', 'to_package', 'to_module', 'remove_init', 'add_init',
         'add_stub', 'remove_stub', 'toggle_pkg_init', 'toggle_pkg_init']


class Server:
    def __init__(self):
        env = dict(os.environ, VERIF_REPO=REPO, PYTHONPATH=REPO + os.pathsep + VERIF)
        self.p = subprocess.Popen([PY, os.path.join(VERIF, 'harness', 'cache_worker.py'), 'serve'], env=env,
                                  stdin=subprocess.PIPE, stdout=subprocess.PIPE, stderr=subprocess.DEVNULL, text=True)

    def ask(self, req):
        self.p.stdin.write(json.dumps(req) + '\n')
        self.p.stdin.flush()
        line = self.p.stdout.readline()
        if not line:
            raise RuntimeError('server died')
        return json.loads(line)

    def close(self):
        try:
            self.p.stdin.close()
            self.p.wait(timeout=10)
        except Exception:  # noqa
            self.p.kill()


def run_history(arg):
    """One history in its own orchestrator (this function runs in a forked worker that never parses)."""
    workdir, idx, seed, nsteps = arg[:4]
    script = arg[4] if len(arg) > 4 else None         # [(kind, mod)]: a model behaviour instead of random mutations
    if script is not None:
        nsteps = len(script)
    from harness import cache_worker as cw
    rng = random.Random(seed)
    root = os.path.join(workdir, 'h%d' % idx)
    shutil.rmtree(root, True)
    os.makedirs(root)
    shared = os.path.join(root, 'cache_shared')
    os.makedirs(shared)
    pr = Project(os.path.join(root, 'proj'))
    path = os.path.join(pr.pkg, 'main_buf.py')
    A = Server()
    events, steps = [], []
    try:
        for step in range(nsteps + 1):
            if step > 0 and script is not None:
                kind, mod = script[step - 1]
                if kind == 'newproc':
                    A.close()
                    A = Server()
                    continue
                m = pr.mutate(kind, mod, rng)
                if not m:
                    continue
                events.append({'ev': 'Mutate', 'kind': m['kind'], 'mods': mods_of(m)})
                steps.append(m)
            elif step > 0:
                m = None
                for _ in range(10):
                    kind, mod = rng.choice(KINDS + ['open_buffer']), rng.choice(['mod_a', 'mod_b'])
                    if kind == 'open_buffer':
                        if not pr.exists('pkgx/%s.py' % mod):
                            continue
                        pr.ver += 1            # an editor buffer of the module with unsaved changes is analysed by A
                        A.ask({'src': content(pr.ver), 'path': os.path.join(pr.pkg, mod + '.py'), 'project': pr.root,
                               'queries': [['get_names', 0, 0]], 'cache_dir': shared})
                        m = {'kind': kind, 'mod': mod, 'ver': pr.ver}
                        break
                    m = pr.mutate(kind, mod, rng)
                    if m:
                        break
                if not m:
                    continue
                events.append({'ev': 'Mutate', 'kind': m['kind'], 'mods': mods_of(m)})
                steps.append(m)
            time.sleep(0.025)
            req = {'src': BUF, 'path': path, 'project': pr.root, 'queries': QUERIES, 'cache_dir': shared}
            a = A.ask(req)
            emptydir = os.path.join(root, 'cache_fresh_%d' % step)
            os.makedirs(emptydir)
            cases = [dict(req, cache_dir=emptydir)]
            with_b = step % 3 == 2
            if with_b:
                cases.append(dict(req, cache_dir=shared))        # a new process with the warm pickle cache
            fr = cw.fresh_answers(cases, nproc=2)
            if any(x is None or 'error' in x for x in fr):
                return {'error': 'fresh worker failed: %s' % fr}
            truth = [x[0] for x in fr[0]['answers']]
            for d in a['decisions']:
                events.append({'ev': 'Decision', 'had': d['had'], 'freshenough': d['fresh_enough'], 'hit': d['hit']})
            got = [x[0] for x in a['answers']]
            events.append({'ev': 'Resolve', 'proc': 'A', 'same': got == truth, 'n': len(got)})
            diffs = []
            if got != truth:
                diffs.append(('A', [(q, x[2], y[2]) for q, x, y in zip(QUERIES, a['answers'], fr[0]['answers']) if x[0] != y[0]][:2]))
            if with_b:
                gb = [x[0] for x in fr[1]['answers']]
                events.append({'ev': 'Resolve', 'proc': 'B', 'same': gb == truth, 'n': len(gb)})
                if gb != truth:
                    diffs.append(('B', [(q, x[2], y[2]) for q, x, y in zip(QUERIES, fr[1]['answers'], fr[0]['answers']) if x[0] != y[0]][:2]))
            if diffs:
                steps.append({'differences': diffs})
            shutil.rmtree(emptydir, True)
            time.sleep(0.025)
    finally:
        A.close()
    shutil.rmtree(root, True)
    return {'events': [fullev(e) for e in events], 'steps': steps}


def model_scripts(stdout):
    """Counterexample behaviours of FileCache.tla (-continue) as mutation scripts; queries are asked after every
    step anyway, so Resolve/ResolveTop/Tick steps only separate the mutations."""
    import re
    out, seen = [], set()
    mods = {'m1': 'mod_a', 'm2': 'mod_b'}
    for block in stdout.split('Error: The behavior up to this point is:')[1:]:
        sc = []
        for m in re.finditer(r'State (\d+): <([^>]*)>', block):
            label = m.group(2).split(' line ')[0]
            a = re.match(r'(\w+)(?:\((.*)\))?$', label)
            if not a:
                continue
            name, args = a.group(1), [x.strip().strip('"') for x in (a.group(2) or '').split(',') if x.strip()]
            if name == 'Write':
                sc.append(('write', mods[args[0]]))
            elif name == 'Delete':
                sc.append(('delete', mods[args[0]]))
            elif name == 'Rename':
                sc.append(('rename', mods[args[1]]))
            elif name == 'ToggleInit':
                sc.append(('toggle_pkg_init', 'mod_a'))
            elif name == 'NewProcess' and args[0] == '1':
                sc.append(('newproc', ''))
        key = tuple(sc)
        if sc and key not in seen:
            seen.add(key)
            out.append(sc)
    return out


def mods_of(m):
    if m['kind'] == 'rename':
        return ['mod_a', 'mod_b']
    return [m['mod']]


def fullev(e):
    return {'ev': e['ev'], 'kind': e.get('kind', ''), 'mods': e.get('mods', []), 'proc': e.get('proc', ''),
            'same': e.get('same', True), 'n': e.get('n', 0),
            'had': e.get('had', False), 'freshenough': e.get('freshenough', False), 'hit': e.get('hit', False)}


def stale_scenarios(arg):
    """The assumption-free TLC counterexample shapes, replayed with os.utime.  Returns which are stale for real."""
    workdir = arg
    from harness import cache_worker as cw
    out = {}
    for name in ('rewrite-same-mtime', 'older-renamed-over-newer', 'created-in-listing-tick'):
        root = os.path.join(workdir, 'stale_' + name)
        shutil.rmtree(root, True)
        os.makedirs(root)
        shared = os.path.join(root, 'cache')
        os.makedirs(shared)
        pr = Project(os.path.join(root, 'proj'))
        path = os.path.join(pr.pkg, 'main_buf.py')
        A = Server()
        try:
            req = {'src': BUF, 'path': path, 'project': pr.root, 'queries': QUERIES, 'cache_dir': shared}
            fa = os.path.join(pr.pkg, 'mod_a.py')
            T = int(time.time()) - 1000
            if name == 'rewrite-same-mtime':
                os.utime(fa, (T, T))
                A.ask(req)
                pr.mutate('overwrite_same_size', 'mod_a')
                os.utime(fa, (T, T))
            elif name == 'older-renamed-over-newer':
                fb = os.path.join(pr.pkg, 'mod_b.py')
                os.utime(fa, (T, T))
                os.utime(fb, (T - 50, T - 50))
                A.ask(req)
                os.replace(fb, fa)                      # mod_b's (older) mtime travels with it
            else:
                req = dict(req, src='import pkgx.mod_new\npkgx.mod_new.\n', queries=[['complete', 2, 13], ['infer', 1, 14]])
                os.utime(pr.pkg, (T, T))
                A.ask(req)
                pr.write('pkgx/mod_new.py', content(77))
                os.utime(pr.pkg, (T, T))
            a = A.ask(req)
            empt = os.path.join(root, 'empty')
            os.makedirs(empt)
            fr = cw.fresh_answers([dict(req, cache_dir=empt)], nproc=1)
            out[name] = [x[0] for x in a['answers']] != [x[0] for x in fr[0]['answers']]
        finally:
            A.close()
        shutil.rmtree(root, True)
    return out


CFG = '''SPECIFICATION Spec
CONSTANTS
  Mods = {"m1", "m2"}
  Procs = {1, 2}
  MaxVer = %d
  MaxClock = %d
  Assume = %s
  ProjectKeepsScriptPaths = %s
  BufferShadowsDisk = %s
INVARIANT Seen
CHECK_DEADLOCK FALSE
'''


def run(ctx):
    quick = ctx.quick

    def cfg(name, ver, clock, assume, keeps='FALSE', shadows='FALSE'):
        p = os.path.join(ctx.tmp, name)
        with open(p, 'w') as f:
            f.write(CFG % (ver, clock, assume, keeps, shadows))
        return p
    res = run_tlc('FileCache', cfg('assume.cfg', 2 if quick else 3, 3, 'TRUE'), workers=16, timeout=3000)
    ctx.add_tlc(res, 'Seen under MtimeMonotone')
    if res.violated:
        ctx.violation('design:Seen', 'FileCache.tla violates Seen under the assumption', {'trace': res.trace[-4:]})
        return ctx.finish()
    if res.distinct < 5000:
        raise MachineryError('vacuity: %d states' % res.distinct)
    ctx.coverage['exhaustive'] = True
    res = run_tlc('FileCache', cfg('free.cfg', 2, 2, 'FALSE'), workers=8, timeout=900)
    ctx.add_tlc(res, 'Seen without the assumption (must fail)')
    if res.violated != 'Seen':
        raise MachineryError('without MtimeMonotone the model should admit stale answers')
    ctx.coverage['assumption_free_counterexample'] = [s['action'] for s in res.trace]
    res = run_tlc('FileCache', cfg('shadow.cfg', 2, 3, 'TRUE', shadows='TRUE'), workers=8, timeout=900)
    ctx.add_tlc(res, 'design as coded: an unsaved buffer is filed under the path of its file (BufferShadowsDisk=TRUE): Seen')
    if res.violated == 'Seen':
        ctx.violation('design:Seen:unsaved-buffer-shadows-disk', 'FileCache.tla with the code\'s handling of unsaved buffers '
                      'violates Seen: OpenBuffer(p, m) then Resolve(p, m) answers the buffer text',
                      {'history': [s_['action'] for s_ in res.trace]})
    res = run_tlc('FileCache', cfg('keeps.cfg', 2, 3, 'TRUE', keeps='TRUE'), workers=8, timeout=900)
    ctx.add_tlc(res, 'what-if: the Project object keeps the search paths of earlier Scripts (must fail)')
    if res.violated != 'Seen':
        raise MachineryError('what-if ProjectKeepsScriptPaths did not violate Seen: model insensitive')
    ctx.coverage['whatif_project_keeps_script_paths'] = [s['action'] for s in res.trace]
    # ---- dependency findings replayed with os.utime
    work = ctx.sub('c09')
    st = jutil.pmap(stale_scenarios, [work], procs=1)
    jutil.check_worker_errors(st)
    ctx.coverage['stale_without_assumption_on_real_code'] = st[0]
    for name, stale in st[0].items():
        if stale:
            ctx.violation('stale-without-mtime-change:%s' % name,
                          'a change that does not advance the modification time is not seen', {'scenario': name})
    # ---- random histories under the assumption
    nh, nsteps = (28, 8) if quick else (200, 20)
    jobs = [(work, i, ctx.seed * 7919 + i, ctx.rng.randrange(3, nsteps + 1)) for i in range(nh)]
    # ---- behaviours of the model: every counterexample of the what-if is a history that tells the code from the
    # deviating design; they are executed on a real project (a query after every step, as in the random histories)
    res = run_tlc('FileCache', cfg('keeps_enum.cfg', 1, 3, 'TRUE', keeps='TRUE'), workers=1, timeout=900, extra=('-continue',))
    ctx.add_tlc(res, 'what-if enumeration: Project keeps script paths (all counterexamples)')
    scripts = model_scripts(res.stdout)
    if len(scripts) < 10:
        raise MachineryError('what-if enumeration produced only %d behaviours' % len(scripts))
    ctx.coverage['whatif_counterexample_behaviours'] = len(scripts)
    ctx.rng.shuffle(scripts)
    nmodel = 14 if quick else 150
    for k, sc in enumerate(scripts[:nmodel]):
        jobs.append((work, nh + k, ctx.seed * 7919 + nh + k, len(sc), sc))
    ctx.coverage['model_behaviours_replayed'] = len(scripts[:nmodel])
    ctx.log('%d mutation histories' % nh)
    results = jutil.pmap(run_history, jobs, procs=12, chunksize=1)
    jutil.check_worker_errors(results)
    traces = []
    for r in results:
        if 'error' in r:
            raise MachineryError(r['error'])
        traces.append(r['events'])
    ctx.coverage['mutations'] = sum(1 for t in traces for e in t if e['ev'] == 'Mutate')
    ctx.coverage['resolutions'] = sum(e['n'] for t in traces for e in t if e['ev'] == 'Resolve')
    ctx.coverage['parso_decisions'] = sum(1 for t in traces for e in t if e['ev'] == 'Decision')
    vs = validate_traces('Trace_FileCache', 'Trace_FileCache.cfg', traces, ctx, 'Trace_FileCache')
    for v, r in zip(vs, results):
        pr = [n for n in v['notes'] if 'ParsoRule' in str(n)]
        sh = [n for n in v['notes'] if 'BufferShadowsDisk' in str(n)]
        if pr:
            ctx.drift({'parso_rule_differs': len(pr)})
        if sh:
            ctx.violation('not-seen:unsaved-buffer-shadows-disk', 'after a Script for the UNSAVED buffer of a module, a later Script '
                          'that imports the module answers from the buffer, not from the file on disk', {'steps': r['steps'][-6:]})
        if not v['accepted']:
            muts = [s for s in r['steps'] if 'kind' in s]
            last = muts[-1]['kind'] if muts else 'initial'
            ctx.violation('not-seen:after-%s' % last, 'after a file-system mutation a later Script answers differently '
                          'from a fresh process', {'steps': r['steps'][-6:]})
    ctx.sample({'history': results[0]['steps'][:6]})
    ctx.sample({'buffer': BUF, 'queries': QUERIES})
    # binding self-test
    import copy
    bad = copy.deepcopy(traces[0])
    for e in bad:
        if e['ev'] == 'Resolve':
            e['same'] = False
            break
    n0 = ctx.coverage['traces_validated_against_impl']
    bv = validate_traces('Trace_FileCache', 'Trace_FileCache.cfg', [bad], ctx, 'binding self-test')
    ctx.coverage['traces_validated_against_impl'] = n0
    if bv[0]['accepted']:
        raise MachineryError('binding self-test: stale answer accepted')
    ctx.coverage['binding_selftest'] = 'stale answer rejected: %s' % bv[0]['why']
    ctx.assumptions += ['MtimeMonotone: every mutation advances the modification time of file and directory beyond all '
                        'recorded times (25 ms pauses; renamed files are touched)']
    return None
