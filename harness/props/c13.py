"""C13 -- Interpreter reflects the live objects; safe mode runs no user descriptors.

spec/InterpSafe.tla: object shapes x expression forms x queries x {safe, unsafe}; the attribute
kinds include user descriptor objects for every non-empty subset of {__get__, __set__, __delete__}
on the class, a base and the metaclass, each crossed with a same-named entry in the instance
__dict__ / the class body (Python: a get-descriptor that defines __set__ OR __delete__ is a data
descriptor and wins over that entry);
Reference = CPython attribute lookup / protocol semantics + the three sentences of the
property, Design = transcription of getattr_static / is_allowed_getattr /
CompiledValueFilter / access gates / MixedObject routing, with the code's deviations named
D1..D7.  TLC: exhaustive Design |= Reference modulo the named deviations, the strict
invariants violated on the unchanged tree (counterexamples replayed on the real code), the
repaired Design meeting the Reference.  Every TLC-emitted case is rendered as real Python
objects whose special methods log, run through jedi.Interpreter, and compared with the
Design's prediction (spec -> code); random object graphs are queried and every query is
judged by Trace_InterpSafe.tla (code -> spec).
"""
import copy
import hashlib
import importlib.util
import os
import sys
import threading

from harness import jutil
from harness.core import MachineryError, crash_key
from harness.tlc import run_tlc, cases, validate_traces

META = dict(
    spec='InterpSafe.tla, Trace_InterpSafe.tla',
    text='TLC checks exhaustively over all object shapes (instance/class receiver; attribute in instance '
         'dict, class, base, metaclass, slots, nowhere; 16 attribute kinds x 11 metaclass kinds, among them user '
         'descriptors defining every non-empty subset of {__get__, __set__, __delete__} on the class / base / '
         'metaclass, each crossed with a same-named instance-dict / class-body entry (data-descriptor priority '
         'rule); __getattr__/__getattribute__; 64 protocol-method subsets on object/list subclasses; paths of <=3-4 holders x 11 '
         'leaf kinds) x expression forms x {safe, unsafe} that the transcription of getattr_static / '
         'is_allowed_getattr / CompiledValueFilter / access gates / MixedObject routing satisfies the '
         'property modulo seven named deviations (six of them repaired in /repo), that the strict invariants fail on the tree as it is '
         '(counterexamples replayed on the real code) and hold for the repaired Design; every emitted case '
         'is built as live objects with logging special methods and run through jedi.Interpreter '
         '(complete/infer/goto/help/get_signatures), observation vs Design prediction vs CPython oracle; '
         'queries on random object graphs are judged by TLC against the Reference (Trace_InterpSafe).',
    note='Trusts TLC, the renderer, CPython as oracle (getattr/dir/bool/iter with logging methods). '
         'User __getattr__/__getattribute__ calls are recorded, not judged. Queries that raise internal '
         'errors (absent typeshed) are counted as blocked, not judged (C01 decides totality). '
         'test_interpreter.py under a counting wrapper is not run.',
    technique='TLA+ spec (Design|=Reference) model-checked with TLC; spec->code replay of emitted cases on '
              'live objects; code->spec trace validation of recorded Interpreter queries',
    design_ref='5/C13')

ALLDEV = ['D1', 'D2', 'D3', 'D4', 'D5', 'D6', 'D7']
REPAIRED_IN_REPO = ['D1', 'D2', 'D3', 'D4', 'D5', 'D6']     # fix: commits in /repo (known_findings status "fixed")
CFG = '''INIT Init
NEXT Next
CONSTANTS
  MaxPath = %d
  EmitMod = %d
  EmitRem = %d
  Fixed = {%s}
%s
CHECK_DEADLOCK FALSE
'''


def write_cfg(ctx, name, maxpath, mod, rem, fixed, body):
    p = os.path.join(ctx.tmp, name)
    with open(p, 'w') as f:
        f.write(CFG % (maxpath, mod, rem, ', '.join('"%s"' % d for d in fixed), body))
    return p


# ---------------------------------------------------------------- rendering
PRE = '''LOG = []
class DD:
    def __init__(s, tag, val): s.tag = tag; s.val = val
    def __get__(s, o, t): LOG.append(s.tag); return s.val
    def __set__(s, o, v): pass
class ND:
    def __init__(s, tag, val): s.tag = tag; s.val = val
    def __get__(s, o, t): LOG.append(s.tag); return s.val
class SO:
    def __set__(s, o, v): pass
class DO:
    def __delete__(s, o): pass
class SD:
    def __set__(s, o, v): pass
    def __delete__(s, o): pass
class GD:
    def __init__(s, tag, val): s.tag = tag; s.val = val
    def __get__(s, o, t): LOG.append(s.tag); return s.val
    def __delete__(s, o): pass
class GSD:
    def __init__(s, tag, val): s.tag = tag; s.val = val
    def __get__(s, o, t): LOG.append(s.tag); return s.val
    def __set__(s, o, v): pass
    def __delete__(s, o): pass
class DC:
    def __get__(s, o, t): LOG.append('dcls'); return 0
class Q:
    pass
class P:
    pass
class LS(list):
    pass
def fn():
    return 0
'''


def ck_lines(kind, a='a'):
    return {
        'plain': ["%s = 'x'" % a],
        'func': ["def %s(self): return 0" % a],
        'prop': ["@property", "def %s(self): LOG.append('prop@%s'); return 1.5" % (a, a)],
        'propann': ["@property", "def %s(self) -> bytes: LOG.append('prop@%s'); return b''" % (a, a)],
        'ddesc': ["%s = DD('dget@%s', 1j)" % (a, a)],
        'nddesc': ["%s = ND('ndget@%s', bytearray())" % (a, a)],
        'setonly': ["%s = SO()" % a],
        'delonly': ["%s = DO()" % a],
        'sddesc': ["%s = SD()" % a],
        'gddesc': ["%s = GD('gdget@%s', 2j)" % (a, a)],
        'gsddesc': ["%s = GSD('gsdget@%s', 3j)" % (a, a)],
        'static': ["@staticmethod", "def %s(): return 0" % a],
        'clsm': ["@classmethod", "def %s(cls): return 0" % a],
        'dcls': ["%s = DC" % a],
    }[kind]


def mk_lines(kind, a='a'):
    return {
        'plain': ["%s = frozenset()" % a],
        'func': ["def %s(cls): return 0" % a],
        'prop': ["@property", "def %s(cls): LOG.append('mprop@%s'); return (1,)" % (a, a)],
        'ddesc': ["%s = DD('mdget@%s', {1})" % (a, a)],
        'nddesc': ["%s = ND('mndget@%s', {})" % (a, a)],
        'setonly': ["%s = SO()" % a],
        'delonly': ["%s = DO()" % a],
        'sddesc': ["%s = SD()" % a],
        'gddesc': ["%s = GD('mgdget@%s', {2})" % (a, a)],
        'gsddesc': ["%s = GSD('mgsdget@%s', {3})" % (a, a)],
    }[kind]


PROTO = {
    'getitem': "def __getitem__(s, i): LOG.append('getitem'); return 1.5",
    'iter': "def __iter__(s): LOG.append('iter'); return iter((b'',))",
    'next': "def __next__(s): LOG.append('next'); return 1j",
    'call': "def __call__(s): LOG.append('call'); return 'x'",
    'len': "def __len__(s): LOG.append('len'); return 1",
    'bool': "def __bool__(s): LOG.append('bool'); return True",
}


def render_class(attrs, hook, base, protos):
    """attrs: list of (name, shape) with shape fields inst, ck, cw, mk.  -> source of M, B, K, k"""
    L = [PRE]
    metas = [(a, s) for a, s in attrs if s['mk'] != 'none']
    if metas:
        L.append('class M(type):')
        for a, s in metas:
            L += ['    ' + x for x in mk_lines(s['mk'], a)]
    slots = [a for a, s in attrs if s['ck'] == 'slot']
    L.append('class B(%s):' % base)
    body = ['__slots__ = ()'] if slots else []
    for a, s in attrs:
        if s['ck'] not in ('none', 'slot') and s['cw'] == 'base':
            body += ck_lines(s['ck'], a)
    L += ['    ' + x for x in (body or ['pass'])]
    L.append('class K(B%s):' % (', metaclass=M' if metas else ''))
    body = []
    if slots:
        # a __dict__ slot keeps instance dictionaries available for the other attributes
        others = any(s['inst'] for a, s in attrs)
        body.append('__slots__ = (%s)' % ''.join("'%s', " % a for a in slots + (['__dict__'] if others else [])))
    for a, s in attrs:
        if s['ck'] not in ('none', 'slot') and s['cw'] == 'own':
            body += ck_lines(s['ck'], a)
    if hook == 'getattr':
        body += ["def __getattr__(s, n):", "    LOG.append('getattr')",
                 "    if n in %r: return range(3)" % (tuple(a for a, _ in attrs),),
                 "    raise AttributeError(n)"]
    if hook == 'getattribute':
        body += ["def __getattribute__(s, n):", "    LOG.append('getattribute')",
                 "    return object.__getattribute__(s, n)"]
    for p in sorted(protos):
        body.append(PROTO[p])
    L += ['    ' + x for x in (body or ['pass'])]
    L.append('k = K([7, 7])' if base == 'list' else 'k = K()')
    for a, s in attrs:
        if s['inst']:
            L.append("object.__getattribute__(k, '__dict__')[%r] = 7" % a)
        if s['ck'] == 'slot':
            L.append("object.__setattr__(k, %r, [1])" % a)
    return '\n'.join(L) + '\n'


_MODS = {}
_SEQ = [0]


def load(src, where):
    """exec the rendered source ('exec': no source file; 'file': a real module file)."""
    key = (src, where)
    if key in _MODS:
        return _MODS[key]
    if where == 'file':
        _SEQ[0] += 1
        name = 'c13m_%s_%d_%d' % (hashlib.sha1(src.encode()).hexdigest()[:10], os.getpid(), _SEQ[0])
        d = os.path.join(os.environ['C13_TMP'], 'mods')
        os.makedirs(d, exist_ok=True)
        path = os.path.join(d, name + '.py')
        with open(path, 'w') as f:
            f.write(src)
        spec = importlib.util.spec_from_file_location(name, path)
        mod = importlib.util.module_from_spec(spec)
        sys.modules[name] = mod
        spec.loader.exec_module(mod)
        g = vars(mod)
    else:
        g = {'__name__': 'c13exec'}
        exec(compile(src, '<c13>', 'exec'), g)
    if len(_MODS) > 400:
        _MODS.clear()
    _MODS[key] = g
    return g


FORMS = {
    'dot': ('%s.', 'complete'), 'dot_type': ('%s.', 'complete'),
    'attr_c': ('%s.A', 'complete'), 'attr_dot': ('%s.A.', 'complete'),
    'infer': ('%s.A', 'infer'), 'goto': ('%s.A', 'goto'), 'help': ('%s.A', 'help'),
    'sig': ('%s.A(', 'get_signatures'),
    'item': ('%s[0].', 'complete'), 'item_i': ('%s[0]', 'infer'),
    'call': ('%s().', 'complete'), 'call_sig': ('%s(', 'get_signatures'),
    'for': ('for x in %s:\n    x.', 'complete'), 'unpack': ('a, b = %s\na.', 'complete'),
    'if': ('if %s:\n    y = 1\ny.', 'complete'), 'or': ('(%s or 1).', 'complete'),
    'not': ('(not %s).', 'complete'), 'next': ('next(%s).', 'complete'), 'len': ('len(%s).', 'complete'),
}
JUDGED = {'prop', 'dget', 'ndget', 'gdget', 'gsdget', 'mprop', 'mdget', 'mndget', 'mgdget', 'mgsdget', 'getitem', 'iter', 'next', 'call', 'len', 'bool'}
VALNAMES = {'int', 'str', 'float', 'bytes', 'complex', 'bytearray', 'list', 'frozenset', 'tuple', 'set',
            'dict', 'range'}
DECOY = 2j


def base_tags(log, attr=None):
    """Tags are 'name' or 'name@attribute'; attr=None keeps all, else only those of this attribute
    (and, with attr='', only the attribute-less protocol tags)."""
    out = set()
    for t in log:
        n, _, a = t.partition('@')
        if attr is None or a == attr:
            out.add(n)
    return out


def leaf_obj(kind, g):
    return {'int': 7, 'str': 's', 'float': 1.5, 'none': None, 'bytes': b'', 'list': [1], 'dict': {'z': 1},
            'tuple': (1,), 'inst': g['Q'](), 'func': g['fn'], 'cls': g['Q']}[kind]


def describe(o):
    """'name:api_type' as jedi's Name.name / Name.type should report a live object."""
    import inspect
    if inspect.isclass(o):
        return '%s:class' % o.__name__
    if inspect.isfunction(o) or inspect.ismethod(o) or inspect.isbuiltin(o):
        return '%s:function' % o.__name__
    return '%s:instance' % type(o).__name__


def wrap_path(path, val, g):
    """Nest val under the holders (outermost first); returns (root, expression suffix)."""
    expr = ''
    for h in reversed(path):
        if h == 'inst':
            o = g['P']()
            o.b = val
            o.c = DECOY
            e = '.b'
        elif h == 'dict':
            o, e = {'d': DECOY, 'k': val}, "['k']"
        elif h == 'list':
            o, e = [DECOY, val], '[1]'
        elif h == 'lsub':
            o, e = g['LS']([DECOY, val]), '[1]'
        else:
            o, e = (DECOY, val), '[1]'
        val, expr = o, e + expr
    return val, expr


def run_query(code, meth, namespaces, unsafe, log, form, target=None, attr='a'):
    """One Interpreter query with the setting switched and restored; returns the observation."""
    import jedi
    from jedi import settings
    out = {'code': code, 'meth': meth}
    old = settings.allow_unsafe_interpreter_executions
    settings.allow_unsafe_interpreter_executions = unsafe
    del log[:]
    try:
        try:
            r = getattr(jedi.Interpreter(code, namespaces), meth)()
            names = [x.name for x in r]
            if form in ('dot_type', 'goto', 'help'):
                for x in r:
                    x.type
            if meth in ('infer',) or form in ('goto', 'help'):
                out['obs'] = sorted(set('%s:%s' % (x.name, x.type) for x in r))
            out['n'] = len(names)
            if form == 'attr_c':
                out['has_a'] = attr in names
            seen = list(log)
            if form in ('dot', 'dot_type') and target is not None:
                out['missing'] = sorted(set(dir(target[0])) - set(names))
            del log[:]
            log.extend(seen)
        except RecursionError as e:
            out['exc'] = crash_key(e)
        except Exception as e:  # internal error of jedi: blocked (C01 decides totality)
            out['exc'] = crash_key(e)
        out['rawlog'] = sorted(set(log))
        out['log'] = sorted(base_tags(log))
    finally:
        settings.allow_unsafe_interpreter_executions = old
        del log[:]
    return out


def res_tag(obs):
    if not obs:
        return 'none'
    if len(obs) == 1:
        n, t = obs[0].split(':')
        if t == 'instance' and n in VALNAMES:
            return n
    return 'other'


def replay_case(case):
    import jedi
    jedi.settings.cache_directory = os.path.join(os.environ['C13_TMP'], 'jedicache')
    c = case['c']
    out = {'case': case}
    unsafe = c['mode'] == 'unsafe'
    if c['model'] in ('attr', 'proto'):
        src = render_class([('a', c)], c['hook'], c['base'], c['protos'])
        g = load(src, c['src'])
        log = g['LOG']
        recv = 'k' if c['recv'] == 'inst' else 'K'
        obj = g[recv]
        tmpl, meth = FORMS[c['form']]
        code = (tmpl % recv).replace('A', 'a')
        ns = [{'k': g['k'], 'K': g['K']}]
        out['src'] = src
        # oracle: what CPython does (validates the Reference operators of the spec)
        del log[:]
        orc = {}
        try:
            v = getattr(obj, 'a')
            orc['where'] = True
            orc['val'] = type(v).__name__ if type(v).__name__ in VALNAMES else 'other'
            orc['desc'] = describe(v)
        except AttributeError:
            orc['where'] = False
            orc['val'] = 'none'
        orc['exec'] = sorted(base_tags(log) & JUDGED)
        orc['indir'] = 'a' in dir(obj)
        if c['model'] == 'proto':
            k = g['k']
            for nm, fn in (('bool', lambda: bool(k)), ('iter', lambda: iter(k)), ('item', lambda: k[0])):
                del log[:]
                try:
                    fn()
                except TypeError:
                    pass
                orc['py_' + nm] = sorted(base_tags(log) & JUDGED)
        del log[:]
        out['oracle'] = orc
        out['o'] = run_query(code, meth, ns, unsafe, log, c['form'], target=[obj])
    else:
        g = load(PRE, c['src'])
        log = g['LOG']
        leaf = leaf_obj(c['leaf'], g)
        root, expr = wrap_path(c['path'], leaf, g)
        code = 'x' + expr + ('.' if c['form'] == 'dot' else '')
        meth = 'complete' if c['form'] == 'dot' else 'infer'
        out['src'] = 'x = ' + repr(c['path']) + ' -> ' + c['leaf']
        out['oracle'] = {'actual': describe(leaf), 'decoy': describe(DECOY)}
        out['o'] = run_query(code, meth, [{'y': 1}, {'x': root}], unsafe, log, c['form'], target=[leaf])
    return out


# ---------------------------------------------------------------- judging one replayed case
def observed(r):
    """Project an observation to the abstract values of the spec."""
    c, o = r['case']['c'], r['o']
    ob = {'exec': sorted(set(o.get('log', [])) & JUDGED),
          'hooks': sorted(set(o.get('log', [])) - JUDGED)}
    if 'exc' in o:
        ob['blocked'] = o['exc']
        return ob
    if c['model'] == 'path':
        obs = o.get('obs')
        if c['form'] == 'infer':
            act, dec = r['oracle']['actual'], r['oracle']['decoy']
            ob['res'] = ('exact' if obs == [act] else 'none' if not obs
                         else 'union' if sorted(obs) == sorted([act, dec]) else 'other')
            ob['names_ok'] = None
        else:
            ob['res'] = None
            ob['names_ok'] = not o['missing']
    else:
        ob['res'] = res_tag(o.get('obs')) if c['form'] in ('infer', 'item_i') else 'na'
        ob['names_ok'] = (not o['missing']) if 'missing' in o else None
        ob['has_a'] = o.get('has_a')
    return ob


def report(ctx, key, description, replay):
    """One VIOLATION (with replay file) per shape key; further cases of the same key are counted.  Known
    findings are counted per case by ctx.violation itself."""
    seen = ctx.coverage.setdefault('violation_cases_by_key', {})
    if key in seen:
        seen[key] += 1
    elif ctx.violation(key, description, replay):
        seen[key] = 1


def devkey(dev):
    return '+'.join(sorted(dev))


def judge(ctx, r, traces, trace_src):
    case = r['case']
    c, pred, o, orc = case['c'], case['pred'], r['o'], r['oracle']
    ob = observed(r)
    ctx.count('replayed')
    ctx.count('replayed_' + c['model'])
    if ob['hooks']:
        ctx.count('queries_calling_user___getattr__or___getattribute___recorded_not_judged')
    rep = {'shape': c, 'code': o['code'], 'query': o['meth'], 'source': r['src'], 'predicted': pred,
           'observed': ob, 'oracle': orc}
    # Reference vs reality: the spec's reading of CPython must be right on every case
    if c['model'] == 'attr':
        py = pred['py']
        if (py['where'] != 'none') != orc['where'] or sorted(py['exec']) != orc['exec'] \
                or py['val'] != orc['val'] or pred['indir'] != orc['indir']:
            raise MachineryError('Reference operator PyLookup/InDir disagrees with CPython: %s' % rep)
    if c['model'] == 'proto':
        pp = pred['pyproto']
        if (sorted(pp['bool']), sorted(pp['iter']), sorted(pp['item'])) != \
                (orc['py_bool'], orc['py_iter'], orc['py_item']):
            raise MachineryError('Reference operators PyBool/PyIter/PyItem disagree with CPython: %s' % rep)
    if 'blocked' in ob:
        ctx.count('blocked_internal_error')
        b = ctx.coverage.setdefault('blocked_by', {})
        b[ob['blocked']] = b.get(ob['blocked'], 0) + 1
        if ob['exec'] and c['mode'] == 'safe':
            ctx.count('blocked_after_safe_mode_execution_not_judged')
        return
    dev = pred['dev']
    # ---- the property relation, judged on the observation with the CPython oracle
    broke = False
    if c['mode'] == 'safe' and ob['exec']:
        broke = True
        if dev and set(ob['exec']) <= set(pred['exec']):
            key = 'safe-exec:' + devkey(dev)
        else:
            key = 'safe-exec:unpredicted:%s:%s:%s' % (c['model'], c['form'], '+'.join(ob['exec']))
        report(ctx, key, 'safe mode executed user %s during %s on %r' % (ob['exec'], o['meth'], o['code']), rep)
    if ob.get('names_ok') is False and (c['model'] != 'path' or 'lsub' not in c['path']):
        broke = True
        key = 'names-missing:' + (devkey(dev) if dev and not pred['names_ok'] else
                                  'unpredicted:%s:%s' % (c['model'], c['form']))
        report(ctx, key, 'names after %r miss dir() entries %s' % (o['code'], o['missing'][:8]), rep)
    if c['form'] == 'attr_c' and orc['indir'] and ob.get('has_a') is False:
        broke = True
        report(ctx, 'names-missing:unpredicted:attr:attr_c', 'attribute in dir() not offered for %r' % o['code'], rep)
    if c['form'] == 'infer':
        if c['model'] == 'path' and 'lsub' not in c['path'] and ob['res'] != 'exact':
            broke = True
            key = 'infer-path:' + (devkey(dev) if dev and pred['res'] == ob['res'] else
                                   'unpredicted:%s->%s' % ('.'.join(c['path']), c['leaf']))
            report(ctx, key, 'infer %r reports %s, stored object is %s' % (o['code'], o.get('obs'), orc['actual']), rep)
        if c['model'] == 'attr' and orc['where'] and not orc['exec'] and orc['val'] not in ('other', 'none') \
                and plain_attr(c) and o.get('obs') != [orc['desc']]:
            broke = True
            key = 'infer-attr:' + (devkey(dev) if dev and pred['res'] == ob['res'] else
                                   'unpredicted:%s:%s:%s' % (c['recv'], c['ck'], c['mk']))
            report(ctx, key, 'infer %r reports %s, stored object is %s' % (o['code'], o.get('obs'), orc['desc']), rep)
    # ---- Code vs Design
    mism = []
    if sorted(pred['exec']) != ob['exec']:
        mism.append('exec')
    if ob.get('res') not in (None, 'na') and pred['res'] != ob['res']:
        mism.append('res')
    if ob.get('names_ok') is not None and pred['names_ok'] != ob['names_ok']:
        mism.append('names_ok')
    if ob.get('has_a') is not None and pred['offered'] != ob['has_a']:
        mism.append('offered')
    if mism and not broke:
        ctx.drift({'fields': mism, 'case': rep})
    elif mism:
        ctx.count('drift_on_violating_cases')
    ctx.sample({'shape': {k: c[k] for k in c if c[k] not in ('none', [], False)}, 'code': o['code'],
                'query': o['meth'], 'design': {k: pred[k] for k in ('exec', 'res', 'names_ok', 'dev')},
                'code_observed': ob})
    traces.append([event(c, o, orc, ob)])
    trace_src.append(r)


def shadowing(c):
    """('inst'|'meta', kind) when a get+set/delete descriptor hides a same-named instance-dict / class-body
    entry and the (safe-mode) query resolves the attribute; else None."""
    if c['model'] != 'attr' or c['mode'] != 'safe' or c['form'] not in ('infer', 'attr_dot', 'goto', 'help', 'sig',
                                                                       'dot_type'):
        return None
    if c['recv'] == 'inst' and c['inst']:
        return ('inst', c['ck'])
    if c['recv'] == 'cls' and c['ck'] != 'none':
        return ('meta', c['mk'])
    return None


def plain_attr(c):
    """attribute value stored as plain data where CPython finds it (sentence 3 applies)."""
    if c['recv'] == 'inst':
        return c['inst'] or c['ck'] == 'plain'
    return c['ck'] == 'plain' or (c['ck'] == 'none' and c['mk'] == 'plain')


def event(c, o, orc, ob):
    """The record Trace_InterpSafe judges (strings stay strings: only compared for equality)."""
    s = {k: c[k] for k in ('model', 'recv', 'inst', 'ck', 'cw', 'mk', 'hook', 'base', 'protos', 'path',
                           'leaf', 'src', 'mode', 'form')}
    attr = c['model'] == 'attr'
    return {'s': s, 'exec': ob['exec'], 'obs': o.get('obs') or [],
            'actual': [orc['desc']] if attr and orc.get('where') else ([orc['actual']] if 'actual' in orc else []),
            'names_ok': True if ob.get('names_ok') is None else ob['names_ok'],
            'py_known': attr, 'py_exec': orc.get('exec', []), 'py_val': orc.get('val', 'na')}


# ---------------------------------------------------------------- random object graphs (code -> spec)
CKS = ['none', 'plain', 'func', 'prop', 'propann', 'ddesc', 'nddesc', 'setonly', 'static', 'clsm', 'slot', 'dcls',
       'delonly', 'gddesc', 'sddesc', 'gsddesc']
MKS = ['none', 'none', 'none', 'plain', 'func', 'prop', 'ddesc', 'nddesc', 'setonly', 'delonly', 'gddesc', 'sddesc',
       'gsddesc']
# user descriptor objects (any subset of __get__/__set__/__delete__): the priority rule between them and a
# same-named instance-dict / class-body entry is what the static lookup has to get right
UDESC = {'ddesc', 'nddesc', 'setonly', 'delonly', 'gddesc', 'sddesc', 'gsddesc'}
ATTR_FORMS = ['dot', 'dot_type', 'attr_c', 'attr_dot', 'infer', 'goto', 'help', 'sig']
PROTO_FORMS = ['dot', 'item', 'item_i', 'call', 'call_sig', 'for', 'unpack', 'if', 'or', 'not', 'next', 'len']


def random_graph(arg):
    """One trace: a random class with several attributes / protocols / hook, its instance nested in
    random containers inside the second of two namespaces, queried with random forms."""
    import random
    import jedi
    seed, nq = arg
    jedi.settings.cache_directory = os.path.join(os.environ['C13_TMP'], 'jedicache')
    rng = random.Random(seed)
    names = ['a', 'b2', 'c_', 'dd'][:rng.randint(1, 4)]
    attrs = []
    for a in names:
        ck = rng.choice(CKS)
        inst = rng.random() < (0.6 if ck in UDESC else 0.4) and ck != 'slot'
        attrs.append((a, {'inst': inst, 'ck': ck, 'cw': rng.choice(['own', 'base']) if ck not in ('none', 'slot') else 'own',
                          'mk': rng.choice(MKS)}))
    hook = rng.choice(['none', 'none', 'getattr', 'getattribute'])
    base = rng.choice(['object', 'object', 'list'])
    protos = [p for p in PROTO if rng.random() < 0.35]
    where = rng.choice(['exec', 'file'])
    src = render_class(attrs, hook, base, protos) + '# %d\n' % seed
    g = load(src, where)
    log = g['LOG']
    events, blocked, srcs = [], [], []
    for _ in range(nq):
        kind = rng.choice(['attr', 'attr', 'proto', 'path'])
        mode = rng.choice(['safe', 'unsafe'])
        holders = [rng.choice(['inst', 'dict', 'list', 'tuple']) for _ in range(rng.randint(0, 3))]
        if kind == 'path':
            leafk = rng.choice(['int', 'str', 'float', 'none', 'bytes', 'list', 'dict', 'tuple', 'inst', 'func', 'cls'])
            holders = holders or ['dict']
            leaf = leaf_obj(leafk, g)
            root, expr = wrap_path(holders, leaf, g)
            form = rng.choice(['infer', 'dot'])
            code = 'x' + expr + ('.' if form == 'dot' else '')
            o = run_query(code, 'complete' if form == 'dot' else 'infer', [{'y': 1}, {'x': root}],
                          mode == 'unsafe', log, form, target=[leaf])
            c = dict(model='path', recv='inst', inst=False, ck='none', cw='own', mk='none', hook='none',
                     base='object', protos=[], path=holders, leaf=leafk, src=where, mode=mode, form=form)
            orc = {'actual': describe(leaf)}
            ob = {'exec': sorted(set(o.get('log', [])) & JUDGED),
                  'names_ok': (not o['missing']) if 'missing' in o else None}
        else:
            recv = rng.choice(['inst', 'inst', 'cls']) if kind == 'attr' else 'inst'
            obj = g['k'] if recv == 'inst' else g['K']
            root, expr = wrap_path(holders, obj, g)
            a, sh = rng.choice(attrs)
            form = rng.choice(ATTR_FORMS if kind == 'attr' else PROTO_FORMS)
            tmpl, meth = FORMS[form]
            code = (tmpl % ('x' + expr)).replace('A', a)
            o = run_query(code, meth, [{'y': 1}, {'x': root}], mode == 'unsafe', log, form, target=[obj], attr=a)
            if 'exc' in o:
                blocked.append(o['exc'])
                continue
            # `r.` concerns every attribute of the class: one event per attribute, each with the tags
            # of that attribute; a query on `r.A` owns every tag that was logged
            if kind == 'attr' and form in ('dot', 'dot_type'):
                targets = [(b, bs, base_tags(o['rawlog'], b) | (base_tags(o['rawlog'], '') if i == 0 else set()))
                           for i, (b, bs) in enumerate(attrs)]
            else:
                targets = [(a, sh, base_tags(o['rawlog']))]
            for b, bs, tags in targets:
                del log[:]
                orc = {}
                try:
                    v = getattr(obj, b)
                    orc.update(where=True, val=type(v).__name__ if type(v).__name__ in VALNAMES else 'other',
                               desc=describe(v))
                except AttributeError:
                    orc.update(where=False, val='none')
                orc['exec'] = sorted(base_tags(log) & JUDGED)
                del log[:]
                c = dict(model=kind, recv=recv, inst=bs['inst'] and recv == 'inst', ck=bs['ck'], cw=bs['cw'],
                         mk=bs['mk'], hook=hook, base=base, protos=protos if kind == 'proto' else [], path=[],
                         leaf='int',
                         # the spec's src is the representation of the receiver: a MixedObject needs the class
                         # source AND a route through attributes only (container items are bare CompiledValues)
                         src=where if all(h == 'inst' for h in holders) else 'exec', mode=mode, form=form)
                if kind == 'proto':   # the protocol events carry no attribute
                    c.update(inst=False, ck='none', cw='own', mk='none')
                ob = {'exec': sorted(tags & JUDGED),
                      'names_ok': (not o['missing']) if 'missing' in o else None}
                ev = event(c, o, orc, ob)
                if kind == 'proto':
                    ev['py_known'] = False
                events.append(ev)
                srcs.append({'code': o['code'], 'query': o['meth'], 'mode': mode, 'log': o['rawlog'],
                             'obs': o.get('obs'), 'missing': o.get('missing'), 'shape': c, 'attribute': b})
            continue
        if 'exc' in o:
            blocked.append(o['exc'])
            continue
        events.append(event(c, o, orc, ob))
        srcs.append({'code': o['code'], 'query': o['meth'], 'mode': mode, 'log': o['log'], 'obs': o.get('obs'),
                     'missing': o.get('missing'), 'shape': c})
    return {'events': events, 'blocked': blocked, 'srcs': srcs, 'source': src, 'where': where}


# ---------------------------------------------------------------- TLC helpers
def run_jobs(jobs, limit=8):
    """Run independent TLC jobs concurrently: {name: (cfg, run_tlc kwargs)} -> {name: TLCResult}."""
    out, err = {}, []
    sem = threading.Semaphore(limit)

    def one(name, cfg, kw):
        with sem:
            try:
                out[name] = run_tlc('InterpSafe', cfg, timeout=2400, **kw)
            except BaseException as e:  # noqa
                err.append(e)
    th = [threading.Thread(target=one, args=(n, c, k)) for n, (c, k) in jobs.items()]
    for t in th:
        t.start()
    for t in th:
        t.join()
    if err:
        raise err[0]
    return out


def key_of_why(why):
    why = set(why or [])
    devs = sorted(w for w in why if w.startswith('D') and w[1:].isdigit())
    clauses = sorted(why - set(devs))
    return clauses, devs


# ---------------------------------------------------------------- main
def run(ctx):
    quick = ctx.quick
    os.environ['C13_TMP'] = ctx.tmp
    sys.setrecursionlimit(3000)
    maxpath = 3 if quick else 4
    # C13_FIXED=D1,D3|all|repo: model these deviations as repaired (for checking a patched tree)
    # default "repo": D1..D6 are repaired in /repo (fix: commits, see known_findings), D7 is open (known finding);
    # C13_FIXED= (empty) models the code before the repairs, C13_FIXED=all a tree with D7 patched as well
    fx = os.environ.get('C13_FIXED', 'repo')
    fixed = ALLDEV if fx == 'all' else REPAIRED_IN_REPO if fx == 'repo' else [d for d in fx.split(',') if d]
    if any(d not in ALLDEV for d in fixed):
        raise MachineryError('C13_FIXED: unknown deviation in %r' % fx)
    ctx.coverage['deviations_modelled_as_repaired'] = fixed
    body = '\n'.join('INVARIANT ' + i for i in (
        'OnlyKnownDeviations', 'RepairedMeetsReference', 'StaticLookupSound', 'StaticLookupComplete',
        'UnsafeReflectsLive'))

    # All TLC runs of legs 1-3 are independent: run them concurrently (at most 8 JVMs at a time).
    strict = 'INVARIANT SafeNoExec\nINVARIANT InferPlainExact\nINVARIANT NamesSupersetDir'
    nproc = 24
    # quick: one residue class of the case space (seeded); thorough: 12 of the 24 (rotating with the seed),
    # C13_FULL=1: all of them (140k cases)
    nres = 1 if quick else (nproc if os.environ.get('C13_FULL') else 12)
    rems = sorted((ctx.seed + i) % nproc for i in range(nres))
    jobs = {'mc': (write_cfg(ctx, 'mc.cfg', maxpath, 1, 0, fixed, body), dict(workers=8, coverage=True)),
            'fixed': (write_cfg(ctx, 'mc_fixed.cfg', maxpath, 1, 0, ALLDEV, strict + '\n' + body), dict(workers=8))}
    for inv in ('SafeNoExec', 'InferPlainExact', 'NamesSupersetDir'):
        jobs['strict_' + inv] = (write_cfg(ctx, 'strict_%s.cfg' % inv, maxpath, 1, 0, fixed, 'INVARIANT ' + inv),
                                 dict(workers=4, expect_violation=True))
    for rem in rems:
        jobs['emit_%d' % rem] = (write_cfg(ctx, 'emit_%d.cfg' % rem, maxpath, nproc, rem, fixed, 'CONSTRAINT Emit'),
                                 dict(workers=1))
    out = run_jobs(jobs)

    # 1. Design |= Reference, exhaustive: tree as it is (modulo named deviations)
    res = out['mc']
    ctx.add_tlc(res, 'Design|=Reference modulo named deviations, exhaustive MaxPath=%d Fixed={%s}' % (maxpath, ','.join(fixed)))
    if res.violated:
        raise MachineryError('InterpSafe.tla: %s violated: a breach of the Reference that is not one of the named '
                             'deviations, or a lemma of the Design fails:\n%s' % (res.violated, res.trace[-1:]))
    if res.distinct < 130000:
        raise MachineryError('vacuity: only %d states' % res.distinct)
    dead = [a for a, n in res.coverage.items() if n == 0 and a in (
        'Set', 'Start', 'AddProto', 'EndProtos', 'AddHolder', 'EndPath', 'EndPathSub')]
    if dead or 'Set' not in res.coverage:
        raise MachineryError('vacuity: actions never taken: %s (coverage parsed: %s)' % (dead, sorted(res.coverage)))
    # the repaired Design meets the strict Reference
    res = out['fixed']
    ctx.add_tlc(res, 'repaired Design (Fixed=AllDev) |= strict Reference, exhaustive')
    if res.violated:
        raise MachineryError('repaired Design violates %s: %s' % (res.violated, res.trace[-1:]))
    ctx.coverage['exhaustive'] = True

    # 2. strict invariants on the tree as it is: counterexamples are replayed on the real code
    cex = []
    for inv in ('SafeNoExec', 'InferPlainExact', 'NamesSupersetDir'):
        res = out['strict_' + inv]
        ctx.add_tlc(res, 'strict %s on the unchanged Design (counterexample expected)' % inv)
        if not res.violated:
            ctx.notes.append('strict invariant %s holds in the Design as modelled (Fixed={})' % inv)
            continue
        st = res.trace[-1]['vars']['c']
        c = {k: (sorted(v[1]) if isinstance(v, tuple) and v[0] == 'set' else v) for k, v in st.items()}
        cex.append((inv, c))
    ctx.coverage['tlc_counterexamples'] = [{'invariant': i, 'case': c} for i, c in cex]
    ctx.log('TLC runs done: %d counterexamples of the strict invariants' % len(cex))

    # 3. emitted cases -> live objects -> Interpreter (spec -> code)
    cs = []
    for rem in rems:
        ctx.add_tlc(out['emit_%d' % rem], 'case emission residue %d mod %d' % (rem, nproc))
        cs += cases(out['emit_%d' % rem])
    for x in cs:
        x['c']['protos'] = sorted(x['c']['protos'])
    ctx.log('emitted %d cases' % len(cs))
    if len(cs) < (3000 if quick else 40000):
        raise MachineryError('too few cases emitted: %d' % len(cs))
    # make sure the TLC counterexamples are among the replayed cases
    have = [x['c'] for x in cs]
    todo = [(i, c) for i, c in cex if c not in have]
    if todo:
        full = emit_cex(ctx, maxpath, todo, fixed)
        for x in full:
            x['c']['protos'] = sorted(x['c']['protos'])
        cs += full
    # vacuity: the slice must contain the shapes on which the data-descriptor priority rule decides (a
    # get-descriptor that also defines __set__ and/or __delete__, shadowing a same-named instance-dict entry
    # / class-body entry), queried in safe mode with a form that resolves the attribute
    for kind in ('ddesc', 'gddesc', 'gsddesc', 'prop'):
        n_i = sum(1 for x in cs if shadowing(x['c']) == ('inst', kind))
        n_m = sum(1 for x in cs if shadowing(x['c']) == ('meta', kind))
        ctx.coverage.setdefault('shadowing_data_descriptor_cases', {})[kind] = {'instance_dict': n_i, 'class_body': n_m}
        if not n_i or not n_m:
            raise MachineryError('vacuity: no replayed case with a shadowing %s data descriptor (%d/%d)' % (kind, n_i, n_m))
    ctx.log('replaying %d TLC cases' % len(cs))
    results = jutil.pmap(replay_case, cs, chunksize=64)
    jutil.check_worker_errors(results)
    traces, trace_src = [], []
    for r in results:
        judge(ctx, r, traces, trace_src)
    for inv, c in cex:
        hit = [r for r in results if r['case']['c'] == c]
        if not hit:
            raise MachineryError('TLC counterexample of %s was not replayed: %s' % (inv, c))
        ob = observed(hit[0])
        reproduced = (bool(ob['exec']) if inv == 'SafeNoExec' else
                      ob.get('names_ok') is False if inv == 'NamesSupersetDir' else ob.get('res') != 'exact')
        ctx.coverage.setdefault('counterexamples_replayed', []).append(
            {'invariant': inv, 'case': c, 'reproduced_on_real_code': reproduced, 'observed': ob})
        if not reproduced and 'blocked' not in ob:
            ctx.drift({'fields': ['counterexample not reproduced'], 'invariant': inv, 'case': c, 'observed': ob})
    if ctx.coverage.get('replayed', 0) - ctx.coverage.get('blocked_internal_error', 0) < 0.8 * len(cs):
        raise MachineryError('too many blocked cases: %s' % ctx.coverage.get('blocked_by'))

    # 4. random object graphs (code -> spec)
    ctx.log('random object graphs')
    ng, nq = (100, 12) if quick else (1000, 16)
    recs = jutil.pmap(random_graph, [(ctx.seed * 100003 + i, nq) for i in range(ng)], chunksize=4)
    jutil.check_worker_errors(recs)
    blocked = {}
    rtraces, rsrc = [], []
    for r in recs:
        for b in r['blocked']:
            blocked[b] = blocked.get(b, 0) + 1
        if r['events']:
            rtraces.append(r['events'])
            rsrc.append(r)
            ctx.count('random_graph_queries', len(r['events']))
    ctx.coverage['random_graph_blocked_by_internal_errors'] = blocked
    if sum(len(t) for t in rtraces) < (600 if quick else 9000):
        raise MachineryError('too few random-graph events')

    # TLC judges all breaching replay events + a seeded sample of the others (single worker)
    idx = [i for i, r in enumerate(trace_src) if is_breach(r)]
    rest = [i for i, r in enumerate(trace_src) if not is_breach(r)]
    ctx.rng.shuffle(rest)
    idx = sorted(idx + rest[:1500 if quick else 12000])
    traces = [traces[i] for i in idx]
    trace_src = [trace_src[i] for i in idx]
    all_traces = traces + rtraces
    ctx.log('validating %d traces, %d events' % (len(all_traces), sum(map(len, all_traces))))
    tcfg = os.path.join(ctx.tmp, 'trace.cfg')
    with open(tcfg, 'w') as f:
        f.write('INIT TInit\nNEXT TNext\nCONSTANTS\n  MaxPath = 0\n  EmitMod = 1\n  EmitRem = 0\n  Fixed = {%s}\n'
                'CONSTRAINT Verdict\nCHECK_DEADLOCK FALSE\n' % ', '.join('"%s"' % d for d in fixed))
    verdicts = validate_traces('Trace_InterpSafe', tcfg, all_traces, ctx, 'Trace_InterpSafe', chunk=8000)
    nrej = 0
    # a trace is judged up to its first rejected event: the events after it are judged as a trace of their
    # own (so that a known finding early in a trace does not hide the queries recorded after it)
    pending = [(i, 0, v, t) for i, (v, t) in enumerate(zip(verdicts, all_traces))]
    for rnd in range(4):
        suffixes = []
        for i, off, v, t in pending:
            if v['accepted']:
                continue
            nrej += 1
            clauses, devs = key_of_why(v['why'])
            if 'OracleMismatch' in clauses:
                raise MachineryError('Trace_InterpSafe: PyLookup disagrees with the logged CPython oracle: %s' % t[v['at'] - 1])
            ev = t[v['at'] - 1] if v['at'] else None
            if i < len(traces):
                # already judged (and keyed) by the replay leg; TLC must agree that the Reference is broken
                ctx.count('replay_events_rejected_by_reference')
                continue
            src = rsrc[i - len(traces)]
            info = src['srcs'][off + v['at'] - 1] if v['at'] else None
            tags = '+'.join(sorted(set(ev['exec']) & JUDGED)) if ev and 'SafeNoExec' in clauses else ''
            report(ctx, 'trace:%s:%s' % ('+'.join(clauses) or '?', '+'.join(devs) or ('unpredicted' + (':' + tags if tags else ''))),
                   'recorded Interpreter query violates reference clause(s) %s (blamed deviations %s)' % (clauses, devs),
                   {'query': info, 'class_source': src['source'], 'where': src['where'], 'event': ev})
            if v['at'] and v['at'] < len(t):
                suffixes.append((i, off + v['at'], t[v['at']:]))
        if not suffixes:
            break
        if rnd == 3:
            ctx.count('trace_suffixes_after_4_rejections_not_judged', len(suffixes))
            break
        n0 = ctx.coverage['traces_validated_against_impl']
        vs = validate_traces('Trace_InterpSafe', tcfg, [x[2] for x in suffixes], ctx,
                             'Trace_InterpSafe, events after a rejected event (round %d)' % (rnd + 1), chunk=8000)
        ctx.coverage['traces_validated_against_impl'] = n0
        ctx.count('trace_suffixes_rejudged', len(suffixes))
        pending = [(i, off, v, t) for (i, off, t), v in zip(suffixes, vs)]
    ctx.coverage['traces_rejected'] = nrej
    # replay-leg judgement and TLC judgement must coincide on the replayed events
    py_bad = sum(1 for r in trace_src if is_breach(r))
    tl_bad = sum(1 for v in verdicts[:len(traces)] if not v['accepted'])
    if py_bad != tl_bad:
        raise MachineryError('harness judgement (%d breaches) and Trace_InterpSafe (%d rejects) disagree on the '
                             'replayed events' % (py_bad, tl_bad))

    # binding self-test: corrupted records must be rejected
    good = [t for t, v in zip(all_traces, verdicts) if v['accepted']]
    pick = [t for t in good if t[0]['s']['mode'] == 'safe' and t[0]['s']['form'] in ('dot', 'dot_type')
            and t[0]['s']['model'] == 'attr'][:1]
    pick2 = [t for t in good if t[0]['s']['model'] == 'path' and t[0]['s']['form'] == 'infer'
             and 'lsub' not in t[0]['s']['path']][:1]
    if not pick or not pick2:
        raise MachineryError('binding self-test: no accepted trace to corrupt')
    b1 = copy.deepcopy(pick[0][:1])
    b1[0]['exec'] = ['prop']
    b2 = copy.deepcopy(pick[0][:1])
    b2[0]['names_ok'] = False
    b3 = copy.deepcopy(pick2[0][:1])
    b3[0]['obs'] = ['complex:instance']
    # an instance-dict entry shadowed by a __get__+__delete__ descriptor / a class-body entry shadowed by such a
    # descriptor on the metaclass, whose __get__ ran in safe mode: must be rejected for SafeNoExec (and only that)
    b4 = copy.deepcopy(pick[0][:1])
    b4[0]['s'].update(recv='inst', inst=True, ck='gddesc', cw='own', form='infer')
    b4[0].update(exec=['gdget'], obs=['complex:instance'], actual=['complex:instance'], names_ok=True,
                 py_known=True, py_exec=['gdget'], py_val='complex')
    b5 = copy.deepcopy(b4)
    b5[0]['s'].update(recv='cls', inst=False, ck='plain', mk='gddesc')
    b5[0].update(exec=['mgdget'], obs=['set:instance'], actual=['set:instance'], py_exec=['mgdget'], py_val='set')
    n0 = ctx.coverage['traces_validated_against_impl']
    vs = validate_traces('Trace_InterpSafe', tcfg, [b1, b2, b3, b4, b5], ctx, 'binding self-test')
    ctx.coverage['traces_validated_against_impl'] = n0
    if any(v['accepted'] for v in vs):
        raise MachineryError('binding self-test: corrupted trace accepted %s' % vs)
    for v in vs[3:]:
        if 'SafeNoExec' not in v['why'] or 'OracleMismatch' in v['why']:
            raise MachineryError('binding self-test: shadowing-descriptor record rejected for %s' % v['why'])
    ctx.coverage['binding_selftest'] = 'corrupted records rejected: %s' % [v['why'] for v in vs]

    ctx.assumptions += [
        'judged user code = property getters, user __get__ of descriptors with any of __set__/__delete__ '
        '(class, base, metaclass), __getitem__/__iter__/'
        '__next__/__call__/__len__/__bool__; __getattr__/__getattribute__/__dir__ are recorded only',
        'sentence 3 is judged on exact builtin containers (dict/list/tuple) and instance attributes; list '
        'subclasses are modelled but not judged',
        'goto/help observations include reading Name.type (as a REPL front end does); dot_type = complete + '
        'Completion.type; sig = get_signatures on `r.a(`',
        'queries raising internal errors (absent typeshed) are blocked, not judged']
    return None


def is_breach(r):
    """Reference breach as Trace_InterpSafe sees it, recomputed from the observation (cross-check)."""
    c, o, orc = r['case']['c'], r['o'], r['oracle']
    if 'exc' in o:
        return False
    ob = observed(r)
    if c['mode'] == 'safe' and ob['exec']:
        return True
    if ob.get('names_ok') is False and (c['model'] != 'path' or 'lsub' not in c['path']):
        return True
    if c['form'] == 'infer':
        if c['model'] == 'path' and 'lsub' not in c['path'] and ob['res'] != 'exact':
            return True
        if c['model'] == 'attr' and orc['where'] and not orc['exec'] and orc['val'] not in ('other', 'none') \
                and plain_attr(c) and o.get('obs') != [orc['desc']]:
            return True
    return False


def emit_cex(ctx, maxpath, cex, fixed):
    """The emitted records (with the Design's prediction) of TLC counterexamples that are not in the
    replayed slice: a one-off module whose initial states are exactly these cases."""
    import shutil
    from harness.core import SPEC
    recs = ', '.join('[%s]' % ', '.join('%s |-> %s' % (k, tla(v, k)) for k, v in c.items()) for _, c in cex)
    with open(os.path.join(ctx.tmp, 'Cex.tla'), 'w') as f:
        f.write('---- MODULE Cex ----\nEXTENDS Naturals, Sequences, FiniteSets, TLC, Json\n'
                'CONSTANTS MaxPath, EmitMod, EmitRem, Fixed\nVARIABLES c, st\nINSTANCE InterpSafe\n'
                'CInit == c \\in {%s} /\\ st = "done"\nCNext == UNCHANGED <<c, st>>\n'
                'CEmit == PrintT(<<"CASE", ToJson([c |-> c, pred |-> Pred(c)])>>)\n====\n' % recs)
    shutil.copy(os.path.join(SPEC, 'InterpSafe.tla'), os.path.join(ctx.tmp, 'InterpSafe.tla'))
    cfg = os.path.join(ctx.tmp, 'cex.cfg')
    with open(cfg, 'w') as f:
        f.write('INIT CInit\nNEXT CNext\nCONSTANTS\n  MaxPath = %d\n  EmitMod = 1\n  EmitRem = 0\n  Fixed = {%s}\n'
                'CONSTRAINT CEmit\nCHECK_DEADLOCK FALSE\n' % (maxpath, ', '.join('"%s"' % d for d in fixed)))
    r = run_tlc('Cex', cfg, workers=1, timeout=300, spec_dir=ctx.tmp)
    ctx.add_tlc(r, 'Design prediction for the counterexamples of the strict invariants')
    got = cases(r)
    if len(got) != len(cex):
        raise MachineryError('counterexample emission failed: %s' % r.stdout[-1500:])
    return got


def tla(v, k=None):
    if isinstance(v, bool):
        return 'TRUE' if v else 'FALSE'
    if isinstance(v, str):
        return '"%s"' % v
    if isinstance(v, list):
        if k == 'protos':
            return '{%s}' % ', '.join(tla(x) for x in v)
        return '<<%s>>' % ', '.join(tla(x) for x in v)
    return str(v)
