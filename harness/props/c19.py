"""C19 -- Project search finds every definition and honours ignore rules.

spec/Search.tla: Reference (Expected / Ignored from the property text) and Design (transcription
of the directory walk, .gitignore handling, the three phases of Project._search_func, the
de-duplication).  TLC checks Design |= Reference modulo named known shapes, exhaustively over a
bounded space of project trees; the strict invariants give counterexamples that are rendered to
real directories and run (confirmation of the known findings).  TLC-emitted trees are replayed
into Project.search / complete_search / Script.search (spec->code); every recorded call on these
and on random larger trees is judged by Trace_Search.tla against the Reference (code->spec).
"""
import collections
import copy
import os
import shutil
import threading

from harness import jutil
from harness.core import MachineryError
from harness.tlc import run_tlc, cases, validate_traces

META = dict(
        spec='Search.tla, Trace_Search.tla',
        text='TLC checks exhaustively (all project trees of <=3 directories of depth <=2, <=1-2 python files, '
             'one .gitignore with an entry from a pool of basename / anchored / dir-only / file entries; 12 queries '
             'x 2 directory-listing orders) that the transcription of jedi\'s walk (in-place pruning, accumulated '
             'except sets, startswith test, Path-vs-str membership), regex pre-filter with parse/open limits, '
             'search_in_module matching, sys.path phase and de-duplication reports every expected definition / '
             'module and nothing from ignored places; the three deviations found by this check (DEV1/2/4) are repaired '
             'in the code and in the Design, the what-if Designs with the old behaviour must still fail their strict '
             'invariant and those counterexample trees must now be answered correctly by the real code.  A TLC-emitted slice of trees is written to disk and '
             'Project.search / complete_search / Script.search results must equal the model (both listing orders, '
             'os.scandir order controlled); all recorded calls on these trees, on trees with a patched parse limit '
             'and on random trees (<=30 and >30 files, all always-ignored names, several .gitignore levels, real '
             'listing order) are judged by TLC against the Reference (Trace_Search).',
        note='Trusts TLC and the harness renderer/projection.  .gitignore lines with negation/glob/escape make the '
             'subtree "don\'t care"; dotted searches (foo.bar) and name-stubs folders are not modelled; duplicates '
             'and the type filter are checked as Design conformance (drift), not as property violations; modules '
             'named by prefix only (complete_search) are allowed but not demanded.',
        technique='TLA+ spec (Design|=Reference) model-checked with TLC; spec->code replay of emitted trees; '
                  'code->spec trace validation of recorded search calls',
        design_ref='5/C19')

CFG = '''INIT Init
NEXT Next
CONSTANTS
  Pool = "%(pool)s"
  MaxDirs = %(dirs)d
  MaxDepth = %(depth)d
  MaxFiles = %(files)d
  MaxGi = %(gi)d
  MaxLines = %(lines)d
  ParseLimit = %(plimit)d
  OpenLimit = 2000
  EmitMod = %(mod)d
  EmitRem = %(rem)d
  Fixed = {%(fixed)s}
%(tail)s
CHECK_DEADLOCK FALSE
'''

# Deviations (DEV-n of Search.tla) that have been repaired in /repo: the Design then follows the patch.
# DEV1 = 1c2063e (gitignore dir string prefix), DEV2 = 1b4ae41 (gitignored files), DEV4 = 7bc3039 (project
# root in the sys.path phase).  VERIF_C19_FIXED=none|DEV1,DEV2,.. overrides (what-if on an older tree).
FIXED = ('DEV1', 'DEV2', 'DEV4')
DEV_OF = {'StrictComplete': 'DEV1', 'StrictNoIgnoredFile': 'DEV2', 'StrictNoSysPathLeak': 'DEV4'}

KNOWN_SHAPES = ('missing:gitignore-dir-string-prefix', 'ignored-reported:gitignored-file',
                'ignored-reported:root-module-via-syspath')


def effective_fixed():
    e = os.environ.get('VERIF_C19_FIXED')
    if not e:
        return tuple(FIXED)
    return () if e == 'none' else tuple(x for x in e.split(',') if x)


def write_cfg(ctx, name, tail, pool='quick', dirs=3, depth=2, files=1, gi=1, lines=1, plimit=30, mod=1, rem=0,
              fixed=None):
    fixed = effective_fixed() if fixed is None else fixed
    p = os.path.join(ctx.tmp, name)
    with open(p, 'w') as f:
        f.write(CFG % dict(pool=pool, dirs=dirs, depth=depth, files=files, gi=gi, lines=lines,
                           plimit=plimit, mod=mod, rem=rem, tail=tail,
                           fixed=', '.join('"%s"' % x for x in fixed)))
    return p


# ---------------------------------------------------------------- rendering
def render_file(defs, uses, assign_lines=False):
    """defs: list of {name(code points), kind, nested, line}; returns the text.  The line of each
    name must be the one the model carries (or is assigned when assign_lines)."""
    out = []
    for k, d in enumerate(defs, 1):
        n = jutil.dec(d['name'])
        start = len(out) + 1
        if not d['nested']:
            body = {'function': ['def %s():' % n, '    pass'],
                    'class': ['class %s:' % n, '    pass'],
                    'statement': ['%s = 1' % n]}[d['kind']]
            line = start
        else:
            body = {'function': ['class hold_%d:' % k, '    def %s(self):' % n, '        pass'],
                    'class': ['def hold_%d():' % k, '    class %s:' % n, '        pass'],
                    'statement': ['def hold_%d():' % k, '    %s = 1' % n]}[d['kind']]
            line = start + 1
        if assign_lines:
            d['line'] = line
        elif d['line'] != line:
            raise MachineryError('renderer/model line mismatch: %r at line %d' % (d, line))
        out += body
    for u in sorted(jutil.dec(x) for x in uses):
        out.append(u)
    return '\n'.join(out) + ('\n' if out else '')


def seg_path(root, path):
    return os.path.join(root, *[jutil.dec(s) for s in path])


def render_tree(tree, root):
    os.makedirs(root)
    for d in sorted(tree['dirs'], key=len):
        os.makedirs(seg_path(root, d), exist_ok=True)
    for g in tree['gi']:
        with open(os.path.join(seg_path(root, g['dir']), '.gitignore'), 'w') as f:
            f.write(''.join(jutil.dec(l) + '\n' for l in g['lines']))
    texts = {}
    for fr in tree['files']:
        p = seg_path(root, fr['path'])
        txt = render_file(fr['defs'], fr['uses'])
        with open(p, 'w') as f:
            f.write(txt)
        texts[p] = txt
    return texts


# ---------------------------------------------------------------- controlled directory listing order
_real_scandir = os.scandir


class _Listed:
    def __init__(self, ents):
        self._it = iter(ents)

    def __iter__(self):
        return self

    def __next__(self):
        return next(self._it)

    def __enter__(self):
        return self

    def __exit__(self, *a):
        return False

    def close(self):
        pass


def set_listing_order(mode):
    """os.walk (FolderIO.walk) lists through os.scandir; the order of a directory listing is an
    environment choice that the model makes explicit: 'asc' / 'desc' by name, None = the OS's."""
    if mode is None:
        os.scandir = _real_scandir
        return

    def scandir(path='.'):
        with _real_scandir(path) as it:
            ents = list(it)
        ents.sort(key=lambda e: e.name, reverse=(mode == 'desc'))
        return _Listed(ents)
    os.scandir = scandir


# ---------------------------------------------------------------- driving the real code
def qstring(q):
    return {'': '', 'function': 'def ', 'class': 'class '}[q['type']] + jutil.dec(q['name'])


def project_item(d, root):
    mp = d.module_path
    if mp is None:
        path = []
    else:
        try:
            rel = os.path.relpath(str(mp), root)
        except ValueError:
            return None
        if rel.startswith('..'):
            return None
        path = [jutil.enc(s) for s in rel.split(os.sep)]
    t = d.type
    if t == 'instance':       # with stubs a literal assignment infers to an instance
        t = 'statement'
    return {'path': path, 'line': d.line or 0, 'name': jutil.enc(d.name), 'type': t}


def make_project(root):
    import jedi
    proj = jedi.Project(root)
    proj._environment = jutil.env()
    return proj


def run_search(root, q):
    proj = make_project(root)
    f = proj.complete_search if q['complete'] else proj.search
    r = jutil.safe(lambda: list(f(qstring(q), all_scopes=q['all'])))
    if r[0] == 'exc':
        return {'exc': r[2]}
    items = [project_item(d, root) for d in r[1]]
    return {'res': [i for i in items if i is not None]}


def run_script_search(code, path, q):
    s = jutil.script(code, path=path, proj=jutil.project(os.path.dirname(path)))

    def it(d):
        return {'line': d.line or 0, 'col': d.column or 0, 'name': jutil.enc(d.name), 'type': d.type}

    def go():
        gn = s.get_names(all_scopes=q['all'], definitions=True, references=False)
        f = s.complete_search if q['complete'] else s.search
        return [it(d) for d in gn], [it(d) for d in f(qstring(q), all_scopes=q['all'])]
    r = jutil.safe(go)
    if r[0] == 'exc':
        return {'exc': r[2]}
    return {'gn': r[1][0], 'res': r[1][1]}


def _setup_worker(tmp):
    """parso's pickle cache is per process here (concurrent writers corrupt a shared one)."""
    import jedi
    jedi.settings.cache_directory = os.path.join(tmp, 'jedi_cache', str(os.getpid()))


def header(tree, plimit):
    return {'t': 'tree', 'dirs': tree['dirs'],
            'files': [{'path': f['path'], 'defs': f['defs'], 'uses': f['uses']} for f in tree['files']],
            'gi': tree['gi'], 'plimit': plimit}


def key_item(i):
    return (tuple(tuple(s) for s in i['path']), i['line'], tuple(i['name']), i['type'])


def show_item(k):
    return ('/'.join(jutil.dec(s) for s in k[0]) or None, k[1], jutil.dec(k[2]), k[3])


def replay_case(arg):
    """Materialise one TLC case, run every query in both listing orders, compare with the Design's
    prediction, and record the calls for Trace_Search."""
    tmp, idx, case, patched_limit = arg
    _setup_worker(tmp)
    import jedi.inference.references as refs
    root = os.path.join(tmp, 'cases', 'c%d' % idx, 'r')
    texts = render_tree(case, root)
    real_limit = refs._PARSED_FILE_LIMIT
    if patched_limit:
        refs._PARSED_FILE_LIMIT = patched_limit
    trace = [header(case, case['plimit'])]
    drifts, crashes, nq = [], [], 0
    try:
        for p in case['preds']:
            q = p['q']
            for mode in ('asc', 'desc'):
                set_listing_order(mode)
                try:
                    o = run_search(root, q)
                finally:
                    set_listing_order(None)
                nq += 1
                if 'exc' in o:
                    crashes.append({'q': qstring(q), 'mode': mode, 'exc': o['exc']})
                    continue
                trace.append({'t': 'q', 'q': q, 'res': o['res'], 'mode': mode})
                got = collections.Counter(key_item(i) for i in o['res'])
                exp = collections.Counter(key_item(i) for i in p[mode])
                if got != exp:
                    drifts.append({'q': qstring(q), 'complete': q['complete'], 'all': q['all'], 'mode': mode,
                                   'design_only': [show_item(k) for k in (exp - got).elements()],
                                   'code_only': [show_item(k) for k in (got - exp).elements()]})
        # Script.search on every buffer of the tree
        for f in case['files']:
            path = seg_path(root, f['path'])
            for qi, p in enumerate(case['preds']):
                q = p['q']
                o = run_script_search(texts[path], path, q)
                nq += 1
                if 'exc' in o:
                    crashes.append({'q': qstring(q), 'script': path, 'exc': o['exc']})
                    continue
                trace.append({'t': 's', 'q': q, 'gn': o['gn'], 'res': o['res']})
                got = sorted((i['line'], tuple(i['name']), i['type']) for i in o['res'])
                exp = sorted((i['line'], tuple(i['name']), i['type']) for i in f['ss'][qi])
                if got != exp:
                    drifts.append({'script': os.path.relpath(path, root), 'q': qstring(q), 'all': q['all'],
                                   'design': [(a, jutil.dec(b), c) for a, b, c in exp],
                                   'code': [(a, jutil.dec(b), c) for a, b, c in got]})
    finally:
        refs._PARSED_FILE_LIMIT = real_limit
    listing = sorted(os.path.relpath(os.path.join(dp, n), root) for dp, dn, fn in os.walk(root) for n in dn + fn)
    shutil.rmtree(os.path.dirname(root), True)
    return {'idx': idx, 'trace': trace, 'drifts': drifts, 'crashes': crashes, 'nq': nq, 'listing': listing,
            'texts': {os.path.relpath(k, root): v for k, v in texts.items()}}


# ---------------------------------------------------------------- random trees (code -> spec)
IDENTS = ['zeta', 'zetab', 'Zeta', 'omeg', 'omega', 'kappa_q']
DIRN = ['pk', 'pkg', 'a', 'ab', 'sub', 'zeta', 'omega', 'node', 'venv', '.venv', '.tox', '.mypy_cache',
        '__pycache__', 'src']
FILEN = ['m.py', 'n.py', 'zeta.py', 'omega.py', '__init__.py', 's.pyi', 't.pyi', 'data.txt', 'kappa_q.py']
ALWAYS = ('venv', '.venv', '.tox', '.mypy_cache', '__pycache__')


def random_tree(rng, nfiles_max, forced_dir=None):
    ndirs = rng.randint(2, 9)
    dirs = []
    if forced_dir:
        dirs.append([forced_dir])
    while len(dirs) < ndirs:
        parent = rng.choice([[]] + [d for d in dirs if len(d) < 3])
        d = parent + [rng.choice(DIRN)]
        if d not in dirs:
            dirs.append(d)
    alld = [[]] + dirs
    files = {}
    nfiles = rng.randint(3, nfiles_max) if nfiles_max <= 30 else rng.randint(33, nfiles_max)
    tries = 0
    while len(files) < nfiles and tries < 400:
        tries += 1
        d = rng.choice(alld)
        if forced_dir and len(files) < 2:
            d = [forced_dir]
        n = rng.choice(FILEN)
        if nfiles > 25 and len(files) >= 12:
            n = 'f%d.py' % len(files)
        p = tuple(d + [n])
        if p in files:
            continue
        defs = []
        for _ in range(rng.choice([0, 1, 1, 2, 2, 3])):
            defs.append({'name': jutil.enc(rng.choice(IDENTS)), 'kind': rng.choice(['function', 'class', 'statement']),
                         'nested': rng.random() < 0.4, 'line': 0})
        uses = sorted(set(rng.choice(IDENTS) for _ in range(rng.choice([0, 0, 1]))))
        files[p] = {'path': [jutil.enc(s) for s in p], 'defs': defs, 'uses': [jutil.enc(u) for u in uses]}
        render_file(defs, files[p]['uses'], assign_lines=True)
    nodes = [(d, True) for d in dirs] + [(list(p), False) for p in files]
    gi = []
    for gd in rng.sample(alld, min(len(alld), rng.choice([1, 1, 2, 3]))):
        below = [(n, isd) for n, isd in nodes if n[:len(gd)] == gd and len(n) > len(gd)]
        lines = []
        for _ in range(rng.randint(1, 3)):
            r = rng.random()
            if below and r < 0.75:
                n, isd = rng.choice(below)
                rel = n[len(gd):]
                form = rng.choice(['base', 'base', 'base/', 'anch', 'mid'])
                if form == 'base':
                    lines.append(rel[-1])
                elif form == 'base/':
                    lines.append(rel[-1] + ('/' if isd else ''))
                elif form == 'anch':
                    lines.append('/' + '/'.join(rel) + ('/' if isd and rng.random() < 0.3 else ''))
                else:
                    lines.append('/'.join(rel) if len(rel) > 1 else '/' + rel[0])
            elif r < 0.85:
                lines.append(rng.choice(['#zeta', '', '# a comment', 'nonexistent', 'build/', '/dist']))
            elif r < 0.93:
                lines.append(rng.choice(DIRN[:8]))
            else:
                lines.append(rng.choice(['!zeta', '*.pyc', '*.pyi', 'z*']))
        gi.append({'dir': [jutil.enc(s) for s in gd], 'lines': [jutil.enc(l) for l in lines]})
    return {'dirs': [[jutil.enc(s) for s in d] for d in dirs], 'files': list(files.values()), 'gi': gi}


def random_queries(rng, tree, n):
    names = sorted(set(jutil.dec(d['name']) for f in tree['files'] for d in f['defs']) |
                   set(jutil.dec(d[-1]) for d in tree['dirs'] if jutil.dec(d[-1]).isidentifier()
                       and jutil.dec(d[-1]) not in ALWAYS))
    qs = []
    for nm in names:
        for comp in (False, True):
            for a in (False, True):
                qs.append({'name': jutil.enc(nm), 'complete': comp, 'all': a, 'type': ''})
        qs.append({'name': jutil.enc(nm[:3]), 'complete': True, 'all': rng.random() < 0.5, 'type': ''})
        qs.append({'name': jutil.enc(nm), 'complete': False, 'all': True, 'type': rng.choice(['function', 'class'])})
    rng.shuffle(qs)
    return qs[:n]


def random_case(arg):
    tmp, idx, seed, big, nq = arg
    import random
    _setup_worker(tmp)
    rng = random.Random(seed)
    forced = rng.choice(ALWAYS + (None, None)) if not big else None
    tree = random_tree(rng, 40 if big else 28, forced)
    npy = sum(1 for f in tree['files'] if jutil.dec(f['path'][-1]).endswith(('.py', '.pyi')))
    root = os.path.join(tmp, 'rand', 't%d' % idx, 'proj')
    texts = render_tree(tree, root)
    trace = [header(tree, 30)]
    crashes = []
    mode = rng.choice([None, None, 'asc', 'desc'])
    for q in random_queries(rng, tree, nq):
        set_listing_order(mode)
        try:
            o = run_search(root, q)
        finally:
            set_listing_order(None)
        if 'exc' in o:
            crashes.append({'q': qstring(q), 'exc': o['exc']})
            continue
        trace.append({'t': 'q', 'q': q, 'res': o['res'], 'mode': mode or 'os'})
    fl = sorted(texts)
    for path in fl[:3]:
        for q in random_queries(rng, tree, 3):
            o = run_script_search(texts[path], path, q)
            if 'exc' in o:
                crashes.append({'q': qstring(q), 'script': path, 'exc': o['exc']})
                continue
            trace.append({'t': 's', 'q': q, 'gn': o['gn'], 'res': o['res']})
    listing = sorted(os.path.relpath(os.path.join(dp, n), root) for dp, dn, fn in os.walk(root) for n in dn + fn)
    gitext = {os.path.join('/'.join(jutil.dec(s) for s in g['dir']), '.gitignore'): [jutil.dec(l) for l in g['lines']]
              for g in tree['gi']}
    shutil.rmtree(os.path.dirname(root), True)
    return {'idx': idx, 'trace': trace, 'crashes': crashes, 'npy': npy, 'listing': listing, 'gitignore': gitext,
            'names_used': sorted(set(jutil.dec(d[-1]) for d in tree['dirs']))}


# ---------------------------------------------------------------- helpers for verdicts
def strip_event(e):
    return {k: v for k, v in e.items() if k != 'mode'}


def describe_event(trace, at, info):
    ev = trace[at - 1] if at and at <= len(trace) else None
    d = dict(info)
    if ev:
        d['event'] = {'t': ev['t'], 'query': qstring(ev['q']), 'complete': ev['q']['complete'],
                      'all_scopes': ev['q']['all'], 'listing_order': ev.get('mode'),
                      'results': [show_item(key_item(i)) for i in ev['res']] if ev['t'] == 'q' else
                      [(i['line'], i['col'], jutil.dec(i['name']), i['type']) for i in ev['res']]}
        if ev['t'] == 's':
            d['event']['get_names'] = [(i['line'], i['col'], jutil.dec(i['name']), i['type']) for i in ev['gn']]
    return d


def why_pairs(v):
    """Trace_Search prints the rejected calls as ToJson({<<event index, shape>>, ...})."""
    import json
    w = v.get('why')
    if isinstance(w, str):
        return sorted((int(a), str(b)) for a, b in json.loads(w))
    return []


def judge_all(ctx, label, traces, infos):
    """Trace_Search decides; a REJECT lists (event index, failing shape) for every rejected call ->
    one violation per rejected call and shape."""
    if not traces:
        return
    vs = validate_traces('Trace_Search', 'Trace_Search.cfg', [[strip_event(e) for e in t] for t in traces],
                         ctx, label, timeout=3000, chunk=1500)
    for v, t, info in zip(vs, traces, infos):
        if v['accepted']:
            continue
        pairs = why_pairs(v)
        if not pairs:
            raise MachineryError('trace rejected without a reason: %s' % v)
        for at, shape in sorted(pairs):
            ctx.violation(shape, 'search result violates the Reference (%s)' % shape, describe_event(t, at, info))


# ---------------------------------------------------------------- main
def run(ctx):
    quick = ctx.quick
    os.makedirs(os.path.join(ctx.tmp, 'jedi_cache'), exist_ok=True)

    # All TLC jobs are independent of each other and of the real code: they run side by side.
    #  main*          Design |= Reference modulo known shapes, exhaustive
    #  strict_*       the strict invariants (a counterexample is expected while a finding is open)
    #  emit*          emission of cases with the Design's predictions (one worker: ordered printing)
    #  emit_limit     the parse-limit model (ParseLimit=2): invariant + emission
    # VERIF_C19_REDUCED=1: thorough structure with the quick bounds of the big runs (for busy machines)
    reduced = bool(os.environ.get('VERIF_C19_REDUCED'))
    small = quick or reduced
    fixed = effective_fixed()
    all_fixed = set(fixed) >= {'DEV1', 'DEV2', 'DEV4'}
    ctx.coverage['reduced_thorough'] = reduced and not quick
    ctx.coverage['design_follows_fixes'] = sorted(fixed)
    main_bounds = dict(pool='quick', dirs=3, depth=2, files=1 if small else 2, gi=1, lines=1)
    strict = [('strict_prefix', 'StrictComplete', dict(pool='quick', dirs=3, depth=2, files=0, gi=1, lines=1)),
              ('strict_file', 'StrictNoIgnoredFile', dict(pool='quick', dirs=0, depth=2, files=1, gi=1, lines=1)),
              ('strict_syspath', 'StrictNoSysPathLeak', dict(pool='quick', dirs=1, depth=1, files=1, gi=1, lines=1))]
    # quick: emission from the 2-directory space (10,752 trees); thorough: from the 3-directory space
    emit_bounds = dict(pool='quick', dirs=2 if quick else 3, depth=2, files=1, gi=1, lines=1)
    mod = 47 if quick else (97 if reduced else 23)
    wmod = 97 if reduced else 47
    lmod = 3 if quick else 5
    wide_bounds = dict(pool='thorough', dirs=1 if reduced else 2, depth=2, files=1, gi=1, lines=1)
    # with every deviation repaired the full statement is checked, otherwise "modulo the open shapes"
    INV = 'INVARIANT DesignMeetsReference' if all_fixed else 'INVARIANT DesignMeetsReferenceModuloKnown'
    ctx.coverage['main_invariant'] = INV.split()[1]
    jobs = [('main', INV, 14 if quick else 12, main_bounds)]
    if not quick:
        jobs += [('main_wide', INV, 2, wide_bounds),
                 ('main_lines', INV, 2, dict(pool='thorough', dirs=1, depth=1, files=1, gi=1, lines=2)),
                 ('emit_wide', 'CONSTRAINT Emit', 1, dict(wide_bounds, mod=wmod, rem=ctx.seed % wmod))]
    # strict invariants: for a repaired deviation the invariant must hold with today's Design (checked in the
    # small emission runs below) and a what-if run with the old behaviour of that deviation must still fail
    # (the Reference is sensitive to it); for an open deviation the counterexample is expected as is.
    hold_dirs, hold_small = [], []
    for n, inv, b in strict:
        dev = DEV_OF[inv]
        if dev in fixed:
            (hold_dirs if inv == 'StrictComplete' else hold_small).append('INVARIANT ' + inv)
            jobs.append((n, 'INVARIANT ' + inv, 1, dict(b, fixed=tuple(x for x in fixed if x != dev))))
        else:
            jobs.append((n, 'INVARIANT ' + inv, 1, b))
    jobs += [('emit', 'CONSTRAINT Emit', 1, dict(emit_bounds, mod=mod, rem=ctx.seed % mod)),
             ('emit_dirs', '\n'.join(['CONSTRAINT Emit'] + hold_dirs), 1,
              dict(pool='quick', dirs=3, depth=2, files=0, gi=1, lines=1)),
             ('emit_small', '\n'.join(['CONSTRAINT Emit'] + hold_small), 1,
              dict(pool='quick', dirs=1, depth=1, files=1, gi=1, lines=1)),
             ('emit_limit', 'CONSTRAINT Emit\n' + INV, 1,
              dict(pool='limits', dirs=1, depth=1, files=3 if quick else 4, gi=0 if quick else 1, lines=1, plimit=2,
                   mod=lmod, rem=ctx.seed % lmod))]
    ctx.coverage['bounds'] = {j[0]: j[3] for j in jobs}
    runs = {}

    def tlc(name, tail, workers, b):
        cfg = write_cfg(ctx, name + '.cfg', tail, **b)
        try:
            runs[name] = run_tlc('Search', cfg, workers=workers, timeout=5000)
        except BaseException as e:  # noqa
            runs[name] = e
    ctx.log('TLC: %d runs side by side (exhaustive Design|=Reference, strict invariants, case emission)' % len(jobs))
    ths = [threading.Thread(target=tlc, args=j) for j in jobs]
    for t in ths:
        t.start()
    for t in ths:
        t.join()
    for n, r in runs.items():
        if isinstance(r, BaseException):
            raise r if isinstance(r, MachineryError) else MachineryError('TLC run %s failed: %r' % (n, r))
    for n in [k for k in runs if k.startswith('main')]:
        res = runs[n]
        ctx.add_tlc(res, '%s, exhaustive (%s: %s)' % (INV.split()[1], n, [j[3] for j in jobs if j[0] == n][0]))
        if res.violated:
            raise MachineryError('Search.tla: the Design deviates from the Reference (%s, not an open finding); '
                                 'last state:\n%s' % (res.violated, res.trace[-1:]))
    if runs['main'].distinct < (50000 if small else 500000):
        raise MachineryError('vacuity: only %d states' % runs['main'].distinct)
    ctx.coverage['exhaustive'] = True
    ctx.log('main run: %d distinct states in %.0fs' % (runs['main'].distinct, runs['main'].wall))

    # strict invariants: held by today's Design where the deviation is repaired (part of emit_dirs / emit_small),
    # violated by the what-if Design with the old behaviour; the counterexample trees go to the real code
    for n in ('emit_dirs', 'emit_small'):
        if runs[n].violated:
            raise MachineryError('Search.tla: strict invariant %s is violated by the repaired Design: %s'
                                 % (runs[n].violated, runs[n].trace[-1:]))
    ctx.coverage['strict_invariants_hold'] = sorted(i.split()[1] for i in hold_dirs + hold_small)
    cex_cases = []
    for n, inv, b in strict:
        res = runs[n]
        whatif = DEV_OF[inv] in fixed
        ctx.add_tlc(res, 'strict invariant %s %s' % (inv, 'on the what-if Design with the old behaviour of %s '
                                                     '(must fail)' % DEV_OF[inv] if whatif else
                                                     '(counterexample expected while the finding is open)'))
        if not res.violated:
            if whatif:
                raise MachineryError('sensitivity lost: %s holds although %s is switched back to the old behaviour'
                                     % (inv, DEV_OF[inv]))
            ctx.notes.append('%s holds in the bounded model: the Design no longer has this deviation' % inv)
            continue
        st = res.trace[-1]['vars']
        cex_cases.append((inv, state_to_tree(st)))
    ctx.coverage['strict_counterexamples'] = [inv for inv, _ in cex_cases]

    # emitted cases -> replay (spec -> code).  The counterexample trees are looked up among the
    # emitted small trees, so that they carry the Design's predictions like every other case.
    ctx.add_tlc(runs['emit'], 'case emission slice %d mod %d (%s)' % (ctx.seed % mod, mod, emit_bounds))
    cs = cases(runs['emit'])
    if not quick:
        ctx.add_tlc(runs['emit_wide'], 'case emission (wide pools) slice %d mod %d (%s)' % (ctx.seed % wmod, wmod, wide_bounds))
        cs += cases(runs['emit_wide'])
    ctx.add_tlc(runs['emit_dirs'], 'case emission: all trees without python files (<=3 dirs, <=1 .gitignore)')
    cs_dirs = cases(runs['emit_dirs'])
    ctx.add_tlc(runs['emit_small'], 'case emission: all trees with <=1 dir, <=1 file, <=1 .gitignore')
    cs_small = cases(runs['emit_small'])
    by_tree = {tree_key(c): c for c in cs_dirs + cs_small}
    cex_emitted = []
    for inv, tree in cex_cases:
        c = by_tree.get(tree_key(tree))
        if c is None:
            raise MachineryError('counterexample of %s not found among the emitted trees' % inv)
        cex_emitted.append((inv, c))
    rng = ctx.rng
    rng.shuffle(cs_dirs)
    rng.shuffle(cs_small)
    extra = cs_dirs[:50 if quick else (200 if reduced else 1200)] + cs_small[:80 if quick else (200 if reduced else 896)]
    if len(cs) < (150 if quick else (500 if reduced else 4000)):
        raise MachineryError('too few cases emitted: %d' % len(cs))
    allcases = [c for _, c in cex_emitted] + cs + extra
    ctx.log('replaying %d TLC trees (x %d queries x 2 listing orders + Script.search)' % (len(allcases), len(allcases[0]['preds'])))
    results = jutil.pmap(replay_case, [(ctx.tmp, i, c, None) for i, c in enumerate(allcases)])
    jutil.check_worker_errors(results)
    traces, infos = [], []
    confirmed = {}
    for r, c in zip(results, allcases):
        ctx.count('replayed_trees')
        ctx.count('replayed_calls', r['nq'])
        info = {'tree': r['listing'], 'files': r['texts'],
                'gitignore': {'/'.join(jutil.dec(s) for s in g['dir']) + '/.gitignore': [jutil.dec(l) for l in g['lines']]
                              for g in c['gi']}}
        for cr in r['crashes']:
            ctx.violation('crash:' + cr['exc'], 'search raised on a generated tree', dict(info, call=cr))
        for d in r['drifts']:
            ctx.drift(dict(info, diff=d))
        traces.append(r['trace'])
        infos.append(info)
        if r['idx'] < len(cex_emitted):
            confirmed[cex_emitted[r['idx']][0]] = (r, info)
        ctx.sample({'tree': r['listing'], 'gitignore': info['gitignore'], 'files': r['texts'],
                    'design_shapes': c['why'],
                    'first_call': describe_event(r['trace'], 2, {}).get('event')}, limit=5)

    # 4. parse limit: the model with ParseLimit=2 against the code with _PARSED_FILE_LIMIT patched to 2
    resl = runs['emit_limit']
    ctx.add_tlc(resl, 'parse-limit model (ParseLimit=2): invariant + case emission')
    if resl.violated:
        raise MachineryError('Search.tla (limits pool): unknown deviation shape: %s' % resl.trace[-1:])
    lim = cases(resl)
    if len(lim) < 100:
        raise MachineryError('too few limit cases: %d' % len(lim))
    ctx.log('replaying %d parse-limit trees with _PARSED_FILE_LIMIT patched to 2' % len(lim))
    lres = jutil.pmap(replay_case, [(ctx.tmp, 100000 + i, c, 2) for i, c in enumerate(lim)])
    jutil.check_worker_errors(lres)
    nlimit_effective = 0
    for r, c in zip(lres, lim):
        ctx.count('replayed_limit_trees')
        info = {'tree': r['listing'], 'files': r['texts'], 'patched_parse_limit': 2}
        for cr in r['crashes']:
            ctx.violation('crash:' + cr['exc'], 'search raised on a generated tree', dict(info, call=cr))
        for d in r['drifts']:
            ctx.drift(dict(info, diff=d))
        if len([f for f in c['files']]) > 2:
            nlimit_effective += 1
        traces.append(r['trace'])
        infos.append(info)
    ctx.coverage['limit_trees_with_more_files_than_limit'] = nlimit_effective

    # 5. random larger trees (code -> spec)
    nrand = 40 if quick else (150 if reduced else 500)
    ctx.log('driving %d random trees' % nrand)
    rr = jutil.pmap(random_case, [(ctx.tmp, i, ctx.seed * 100003 + i, i % 10 == 9, 24 if quick else 40)
                                  for i in range(nrand)], chunksize=1)
    jutil.check_worker_errors(rr)
    seen_names = set()
    for r in rr:
        ctx.count('random_trees')
        ctx.count('random_calls', len(r['trace']) - 1)
        if r['npy'] > 30:
            ctx.count('random_trees_over_file_limit')
        seen_names |= set(r['names_used'])
        info = {'tree': r['listing'], 'gitignore': r['gitignore'], 'random_tree': r['idx']}
        for cr in r['crashes']:
            ctx.violation('crash:' + cr['exc'], 'search raised on a random tree', dict(info, call=cr))
        traces.append(r['trace'])
        infos.append(info)
    missing_names = [n for n in ALWAYS if n not in seen_names]
    if missing_names:
        raise MachineryError('random trees never used the always-ignored names %s' % missing_names)
    ctx.coverage['always_ignored_names_exercised'] = sorted(ALWAYS)

    # 6. TLC judges every recorded call against the Reference
    nev = sum(len(t) - 1 for t in traces)
    ctx.log('validating %d traces, %d calls' % (len(traces), nev))
    ctx.count('calls_judged_by_reference', nev)
    before = dict(ctx.known_hits)
    judge_all(ctx, 'Trace_Search', traces, infos)

    # the counterexample trees on the real code: an open deviation must be reproduced, a repaired one must not
    # (a reproduced repaired shape has already been raised as a VIOLATION by judge_all: fixed entries suppress nothing)
    shape_of = {'StrictComplete': KNOWN_SHAPES[0], 'StrictNoIgnoredFile': KNOWN_SHAPES[1],
                'StrictNoSysPathLeak': KNOWN_SHAPES[2]}
    hit_keys = set(ctx.known_hits) | set(k for k, _, _ in ctx.violations)
    conf = {}
    for inv, _ in cex_emitted:
        r, info = confirmed[inv]
        reproduced = shape_of[inv] in hit_keys
        repaired = DEV_OF[inv] in fixed
        conf[inv] = {'shape': shape_of[inv], 'tree': info['tree'], 'gitignore': info['gitignore'],
                     'design': 'repaired (what-if counterexample)' if repaired else 'open deviation',
                     'reproduced_on_real_code': reproduced, 'model_vs_code_drift': len(r['drifts'])}
        if not repaired and not reproduced:
            ctx.notes.append('counterexample of %s is not reproduced by the real code: the defect was repaired, '
                             'add %s to FIXED and set known_findings.d/C19.json to fixed' % (inv, DEV_OF[inv]))
    ctx.coverage['counterexamples_on_real_code'] = conf
    del before

    # 7. binding self-test: corrupted records must be rejected
    selftest(ctx, traces)

    ctx.assumptions += [
        'directory listing order is either ascending or descending by name in the replay (os.scandir wrapped); '
        'random trees use the OS order',
        'query names never equal a word of the rendering boilerplate (def/class/pass/self/hold_N)',
        'results whose module_path lies outside the project root (sys.path phase) are not judged',
        'the file limit of the Reference is 30 parsed files (constant of the spec, not read from the code)',
        'typeshed is absent: statement names have type "statement" (an "instance" answer is normalised to it)']
    return None


def state_to_tree(st):
    def seqs(v):
        return v[1] if isinstance(v, tuple) and v[0] == 'set' else v
    dirs = [list(p) for p in seqs(st['dirs'])]
    files = []
    for f in seqs(st['files']):
        files.append({'path': f['path'], 'defs': list(f['defs']), 'uses': list(seqs(f['uses']))})
    gis = [{'dir': g['dir'], 'lines': g['lines']} for g in seqs(st['gi'])]
    return {'dirs': dirs, 'files': files, 'gi': gis}


def tree_key(t):
    def tup(x):
        if isinstance(x, (list, tuple)):
            return tuple(tup(y) for y in x)
        if isinstance(x, dict):
            return tuple(sorted((k, tup(v)) for k, v in x.items() if k != 'ss'))
        return x
    return (frozenset(tup(d) for d in t['dirs']),
            frozenset((tup(f['path']), tup([(tup(d['name']), d['kind'], d['nested'], d['line']) for d in f['defs']]),
                       frozenset(tup(u) for u in f['uses'])) for f in t['files']),
            frozenset((tup(g['dir']), tup(g['lines'])) for g in t['gi']))


def selftest(ctx, traces):
    bad = []
    # (a) drop a demanded definition from a result
    for t in traces:
        hdr = t[0]
        if any(jutil.dec(l)[:1] in ('!', '*') or '*' in jutil.dec(l) for g in hdr['gi'] for l in g['lines']):
            continue
        if hdr['gi'] or sum(1 for f in hdr['files']) > hdr['plimit']:
            continue
        for e in t[1:]:
            if e['t'] == 'q' and not e['q']['complete'] and e['q']['type'] == '':
                idx = [i for i, r in enumerate(e['res']) if r['path'] and r['type'] != 'module'
                       and r['name'] == e['q']['name']
                       and not any(jutil.dec(s) in ALWAYS for s in r['path'])]
                if idx:
                    e2 = copy.deepcopy(e)
                    del e2['res'][idx[0]]
                    bad.append(('dropped-definition', [t[0], strip_event(e2)], 'missing:unexplained'))
                    break
        if bad:
            break
    # (b) add a result from an always-ignored folder
    for t in traces:
        hdr = t[0]
        ign = [f for f in hdr['files'] if any(jutil.dec(s) in ALWAYS for s in f['path'][:-1]) and f['defs']
               and len(f['path']) > 2]
        unsupported = any(jutil.dec(l)[:1] == '!' or any(c in jutil.dec(l) for c in '*?[\\ ') for g in hdr['gi'] for l in g['lines'])
        if ign and not unsupported:
            f = ign[0]
            d = f['defs'][0]
            e = {'t': 'q', 'q': {'name': d['name'], 'complete': False, 'all': True, 'type': ''},
                 'res': [{'path': f['path'], 'line': d['line'], 'name': d['name'], 'type': d['kind']}]}
            bad.append(('added-ignored-result', [t[0], e], 'ignored-reported:unexplained'))
            break
    # (c) Script.search result dropped / foreign item added
    for t in traces:
        for e in t[1:]:
            if e['t'] == 's' and e['res'] and not e['q']['complete'] and \
                    any(r['name'] == e['q']['name'] for r in e['res']):
                e2 = copy.deepcopy(e)
                e2['res'] = [r for r in e2['res'] if r['name'] != e['q']['name']]
                bad.append(('script-result-dropped', [t[0], e2], 'script:missing'))
                e3 = copy.deepcopy(e)
                e3['res'].append(dict(e3['res'][0], line=e3['res'][0]['line'] + 1000))
                bad.append(('script-foreign-result', [t[0], e3], 'script:not-in-get_names'))
                break
        if len(bad) >= 4:
            break
    kinds = [b[0] for b in bad]
    for need in ('dropped-definition', 'added-ignored-result', 'script-result-dropped'):
        if need not in kinds:
            raise MachineryError('binding self-test: no trace suitable for corruption %r' % need)
    n0 = ctx.coverage['traces_validated_against_impl']
    vs = validate_traces('Trace_Search', 'Trace_Search.cfg', [b[1] for b in bad], ctx, 'binding self-test')
    ctx.coverage['traces_validated_against_impl'] = n0
    for b, v in zip(bad, vs):
        if True:
            if v['accepted'] or b[2] not in [w for _, w in why_pairs(v)]:
                raise MachineryError('binding self-test: corrupted trace %s not rejected with %s: %s' % (b[0], b[2], v))
    ctx.coverage['binding_selftest'] = 'corrupted records rejected: %s' % [(b[0], sorted(set(w for _, w in why_pairs(v)))) for b, v in zip(bad, vs)]
