"""C15 -- inference gives up instead of recursing or exploding.

spec/Engine.tla: the engine as a guarded recursive machine over definition graphs (memo with default,
statement guard, execution budgets, per-context cap).  TLC: every query terminates, work and depth
bounded by the polynomial Bound, guards balanced on every path -- for every graph of the bounded
space and every cycle shape; what-if configurations without the guards must fail.
spec->code: every enumerated graph is rendered to a program and every query run under a watchdog with
step / frame counters; self-referential idioms; scaling families.  code->spec: guard events of all
those runs are validated by Trace_Engine.tla against the detector rule transcribed from the code.
"""
import random

from harness import jutil
from harness.core import MachineryError
from harness.enginecases import engine_cfg, render_graph, render_import_graph, IDIOMS, IMPORT_IDIOMS, family, FAMILIES
from harness.tlc import run_tlc, cases, validate_traces

META = dict(
    spec='Engine.tla, Trace_Engine.tla',
    text='TLC checks on every definition graph of 4 nodes (literal, 2 statements, 1 function; out-degree <= 2; '
         'all cycle shapes) x 2 queries that each query terminates (liveness under fairness, and as safety: steps '
         '<= a polynomial Bound, stack depth bounded) and that every guard pushed is popped; configurations with the '
         'limits removed must fail. Each graph is rendered to a program (several idioms) and every query executed '
         'under a watchdog counting _infer_node steps and Python frames; 16 self-referential idioms (cyclic '
         'assignment/inheritance, recursive decorators, properties, generators, __getattr__, containers) and 5 '
         'scaling families (n up to 32/64) are run; the recorded guard events are validated by TLC against the '
         'ExecutionRecursionDetector rule (15/200/6/2) and the statement guard.',
    note='Polynomial growth is an empirical envelope (steps(2n) <= 10*steps(n)+1000) tied to the model bound, not a '
         'proof about the Python code; hang detection is a watchdog; typeshed-absent internal errors are C01 findings.',
    technique='TLA+ guarded-recursion machine model-checked with TLC (safety + liveness + what-if); rendered graphs '
              'and scaling families executed under counters; guard-event traces validated by TLC',
    design_ref='5/C15')

QUERIES = ['infer', 'goto', 'complete', 'get_references', 'help', 'get_signatures']


def run_program(arg):
    """Execute every query at every use position of a program under the recorder + watchdog."""
    name, src, positions, methods = arg[:4]
    files = arg[4] if len(arg) > 4 else None          # {relative path: text}: a scratch project; src = name of the buffer file
    import signal
    from harness import enginerec
    enginerec.install()

    class Hang(Exception):
        pass

    def alarm(sig, frm):
        raise Hang()
    signal.signal(signal.SIGALRM, alarm)
    out = []
    root = None
    if files is not None:
        import os
        import tempfile
        root = tempfile.mkdtemp(prefix='c15proj_', dir=os.environ.get('VERIF_CACHE_BASE') or None)
        for rel, text in files.items():
            os.makedirs(os.path.dirname(os.path.join(root, rel)), exist_ok=True)
            with open(os.path.join(root, rel), 'w') as f:
                f.write(text)
    for (line, col) in positions:
        for m in methods:
            if files is not None:
                import jedi
                s = jedi.Script(files[src], path=os.path.join(root, src), project=jedi.Project(root), environment=jutil.env())
            else:
                s = jutil.script(src)
            signal.alarm(60)
            try:
                r, evs, steps = enginerec.query(lambda: getattr(s, m)(line, col))
            except Hang:
                out.append({'name': name, 'm': m, 'pos': [line, col], 'outcome': 'HANG', 'steps': -1, 'events': []})
                continue
            finally:
                signal.alarm(0)
            if r[0] == 'ok':
                oc = 'ok'
                ans = sorted(set(x.name for x in r[1]))[:6] if m == 'infer' else None
            else:
                e = r[1]
                oc = type(e).__name__
                ans = None
            out.append({'name': name, 'm': m, 'pos': [line, col], 'outcome': oc, 'steps': steps, 'answer': ans,
                        'events': evs})
    return out


def last_positions(src):
    lines = src.split('\n')
    while lines and lines[-1] == '':
        lines.pop()
    return [(len(lines), len(lines[-1])), (len(lines), 0)]


def run(ctx):
    quick = ctx.quick
    # ---- 1. TLC: safety, liveness, what-ifs
    res = run_tlc('Engine', engine_cfg(ctx, 'safety.cfg'), workers=16, timeout=3000)
    ctx.add_tlc(res, 'safety: all graphs K=4, 2 queries')
    if res.violated:
        ctx.violation('design:%s' % res.violated, 'Engine.tla violates %s' % res.violated, {'trace': res.trace[-3:]})
        return ctx.finish()
    if res.distinct < 50000:
        raise MachineryError('vacuity: %d states' % res.distinct)
    ctx.coverage['exhaustive'] = True
    res = run_tlc('Engine', engine_cfg(ctx, 'live.cfg', invs=[], props=['Terminates'], spec=True, K=3, funcs='3',
                                       queries=1), workers=16, timeout=3000)
    ctx.add_tlc(res, 'liveness Terminates (K=3, WF Step)')
    if res.violated:
        raise MachineryError('Terminates violated in the model')
    for label, kw, inv in [('no execution limits', dict(guards='FALSE', K=3, funcs='3', queries=1), 'BoundedWork'),
                           ]:
        res = run_tlc('Engine', engine_cfg(ctx, 'whatif.cfg', invs=['BoundedWork', 'DepthBounded'],
                                           extra='CONSTRAINT WhatIfDepth\n', **kw), workers=16, timeout=900)
        ctx.add_tlc(res, 'what-if ' + label + ' (must fail)')
        if not res.violated:
            raise MachineryError('what-if %s did not violate BoundedWork/DepthBounded: model insensitive' % label)
        ctx.coverage['whatif_' + label.replace(' ', '_')] = 'violates %s' % res.violated
    # ---- 2. emitted graphs -> programs
    res = run_tlc('Engine', engine_cfg(ctx, 'emit.cfg', invs=[], extra='CONSTRAINT EmitGraph\n', queries=0), workers=1,
                  timeout=900)
    ctx.add_tlc(res, 'graph emission')
    graphs = cases(res, 'GRAPH')
    if len(graphs) < 500:
        raise MachineryError('too few graphs: %d' % len(graphs))
    rng = ctx.rng
    rng.shuffle(graphs)
    graphs = graphs[:150 if quick else 1331]
    jobs = []
    for i, g in enumerate(graphs):
        dep = {j + 1: d for j, d in enumerate(g['dep'])}
        src, uses = render_graph(dep)
        pos = [(ln, 0) for ln in uses.values()]
        jobs.append(('graph%d' % i, src, pos, ['infer', 'goto', 'complete'] if quick else QUERIES))
    for k, src in IDIOMS.items():
        jobs.append(('idiom:' + k, src, last_positions(src), QUERIES))
    # the same graphs with one module per node and import edges (plain / from / star): import cycles
    nimp = 0
    for i, g in enumerate(graphs[:60 if quick else 700]):
        dep = {j + 1: d for j, d in enumerate(g['dep'])}
        mode = ['star', 'from', 'plain', 'star'][i % 4]
        files, uses = render_import_graph(dep, mode)
        by_file = {}
        for n, (fn, ln) in uses.items():
            by_file.setdefault(fn, []).append((ln, 0))
        for fn, pos in sorted(by_file.items()):
            jobs.append(('importgraph:%s:%d' % (mode, i), fn, pos, ['infer', 'goto', 'complete'], files))
            nimp += 1
    for k, (files, main) in IMPORT_IDIOMS.items():
        lines = files[main].rstrip('\n').split('\n')
        pos = [(len(lines), len(lines[-1])), (len(lines), 0), (len(lines) - 1, len(lines[-2]))]
        jobs.append(('importidiom:' + k, main, pos, QUERIES, files))
    ctx.coverage['import_graph_programs'] = nimp
    ctx.coverage['import_idioms'] = len(IMPORT_IDIOMS)
    fam_ns = [2, 4, 8, 16, 32, 64] if quick else [2, 4, 8, 16, 32, 48, 64, 96]
    for fam in FAMILIES:
        for n in fam_ns:
            if fam == 'call_tree' and n > (16 if quick else 32):
                continue
            src = family(fam, n)
            jobs.append(('family:%s:%d' % (fam, n), src, last_positions(src)[:1], ['infer', 'goto']))
    # random bigger graphs
    for i in range(20 if quick else 200):
        K = rng.randrange(8, 41)
        funcs = tuple(range(K - K // 3, K + 1))
        dep = {n: sorted(rng.sample(range(1, K + 1), rng.randrange(0, 4))) for n in range(2, K + 1)}
        dep[1] = []
        src, uses = render_graph(dep, lits=(1,), funcs=funcs)
        pos = [(ln, 0) for ln in list(uses.values())[:6]]
        jobs.append(('random%d' % i, src, pos, ['infer', 'goto']))
    ctx.log('executing %d programs' % len(jobs))
    results = jutil.pmap(run_program, jobs, chunksize=2)
    jutil.check_worker_errors(results)
    traces, owners = [], []
    steps_by = {}
    nq = 0
    for job, rs in zip(jobs, results):
        for r in rs:
            nq += 1
            desc = {'program': job[0], 'source': job[1] if len(job[1]) < 3000 else job[1][:3000], 'method': r['m'], 'pos': r['pos']}
            if len(job) > 4:
                desc['files'] = job[4]
            if r['outcome'] == 'HANG':
                ctx.violation('hang:%s' % job[0].split(':')[0], 'query did not return within 60 s', desc)
            elif r['outcome'] == 'RecursionError':
                ctx.violation('RecursionError:%s' % ('-'.join(job[0].split(':')[:2]) if job[0].startswith('importgraph')
                                                     else job[0].split(':')[1 if ':' in job[0] else 0]),
                              'query raised RecursionError instead of giving up', desc)
            if r['events']:
                traces.append(r['events'])
                owners.append(desc)
            if job[0].startswith('family:') and r['m'] == 'infer' and r['outcome'] == 'ok':
                _, fam, n = job[0].split(':')
                steps_by.setdefault(fam, {})[int(n)] = r['steps']
        if job[0].startswith(('graph', 'idiom', 'importgraph', 'importidiom')):
            ctx.sample({'program': job[0], 'source': (job[4][job[1]] if len(job) > 4 else job[1])[:600], 'outcomes': sorted(set(r['outcome'] for r in rs)),
                        'max_steps': max([r['steps'] for r in rs] or [0])}, limit=5)
    ctx.coverage['queries_executed'] = nq
    ctx.coverage['scaling_steps'] = steps_by
    for fam, d in steps_by.items():
        ns = sorted(d)
        for a, b in zip(ns, ns[1:]):
            if b == 2 * a and a >= 8 and d[b] > 10 * d[a] + 1000:
                ctx.violation('explosion:%s' % fam, 'work grows faster than the polynomial envelope: steps(%d)=%d, '
                              'steps(%d)=%d' % (a, d[a], b, d[b]), {'family': fam, 'steps': d})
    # ---- 3. guard-event traces validated by TLC
    ctx.log('validating %d guard traces (%d events)' % (len(traces), sum(map(len, traces))))
    vs = validate_traces('Trace_Engine', 'Trace_Engine.cfg', traces, ctx, 'Trace_Engine guards', chunk=600, timeout=3000)
    for v, t, o in zip(vs, traces, owners):
        if not v['accepted']:
            why = v['why'] or ['?']
            if set(why) & {'Unbalanced', 'WorkExploded', 'PythonStackNearLimit', 'PopWithoutPush'}:
                ctx.violation('guards:%s' % ','.join(why), 'guard trace violates %s' % why, o)
            else:
                ctx.drift({'why': why, 'at': v['at'], 'program': o['program'], 'method': o['method']})
    # binding self-test
    import copy
    bad = None
    for t in traces:
        idx = [i for i, e in enumerate(t) if e['ev'] == 'Pop']
        if idx:
            bad = copy.deepcopy(t)
            del bad[idx[-1]]
            break
    if bad is None:
        raise MachineryError('no trace with executions recorded')
    n0 = ctx.coverage['traces_validated_against_impl']
    bv = validate_traces('Trace_Engine', 'Trace_Engine.cfg', [bad], ctx, 'binding self-test')
    ctx.coverage['traces_validated_against_impl'] = n0
    if bv[0]['accepted']:
        raise MachineryError('binding self-test: trace with a dropped Pop accepted')
    ctx.coverage['binding_selftest'] = 'trace with a dropped Pop rejected: %s' % bv[0]['why']
    return None
