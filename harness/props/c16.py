"""C16 -- results are deterministic and repeatable.

spec/Engine.tla (Repeatable, NoPoison over all graphs x query histories; what-if: counters not reset),
spec->code: rendered graphs and corpus sources, random histories (repetitions, permutations, failing
queries in between) on ONE Script versus every query on a fresh Script; cross-process runs with
different PYTHONHASHSEED and allocation perturbation.  code->spec: every observation is an
Obs{key, val} event; Trace_Engine.tla decides that val is a function of the query.
"""
import json
import os
import subprocess

from harness import jutil
from harness.core import MachineryError, PY, VERIF, REPO
from harness.enginecases import engine_cfg, render_graph, IDIOMS
from harness.enginerec import full
from harness.tlc import run_tlc, cases, validate_traces

META = dict(
    spec='Engine.tla, Trace_Engine.tla',
    text='TLC checks on every 4-node definition graph x every history of <=2 further queries (failing ones '
         'included) that asking the target again on the same Script gives the fresh-Script answer (Repeatable) and '
         'that no memo default outlives its query; the what-if "inference budget not reset per query" must fail '
         '(it is the defect repaired by the fix: commit). Rendered graphs, idioms and corpus files are then queried '
         'with random histories (length <=4 quick / <=8 thorough, repetitions, out-of-range positions in between) '
         'on one Script versus fresh Scripts, and in 4-6 processes with PYTHONHASHSEED in {0,1,2,random} and '
         'allocation perturbation; every observation (ordered result digest; goto as a set) is an event and TLC '
         'checks that the observation is a function of (text, position, method).',
    note='Result identity = (name, type, line, column, module_path, description) in order; digests are crc32; the '
         'Engine model treats values computed while a guard cut a cycle as not memoised (TaintedNotReused), which '
         'the replay found to match the code.',
    technique='TLA+ engine model (history-independence invariant, what-if) model-checked with TLC; histories and '
              'multi-process runs replayed on the real code; observations validated by TLC as a function of the query',
    design_ref='5/C16')

METHODS = ['infer', 'goto', 'complete', 'get_references', 'help', 'get_signatures', 'get_context', 'get_names']


def run_proc(ctx, jobs, seed, perturb, tag):
    d = ctx.sub('c16_' + tag)
    jp, op = os.path.join(d, 'jobs.json'), os.path.join(d, 'out.json')
    with open(jp, 'w') as f:
        json.dump(jobs, f)
    env = dict(os.environ)
    env['VERIF_REPO'] = REPO
    env['PYTHONPATH'] = REPO + os.pathsep + VERIF
    if seed == 'random':
        env.pop('PYTHONHASHSEED', None)
        env['PYTHONHASHSEED'] = 'random'
    else:
        env['PYTHONHASHSEED'] = str(seed)
    return subprocess.Popen([PY, os.path.join(VERIF, 'harness', 'c16_worker.py'), jp, op, str(perturb)], env=env,
                            stdout=subprocess.PIPE, stderr=subprocess.STDOUT), op


def collect(procs):
    outs = []
    for p, op in procs:
        so, _ = p.communicate(timeout=3000)
        if p.returncode != 0:
            raise MachineryError('c16 worker failed: %s' % so.decode()[-1500:])
        with open(op) as f:
            outs.append(json.load(f))
    return outs


def positions(src, rng, n):
    import re
    pos = []
    lines = src.split('\n')
    for i, ln in enumerate(lines):
        for m in re.finditer(r'[^\W\d]\w*', ln):
            pos.append((i + 1, m.end()))
            pos.append((i + 1, m.start()))
        for m in re.finditer(r'[.(]', ln):
            pos.append((i + 1, m.end()))
    rng.shuffle(pos)
    return pos[:n]


# ---------------------------------------------------------------- Switch.tla: temporary switches and the memo
SWCFG = """SPECIFICATION Spec
CONSTANTS
  V = {"y", "z"}
  MaxQueries = %d
  MemoKeyedOnSwitch = %s
%s
CHECK_DEADLOCK FALSE
"""
SWITCH_SRC = ("class A:\n    attr_y = 1\nclass B:\n    attr_y = 2\nclass C:\n    attr_z = 1\nclass D:\n    attr_z = 2\n"
              "def f():\n    if 1:\n        x = A()\n    else:\n        x = B()\n    return x\n"
              "def g():\n    if 1:\n        x = C()\n    else:\n        x = D()\n    return x\n"
              "y = f()\nz = g()\ny.attr_y\nz.attr_z\ny\nz\n")
SWITCH_POS = {'y': {'refs': (23, 3), 'infer': (25, 0)}, 'z': {'refs': (24, 3), 'infer': (26, 0)}}
SWITCH_ON = {'y': ['A'], 'z': ['C']}
SWITCH_OFF = {'y': ['A', 'B'], 'z': ['C', 'D']}


def switch_history(hist):
    """One history of Switch.tla on one real Script: -> [observed answer per query]."""
    import jedi
    s = jedi.Script(SWITCH_SRC, environment=jutil.env())
    out = []
    for st in hist:
        v = st['v']
        if st['q'] == 'infer':
            names = sorted(set(d.name for d in s.infer(*SWITCH_POS[v]['infer'])))
            out.append('on' if names == SWITCH_ON[v] else ('off' if names == SWITCH_OFF[v] else 'other:%s' % names))
        else:
            try:
                if st['raised']:
                    s.get_references(9999, 0)
                else:
                    s.get_references(*SWITCH_POS[v]['refs'])
                out.append('none')
            except ValueError:
                out.append('none')
        out[-1] = [out[-1], bool(s._inference_state.flow_analysis_enabled)]
    return out


def switch_leg(ctx):
    def cfg(name, n, keyed, body):
        p = os.path.join(ctx.tmp, name)
        with open(p, 'w') as f:
            f.write(SWCFG % (n, keyed, body))
        return p
    n = 3 if ctx.quick else 4
    res = run_tlc('Switch', cfg('sw_rep.cfg', n, 'TRUE', 'INVARIANT SwitchRestored\nINVARIANT Repeatable'), workers=4, timeout=600)
    ctx.add_tlc(res, 'temporary switch, repaired design (memo keyed on the switch): SwitchRestored, Repeatable')
    if res.violated:
        raise MachineryError('Switch.tla: the repaired design violates %s' % res.violated)
    res = run_tlc('Switch', cfg('sw_coded.cfg', n, 'FALSE', 'INVARIANT SwitchRestored\nINVARIANT Repeatable'), workers=4, timeout=600)
    ctx.add_tlc(res, 'temporary switch, design as coded: SwitchRestored, Repeatable')
    if res.violated == 'SwitchRestored':
        ctx.violation('design:SwitchRestored', 'Switch.tla violates SwitchRestored', {'trace': res.trace[-3:]})
    elif res.violated == 'Repeatable':
        ctx.violation('design:Repeatable:switch-memo', 'Switch.tla with the code\'s memo keys violates Repeatable: a value inferred '
                      'while find_references had flow analysis switched off answers a later infer',
                      {'history': [s_['action'] for s_ in res.trace]})
    res = run_tlc('Switch', cfg('sw_emit.cfg', n, 'FALSE', 'CONSTRAINT Emit'), workers=1, timeout=600)
    ctx.add_tlc(res, 'switch histories emission')
    rows = cases(res)
    if len(rows) < 100:
        raise MachineryError('too few switch histories: %d' % len(rows))
    obs = jutil.pmap(switch_history, [r['hist'] for r in rows], chunksize=8)
    jutil.check_worker_errors(obs)
    ctx.coverage['switch_histories_replayed'] = len(rows)
    stale = 0
    for r, o in zip(rows, obs):
        for st, (got, sw) in zip(r['hist'], o):
            if not sw:
                ctx.violation('switch:not-restored', 'flow_analysis_enabled is False after a query', {'history': r['hist']})
            if st['q'] != 'infer':
                continue
            if got != st['ans']:
                ctx.drift({'switch_history': r['hist'], 'model': st['ans'], 'code': got})
            if got != 'on':
                stale += 1
                ctx.violation('switch-memo:infer-after-refs' if got == 'off' else 'switch-memo:other',
                              'infer on one Script after get_references answers differently from a fresh Script (%s)' % got,
                              {'history': r['hist'], 'source': SWITCH_SRC})
    ctx.coverage['switch_histories_stale_answers'] = stale


def run(ctx):
    quick = ctx.quick
    rng = ctx.rng
    # ---- 1. TLC
    res = run_tlc('Engine', engine_cfg(ctx, 'rep.cfg', invs=['Repeatable', 'NoPoison', 'Balanced'], queries=2, tainted='FALSE'),
                  workers=16, timeout=3000)
    ctx.add_tlc(res, 'repaired design (partial values not memoised): Repeatable/NoPoison, all graphs K=4 x histories of 2 '
                     'queries (+ValueError queries)')
    if res.violated:
        ctx.violation('design:%s' % res.violated, 'Engine.tla violates %s' % res.violated, {'trace': res.trace[-3:]})
        return ctx.finish()
    if res.distinct < 50000:
        raise MachineryError('vacuity: %d states' % res.distinct)
    ctx.coverage['exhaustive'] = True
    # the design as coded keeps partial values of module-level statements: TLC shows the order dependence
    res = run_tlc('Engine', engine_cfg(ctx, 'rep_coded.cfg', invs=['Repeatable'], queries=2, tainted='TRUE'), workers=16,
                  timeout=3000)
    ctx.add_tlc(res, 'design as coded (TaintedReused=TRUE): Repeatable')
    if res.violated == 'Repeatable':
        last = res.trace[-1]['vars'] if res.trace else {}
        ctx.violation('design:Repeatable:partial-memo', 'Engine.tla with the code\'s memoisation of partial values violates '
                      'Repeatable: a statement inferred while a cycle through it was cut keeps the partial value, a later '
                      'query for it answers differently from a fresh Script',
                      {'graph': last.get('dep'), 'target': last.get('target'), 'steps': [s['action'] for s in res.trace][-12:]})
    NoPoisonCoded = run_tlc('Engine', engine_cfg(ctx, 'np_coded.cfg', invs=['NoPoison', 'Balanced'], queries=2, tainted='TRUE'),
                            workers=16, timeout=3000)
    ctx.add_tlc(NoPoisonCoded, 'design as coded: NoPoison, Balanced')
    if NoPoisonCoded.violated:
        ctx.violation('design:%s' % NoPoisonCoded.violated, 'Engine.tla violates %s' % NoPoisonCoded.violated,
                      {'trace': NoPoisonCoded.trace[-3:]})
        return ctx.finish()
    res = run_tlc('Engine', engine_cfg(ctx, 'whatif_counts.cfg', invs=['Repeatable'], reset='FALSE', queries=3, tainted='FALSE'), workers=16,
                  timeout=3000)
    ctx.add_tlc(res, 'what-if ResetCounts=FALSE (the code before the fix; must fail)')
    if res.violated != 'Repeatable':
        raise MachineryError('what-if ResetCounts=FALSE did not violate Repeatable')
    ctx.coverage['whatif_budget_carry_over'] = 'violates Repeatable after %d steps' % len(res.trace)
    res = run_tlc('Engine', engine_cfg(ctx, 'raise.cfg', invs=['NoPoison', 'Repeatable', 'Balanced'], raises=1, K=3, funcs='3',
                                       queries=2, tainted='FALSE'), workers=16, timeout=3000)
    ctx.add_tlc(res, 'queries that raise in the middle of an inference: NoPoison, Repeatable, Balanced')
    if res.violated:
        ctx.violation('design:%s' % res.violated, 'Engine.tla with Raise violates %s' % res.violated, {'trace': res.trace[-3:]})
        return ctx.finish()
    res = run_tlc('Engine', engine_cfg(ctx, 'whatif_raise.cfg', invs=['NoPoison'], raises=1, popdef='FALSE', K=3, funcs='3',
                                       queries=1), workers=16, timeout=3000)
    ctx.add_tlc(res, 'what-if PopDefaultOnRaise=FALSE (the code before the fix; must fail)')
    if res.violated != 'NoPoison':
        raise MachineryError('what-if PopDefaultOnRaise=FALSE did not violate NoPoison')
    ctx.coverage['whatif_default_left_behind'] = 'violates NoPoison'
    # ---- 2. sources and histories
    res = run_tlc('Engine', engine_cfg(ctx, 'ans.cfg', invs=[], extra='CONSTRAINT EmitAnswer\n', queries=0), workers=1,
                  timeout=1800)
    ctx.add_tlc(res, 'model answers of the reference queries')
    answers = cases(res, 'ANS')
    if len(answers) < 500:
        raise MachineryError('too few model answers: %d' % len(answers))
    rng.shuffle(answers)
    sources = []        # (name, src, path, query list, model expectation or None)
    for i, a in enumerate(answers[:80 if quick else 700]):
        dep = {j + 1: d for j, d in enumerate(a['dep'])}
        src, uses = render_graph(dep)
        qs = []
        for n, ln in uses.items():
            qs += [['infer', ln, 0], ['goto', ln, 0]]
        qs += [['infer', 9999, 0], ['complete', len(src.split('\n')), 0]]
        sources.append(('graph%d' % i, src, None, qs, {'target_line': uses[a['target']], 'ans': a['ans']}))
    for k, src in IDIOMS.items():
        ln = len(src.rstrip('\n').split('\n'))
        qs = [[m, ln, 0] for m in ('infer', 'goto', 'complete', 'help')] + [['infer', 0, 0]]
        sources.append(('idiom:' + k, src, None, qs, None))
    # queries whose result is a value SET with several elements (order must not depend on object addresses)
    multi = {
        'multi:ospath_sig': ("from os.path import abspath, join\nabspath(\njoin(\n", [['get_signatures', 2, 8], ['get_signatures', 3, 5], ['infer', 2, 3], ['goto', 2, 3]]),
        'multi:ospath_mod': ("import os\nos.path\nos.path.join\n", [['infer', 2, 7], ['help', 2, 7], ['infer', 3, 12], ['get_signatures', 3, 12], ['complete', 2, 7]]),
        'multi:two_defs': ("import random\nif random.random():\n    def f(a):\n        return 1\nelse:\n    def f(b, c):\n        return ''\nx = f(\nx\nf\n",
                           [['get_signatures', 8, 6], ['infer', 9, 1], ['infer', 10, 1], ['goto', 10, 1], ['get_references', 10, 1], ['help', 10, 1]]),
        'multi:two_classes': ("import random\nclass A:\n    def m(self, p): pass\nclass B:\n    def m(self, q, r): pass\no = A() if random.random() else B()\no.m(\no.\n",
                              [['get_signatures', 7, 4], ['complete', 8, 2], ['infer', 6, 0]]),
    }
    for k, (src, qs) in multi.items():
        sources.append((k, src, None, qs, None))
    # a two-file project: parameters whose values come from call sites in ANOTHER module (dynamic parameter search), next to
    # loops over list / set literals (the array-addition search turns settings.dynamic_params_for_other_modules off meanwhile)
    dyn = ctx.sub('dynproj')
    shapes = ("class Marker:\n    pass\n\n\ndef scale(shape):\n    return shape\n\n\ndef total(items):\n    return items\n\n\n"
              "for item in [Marker()]:\n    item\nfor el in {Marker()}:\n    el\nlst = [Marker()]\nlst[0]\n")
    with open(os.path.join(dyn, 'shapes.py'), 'w') as f:
        f.write(shapes)
    with open(os.path.join(dyn, 'caller.py'), 'w') as f:
        f.write("import shapes\n\nshapes.scale(shapes.Marker())\nshapes.total([shapes.Marker()])\n")
    sources.append(('dynparams:two-modules', shapes, os.path.join(dyn, 'shapes.py'),
                    [['infer', 6, 11], ['infer', 10, 11], ['infer', 14, 4], ['infer', 16, 4], ['infer', 18, 3], ['goto', 6, 11],
                     ['complete', 14, 8]], None))
    # a buffer inside a package of the project: import inference puts the package directories on the search path
    # (add_init_paths), import-name completion must not see them -- whatever was asked before
    pk = ctx.sub('pkgproj')
    os.makedirs(os.path.join(pk, 'pkg'), exist_ok=True)
    for fn, txt in (('pkg/__init__.py', ''), ('pkg/sibling_zq.py', 'class Marker:\n    pass\n'), ('pkg/other_zq.py', 'x = 1\n')):
        with open(os.path.join(pk, fn), 'w') as f:
            f.write(txt)
    pksrc = 'import sibling_zq\nimport sibling_z\nsibling_zq.Marker\nfrom pkg import other_zq\nother_zq.x\n'
    with open(os.path.join(pk, 'pkg', 'mod.py'), 'w') as f:
        f.write(pksrc)
    sources.append(('pkgproj:import-completion', pksrc, os.path.join(pk, 'pkg', 'mod.py'),
                    [['infer', 1, 10], ['complete', 2, 16], ['infer', 3, 14], ['goto', 5, 10], ['complete', 4, 9]], None, pk))
    # queries that run with a temporary switch (find_references turns flow analysis off) followed by queries that
    # depend on the switch being on: the switch is restored, but is what was inferred meanwhile forgotten?
    flowrefs = ("class A:\n    attr = 1\nclass B:\n    attr = 2\ndef f():\n    if 1:\n        x = A()\n    else:\n        x = B()\n"
                "    return x\ny = f()\ny.attr\ny\n")
    sources.append(('flowrefs:if-branches', flowrefs, None,
                    [['get_references', 12, 3], ['infer', 13, 0], ['goto', 12, 3], ['infer', 12, 3], ['complete', 12, 2]], None))
    for f in jutil.corpus_files(limit=10 if quick else 40, rng=rng):
        with open(f, encoding='utf-8') as fh:
            src = fh.read()
        if len(src) > 20000:
            continue
        qs = [[rng.choice(METHODS), l, c] for (l, c) in positions(src, rng, 10 if quick else 16)]
        qs.append(['infer', len(src.split('\n')) + 5, 0])
        sources.append(('corpus:' + os.path.basename(f), src, f, qs, None))
    # the TLC what-if counterexample (budget of earlier queries carried over) scaled to the code's limit of 300:
    # many distinct module-level queries on one Script, then the first ones again
    nlong = 200
    long_src = ''.join('w%d = %d\n' % (i, i) for i in range(nlong))
    sources.append(('budget', long_src, None, [['infer', i + 1, 0] for i in range(nlong)], None))
    if os.environ.get('C16_ONLY_BUDGET'):
        sources = sources[-1:]
    fresh_jobs, same_jobs, hist_index = [], [], []
    sources = [tuple(x) + (None,) if len(x) == 5 else tuple(x) for x in sources]
    for si, (name, src, path, qs, _, sproj) in enumerate(sources):
        fresh_jobs.append({'src': src, 'path': path, 'mode': 'fresh', 'queries': qs, 'project': sproj})
        for h in range(3 if quick else 8):
            ln = rng.randrange(2, 5 if quick else 9)
            hist = [rng.randrange(len(qs)) for _ in range(ln)]
            if name == 'budget':
                hist = list(range(len(qs))) + [0, 1, 2]
                if h > 0:
                    break
            if name.startswith('flowrefs'):
                hist = [[0, 1], [0, 3], [0, 2, 4, 1]][h % 3]
            if h == 0:
                hist = hist + hist[:1]      # guarantees a repetition
            same_jobs.append({'src': src, 'path': path, 'mode': 'same', 'queries': [qs[i] for i in hist], 'project': sproj})
            hist_index.append((si, hist))
        if name.startswith(('graph', 'dynparams', 'pkgproj')):
            # the order dependence TLC finds for the design as coded: every ordered pair of statement queries
            inf = [i for i, q in enumerate(qs) if (q[0] == 'infer' or name.startswith('pkgproj')) and q[1] < 9999]
            for a in inf:
                for b in inf:
                    if a != b:
                        same_jobs.append({'src': src, 'path': path, 'mode': 'same', 'queries': [qs[a], qs[b]], 'project': sproj})
                        hist_index.append((si, [a, b]))
    ctx.log('%d sources, %d histories' % (len(sources), len(same_jobs)))
    if os.environ.get('C16_DUMP'):            # debugging aid: the exact job lists of this run
        os.makedirs(os.environ['C16_DUMP'], exist_ok=True)
        with open(os.path.join(os.environ['C16_DUMP'], 'jobs.json'), 'w') as f:
            json.dump({'fresh': fresh_jobs, 'same': same_jobs, 'hist_index': hist_index}, f)
    # process plan
    procs = []
    nshard = 10
    for k in range(nshard):     # reference process configuration (seed 0), sharded for speed
        procs.append(run_proc(ctx, fresh_jobs[k::nshard], 0, 0, 'ref%d' % k))
    for k in range(nshard):
        procs.append(run_proc(ctx, same_jobs[k::nshard], 0, 0, 'same%d' % k))
    outs = collect(procs)
    fresh = [None] * len(fresh_jobs)
    for k in range(nshard):
        for j, r in enumerate(outs[k]):
            fresh[k + j * nshard] = r
    same = [None] * len(same_jobs)
    for k in range(nshard):
        for j, r in enumerate(outs[nshard + k]):
            same[k + j * nshard] = r
    configs = [(1, 0), (2, 7), ('random', 13)] if quick else [(1, 0), (2, 7), ('random', 13), ('random', 101), (3, 0)]
    xsel = list(range(len(fresh_jobs))) if not quick else list(range(0, len(fresh_jobs), 2))
    procs = []
    for ci, (seed, pert) in enumerate(configs):
        for k in range(4):
            procs.append(run_proc(ctx, [fresh_jobs[i] for i in xsel[k::4]], seed, pert, 'x%d_%d' % (ci, k)))
    xouts = collect(procs)
    cross = {}
    for ci in range(len(configs)):
        for k in range(4):
            for j, r in enumerate(xouts[ci * 4 + k]):
                cross.setdefault(xsel[k + j * 4], []).append(r)
    # ---- 3. observations as events, judged by TLC
    traces, owners = [], []
    nobs = 0
    for si, (name, src, path, qs, model, _sp) in enumerate(sources):
        ev = []
        for qi, (dg, oc, _sd, *_el) in enumerate(fresh[si]):
            ev.append(full({'ev': 'Obs', 'key': qi + 1, 'val': dg}))
        for (sj, hist), obs in zip(hist_index, same):
            if sj != si:
                continue
            for qi, (dg, oc, _sd, *_el) in zip(hist, obs):
                ev.append(full({'ev': 'Obs', 'key': qi + 1, 'val': dg}))
        nobs += len(ev)
        traces.append(ev)
        owners.append(('repeatability', si))
        if si in cross:
            ev2 = [full({'ev': 'Obs', 'key': qi + 1, 'val': dg}) for qi, (dg, oc, _sd, *_el) in enumerate(fresh[si])]
            for r in cross[si]:
                ev2 += [full({'ev': 'Obs', 'key': qi + 1, 'val': dg}) for qi, (dg, oc, _sd, *_el) in enumerate(r)]
            nobs += len(ev2)
            traces.append(ev2)
            owners.append(('cross-process', si))
        # model vs code (drift only)
        if model is not None:
            pass
    # Switch.tla SwitchRestored on every real query: no setting / per-Script switch differs after a query
    nsw = 0
    for (jobs_, outs_) in ((fresh_jobs, fresh), (same_jobs, same)):
        for job, obs in zip(jobs_, outs_):
            for q, o in zip(job['queries'], obs):
                nsw += 1
                if len(o) > 4 and o[4]:
                    ctx.violation('switch:not-restored:%s' % ','.join(o[4]), 'a setting / switch that the code turns temporarily '
                                  'has another value after the query than before', {'query': q, 'source': job['src'][:3000],
                                                                                   'changed': o[4]})
    ctx.coverage['switch_observations'] = nsw
    ctx.coverage['observations'] = nobs
    ctx.coverage['failing_queries_in_histories'] = sum(1 for obs in same for (dg, oc, _sd, *_el) in obs if oc != 'ok')
    ctx.log('validating %d observation traces (%d observations)' % (len(traces), nobs))
    vs = validate_traces('Trace_Engine', 'Trace_Engine.cfg', traces, ctx, 'Trace_Engine observations', chunk=800, timeout=3000)
    # TLC's verdict says WHICH traces break the functional dependence; the classification of a rejected
    # trace (order only / content / history) needs the raw observations
    rejected = sorted(set(si for v, (kind, si) in zip(vs, owners) if not v['accepted']))
    extra = {}
    if rejected:
        ps = [run_proc(ctx, [fresh_jobs[si] for si in rejected], sd, pert, 'cls%d' % k)
              for k, (sd, pert) in enumerate([(5, 3), ('random', 17), (6, 29), ('random', 41)])]
        for o in collect(ps):
            for si, r in zip(rejected, o):
                extra.setdefault(si, []).append(r)
    for si in rejected:
        name, src, path, qs, _, _sp = sources[si]
        fresh_runs = [fresh[si]] + cross.get(si, []) + extra.get(si, [])
        hist_obs = {}
        for (sj, hist), obs in zip(hist_index, same):
            if sj == si:
                for qi, o in zip(hist, obs):
                    hist_obs.setdefault(qi, []).append(o)
        for qi, q in enumerate(qs):
            ords = set(r[qi][0] for r in fresh_runs)
            sets = set(r[qi][2] for r in fresh_runs)
            hist_ords = set(o[0] for o in hist_obs.get(qi, []))
            desc = {'source': src if len(src) < 4000 else src[:4000], 'path': path, 'query': q,
                    'fresh_runs': len(fresh_runs),
                    'histories': [[qs[i] for i in hist] for (sj, hist) in hist_index if sj == si and qi in hist][:3]}
            if len(sets) > 1:
                ctx.violation('nondeterministic-content:%s' % q[0], 'fresh processes return different result SETS for the same '
                              'query (an element of an inferred value set is picked by iteration order)', desc)
            elif len(ords) > 1:
                ctx.violation('nondeterministic-order:%s' % q[0], 'fresh processes return the same results in different order',
                              desc)
            elif hist_ords and not hist_ords <= ords:
                # fewer results than a fresh Script gives (a partial value was memoised) or different ones?
                fresh_el = set(fresh_runs[0][qi][3]) if len(fresh_runs[0][qi]) > 3 else None
                rel = 'other'
                for o in hist_obs.get(qi, []):
                    if o[0] not in ords and len(o) > 3 and fresh_el is not None and o[1] == 'ok':
                        rel = 'partial-result' if set(o[3]) < fresh_el else 'other'
                        if rel == 'other':
                            break
                ctx.violation('repeatability:%s:%s' % (name.split(':')[0] if not name.startswith('graph') else 'graph', rel),
                              'on one Script, after other queries, a query answers differently from a fresh Script'
                              + (' (it returns a proper subset of the results)' if rel == 'partial-result' else ''), desc)
    for (name, src, path, qs, _, _sp) in sources[:3]:
        ctx.sample({'source': name, 'queries': qs[:5], 'text': src[:300]})
    # model answers vs code answers of the reference queries (drift)
    drift_jobs = []
    # binding self-test
    bad = [dict(e) for e in traces[0]]
    bad.append(dict(bad[0], val=(bad[0]['val'] + 1) % 1000003))
    n0 = ctx.coverage['traces_validated_against_impl']
    bv = validate_traces('Trace_Engine', 'Trace_Engine.cfg', [bad], ctx, 'binding self-test')
    ctx.coverage['traces_validated_against_impl'] = n0
    if bv[0]['accepted']:
        raise MachineryError('binding self-test: conflicting observation accepted')
    ctx.coverage['binding_selftest'] = 'conflicting observation rejected: %s' % bv[0]['why']
    ctx.assumptions += ['two results are the same iff name, type, line, column, module_path and description agree in order',
                        'hash seeds 0,1,2,random and 3-5 allocation perturbations stand for "every process"']
    switch_leg(ctx)
    return None
