"""C17 -- every reported source position is faithful to the text.

spec/Positions.tla: buffers are built by TLC from statement templates (parse trees in parso's
shape) x identifier rotation x separators x line ends x form feed x tabs x missing final newline.
Reference = Python's line rule and the property's clauses over the TEXT; Design = parso's
split_lines / get_definition / get_defined_names and jedi's get_module_names / _names /
get_definition_*_position / get_line_code transcribed.  Legs:
  1. TLC exhaustive Design |= Reference (+ a what-if run StripDunder=TRUE, the code before 7f3412e, that must fail);
  2. spec -> code: emitted cases, Design's predicted get_names() output vs the real one, the
     template's tree shape vs parso's, the Reference's tokens/binding roles vs CPython
     (tokenize + ast);
  3. code -> spec: every Name returned by get_names/goto/infer/get_references/help/complete/
     get_signatures(+params)/get_context/search on emitted cases, on a generated project and on
     re-encoded corpus files is judged by Trace_Positions.tla against the text of the file it
     points into;
  4. binding self-test: corrupted records must be rejected.
Multi-file / multi-version dimension (spec/PositionsHist.tla, harness/c17hist.py): a project file has versions (disk
writes with later / equal / older mtime, unsaved buffers); TLC enumerates the small histories of write / buffer / query
events, the Design is parso's parser cache (one entry per path, reused while mtime <= change_time) + jedi's
_load_python_module (code lines of the cache entry), the Reference demands that every reported Name fits ONE version
that existed so far (the buffer itself for the buffer's own Script).  Same four legs: exhaustive run + what-if
FreshLines (tree of one version, code lines of another: must fail), replay of emitted histories on the real jedi in a
scratch project with os.utime-controlled mtimes, trace validation (Trace_Positions tracks which versions exist), random
histories over the generated project, and corrupted history traces in the binding self-test.
"""
import copy
import os
import threading

from harness import jutil
from harness import c17lib as L
from harness import c17hist as H
from harness.core import MachineryError
from harness.tlc import run_tlc, cases, validate_traces

META = dict(
    spec='Positions.tla, PositionsText.tla, PositionsHist.tla, Trace_Positions.tla, Trace_SigFaithful.tla',
    text='TLC checks exhaustively, for every buffer of <=2 statement templates (38 parse-tree templates: '
         'assignments, def/class with decorators, imports, for/with/except, walrus, global/nonlocal, del, lambda, '
         'comprehensions, call/attribute chains, f-string) x identifier rotation over {a, bb, e-acute, CJK, __a} '
         'x separators {none, spaces, tab, backslash-newline, newline/comment inside brackets with FF/FS/LS} x '
         'line ends {LF, CRLF, CR} x form feed x tabs x missing final newline, that the transcription of parso '
         'split_lines/get_definition/get_defined_names and jedi get_module_names/_names/definition range/'
         'get_line_code satisfies the property clauses computed from the text alone (NamesBijection, IsDefOK, '
         'TextAtPos, RangeEncloses, LineCodeOK). Emitted cases are replayed: get_names() must equal the model, '
         'the tree shape must equal parso\'s, the reference tokens and binding roles must equal CPython tokenize/ast. '
         'Every Name returned by every query method on those cases, on a generated project (CRLF/CR/tab/FF project '
         'files, cross-module decorators) and on re-encoded corpus files is judged by TLC (Trace_Positions) '
         'against the text of the file it points into. Versions of a project file: TLC checks exhaustively, for every '
         'history of <=4 events (disk write of one of 7 versions of hmod.py with mtime later/equal/older, unsaved-buffer '
         'Script of hmod.py, Script of main.py reaching hmod.py by import (goto/infer/help/signatures/references/complete) or by '
         'the project file scan (Project.search/complete_search)), that the transcription of parso\'s parser cache and jedi\'s '
         '_load_python_module reports Names that fit ONE version that existed so far (position, range and get_line_code() of '
         'the same text; the buffer itself for the buffer\'s own Script), and that the what-if "code lines from a fresh read" '
         'fails. Emitted histories are replayed on the real jedi (scratch project, mtimes set with os.utime) and compared with '
         'the model; every Name of those runs and of random histories over the generated project is judged by TLC against '
         'the versions that existed at that point.',
    note='Trusts TLC, CPython tokenize/ast as oracle for tokens and binding, and the harness reading files with '
         'newline="". Names without an identifier token (modules at (1,0), <lambda>, keywords), names in compiled '
         'or synthetic (path-less) modules and files outside the project are out of scope; sources parso cannot '
         'parse (match, PEP 695, parenthesised with-items, except*) are excluded; queries that raise are counted as '
         'blocked (C01). Scope filter all_scopes=False is not modelled. Which version a module reached from another '
         'file must be analysed from (freshness) is not demanded: a stale parser-cache entry (unsaved buffer, older disk '
         'text with an mtime that is not newer) is tolerated as long as position, range and line code come from one and '
         'the same version. The pickle cache across processes is not modelled (one history = one process, unique paths).',
    technique='TLA+ spec (Design|=Reference) model-checked with TLC; spec->code replay of emitted cases; '
              'code->spec trace validation of recorded Names',
    design_ref='5/C17')

INVS = ['SplitLinesOK', 'NamesOK', 'TextAtPos', 'RangeEncloses', 'LineCodeOK', 'LineCodeCtxOK']
CFG = '''INIT Init
NEXT Next
CONSTANTS
  TplLo = %(lo)d
  TplHi = %(hi)d
  SecondTpls = {%(second)s}
  MaxStmts = %(stmts)d
  MaxMods1 = %(m1)d
  MaxMods2 = %(m2)d
  NNames = %(nn)d
  StripDunder = %(strip)s
  EmitMod = %(mod)d
  EmitRem = %(rem)d
%(invs)s
%(emit)s
CHECK_DEADLOCK FALSE
'''
NT = 38


ALL_TPLS = tuple(range(1, NT + 1))
PROBE_TPLS = (1, 10, 13, 21, 35)     # a = bb / decorated def / one-line class / for with suite / call with keyword


def write_cfg(ctx, name, stmts, m1, m2, nn=5, lo=1, hi=NT, mod=1, rem=0, invs=INVS, emit=False, second=ALL_TPLS, strip=False):
    p = os.path.join(ctx.tmp, name)
    with open(p, 'w') as f:
        f.write(CFG % dict(strip='TRUE' if strip else 'FALSE', lo=lo, hi=hi, second=', '.join(map(str, second)), stmts=stmts, m1=m1, m2=m2, nn=nn, mod=mod, rem=rem,
                           invs='\n'.join('INVARIANT %s' % i for i in invs),
                           emit='CONSTRAINT Emit' if emit else ''))
    return p


# ---------------------------------------------------------------- running the real jedi
BUF = 'c17buf.py'


def _name_events(names, how, files, counts, blocked):
    """Observe Names -> (events, metas); files: path -> (index, text)."""
    evs, metas = [], []
    for n in names:
        r = jutil.safe(L.observe, n)
        if r[0] == 'exc':
            blocked[r[2]] = blocked.get(r[2], 0) + 1
            continue
        o = r[1]
        if o[0] == 'skip':
            counts['skip:' + o[1]] = counts.get('skip:' + o[1], 0) + 1
            continue
        rec, meta = o[1], o[2]
        fp = meta['file']
        if fp not in files:
            if not any(fp.startswith(root) for root in files['_roots']):
                counts['skip:outside-project'] = counts.get('skip:outside-project', 0) + 1
                continue
            try:
                with open(fp, encoding='utf-8', newline='') as f:
                    text = f.read()
            except (OSError, UnicodeDecodeError):
                counts['skip:unreadable'] = counts.get('skip:unreadable', 0) + 1
                continue
            if len(text) > files['_maxlen']:
                counts['skip:big-foreign-file'] = counts.get('skip:big-foreign-file', 0) + 1
                continue
            files[fp] = (len(files['_order']) + 1, text)
            files['_order'].append(fp)
        rec['f'] = files[fp][0]
        meta['how'] = how
        evs.append(rec)
        metas.append(meta)
    return evs, metas


def _sig_names(sigs):
    out = []
    for s in sigs:
        out.append(s)
        try:
            out.extend(s.params)
        except Exception:  # noqa  (C01/C11 territory)
            pass
    return out


def query_all(s, text, path, roots, ids, toks, rng, npos, maxlen=16000, files=None):
    """All query methods at (a sample of) the identifier tokens; -> trace, metas, counts, blocked.
    files: a file table shared by the events of a history (c17hist); else one is made for this buffer."""
    own = files is None
    if own:
        files = {'_roots': roots, '_order': [path], '_maxlen': maxlen, path: (1, text)}
    counts, blocked = {}, {}
    events, metas = [], []

    def run(how, fn):
        r = jutil.safe(fn)
        if r[0] == 'exc':
            blocked['%s:%s' % (how, r[2])] = blocked.get('%s:%s' % (how, r[2]), 0) + 1
            return
        res = list(r[1]) if not isinstance(r[1], list) else r[1]
        if how == 'get_signatures':
            res = _sig_names(res)
        if how == 'get_context':
            res = [x for x in res if x is not None]
        e, m = _name_events(res, how, files, counts, blocked)
        events.extend(e)
        metas.extend(m)
        counts['q:' + how] = counts.get('q:' + how, 0) + 1

    pos = list(ids)
    if npos is not None and len(pos) > npos:
        rng.shuffle(pos)
        pos = sorted(pos[:npos])
    seen_search = set()
    for (l, c, t) in pos:
        run('goto', lambda: s.goto(l, c))
        run('goto_follow', lambda: s.goto(l, c, follow_imports=True))
        run('infer', lambda: s.infer(l, c))
        run('get_references', lambda: s.get_references(l, c, scope='file'))
        run('help', lambda: s.help(l, c))
        run('complete', lambda: s.complete(l, c + 1)[:40])
        run('get_context', lambda: [s.get_context(l, c)])
        if t not in seen_search and len(seen_search) < 6:
            seen_search.add(t)
            run('search', lambda: list(s.search(t, all_scopes=True))[:40])
    import tokenize as _tk
    opens = [tk for tk in toks if tk.type == _tk.OP and tk.string == '(']
    if npos is not None and len(opens) > npos:
        rng.shuffle(opens)
        opens = opens[:npos]
    for tk in opens:
        run('get_signatures', lambda: s.get_signatures(tk.end[0], tk.end[1]))
    header = L.files_header(files['_order'], {p: [files[p][1]] for p in files['_order']}) if own else None
    return header, events, metas, counts, blocked


def names_event(s, toks_ref, counts, blocked, files1):
    """The three get_names() enumerations as "names" events + "name" events for the full one."""
    out, metas = [], []
    full = None
    shape = 'enumeration'
    if files1 is not None:       # text of a buffer parso could not parse
        shape += '/parso-error-nodes'
        if L.error_nodes_follow_formfeed(s._module_node, files1):
            shape = 'enumeration/formfeed-tab-indent'
    for label, kw, flt in (('all', dict(definitions=True, references=True), lambda b: True),
                           ('defs', dict(definitions=True, references=False), lambda b: b),
                           ('refs', dict(definitions=False, references=True), lambda b: not b)):
        r = jutil.safe(lambda: s.get_names(all_scopes=True, **kw))
        if r[0] == 'exc':
            blocked['get_names:' + r[2]] = blocked.get('get_names:' + r[2], 0) + 1
            continue
        got = [{'line': n.line, 'col': n.column, 'isdef': bool(n.is_definition())} for n in r[1]]
        out.append({'ev': 'names', 'f': 1, 'toks': [t for t in toks_ref if flt(t['binds'])], 'got': got})
        metas.append({'how': 'get_names:' + label, 'shape': shape, 'file': None, 'name': None})
        if label == 'all':
            full = r[1]
    return out, metas, full


def oracle_toks(text):
    binds, ids = L.binding_positions(text)
    ref = [{'line': l, 'col': c, 'binds': (l, c) in binds} for (l, c, t) in ids]
    return ref, ids


def replay_case(case):
    """spec -> code for one TLC case; also records the trace of everything jedi reports."""
    import random
    text = jutil.dec(case['text'])
    out = {'text': text, 'problems': [], 'drift': [], 'stmts': case['stmts']}
    # Reference vs CPython
    try:
        ref, ids = oracle_toks(text)
    except SyntaxError as e:
        out['problems'].append('renders invalid Python: %s' % e)
        return out
    spec_toks = [{'line': t['line'], 'col': t['col'], 'binds': t['binds']} for t in case['toks']]
    if spec_toks != ref or [jutil.dec(t['text']) for t in case['toks']] != [t for (_, _, t) in ids]:
        out['problems'].append('Reference tokens/binding differ from CPython: spec=%s cpython=%s' % (spec_toks, ref))
        return out
    path = os.path.join('/nonexistent_verif_project', BUF)
    s = jutil.script(text, path=path)
    errnodes = L.has_error_nodes(s._module_node)
    if errnodes and case['modelled']:
        out['problems'].append('parso cannot parse the rendered case (error nodes)')
        return out
    if not errnodes and not case['modelled']:
        out['drift'].append({'kind': 'unmodelled-but-parsed'})
    # Design tree shape vs parso
    anc = L.parso_anc(s._module_node)
    danc = [(n['line'], n['col'], n['anc']) for n in case['names']]
    if case['modelled'] and [(a, b, list(c)) for a, b, c in anc] != danc:
        out['drift'].append({'kind': 'tree-shape', 'design': danc, 'parso': anc})
    counts, blocked = {}, {}
    evs, metas, full = names_event(s, ref, counts, blocked, text if errnodes else None)
    if not case['modelled']:
        counts['unmodelled_cases'] = 1
    # Design's get_names() vs the real one
    if full is not None and case['modelled']:
        code = []
        for n in full:
            r = jutil.safe(lambda: [n.line, n.column, jutil.enc(n.name), bool(n.is_definition()),
                                    [list(n.get_definition_start_position())],
                                    [list(n.get_definition_end_position())],
                                    jutil.enc(n.get_line_code()), jutil.enc(n.get_line_code(before=1, after=1))])
            code.append(r[1] if r[0] == 'ok' else 'exc:' + r[2])
        design = [[n['line'], n['col'], n['name'], n['isdef'], n['ds'], n['de'], n['lc'], n['lc11']]
                  for n in case['names']]
        if code != design:
            out['drift'].append({'kind': 'get_names', 'design': design, 'code': code})
        out['sample'] = {'source': text, 'design_names': [(n['line'], n['col'], jutil.dec(n['name']), n['isdef'],
                                                           n['ds'], n['de']) for n in case['names']],
                         'code_names': [c[:6] if isinstance(c, list) else c for c in code]}
    rng = random.Random(len(text))
    header, qev, qmeta, c2, b2 = query_all(s, text, path, ['/nonexistent_verif_project'], ids,
                                           L.ident_tokens(text)[1], rng, None)
    if full is not None:
        files = {'_roots': ['/nonexistent_verif_project'], '_order': [path], '_maxlen': 0, path: (1, text)}
        e, m = _name_events(full, 'get_names', files, counts, blocked)
        evs += e
        metas += m
    for k, v in c2.items():
        counts[k] = counts.get(k, 0) + v
    for k, v in b2.items():
        blocked[k] = blocked.get(k, 0) + v
    out['trace'] = [header] + evs + qev
    out['metas'] = [None] + metas + qmeta
    out['counts'] = counts
    out['blocked'] = blocked
    return out


# ---------------------------------------------------------------- corpus driver (code -> spec)
def corpus_variant(arg):
    path, seed, maxlen, npos = arg
    import random
    rng = random.Random(seed)
    with open(path, encoding='utf-8') as f:
        src = f.read()
    out = {'path': path, 'skipped': None}
    try:
        win = L.windows(src, maxlen, rng)
    except SyntaxError:
        win = None
    if not win:
        out['skipped'] = 'no-window'
        return out
    enc = dict(eol=rng.choice(['\n', '\r\n', '\r']), tabs=rng.random() < 0.5, ff=rng.choice([0.0, 0.3]),
               cont=rng.choice([0.0, 0.05, 0.2]), nofinal=rng.random() < 0.4, mixed=rng.random() < 0.2)
    out['encoding'] = {k: (repr(v) if isinstance(v, str) else v) for k, v in enc.items()}
    try:
        text = L.reencode(win, rng, **enc)
    except Exception as e:  # tokenize errors on odd inputs: not our subject
        text = None
        out['skipped'] = 'reencode:%s' % type(e).__name__
    if text is None:
        out['skipped'] = out['skipped'] or 'not-equivalent'
        return out
    try:
        ref, ids = oracle_toks(text)
    except L.Unsupported as e:
        out['skipped'] = 'unsupported:%s' % e
        return out
    import jedi
    from harness.core import REPO
    bpath = os.path.join(os.path.dirname(path), '__c17buf__.py')     # virtual: never written
    s = jedi.Script(text, path=bpath, project=jutil.project(REPO), environment=jutil.env())
    errnodes = L.has_error_nodes(s._module_node)
    if errnodes:
        import parso
        if L.has_error_nodes(parso.parse(win, version='3.12')):
            out['skipped'] = 'parso-error-nodes-in-original'     # syntax outside parso's grammar
            return out
    counts, blocked = {}, {}
    evs, metas, full = names_event(s, ref, counts, blocked, text if errnodes else None)
    header, qev, qmeta, c2, b2 = query_all(s, text, bpath, [REPO], ids, L.ident_tokens(text)[1], rng, npos)
    if full is not None:
        if len(full) > 400:
            full = rng.sample(full, 400)
        files = {'_roots': [REPO], '_order': [bpath], '_maxlen': 0, bpath: (1, text)}
        e, m = _name_events(full, 'get_names', files, counts, blocked)
        evs += e
        metas += m
    for k, v in c2.items():
        counts[k] = counts.get(k, 0) + v
    for k, v in b2.items():
        blocked[k] = blocked.get(k, 0) + v
    out.update(trace=[header] + evs + qev, metas=[None] + metas + qmeta, counts=counts, blocked=blocked,
               nchars=len(text), head=text[:300])
    return out


# ---------------------------------------------------------------- generated project (code -> spec)
DECO = '''from functools import wraps


def deco(f):
    @wraps(f)
    def wrapper(*a, **k):
        return f(*a, **k)
    return wrapper


def plain(f):
    def inner(*a):
        return f(*a)
    return inner


class Cz:
    attr = 1

    def meth(self, é, 名=2):
        self.zz = é
        return self.zz
'''
SUB = '''def thing(名, é=1):
    bb = 名
    return bb


class Kz:
    kk = thing

    def mm(self):
        return self.kk
'''
PKINIT = 'from .sub import thing, Kz\nfrom . import sub\n'
BUFFER = '''from deco import deco, plain, Cz
import pk
from pk.sub import thing as th, Kz
from pk import sub


@deco
def foo(x, y=1):
    return x


@plain
def bar(y):
    return y


class Dz(Cz):
    def meth2(self):
        return self.meth(1, 名=3)


foo
bar
th(1, é=2)
pk.thing(2)
sub.Kz
cz = Cz()
cz.meth(1)
cz.attr
dz = Dz()
dz.meth2()
w = lambda q: q
w(foo(1))
'''


def project_scenario(arg):
    seed, base = arg
    import random
    import jedi
    rng = random.Random(seed)
    d = os.path.join(base, 'proj%d' % seed)
    os.makedirs(os.path.join(d, 'pk'), exist_ok=True)
    encs = {}
    for rel, src in (('deco.py', DECO), (os.path.join('pk', 'sub.py'), SUB), (os.path.join('pk', '__init__.py'), PKINIT)):
        enc = dict(eol=rng.choice(['\n', '\r\n', '\r']), tabs=rng.random() < 0.5, ff=rng.choice([0.0, 0.5]),
                   cont=rng.choice([0.0, 0.1]), nofinal=rng.random() < 0.4, mixed=rng.random() < 0.2)
        text = L.reencode(src, rng, **enc) or src
        with open(os.path.join(d, rel), 'w', encoding='utf-8', newline='') as f:
            f.write(text)
        encs[rel] = {k: (repr(v) if isinstance(v, str) else v) for k, v in enc.items()}
    enc = dict(eol=rng.choice(['\n', '\r\n', '\r']), tabs=rng.random() < 0.5, ff=rng.choice([0.0, 0.5]),
               cont=rng.choice([0.0, 0.1]), nofinal=rng.random() < 0.4, mixed=rng.random() < 0.2)
    text = L.reencode(BUFFER, rng, **enc) or BUFFER
    ref, ids = oracle_toks(text)
    bpath = os.path.join(d, 'buf.py')    # not written
    s = jedi.Script(text, path=bpath, project=jedi.Project(d), environment=jutil.env())
    counts, blocked = {}, {}
    # (BUFFER itself parses; error nodes can only come from the re-encoding: DEV-FormFeedIndent)
    evs, metas, full = names_event(s, ref, counts, blocked, text if L.has_error_nodes(s._module_node) else None)
    header, qev, qmeta, c2, b2 = query_all(s, text, bpath, [d], ids, L.ident_tokens(text)[1], rng, None)
    if full is not None:
        files = {'_roots': [d], '_order': [bpath], '_maxlen': 0, bpath: (1, text)}
        e, m = _name_events(full, 'get_names', files, counts, blocked)
        evs += e
        metas += m
    for k, v in c2.items():
        counts[k] = counts.get(k, 0) + v
    for k, v in b2.items():
        blocked[k] = blocked.get(k, 0) + v
    return dict(path=bpath, encoding=encs, trace=[header] + evs + qev, metas=[None] + metas + qmeta,
                counts=counts, blocked=blocked, nchars=len(text), head=text[:200])


# ---------------------------------------------------------------- TLC emission in parallel partitions
def emit_cases(ctx, label, stmts, m1, m2, mod, rem, parts, timeout, second=ALL_TPLS):
    bounds = []
    step = (NT + parts - 1) // parts
    for lo in range(1, NT + 1, step):
        bounds.append((lo, min(NT, lo + step - 1)))
    results = [None] * len(bounds)
    errors = []

    def work(i, lo, hi):
        try:
            cfg = write_cfg(ctx, 'emit_%s_%d.cfg' % (label, i), stmts, m1, m2, lo=lo, hi=hi, mod=mod, rem=rem,
                            invs=[], emit=True, second=second)
            results[i] = run_tlc('Positions', cfg, workers=1, timeout=timeout)
        except BaseException as e:  # noqa
            errors.append(e)

    sem = threading.Semaphore(14)
    inner = work

    def work(i, lo, hi):        # noqa: F811  (at most 14 JVMs at a time)
        with sem:
            inner(i, lo, hi)

    ths = [threading.Thread(target=work, args=(i, lo, hi)) for i, (lo, hi) in enumerate(bounds)]
    for t in ths:
        t.start()
    for t in ths:
        t.join()
    if errors:
        raise errors[0]
    cs = []
    agg = copy.copy(results[0])
    agg.distinct = sum(r.distinct for r in results)
    agg.generated = sum(r.generated for r in results)
    agg.wall = max(r.wall for r in results)
    for r in results:
        cs += cases(r)
    return cs, agg, 'case emission %s (%d partitions, slice %d mod %d)' % (label, len(bounds), rem, mod)


# ---------------------------------------------------------------- parallel trace validation
class _Shim:
    def __init__(self, ctx, i):
        self.tmp = ctx.sub('val%d' % i)
        self.coverage = {'traces_validated_against_impl': 0}
        self.runs = []

    def add_tlc(self, res, label):
        self.runs.append((res, label))


def pvalidate(ctx, traces, label, nthreads=8, chunk=250):
    """validate_traces over slices in parallel JVMs (each workers=1); verdicts in order."""
    slices = [(i, traces[i:i + chunk]) for i in range(0, len(traces), chunk)]
    out = {}
    errors = []
    shims = []
    sem = threading.Semaphore(nthreads)

    def work(k, base, part):
        with sem:
            try:
                sh = _Shim(ctx, k)
                sh.base = base
                shims.append(sh)
                out[base] = validate_traces('Trace_Positions', 'Trace_Positions.cfg', part, sh, label,
                                            timeout=3000, chunk=chunk)
            except BaseException as e:  # noqa
                errors.append(e)

    ths = [threading.Thread(target=work, args=(k, b, p)) for k, (b, p) in enumerate(slices)]
    for t in ths:
        t.start()
    for t in ths:
        t.join()
    if errors:
        raise errors[0]
    agg = None
    for sh in shims:
        for res, lab in sh.runs:
            if agg is None:
                agg = copy.copy(res)
            else:
                agg.distinct += res.distinct
                agg.generated += res.generated
                agg.wall = max(agg.wall, res.wall)
    ctx.add_tlc(agg, '%s (%d JVMs)' % (label, len(slices)))
    ctx.coverage['traces_validated_against_impl'] += len(traces)
    verdicts = []
    for b, _ in slices:
        verdicts += out[b]
    rejects = []          # every rejected event: (trace index, event number, failing clauses)
    for sh in shims:
        for res, lab in sh.runs:
            for p_ in res.tagged('REJECT'):
                why = p_[2]
                why = sorted(map(str, why[1])) if isinstance(why, tuple) else [str(why)]
                rejects.append((sh.base + p_[0] - 1, p_[1], why))
    for i, v in enumerate(verdicts):
        if not v['accepted'] and not any(r[0] == i for r in rejects):
            rejects.append((i, v['at'], v['why'] or ['?']))
    return verdicts, sorted(rejects)


# ---------------------------------------------------------------- verdicts
def judge(ctx, rejects, traces, metas, srcs):
    seen_hist = {}     # history shapes: one report per (shape, clauses, query method); the others are counted
    for (ti, at, whyl) in rejects:
        t, ms, src = traces[ti], metas[ti], srcs[ti]
        ev = t[at - 1] if at else None
        meta = ms[at - 1] if at else None
        why = ','.join(whyl)
        if ev is not None and ev.get('ev') == 'files':
            raise MachineryError('harness line table rejected by the Reference: %s' % src)
        shape = (meta or {}).get('shape', '?')
        how = (meta or {}).get('how', '?')
        evs = dict(ev) if ev else None
        if evs and evs.get('ev') == 'names':
            got = [(g['line'], g['col'], g['isdef']) for g in evs['got']]
            exp = [(g['line'], g['col'], g['binds']) for g in evs['toks']]
            evs = {'ev': 'names', 'only_in_jedi': [g for g in got if g not in exp][:20],
                   'only_in_python': [g for g in exp if g not in got][:20]}
        if shape.startswith('history/'):
            k = (shape, why, how)
            seen_hist[k] = seen_hist.get(k, 0) + 1
            if seen_hist[k] > 1:
                ctx.count('history_violations_of_an_already_reported_shape')
                continue
            ctx.violation('%s:%s' % (shape, why),
                          'after the history [%s] a Name reported by %s violates %s: no single version of the file that '
                          'existed so far has the name at the reported position, encloses it in the reported range and has '
                          'the reported line code (name %r, points into %s)' % (
                              (meta or {}).get('hist'), how, why, (meta or {}).get('name'), (meta or {}).get('file')),
                          {'source': src, 'event': evs, 'meta': meta, 'at': at, 'trace': t[1:at]})
            continue
        ctx.violation('%s:%s' % (shape, why),
                      'a Name reported by %s violates %s (name %r, points into %s)' % (
                          how, why, (meta or {}).get('name'), (meta or {}).get('file')),
                      {'source': src, 'event': evs, 'meta': meta, 'at': at})


def hist_selftest_traces(traces, metas):
    """Corrupted history traces that Trace_Positions must reject:
    (1) a Name reached through an import whose get_line_code() is the line of ANOTHER version of the file (tree of one
        version, code lines of another); (2) the same Name with the event that brought its version into existence
        removed (the version did not exist yet); (3) a Name of a buffer's own Script judged against another version."""
    out = []
    have = set()
    for t, ms in zip(traces, metas):
        if len(t[0]['files']) != 2 or not ms[1] or 'hist' not in ms[1] or not ms[1]['hist'].startswith('W'):
            continue           # (only the TLC histories: main.py + hmod.py)
        vers = t[0]['files'][1]['vers']
        for i, e in enumerate(t):
            if e['ev'] != 'name' or e['f'] != 2:
                continue
            def line(v, n):
                st = v['starts']
                if n > len(st):
                    return None
                return v['text'][st[n - 1]:(st[n] if n < len(st) else len(v['text']))]
            fits = [k + 1 for k, v in enumerate(vers) if line(v, e['line']) == e['lc']]
            if len(fits) != 1:
                continue
            j = fits[0]
            if not e['exact'] and 1 not in have:
                for v in vers:
                    other = line(v, e['line'])
                    if other is not None and other != e['lc'] and other[e['col']:e['col'] + len(e['name'])] != e['name']:
                        b = copy.deepcopy(e)
                        b['lc'] = other
                        out.append([t[0]] + t[1:i] + [b])
                        have.add(1)
                        break
            intro = [k for k in range(1, i) if t[k]['ev'] in ('write', 'buffer') and t[k]['v'] == j]
            if not e['exact'] and 2 not in have and j > 1 and len(intro) == 1:
                out.append([t[0]] + [x for k, x in enumerate(t[1:i + 1], 1) if k != intro[0]])
                have.add(2)
            if e['exact'] and 3 not in have and len(vers) > 1:
                b = copy.deepcopy(e)
                b['exact'] = [1 if j != 1 else 2]
                out.append([t[0]] + t[1:i] + [b])
                have.add(3)
        if len(have) == 3:
            break
    return out


# ---------------------------------------------------------------- Trace_SigFaithful.tla: signatures along a buffer history
SIG_TAIL = 'y = 0\nx = foo('
SIG_VERSIONS = [
    'def foo(a, b):\n    return a\n\n\n',                 # the callee at the top
    '\n\ndef foo(a):\n    return a\n',                    # moved down
    'if 1:\n    def foo(*a, **k):\n        return a\n\n',  # re-indented
    'def bar(x): return x\nfoo = bar\n\n\n',               # another callable under the name
    'class foo:\n    def __init__(self, q): pass\n\n\n',   # a class now
    'zzz = 1\n\n\n\n',                                       # gone
]


def sig_history(order):
    """One process, one buffer path: Script(version).get_signatures() for every version of `order` in turn."""
    import jedi
    import tempfile
    base = os.environ.get('VERIF_CACHE_BASE') or tempfile.gettempdir()
    path = os.path.join(base, 'c17sig_%d' % os.getpid(), 'sigbuf.py')
    events = []
    for vi in order:
        text = SIG_VERSIONS[vi] + SIG_TAIL
        lines = text.split('\n')
        s = jedi.Script(text, path=path, environment=jutil.env(), project=jutil.project())
        r = jutil.safe(lambda: s.get_signatures(len(lines), len(lines[-1])))
        if r[0] == 'exc':
            events.append({'blocked': r[2]})
            continue
        keep = text.splitlines(keepends=True)
        for sig in r[1]:
            try:
                for n in [sig] + list(sig.params):
                    if n.line is None or n.module_path is None or os.path.basename(str(n.module_path)) != 'sigbuf.py':
                        continue
                    events.append({'name': jutil.enc(n.name), 'line': n.line, 'col': n.column,
                                   'linecode': jutil.enc(n.get_line_code()), 'text': [jutil.enc(x) for x in keep],
                                   'version': vi})
            except Exception as e:  # noqa  -- a reported Signature whose documented attributes raise
                events.append({'broken': type(e).__name__, 'version': vi})
    return events


def signature_histories(ctx):
    import itertools
    n = len(SIG_VERSIONS)
    orders = [list(p) for p in itertools.permutations(range(n), 2)] + [[a, b, a] for a in range(n) for b in range(n) if a != b][::3]
    if not ctx.quick:
        orders += [list(p) for p in itertools.permutations(range(n), 3)]
    obs = jutil.pmap(sig_history, orders, chunksize=4)
    jutil.check_worker_errors(obs)
    traces, owners = [], []
    blocked = 0
    for order, evs in zip(orders, obs):
        for e in evs:
            if 'broken' in e:
                ctx.violation('sig-history:attribute-raises:%s' % e['broken'], 'a Signature reported after an edit of the buffer '
                              'raises %s when its params / position / line code are read' % e['broken'],
                              {'order': order, 'versions': [SIG_VERSIONS[i] + SIG_TAIL for i in order]})
        t = [e for e in evs if 'blocked' not in e and 'broken' not in e]
        blocked += sum(1 for e in evs if 'blocked' in e)
        if t:
            traces.append([{k: e[k] for k in ('name', 'line', 'col', 'linecode', 'text')} for e in t])
            owners.append((order, t))
    ctx.coverage['signature_histories'] = len(orders)
    ctx.coverage['signature_history_names'] = sum(len(t) for t in traces)
    ctx.coverage['signature_history_blocked'] = blocked
    if sum(len(t) for t in traces) < 50:
        raise MachineryError('vacuity: only %d signature names observed' % sum(len(t) for t in traces))
    vs = validate_traces('Trace_SigFaithful', 'Trace_SigFaithful.cfg', traces, ctx, 'Trace_SigFaithful')
    for v, (order, t) in zip(vs, owners):
        if not v['accepted']:
            e = t[(v['at'] or 1) - 1]
            ctx.violation('sig-history:%s' % ','.join(v['why'] or ['?']), 'a Signature reported after an edit of the buffer is not '
                          'faithful to the text the Script was built from', {'order': order, 'versions': [SIG_VERSIONS[i] + SIG_TAIL for i in order],
                                                                           'name': jutil.dec(e['name']), 'line': e['line'], 'col': e['col'],
                                                                           'linecode': jutil.dec(e['linecode'])})
    bad = [dict(traces[0][0], linecode=jutil.enc('something else\n'))]
    n0 = ctx.coverage['traces_validated_against_impl']
    bv = validate_traces('Trace_SigFaithful', 'Trace_SigFaithful.cfg', [bad], ctx, 'binding self-test (signature history)')
    ctx.coverage['traces_validated_against_impl'] = n0
    if bv[0]['accepted']:
        raise MachineryError('binding self-test: signature with a foreign line code accepted')


def run(ctx):
    quick = ctx.quick
    # VERIF_C17_REDUCED=1: thorough tier with smaller samples (for busy machines); stated in the evidence
    reduced = bool(os.environ.get('VERIF_C17_REDUCED')) and not quick
    ctx.coverage['reduced_thorough'] = reduced
    if not quick:
        ctx.coverage['thorough_sizing'] = (
            'sized for ~20 min on an idle 16-core machine: exhaustive run on MaxStmts=2, MaxMods 2/1 (second statement '
            'from 5 probe templates); replayed cases are a 1/23 slice of the MaxMods 2/0 space (not of 2/1, and not every '
            'case as DESIGN 5/C17 planned); 64 corpus variants of <=9000 code points with 25 query positions each (not the '
            'whole corpus); 20 generated projects; foreign files >16000 code points skipped; histories: exhaustive on 7 versions x '
            '3 mtimes x 4 events and on 4 versions x 2 mtimes x 6 events, about 1/16 of the complete 4-event histories replayed, '
            '28 random histories of 12 events over the generated project'
            + ('; VERIF_C17_REDUCED=1: exhaustive MaxMods 2/0, slice 1/61, 40 corpus variants, 10 projects' if reduced else ''))
    # case emission for leg 2 runs concurrently with leg 1 (independent TLC processes)
    box = {}

    def emit():
        try:
            if quick:
                mod = 7
                box['res'] = emit_cases(ctx, 'quick', 2, 1, 0, mod, ctx.seed % mod, 8, 900)
            else:
                mod = 61 if reduced else 23
                box['res'] = emit_cases(ctx, 'thorough', 2, 2, 0, mod, ctx.seed % mod, 19, 3000,
                                        second=PROBE_TPLS)
        except BaseException as e:  # noqa
            box['err'] = e

    em = threading.Thread(target=emit)
    em.start()
    # PositionsHist (histories of versions of a project file): exhaustive run, what-if run and case emission, in a
    # thread of their own next to leg 1
    hbox = {}
    hb = (7, 2, 4) if quick else (7, 3, 4)       # NVer, MaxT, MaxEv
    hmod_ = 12 if quick else 8 if reduced else 4      # (of the quarter of the prefixes the emission run explores)

    def hist_tlc():
        try:
            cfg = H.write_cfg(ctx, 'hist_mc.cfg', *hb)
            hbox['mc'] = run_tlc('PositionsHist', cfg, workers=6, timeout=1500)
            cfg = H.write_cfg(ctx, 'hist_whatif.cfg', *hb, fresh=True, invs=['OneVersion'])
            hbox['whatif'] = run_tlc('PositionsHist', cfg, workers=2, timeout=600)
            cfg = H.write_cfg(ctx, 'hist_emit.cfg', *hb, mod=hmod_, rem=ctx.seed % hmod_, invs=[], emit=True)
            hbox['emit'] = run_tlc('PositionsHist', cfg, workers=1, timeout=2400)
            if not quick:
                cfg = H.write_cfg(ctx, 'hist_deep.cfg', 4, 2, 5 if reduced else 6)
                hbox['deep'] = run_tlc('PositionsHist', cfg, workers=8, timeout=2400)
        except BaseException as e:  # noqa
            hbox['err'] = e

    ht = threading.Thread(target=hist_tlc)
    ht.start()
    # ---- 1. Design |= Reference, exhaustive
    stmts, m1, m2 = (2, 1, 0) if quick else (2, 2, 0) if reduced else (2, 2, 1)
    second = ALL_TPLS if quick else PROBE_TPLS
    cfg = write_cfg(ctx, 'mc.cfg', stmts, m1, m2, second=second)
    if os.environ.get('VERIF_C17_DEV_SKIP_MC'):      # development aid for mutation experiments only
        cfg = write_cfg(ctx, 'mc.cfg', 1, 0, 0)
    res = run_tlc('Positions', cfg, workers=16, timeout=1500)
    ctx.add_tlc(res, 'Design|=Reference exhaustive MaxStmts=%d MaxMods=%d/%d NNames=5' % (stmts, m1, m2))
    if res.violated:
        raise MachineryError('Positions.tla: Design violates Reference (%s); replay the counterexample, then model '
                             'the code as it is / record the finding:\n%s' % (res.violated, res.trace[-1:]))
    if res.distinct < (3000 if quick else 60000) and not os.environ.get('VERIF_C17_DEV_SKIP_MC'):
        raise MachineryError('vacuity: only %d states' % res.distinct)
    ctx.coverage['exhaustive'] = True
    ctx.coverage['templates'] = NT

    # ---- 1b. what-if StripDunder = TRUE (the code before 7f3412e): TextAtPos must fail, which shows the
    #          invariant is sensitive; the counterexample must NOT reproduce on the repaired code
    cfg = write_cfg(ctx, 'whatif.cfg', 1, 1, 0, lo=10, hi=10, invs=['TextAtPos'], strip=True)
    rs = run_tlc('Positions', cfg, workers=4, timeout=600)
    ctx.add_tlc(rs, 'what-if StripDunder=TRUE (TextAtPos must be violated)')
    if rs.violated != 'TextAtPos':
        raise MachineryError('what-if StripDunder=TRUE: TLC found no TextAtPos counterexample (%s); the model lost '
                             'its sensitivity to DEV-DunderParam' % rs.violated)
    text = jutil.dec(rs.trace[-1]['vars']['lay']['text'])
    s = jutil.script(text, path='/nonexistent_verif_project/' + BUF)
    bad = []
    st = L.line_starts(text)
    for n in s.get_names(all_scopes=True, definitions=True, references=True):
        off = st[n.line - 1] + n.column
        if text[off:off + len(n.name)] != n.name:
            bad.append((n.name, n.line, n.column, text[off:off + len(n.name) + 2]))
    ctx.coverage['whatif_StripDunder'] = {'violated': rs.violated, 'counterexample': text, 'reproduced_on_code': bad}
    if bad:
        ctx.violation('dunder-param:TextAtPos', 'the counterexample of the old behaviour reproduces on the real code: '
                      'Name.name differs from the text at Name.line/column: %s' % bad, {'source': text, 'bad': bad})

    # ---- 2. spec -> code (the emission JVMs were started before leg 1 and ran alongside it)
    em.join()
    if 'err' in box:
        raise box['err']
    cs, agg, label = box['res']
    ctx.add_tlc(agg, label)
    if len(cs) < (400 if quick else 1200 if reduced else 3000):
        raise MachineryError('too few cases emitted: %d' % len(cs))
    ctx.log('replaying %d TLC cases' % len(cs))
    results = jutil.pmap(replay_case, cs)
    jutil.check_worker_errors(results)
    traces, metas, srcs = [], [], []
    blocked = {}
    for r in results:
        ctx.count('replayed')
        if r['problems']:
            raise MachineryError('spec/CPython/parso disagree on a rendered case %r: %s' % (r['text'], r['problems']))
        for d in r['drift']:
            d['source'] = r['text']
            ctx.drift(d)
        if 'sample' in r:
            ctx.sample(r['sample'])
        traces.append(r['trace'])
        metas.append(r['metas'])
        srcs.append(r['text'])
        for k, v in r['counts'].items():
            ctx.count(k, v)
        for k, v in r['blocked'].items():
            blocked[k] = blocked.get(k, 0) + v

    # ---- 3a. generated project
    ctx.log('generated project scenarios')
    base = ctx.sub('projects')
    pr = jutil.pmap(project_scenario, [(ctx.seed * 1000 + i, base) for i in range(4 if quick else 10 if reduced else 20)], chunksize=1)
    jutil.check_worker_errors(pr)
    for r in pr:
        ctx.count('project_scenarios')
        traces.append(r['trace'])
        metas.append(r['metas'])
        srcs.append({'buffer': r['path'], 'encoding': r['encoding'], 'head': r['head']})
        for k, v in r['counts'].items():
            ctx.count(k, v)
        for k, v in r['blocked'].items():
            blocked[k] = blocked.get(k, 0) + v

    # ---- H. histories of versions of a project file (PositionsHist.tla)
    ht.join()
    if 'err' in hbox:
        raise hbox['err']
    hres = hbox['mc']
    ctx.add_tlc(hres, 'PositionsHist Design|=Reference exhaustive NVer=%d MaxT=%d MaxEv=%d' % hb)
    if hres.violated:
        raise MachineryError('PositionsHist.tla: Design violates Reference (%s); replay the counterexample, then model '
                             'the code as it is / record the finding:\n%s' % (hres.violated, hres.trace[-1:]))
    if hres.distinct < (100000 if quick else 400000):
        raise MachineryError('vacuity: only %d history states' % hres.distinct)
    if 'deep' in hbox:
        ctx.add_tlc(hbox['deep'], 'PositionsHist Design|=Reference exhaustive, longer histories of 4 versions')
        if hbox['deep'].violated:
            raise MachineryError('PositionsHist.tla (deep): Design violates Reference (%s):\n%s'
                                 % (hbox['deep'].violated, hbox['deep'].trace[-1:]))
    hw = hbox['whatif']
    ctx.add_tlc(hw, 'what-if FreshLines=TRUE (OneVersion must be violated)')
    if hw.violated != 'OneVersion':
        raise MachineryError('what-if FreshLines=TRUE: TLC found no OneVersion counterexample (%s); the history model '
                             'lost its sensitivity to a tree and code lines of different versions' % hw.violated)
    main_text, vers = H.versions_of(hbox['emit'])
    hcs = cases(hbox['emit'])
    ctx.add_tlc(hbox['emit'], 'history emission (1/4 of the two-event prefixes; of their completions: slice %d mod %d; '
                'served-from-old-disk-entry mod %d, ending in a buffer mod %d)' % (ctx.seed % hmod_, hmod_, max(1, hmod_ // 8), hmod_ * 8))
    if len(hcs) < (300 if quick else 1000 if reduced else 2000):
        raise MachineryError('too few histories emitted: %d' % len(hcs))
    wv = hw.trace[-1]['vars']
    hcs.append({'hist': wv['hist'], 'reps': wv['reps'], 'whatif': True})     # the what-if counterexample is replayed too
    ctx.log('replaying %d TLC histories' % len(hcs))
    hbase = ctx.sub('histories')
    hr = jutil.pmap(H.replay_history, [(c, hbase, 'h%d' % i, main_text, vers, 'fun') for i, c in enumerate(hcs)])
    jutil.check_worker_errors(hr)
    hsamples = []
    whatif_index = None
    for c, r in zip(hcs, hr):
        ctx.count('histories_replayed')
        if c.get('whatif'):
            whatif_index = len(traces)
        else:
            for d in r['drift']:
                ctx.drift(d)
        if len(hsamples) < 4 and 'cached-buffer' in str(r['sample']['design']):
            hsamples.append(r['sample'])
        traces.append(r['trace'])
        metas.append(r['metas'])
        srcs.append({'history': r['history'], 'main.py': main_text,
                     'hmod.py versions': {i + 1: v for i, v in enumerate(vers)}})
        for k, v in r['counts'].items():
            ctx.count(k, v)
        for k, v in r['blocked'].items():
            blocked[k] = blocked.get(k, 0) + v
    ctx.coverage['history_samples'] = hsamples
    for k, least in (('hist_query_src:cached-buffer', 20), ('hist_query_src:cached-old-disk', 20),
                     ('hist_query_src:fresh', 20), ('hist_query_src:not-loaded', 5), ('hist_buffer_events', 20)):
        if ctx.coverage.get(k, 0) < least:
            raise MachineryError('vacuity: %s = %s in the replayed histories' % (k, ctx.coverage.get(k, 0)))
    if ctx.coverage.get('hist_names_into_hmod', 0) < (1500 if quick else 4000 if reduced else 8000):
        raise MachineryError('vacuity: only %s Names reported into hmod.py' % ctx.coverage.get('hist_names_into_hmod', 0))
    # random histories over the generated project
    ctx.log('random histories over a generated project')
    hp = jutil.pmap(H.history_scenario, [(ctx.seed * 977 + i, hbase, 7 if quick else 12)
                                         for i in range(6 if quick else 14 if reduced else 28)], chunksize=1)
    jutil.check_worker_errors(hp)
    for r in hp:
        ctx.count('history_scenarios')
        ctx.count('history_scenario_versions', r['nversions'])
        traces.append(r['trace'])
        metas.append(r['metas'])
        srcs.append({'buffer': r['path'], 'history': r['history']})
        for k, v in r['counts'].items():
            ctx.count(k, v)
        for k, v in r['blocked'].items():
            blocked[k] = blocked.get(k, 0) + v
    if ctx.coverage.get('hist_names_into_versioned_files', 0) < 100:
        raise MachineryError('vacuity: random histories reported only %s Names into versioned files'
                             % ctx.coverage.get('hist_names_into_versioned_files', 0))

    # ---- 3b. corpus, re-encoded
    ctx.log('corpus driver')
    files = jutil.corpus_files(rng=ctx.rng)
    nvar = 8 if quick else 40 if reduced else 64
    args = [(files[i % len(files)], ctx.seed * 7919 + i, 3000 if quick else 9000, 6 if quick else 25)
            for i in range(nvar)]
    cr = jutil.pmap(corpus_variant, args, chunksize=1)
    jutil.check_worker_errors(cr)
    skipped = {}
    for r in cr:
        if r['skipped']:
            skipped[r['skipped']] = skipped.get(r['skipped'], 0) + 1
            continue
        ctx.count('corpus_variants')
        ctx.count('corpus_chars', r['nchars'])
        traces.append(r['trace'])
        metas.append(r['metas'])
        srcs.append({'corpus_file': r['path'], 'encoding': r['encoding'], 'head': r['head']})
        for k, v in r['counts'].items():
            ctx.count(k, v)
        for k, v in r['blocked'].items():
            blocked[k] = blocked.get(k, 0) + v
    ctx.coverage['corpus_skipped'] = skipped
    ctx.coverage['queries_blocked_by_internal_errors'] = dict(sorted(blocked.items(), key=lambda kv: -kv[1])[:25])
    if ctx.coverage.get('corpus_variants', 0) < (4 if quick else 15 if reduced else 25):
        raise MachineryError('too few corpus variants: %s %s' % (ctx.coverage.get('corpus_variants'), skipped))

    nev = sum(len(t) - 1 for t in traces)
    ctx.count('name_records', nev)
    ctx.log('validating %d traces, %d records' % (len(traces), nev))
    verdicts, rejects = pvalidate(ctx, traces, 'Trace_Positions')
    ctx.count('records_rejected', len(rejects))
    ctx.coverage['whatif_FreshLines'] = {'violated': hw.violated, 'counterexample': srcs[whatif_index]['history'],
                                         'reproduced_on_code': any(r[0] == whatif_index for r in rejects)}
    judge(ctx, rejects, traces, metas, srcs)

    # ---- 4. binding self-test
    bad = []
    for t in traces:
        names = [i for i, e in enumerate(t) if e['ev'] == 'name' and e['ds'] and e['f'] == 1]
        enum = [i for i, e in enumerate(t) if e['ev'] == 'names' and len(e['got']) > 1]
        if names and enum and len(t[0]['files'][0]['vers'][0]['text']) < 3000:
            i = names[0]
            for field, fn in (('col', lambda e: e.__setitem__('col', e['col'] + 1)),
                              ('line', lambda e: e.__setitem__('line', e['line'] + 1)),
                              ('lc', lambda e: e.__setitem__('lc', e['lc'] + [32])),
                              ('de', lambda e: e.__setitem__('de', [[e['line'], e['col']]]))):
                b = [t[0], copy.deepcopy(t[i])]
                fn(b[1])
                bad.append(b)
            b = [t[0], copy.deepcopy(t[enum[0]])]
            b[1]['got'] = b[1]['got'][1:]
            bad.append(b)
            b = [t[0], copy.deepcopy(t[enum[0]])]
            b[1]['got'][0]['isdef'] = not b[1]['got'][0]['isdef']
            bad.append(b)
            b = [copy.deepcopy(t[0])]
            if len(b[0]['files'][0]['vers'][0]['starts']) > 1:
                b[0]['files'][0]['vers'][0]['starts'][1] += 1
                bad.append(b)
            break
    nbase = len(bad)
    bad += hist_selftest_traces(traces, metas)
    if len(bad) < nbase + 3:
        raise MachineryError('binding self-test: no suitable history trace (%d)' % (len(bad) - nbase))
    if not bad:
        raise MachineryError('binding self-test: no suitable trace')
    n0 = ctx.coverage['traces_validated_against_impl']
    vs = validate_traces('Trace_Positions', 'Trace_Positions.cfg', bad, ctx, 'binding self-test')
    ctx.coverage['traces_validated_against_impl'] = n0
    if any(v['accepted'] for v in vs):
        raise MachineryError('binding self-test: corrupted trace accepted %s' % vs)
    ctx.coverage['binding_selftest'] = 'corrupted records rejected: %s' % [v['why'] for v in vs]
    signature_histories(ctx)
    ctx.assumptions += [
        'identifier tokens = NAME tokens of CPython tokenize that are not keywords; binding tokens = ast Store/Del '
        'Name/Attribute, def/class names, args, import aliases, except-as (global/nonlocal declare, do not bind)',
        'for keyword-parameter completions the trailing "=" of Completion.name is a completion symbol, not text',
        'Names without identifier token (module names at (1,0), <lambda>), in compiled/synthetic modules or outside '
        'the project are out of scope',
        'project files are read with newline="" and judged against their on-disk text; files rewritten or held as '
        'unsaved buffer during a history are judged against the versions that existed so far (one of them must fit '
        'entirely), the Script of a buffer against exactly that buffer',
        'file mtimes in histories are set explicitly with os.utime (base 10^9 + t), so the parser cache comparison '
        'mtime <= change_time is deterministic']
    return None
