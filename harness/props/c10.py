"""C10 -- import statements resolve to what Python's import system would load.

spec/Imports.tla: Reference = importlib's rules, Design = transcription of jedi's Importer /
import_module walk / infer_import / transform_path_to_dotted; TLC checks Design |= Reference
over all layouts x sys.path shapes x importers x import forms of the bounded space (modulo the
named deviations, for which TLC also produces witnesses that are replayed on the real code).
spec -> code: emitted cases are materialised on disk, jedi (infer, goto(follow_imports=True)) and
a real CPython subprocess (importlib) answer the same statements; jedi must equal the Design,
CPython must equal the Reference, and the property relation is judged against CPython.
code -> spec: random deeper trees (depth 4, up to 30 nodes) are recorded and judged by
spec/Trace_Imports.tla (RefVsOracle, SameTarget, DottedRoundTrip).
"""
import copy
import os
import shutil

from harness import jutil, c10lib
from harness.core import MachineryError
from harness.tlc import run_tlc, cases, validate_traces

META = dict(
    spec='Imports.tla, Trace_Imports.tla',
    text='TLC checks exhaustively (every tree of <=2/3 nodes of 6 kinds under 2 sys.path roots, 6 sys.path '
         'shapes incl. nested and string-prefix roots, every file as importer, every import form up to level 3) '
         'that the transcription of jedi\'s import machinery resolves each statement to what importlib\'s rules '
         'select, modulo two named deviations for which TLC witnesses are replayed; emitted cases are rendered to '
         'disk and answered by the real jedi (must equal the Design) and by a CPython subprocess (must equal the '
         'Reference; judges the property); random deeper trees are recorded and judged by Trace_Imports.',
    note='Trusts TLC, the renderer/projection of harness/c10lib.py (namespace portions are read through '
         'Name._name.infer()), and CPython 3.12 importlib as oracle. ImportError cases other than '
         'ModuleNotFoundError / cannot-import-name, import-history dependent attribute rebinding and a module '
         'importing its own attribute are left open by the Reference. pkgutil-style namespace packages, stubs, '
         'zip imports, sys.path edits in the source and smart_sys_path are not modelled.',
    technique='TLA+ spec (Design|=Reference) model-checked with TLC; spec->code replay of emitted cases with a '
              'CPython importlib oracle; code->spec trace validation of recorded resolutions',
    design_ref='5/C10')

ALL_KINDS = ['mod', 'pkg', 'pkga', 'ns', 'both', 'modns']
ALL_SHAPES = ['one', 'onep', 'two', 'twop', 'nestafter', 'nestbefore', 'rev']
ATTRS = list(c10lib.ATTR_NAMES)

CFG = '''INIT Init
NEXT Next
CONSTANTS
  Names = {%(names)s}
  AttrNames = {"pka", "pkb", "pkc", "pkd"}
  MaxDepth = %(depth)d
  MaxNodes = %(nodes)d
  Kinds = {%(kinds)s}
  Shapes = {%(shapes)s}
  MaxLevel = %(level)d
  MaxFromPath = %(frompath)d
  EmitMod = %(mod)d
  EmitRem = %(rem)d
%(tail)s
CHECK_DEADLOCK FALSE
'''


def q(xs):
    return ', '.join('"%s"' % x for x in xs)


def write_cfg(ctx, name, names=('pka', 'pkb'), depth=2, nodes=2, kinds=ALL_KINDS, shapes=ALL_SHAPES,
              level=3, frompath=1, mod=1, rem=0, invariants=(), emit=False):
    tail = '\n'.join('INVARIANT %s' % i for i in invariants)
    if emit:
        tail += '\nCONSTRAINT Emit'
    p = os.path.join(ctx.tmp, name)
    with open(p, 'w') as f:
        f.write(CFG % dict(names=q(names), depth=depth, nodes=nodes, kinds=q(kinds), shapes=q(shapes),
                           level=level, frompath=frompath, mod=mod, rem=rem, tail=tail))
    return p


CODES = {'SC': 'SelfCache', 'SD': 'ShortestDotted', 'SC+SD': 'SelfCache+ShortestDotted'}
INVS = ('SameTarget', 'DottedRoundTrip', 'RefTotal')


# ---------------------------------------------------------------- workers
_BASE = None


def _work(arg):
    idx, case = arg
    import jedi
    jedi.settings.cache_directory = os.path.join(_BASE, 'jedi_cache')
    L = os.path.join(_BASE, 'lay%07d' % idx)
    case = dict(case)
    case['attr_names'] = ATTRS
    try:
        r = c10lib.run_case(case, L)
    finally:
        shutil.rmtree(L, True)
    return r


def run_cases(ctx, cs, tag):
    global _BASE
    _BASE = ctx.sub('layouts_' + tag)
    items = list(enumerate(cs))
    # never run jedi in the parent: its helper thread/locks do not survive the fork of later pools
    padded = items + [(1000000 + k, items[-1][1]) for k in range(max(0, 4 - len(items)))]
    out = jutil.pmap(_work, padded, procs=max(2, min(14, len(padded))), chunksize=1)
    jutil.check_worker_errors(out)
    return out[:len(items)]


# ---------------------------------------------------------------- judging
def dev_key(devs, what):
    devs = sorted(devs, key=lambda d: (d.count('+'), d))
    minimal = [d for d in devs if '+' not in d] or devs[:1]
    return 'deviation:%s/%s' % ('|'.join(minimal), what)


def akey(a):
    return tuple(sorted(c10lib.canon(x) for x in a['ok']))


def covers(b, a):
    """oracle answer b is admitted by reference answer a"""
    return a['any'] or (not b['any'] and set(akey(b)) <= set(akey(a)))


def ref_agrees(ref, py):
    return all(any(covers(b, a) for a in ref) for b in py) and \
        all(a['any'] or any(covers(b, a) for b in py if not b['any']) for a in ref)


def describe(case, q=None):
    d = {'nodes': ['%s:%s' % ('/'.join(n['p']), n['k']) for n in case['nodes']],
         'sys_path': ['/'.join(e) for e in case['sp']], 'prefix_roots': case['pmode'],
         'importer': case['imp']}
    if q is not None:
        d['statement'] = c10lib.statement(q['form'] if 'form' in q else q)
    return d


def judge(ctx, cs, outs, events, with_design=True):
    """Compare jedi / Design / Reference / CPython on replayed cases; collect trace events."""
    refbad = []
    for case, r in zip(cs, outs):
        for qq, o in zip(case['qs'], r['obs']):
            form = qq['form'] if 'form' in qq else qq
            ctx.count('queries_replayed', 2)
            py = [a for a in o['py'] if a is not None]
            if with_design and not ref_agrees(qq['ref'], py):
                refbad.append({'case': describe(case, qq), 'reference': qq['ref'], 'cpython': o['py_raw']})
                continue
            crashed = False
            for meth in ('infer', 'goto'):
                rs = o[meth]
                if any(x['t'] == 'crash' for x in rs):
                    crashed = True
                    ctx.violation('crash:%s' % rs[0]['n'], '%s raised on an import statement' % meth,
                                  {'case': describe(case, qq), 'method': meth})
                    continue
                js = set(c10lib.canon(x) for x in rs) or {c10lib.canon(c10lib.NOTHING)}
                # judged with the Reference's answers, which CPython has just confirmed
                ok_real = c10lib.holds(rs, qq['ref'] if with_design else py)
                if with_design:
                    d = c10lib.canon(qq[meth])
                    if js == {d}:
                        if not ok_real:
                            # the modelled deviation reproduces on the real code
                            ctx.violation(dev_key(qq['dev'] or ['unexplained'], form['k']),
                                          'jedi resolves %r to %s, CPython selects %s' % (
                                              o['stmt'], sorted(js), o['py_raw']),
                                          {'case': describe(case, qq), 'method': meth, 'jedi': rs,
                                           'cpython': o['py_raw'], 'design': qq[meth]})
                        continue
                    if ok_real:
                        ctx.drift({'case': describe(case, qq), 'method': meth, 'design': qq[meth], 'jedi': rs,
                                   'cpython': o['py_raw']})
                        continue
                elif ok_real:
                    continue
                if not with_design:
                    continue     # judged by TLC (Trace_Imports) below
                why = ','.join(sorted(set(a['why'] for a in py)))
                ctx.violation('mismatch:%s:%s:%s' % (form['k'], why, ','.join(sorted(x[0] for x in js))),
                              'jedi %s resolves %r to %s, CPython selects %s' % (meth, o['stmt'], sorted(js),
                                                                                 o['py_raw']),
                              {'case': describe(case, qq), 'method': meth, 'jedi': rs, 'cpython': o['py_raw'],
                               'design': qq.get(meth)})
            if not crashed and py:
                events.append(({'nodes': case['nodes'], 'sp': case['sp'], 'pmode': case['pmode'],
                                'ev': 'query', 'imp': case['imp'], 'form': form,
                                'infer': o['infer'], 'goto': o['goto'], 'py': py,
                                'dotted': [], 'back': [], 'importable': False},
                               describe(case, qq)))
        # the dotted name of the importer
        ctx.count('dotted_checked')
        jd = r['dotted']
        importable = r['ids'] != [None]
        back = r['dotted_back']
        back_ok = back is not None and not back['any'] and \
            [c10lib.canon(x) for x in back['ok']] == [('file', tuple(case['imp']['d']), case['imp']['n'],
                                                       case['imp']['init'])]
        named = jd != ['__main__'] and not jd[0].startswith('?')
        broken = importable and named and not back_ok
        if with_design:
            dd = case['dotted'] or ['__main__']
            if jd == dd:
                if broken:
                    ctx.violation(dev_key(['ShortestDotted'], 'roundtrip'),
                                  'dotted name %s derived for %s imports %s' % ('.'.join(jd), r['importer'], back),
                                  {'case': describe(case), 'dotted': jd, 'imports_back': back,
                                   'loadable_as': r['ids']})
            elif broken:
                ctx.violation('dotted:%s' % ('longer' if len(jd) > len(dd) else 'other'),
                              'dotted name %s derived for %s imports %s' % ('.'.join(jd), r['importer'], back),
                              {'case': describe(case), 'dotted': jd, 'design': dd, 'imports_back': back})
            else:
                ctx.drift({'case': describe(case), 'dotted_design': dd, 'dotted_jedi': jd})
        if named or jd == ['__main__']:
            events.append(({'nodes': case['nodes'], 'sp': case['sp'], 'pmode': case['pmode'],
                            'ev': 'dotted', 'imp': case['imp'],
                            'form': {'k': 'imp', 'lvl': 0, 'path': ['pka'], 'name': ''},
                            'infer': [], 'goto': [], 'py': [],
                            'dotted': jd if named else [],
                            'back': back['ok'] if (back is not None and not back['any']) else [],
                            'importable': importable},
                           describe(case)))
    return refbad


# ---------------------------------------------------------------- random deeper trees (code -> spec)
NAMES4 = ['pka', 'pkb', 'pkc', 'pkd']


def random_case(rng, max_nodes=30, max_depth=4):
    nodes = {}
    dirs = [['rta'], ['rtb']]
    target = rng.randint(3, max_nodes)
    tries = 0
    while len(nodes) < target and tries < 300:
        tries += 1
        d = rng.choice(dirs)
        if len(d) - 1 >= max_depth:
            continue
        n = rng.choice(NAMES4[:rng.choice([2, 3, 4])])
        p = tuple(d + [n])
        if p in nodes:
            continue
        k = rng.choice(ALL_KINDS if len(d) - 1 < max_depth - 1 else ['mod', 'mod', 'pkg', 'both'])
        nodes[p] = k
        if c10lib.has_dir(k):
            dirs.append(list(p))
            dirs.append(list(p))     # deeper trees more likely
        # name clashes across roots on purpose: mirror the node (and the directories above it) in the other root --
        # same kind (namespace portions / same-named modules in both roots) or another one
        if rng.random() < 0.4 and p[0] in ('rta', 'rtb'):
            other = 'rtb' if p[0] == 'rta' else 'rta'
            for j in range(2, len(p) + 1):
                q = (other,) + p[1:j]
                if q in nodes and j < len(p) and not c10lib.has_dir(nodes[q]):
                    break                   # something without a directory is already there: nothing can go below it
                if q not in nodes:
                    src_kind = nodes.get((p[0],) + p[1:j], k)
                    nodes[q] = src_kind if rng.random() < 0.7 else rng.choice(ALL_KINDS if j < len(p) else ['mod', 'pkg', 'both', 'ns'])
                    if j < len(p) and not c10lib.has_dir(nodes[q]):
                        nodes[q] = src_kind
                    if c10lib.has_dir(nodes[q]):
                        dirs.append(list(q))
    nodelist = [{'p': list(p), 'k': k} for p, k in nodes.items()]
    subdirs = [list(p) for p, k in nodes.items() if c10lib.has_dir(k) and p[0] == 'rta']
    shape = rng.choice(['one', 'two', 'two', 'rev', 'rev', 'nest', 'nest3'])
    pmode = False
    if shape == 'one':
        sp = [['rta']]
        pmode = rng.random() < 0.5
    elif shape == 'two':
        sp = [['rta'], ['rtb']]
        pmode = rng.random() < 0.3
    elif shape == 'rev':
        sp = [['rtb'], ['rta']]
    elif shape == 'nest' and subdirs:
        sp = [['rta'], rng.choice(subdirs)]
        rng.shuffle(sp)
    elif shape == 'nest3' and subdirs:
        sp = [['rta'], ['rtb'], rng.choice(subdirs)]
        rng.shuffle(sp)
    else:
        sp = [['rta'], ['rtb']]
    files = [{'d': [], 'n': 'zmain', 'init': False}]
    for p, k in nodes.items():
        if c10lib.has_mod(k):
            files.append({'d': list(p[:-1]), 'n': p[-1], 'init': False})
        if c10lib.has_init(k):
            files.append({'d': list(p[:-1]), 'n': p[-1], 'init': True})
    imp = rng.choice(files)
    # forms: biased towards names that exist near the importer
    qs = []
    allpaths = [list(p[1:]) for p in nodes]
    for _ in range(rng.randint(8, 16)):
        k = rng.choice(['imp', 'impas', 'from', 'from', 'from', 'star'])
        if rng.random() < 0.6 and allpaths:
            full = rng.choice(allpaths)
            for e in sp:
                if len(e) > 1 and full[:len(e) - 1] == e[1:] and rng.random() < 0.5:
                    full = full[len(e) - 1:] or full
            full = list(full)
        else:
            full = [rng.choice(NAMES4) for _ in range(rng.randint(1, 3))]
        if k in ('imp', 'impas'):
            qs.append({'k': k, 'lvl': 0, 'path': full, 'name': ''})
            continue
        lvl = rng.choice([0, 0, 1, 1, 2, 3, 4])
        if lvl:
            # relative: path relative to an ancestor package of the importer
            own = imp['d'][1:] + ([imp['n']] if imp['init'] else [])
            if rng.random() < 0.7 and full[:max(0, len(own) - lvl + 1)] == own[:max(0, len(own) - lvl + 1)]:
                full = full[max(0, len(own) - lvl + 1):]
            else:
                full = full[-rng.randint(0, min(2, len(full))):] if rng.random() < 0.8 else []
                if full == allpaths:
                    full = []
        if k == 'star':
            if not full and not lvl:
                full = [rng.choice(NAMES4)]
            qs.append({'k': 'star', 'lvl': lvl, 'path': full, 'name': 'tag'})
        else:
            name = rng.choice(NAMES4 + ['att'])
            if full and rng.random() < 0.5:
                name, full = full[-1], full[:-1]
            if not full and not lvl:
                full = [rng.choice(NAMES4)]
            qs.append({'k': 'from', 'lvl': lvl, 'path': full, 'name': name})
    return {'nodes': nodelist, 'sp': sp, 'pmode': pmode, 'imp': imp, 'qs': qs}


# ---------------------------------------------------------------- main
def run(ctx):
    quick = ctx.quick
    events = []

    # 1. Design |= Reference, exhaustive in the bounded space
    runs = [dict(nodes=2 if quick else 3, depth=2)]
    if not quick:
        runs.append(dict(nodes=3, depth=3, shapes=['one', 'two', 'nestafter', 'nestbefore'],
                         kinds=['mod', 'pkg', 'pkga', 'ns', 'both']))
    total_states = 0
    for i, kw in enumerate(runs):
        cfg = write_cfg(ctx, 'mc%d.cfg' % i, invariants=INVS, **kw)
        res = run_tlc('Imports', cfg, workers=16, timeout=3000)
        ctx.add_tlc(res, 'Design|=Reference exhaustive %s' % kw)
        ctx.log('exhaustive %s: %d states, %.0fs' % (kw, res.distinct, res.wall))
        if res.violated:
            raise MachineryError('Imports.tla: invariant %s violated (a design deviation that is neither '
                                 'repaired in the model nor a named known deviation):\n%s'
                                 % (res.violated, res.trace[-1:]))
        total_states += res.distinct
    if total_states < 5000:
        raise MachineryError('vacuity: only %d states' % total_states)
    ctx.coverage['exhaustive'] = True

    # 2. witnesses of the named deviations (strict invariants), replayed on the real code
    wit = []
    for inv, kw in (('SameTargetWitness', dict(nodes=1, shapes=['one', 'two', 'nestafter', 'nestbefore'])),
                    ('DottedWitness', dict(nodes=3, kinds=['mod', 'ns'], shapes=['nestafter', 'nestbefore']))):
        cfg = write_cfg(ctx, 'wit_%s.cfg' % inv, invariants=(inv,), **kw)
        res = run_tlc('Imports', cfg, workers=1, timeout=3000)
        ctx.add_tlc(res, 'witness of named deviation (%s)' % inv)
        got = cases(res)
        ctx.coverage['witness_' + inv] = bool(res.violated)
        if res.violated and not got:
            raise MachineryError('witness run %s violated but printed no case' % inv)
        wit += got[:1]
    if wit:
        ctx.log('replaying %d deviation witnesses' % len(wit))
        outs = run_cases(ctx, wit, 'wit')
        n0 = len(ctx.known_hits) + len(ctx.violations)
        bad = judge(ctx, wit, outs, events)
        if bad:
            raise MachineryError('Reference disagrees with CPython on a witness: %s' % bad[:1])
        if len(ctx.known_hits) + len(ctx.violations) == n0:
            ctx.notes.append('deviation witnesses did not reproduce on the real code (model drift)')

    # 3. emitted slice -> replay (spec -> code)
    mod = 97 if quick else 151
    emit_kw = dict(nodes=2) if quick else dict(nodes=3)
    cfg = write_cfg(ctx, 'emit.cfg', mod=mod, rem=ctx.seed % mod, emit=True, **emit_kw)
    res = run_tlc('Imports', cfg, workers=1, timeout=3000)
    ctx.add_tlc(res, 'case emission slice %d mod %d %s' % (ctx.seed % mod, mod, emit_kw))
    cs = cases(res)
    # larger layouts by simulation (random walks through the builder actions)
    sim_kw = dict(nodes=4, depth=3, level=3, frompath=1) if quick else \
        dict(nodes=6, depth=3, level=3, frompath=2)
    cfg = write_cfg(ctx, 'sim.cfg', emit=True, **sim_kw)
    nsim = 24 if quick else 250
    res = run_tlc('Imports', cfg, workers=1, timeout=300 if quick else 1200,
                  simulate='num=%d' % nsim, depth=8, seed=ctx.seed + 1)
    ctx.add_tlc(res, 'case emission by simulation %s' % (sim_kw,))
    cs2 = cases(res)[:nsim]
    # simulated cases carry several hundred statements each: replay the failing ones and a sample
    for c in cs2:
        keep = [x for x in c['qs'] if not x['ok']]
        rest = [x for x in c['qs'] if x['ok']]
        ctx.rng.shuffle(rest)
        c['qs'] = keep[:20] + rest[:30]
    ctx.log('emitted %d + %d (simulation) cases' % (len(cs), len(cs2)))
    cs += cs2
    if len(cs) < 60:
        raise MachineryError('too few cases emitted: %d' % len(cs))
    nq = sum(len(c['qs']) for c in cs)
    ctx.log('replaying %d cases / %d import statements (x infer, goto)' % (len(cs), nq))
    outs = run_cases(ctx, cs, 'emit')
    ev_replay = []
    bad = judge(ctx, cs, outs, ev_replay)
    if bad:
        raise MachineryError('Reference (Imports.tla) disagrees with CPython on %d statements, e.g. %s'
                             % (len(bad), bad[:2]))
    ctx.coverage['reference_validated_against_cpython'] = nq
    for case, r in list(zip(cs, outs))[:3]:
        qq, o = case['qs'][len(case['qs']) // 2], r['obs'][len(case['qs']) // 2]
        ctx.sample({'case': describe(case, qq), 'design': {'infer': qq['infer'], 'goto': qq['goto']},
                    'reference': qq['ref'], 'jedi': {'infer': o['infer'], 'goto': o['goto']},
                    'cpython': o['py_raw'], 'dotted_design': case['dotted'], 'dotted_jedi': r['dotted']})
    ctx.rng.shuffle(ev_replay)
    events += ev_replay[:600 if quick else 5000]

    # 4. random deeper trees (code -> spec)
    nrand = 24 if quick else 500
    rcs = [random_case(ctx.rng) for _ in range(nrand)]
    ctx.log('recording %d random deeper trees' % nrand)
    routs = run_cases(ctx, rcs, 'rand')
    ev_rand = []
    judge(ctx, rcs, routs, ev_rand, with_design=False)
    ctx.count('random_tree_statements', sum(len(c['qs']) for c in rcs))
    ctx.coverage['random_tree_max_nodes'] = max(len(c['nodes']) for c in rcs)
    ctx.coverage['random_tree_max_depth'] = max([len(n['p']) - 1 for c in rcs for n in c['nodes']] or [0])
    events += ev_rand

    traces = [[e] for e, _ in events]
    ctx.log('validating %d recorded events' % len(traces))
    verdicts = validate_traces('Trace_Imports', 'Trace_Imports.cfg', traces, ctx, 'Trace_Imports', chunk=3000)
    refbad = []
    for v, (e, desc) in zip(verdicts, events):
        if v['accepted']:
            continue
        why = v['why'] or ['?']
        if 'RO' in why:
            refbad.append((desc, e['py'] or e['importable']))
            continue
        devs = [CODES[w] for w in why if w in CODES]
        clause = 'SameTarget' if 'ST' in why else 'DottedRoundTrip' if 'RT' in why else '?'
        what = e['form']['k'] if e['ev'] == 'query' else 'roundtrip'
        key = dev_key(devs, what) if devs else 'trace:%s:%s' % (clause, what)
        ctx.violation(key, 'recorded %s event rejected by Trace_Imports: %s' % (e['ev'], why),
                      {'case': desc, 'jedi_infer': e['infer'], 'jedi_goto': e['goto'], 'cpython': e['py'],
                       'dotted': e['dotted'], 'imports_back': e['back'], 'why': why})
    if refbad:
        raise MachineryError('Reference disagrees with CPython on %d recorded events, e.g. %s'
                             % (len(refbad), refbad[:2]))

    # binding self-test: corrupted records must be rejected
    base = None
    for (e, _), v in zip(events, verdicts):
        if v['accepted'] and e['ev'] == 'query' and e['infer'] and e['infer'][0]['t'] == 'file' \
                and not any(a['any'] for a in e['py']):
            base = e
            break
    if base is None:
        raise MachineryError('binding self-test: no accepted file-valued query event')
    bad1 = copy.deepcopy(base)
    bad1['infer'][0]['n'] = 'pkd' if bad1['infer'][0]['n'] != 'pkd' else 'pkc'
    bad2 = copy.deepcopy(base)
    for a in bad2['py']:
        a['ok'] = [c10lib.NOTHING]
        a['why'] = 'MNFE'
    bad3 = copy.deepcopy(base)
    bad3['goto'] = []
    n0 = ctx.coverage['traces_validated_against_impl']
    vs = validate_traces('Trace_Imports', 'Trace_Imports.cfg', [[bad1], [bad2], [bad3]], ctx, 'binding self-test')
    ctx.coverage['traces_validated_against_impl'] = n0
    if any(v['accepted'] for v in vs) or 'ST' not in (vs[0]['why'] or []) \
            or 'RO' not in (vs[1]['why'] or []) or 'ST' not in (vs[2]['why'] or []):
        raise MachineryError('binding self-test: corrupted events not rejected as expected: %s' % vs)
    ctx.coverage['binding_selftest'] = 'corrupted records rejected: %s' % [v['why'] for v in vs]

    ctx.assumptions += [
        'the importer runs as the module of a dotted name under which CPython loads that very file, else as a script',
        'ImportError "beyond top-level package" / "no known parent package" leave jedi unconstrained (the property '
        'names ModuleNotFoundError only); "cannot import name" demands nothing',
        'a package attribute re-bound by an already imported sub-module of the same name: both accepted',
        'a module importing its own attribute from itself: left open',
        'namespace portions are compared as sets',
    ]
    return None
